//! Generic behaviour replayer: executes a TLC-generated behaviour (a list of
//! API calls with the specification's expected observation after each call)
//! against the real library and reports every disagreement.
//!
//! Behaviour record:
//! {"id":.., "ctx":"minimal"|"plain", "resources":{name:def}, "calls":[ ... ]}
//! Calls:
//!  {"do":"register","name":..,"def":..}
//!  {"do":"op","def":..,"as":"h","ok":true|false|null}
//!  {"do":"apply","h":"h","dir":"F"|"I","data":[[..]] (omit: carry on),
//!       "expect":{"count":n|null,"data":[[..]]|null,"nan_each":bool}}
//!  {"do":"same","a":[["h","F"],..],"b":[["h2","I"],..],"data":[[..]],"count":bool}
//!  {"do":"steps","h":"h","expect":[..]|null,"len":n|null}
//!  {"do":"set","data":[[..]]}
use crate::util::*;
use geodesy::authoring::*;
use serde_json::{json, Value};
use std::collections::BTreeMap;

pub struct Outcome {
    pub fails: Vec<Value>,
    pub evaluations: usize,
    pub observed: Vec<Value>,
}

fn apply_guarded(ctx: &Ctx, h: OpHandle, dir: &str, data: &mut Vec<Coor4D>) -> Result<Result<usize, String>, String> {
    guarded(|| ctx.get().apply(h, dir_of(dir), data).map_err(|e| format!("{e:?}")))
}

pub fn run_behaviour(b: &Value) -> Outcome {
    let mut out = Outcome { fails: vec![], evaluations: 0, observed: vec![] };
    let mut ctx = Ctx::new(b["ctx"].as_str().unwrap_or("minimal"));
    if let Some(res) = b["resources"].as_object() {
        for (k, v) in res {
            ctx.get_mut().register_resource(k, v.as_str().unwrap_or(""));
        }
    }
    let mut handles: BTreeMap<String, Option<OpHandle>> = BTreeMap::new();
    let mut data: Vec<Coor4D> = data_from(&b["data"]);
    let empty = vec![];
    for (ci, call) in b["calls"].as_array().unwrap_or(&empty).iter().enumerate() {
        let what = call["do"].as_str().unwrap_or("");
        match what {
            "register" => {
                ctx.get_mut().register_resource(
                    call["name"].as_str().unwrap_or(""),
                    call["def"].as_str().unwrap_or(""),
                );
            }
            "set" => {
                data = data_from(&call["data"]);
            }
            "op" => {
                let def = call["def"].as_str().unwrap_or("");
                let name = call["as"].as_str().unwrap_or("h").to_string();
                out.evaluations += 1;
                let r = guarded(|| ctx.get_mut().op(def).map_err(|e| format!("{e:?}")));
                match r {
                    Err(p) => {
                        out.fails.push(json!({"call":ci,"what":"panic","api":"op","def":def,"msg":p}));
                        handles.insert(name, None);
                    }
                    Ok(Ok(h)) => {
                        if call["ok"].as_bool() == Some(false) {
                            out.fails.push(json!({"call":ci,"what":"op_should_fail","def":def}));
                        }
                        out.observed.push(json!({"call":ci,"op":"ok"}));
                        handles.insert(name, Some(h));
                    }
                    Ok(Err(e)) => {
                        if call["ok"].as_bool() == Some(true) {
                            out.fails.push(json!({"call":ci,"what":"op_should_succeed","def":def,"err":e}));
                        }
                        out.observed.push(json!({"call":ci,"op":"err","err":e}));
                        handles.insert(name, None);
                    }
                }
            }
            "apply" => {
                let hn = call["h"].as_str().unwrap_or("h");
                let Some(Some(h)) = handles.get(hn) else { continue };
                if !call["data"].is_null() {
                    data = data_from(&call["data"]);
                }
                let dir = call["dir"].as_str().unwrap_or("F");
                let before = data.clone();
                out.evaluations += 1;
                let want_plan = call["expect"]["plan"].is_array();
                if want_plan {
                    geodesy::verif::drain();
                    geodesy::verif::enable(true);
                }
                let applied = apply_guarded(&ctx, *h, dir, &mut data);
                if want_plan {
                    geodesy::verif::enable(false);
                    // the elementary operators actually dispatched, with their effective direction
                    let mut seen: Vec<Value> = vec![];
                    for e in geodesy::verif::drain() {
                        if e.kind != "dispatch" {
                            continue;
                        }
                        let get = |k: &str| e.fields.iter().find(|f| f.0 == k).map(|f| f.1.clone()).unwrap_or_default();
                        if get("name") == "pipeline" {
                            continue;
                        }
                        let fwd = (get("req") == "F") != (get("inverted") == "true");
                        seen.push(json!([get("name"), if fwd { "F" } else { "I" }]));
                    }
                    let want: Vec<Value> = call["expect"]["plan"].as_array().unwrap().iter()
                        .map(|p| json!([p["def"].as_str().unwrap_or("").split_whitespace().next().unwrap_or(""), p["dir"]])).collect();
                    if seen != want {
                        out.fails.push(json!({"call":ci,"what":"plan","dir":dir,"expected":want,"observed":seen}));
                    }
                }
                match applied {
                    Err(p) => out.fails.push(json!({"call":ci,"what":"panic","api":"apply","dir":dir,"msg":p})),
                    Ok(Err(e)) => out.fails.push(json!({"call":ci,"what":"apply_error","err":e})),
                    Ok(Ok(n)) => {
                        out.observed.push(json!({"call":ci,"count":n,"data":data_to_val(&data)}));
                        let ex = &call["expect"];
                        if let Some(c) = ex["count"].as_u64() {
                            if c as usize != n {
                                out.fails.push(json!({"call":ci,"what":"count","dir":dir,"expected":c,"observed":n,
                                    "input":data_to_val(&before),"output":data_to_val(&data)}));
                            }
                        }
                        if ex["data"].is_array() {
                            let want = data_from(&ex["data"]);
                            let same = want.len() == data.len()
                                && want.iter().zip(data.iter()).all(|(w, d)| (0..4).all(|i| model_eq(w[i], d[i])));
                            if !same {
                                out.fails.push(json!({"call":ci,"what":"data","dir":dir,"expected":ex["data"],
                                    "observed":data_to_val(&data),"input":data_to_val(&before)}));
                            }
                        }
                        if ex["nan_each"].as_bool() == Some(true) {
                            let all = data.iter().all(|t| t.0.iter().any(|x| x.is_nan()));
                            if !all {
                                out.fails.push(json!({"call":ci,"what":"nan_each","dir":dir,
                                    "observed":data_to_val(&data),"input":data_to_val(&before)}));
                            }
                        }
                        // what holds for every application (C10): no more successes than tuples,
                        // and every tuple that is not counted carries NaN
                        if ex["honest"].as_bool() == Some(true) {
                            let with_nan = data.iter().filter(|t| t.0.iter().any(|x| x.is_nan())).count();
                            if n > data.len() || data.len() - n > with_nan {
                                out.fails.push(json!({"call":ci,"what":"dishonest_count","dir":dir,"count":n,"tuples":data.len(),
                                    "tuples_with_nan":with_nan,"observed":data_to_val(&data),"input":data_to_val(&before)}));
                            }
                        }
                        if ex["unchanged"].as_bool() == Some(true) && !data_bits_eq(&before, &data) {
                            out.fails.push(json!({"call":ci,"what":"unchanged","dir":dir,
                                "observed":data_to_val(&data),"input":data_to_val(&before)}));
                        }
                    }
                }
            }
            "same" => {
                // two routes through the public API must agree bit for bit
                let input = if call["data"].is_null() { data.clone() } else { data_from(&call["data"]) };
                let mut results = vec![];
                for side in ["a", "b"] {
                    let mut d = input.clone();
                    let mut cmin = usize::MAX;
                    let mut okay = true;
                    for st in call[side].as_array().unwrap_or(&empty) {
                        let hn = st[0].as_str().unwrap_or("");
                        let dir = st[1].as_str().unwrap_or("F");
                        let Some(Some(h)) = handles.get(hn) else { okay = false; break };
                        out.evaluations += 1;
                        match apply_guarded(&ctx, *h, dir, &mut d) {
                            Ok(Ok(n)) => cmin = cmin.min(n),
                            Ok(Err(e)) => { out.fails.push(json!({"call":ci,"what":"apply_error","err":e})); okay = false; break }
                            Err(p) => { out.fails.push(json!({"call":ci,"what":"panic","api":"apply","msg":p})); okay = false; break }
                        }
                    }
                    if cmin == usize::MAX { cmin = input.len(); }
                    results.push((okay, d, cmin));
                }
                out.observed.push(json!({"call":ci,"same_a":hexdata(&results[0].1),"same_a_count":results[0].2,
                    "same_b":hexdata(&results[1].1),"same_b_count":results[1].2}));
                if results[0].0 && results[1].0 {
                    if !data_bits_eq(&results[0].1, &results[1].1) {
                        out.fails.push(json!({"call":ci,"what":"same_data","a":call["a"],"b":call["b"],
                            "input":hexdata(&input),"a_out":hexdata(&results[0].1),"b_out":hexdata(&results[1].1)}));
                    }
                    if call["count"].as_bool() != Some(false) && results[0].2 != results[1].2 {
                        out.fails.push(json!({"call":ci,"what":"same_count","a":call["a"],"b":call["b"],
                            "a_count":results[0].2,"b_count":results[1].2}));
                    }
                }
            }
            "steps" => {
                let hn = call["h"].as_str().unwrap_or("h");
                let Some(Some(h)) = handles.get(hn) else { continue };
                out.evaluations += 1;
                match guarded(|| ctx.get().steps(*h).map(|s| s.clone()).map_err(|e| format!("{e:?}"))) {
                    Err(p) => out.fails.push(json!({"call":ci,"what":"panic","api":"steps","msg":p})),
                    Ok(Err(e)) => out.fails.push(json!({"call":ci,"what":"steps_error","err":e})),
                    Ok(Ok(s)) => {
                        if let Some(want) = call["expect"].as_array() {
                            let w: Vec<String> = want.iter().map(|x| x.as_str().unwrap_or("").to_string()).collect();
                            if w != s {
                                out.fails.push(json!({"call":ci,"what":"steps","expected":w,"observed":s}));
                            }
                        }
                        if let Some(l) = call["len"].as_u64() {
                            if l as usize != s.len() {
                                out.fails.push(json!({"call":ci,"what":"steps_len","expected":l,"observed":s}));
                            }
                        }
                        out.observed.push(json!({"call":ci,"steps":s}));
                    }
                }
            }
            _ => {}
        }
    }
    out
}

/// gvh record steps <behaviours.ndjson> <trace.ndjson>: for every behaviour {ast, def, resources,
/// data, ok} instantiate the definition and apply it in both directions with the hooks on; the
/// trace (start / step* / ret per application) is validated by spec/Trace_Pipeline.tla
pub fn record_steps(input: &str, output: &str) -> i32 {
    use std::io::{BufRead, Write};
    quiet_panics();
    let f = std::fs::File::open(input).expect("cannot open behaviours");
    let mut w = std::io::BufWriter::new(std::fs::File::create(output).expect("cannot create output"));
    let (mut apps, mut events) = (0usize, 0usize);
    for line in std::io::BufReader::new(f).lines() {
        let line = line.unwrap();
        if line.trim().is_empty() {
            continue;
        }
        let b: Value = serde_json::from_str(&line).expect("bad behaviour json");
        if b["ok"] != true {
            continue;
        }
        let mut ctx = Ctx::new("minimal");
        if let Some(res) = b["resources"].as_object() {
            for (k, v) in res {
                ctx.get_mut().register_resource(k, v.as_str().unwrap_or(""));
            }
        }
        let def = b["def"].as_str().unwrap_or("");
        let Ok(Ok(h)) = guarded(|| ctx.get_mut().op(def)) else {
            writeln!(w, "{}", json!({"ev":"opfail","def":def})).unwrap();
            continue;
        };
        for dir in ["F", "I"] {
            let mut data = data_from(&b["data"]);
            geodesy::verif::drain();
            geodesy::verif::enable(true);
            let r = apply_guarded(&ctx, h, dir, &mut data);
            geodesy::verif::enable(false);
            let evs = geodesy::verif::drain();
            writeln!(w, "{}", json!({"ev":"start","prog":b["ast"],"dir":dir,"def":def})).unwrap();
            for e in evs {
                if e.kind != "step" {
                    continue;
                }
                let get = |k: &str| e.fields.iter().find(|f| f.0 == k).map(|f| f.1.clone()).unwrap_or_default();
                writeln!(w, "{}", json!({"ev":"step","name":get("name"),"skipped":get("skipped") == "true",
                    "count":get("count").parse::<i64>().unwrap_or(-1),"depth":get("depth").parse::<i64>().unwrap_or(-1)})).unwrap();
                events += 1;
            }
            match r {
                Ok(Ok(n)) => {
                    // on the wire to TLC a NaN is the integer -2147483647 (TLC cannot compare integers with strings)
                    let wire: Vec<Vec<i64>> = data.iter().map(|t| t.0.iter().map(|x| {
                        if x.is_nan() { -2147483647 } else { (x * UNIT) as i64 }
                    }).collect()).collect();
                    writeln!(w, "{}", json!({"ev":"ret","count":n,"data":wire})).unwrap()
                }
                other => writeln!(w, "{}", json!({"ev":"panic","msg":format!("{other:?}")})).unwrap(),
            }
            apps += 1;
            events += 2;
        }
    }
    println!("{}", json!({"summary":true,"applications":apps,"events":events}));
    0
}

/// gvh replay twin <in.ndjson> <out.ndjson>: every behaviour is executed in a Minimal and in a
/// Plain context; the two observation sequences (ok/err of op, counts, result bits, steps) must be identical
pub fn replay_twin(input: &str, output: &str) -> i32 {
    use std::io::{BufRead, Write};
    quiet_panics();
    let f = std::fs::File::open(input).expect("cannot open behaviours");
    let mut w = std::io::BufWriter::new(std::fs::File::create(output).expect("cannot create output"));
    let (mut total, mut bad, mut evals) = (0usize, 0usize, 0usize);
    for line in std::io::BufReader::new(f).lines() {
        let line = line.unwrap();
        if line.trim().is_empty() {
            continue;
        }
        let mut b: Value = serde_json::from_str(&line).expect("bad behaviour json");
        b["ctx"] = json!("minimal");
        let m = run_behaviour(&b);
        b["ctx"] = json!("plain");
        let p = run_behaviour(&b);
        total += 1;
        evals += m.evaluations + p.evaluations;
        // error texts may name the provider; everything else must coincide
        let strip = |o: &Vec<Value>| -> Vec<Value> {
            o.iter().map(|x| { let mut y = x.clone(); if let Some(m) = y.as_object_mut() { m.remove("err"); } y }).collect()
        };
        let (mo, po) = (strip(&m.observed), strip(&p.observed));
        if mo != po {
            bad += 1;
            let k = mo.iter().zip(po.iter()).position(|(a, b)| a != b).unwrap_or(mo.len().min(po.len()));
            writeln!(w, "{}", json!({"id": b["id"], "behaviour": b, "fails": [{"what":"minimal_vs_plain","index":k,
                "minimal": mo.get(k), "plain": po.get(k)}]})).unwrap();
        }
    }
    writeln!(w, "{}", json!({"summary": true, "behaviours": total, "mismatching": bad, "evaluations": evals})).unwrap();
    println!("twin-replayed {total} behaviours, {bad} differing, {evals} evaluations");
    if bad > 0 { 1 } else { 0 }
}

/// gvh replay script <in.ndjson> <out.ndjson>
pub fn replay(input: &str, output: &str) -> i32 {
    use std::io::{BufRead, Write};
    quiet_panics();
    let f = std::fs::File::open(input).expect("cannot open behaviours");
    let mut w = std::io::BufWriter::new(std::fs::File::create(output).expect("cannot create output"));
    let mut total = 0usize;
    let mut bad = 0usize;
    let mut evals = 0usize;
    // crash/hang attribution: the id of the behaviour being executed is written
    // (and flushed) to $GVH_PROGRESS before it starts
    let progress = std::env::var("GVH_PROGRESS").ok();
    for line in std::io::BufReader::new(f).lines() {
        let line = line.unwrap();
        if line.trim().is_empty() {
            continue;
        }
        let b: Value = serde_json::from_str(&line).expect("bad behaviour json");
        if let Some(p) = &progress {
            let _ = std::fs::write(p, b["id"].to_string());
        }
        let o = run_behaviour(&b);
        total += 1;
        evals += o.evaluations;
        if !o.fails.is_empty() {
            bad += 1;
            writeln!(w, "{}", json!({"id": b["id"], "behaviour": b, "fails": o.fails})).unwrap();
        }
    }
    writeln!(w, "{}", json!({"summary": true, "behaviours": total, "mismatching": bad, "evaluations": evals})).unwrap();
    println!("replayed {total} behaviours, {bad} mismatching, {evals} evaluations");
    if bad > 0 { 1 } else { 0 }
}
