//! gvh_geom — C05: each map projection has the geometry that defines it.
//!
//! spec/Geometry.tla (MC_C05*) states, per projection family, its geometric
//! character, its lines / points of true scale, its origin conventions, its
//! domain and the parameterisations to cover, and TLC enumerates every
//! obligation (family x parameterisation x ellipsoid x lattice point x kind).
//! This binary evaluates each obligation on the real operators, through
//! `Context::apply(Fwd)` only.
//!
//! usage: gvh_geom replay <in.ndjson> <out.ndjson> [seed]
//!        gvh_geom eval "<definition>" <lon deg> <lat deg>       (minimal reproductions)
//!        gvh_geom selftest                                       (the measuring instrument itself)
//!
//! One input line = one configuration
//!  {"fam","def","shape","ellps","chr","k0","x0","y0","lat0","polesing","partner","tol":{..},"obs":[[kind,lon,lat,arg],..]}
//! or one shape with the ellipsoids it is enumerated on: "ells":[[ellps, partner],..] instead of "def","ellps","partner"
//! (def = shape + " ellps=" + ellps)
//!  lon/lat: decimal degrees as text; k0/x0/y0/lat0: decimal text ("" = not applicable)
//!  kinds:  conf   conformal at the point: h = k, meridian _|_ parallel, orientation preserved
//!          confr  the same at a seeded random point of the 1 x 1 degree cell whose south-west corner is given
//!          area   equal-area at the point: determinant of the normalised Jacobian = 1      (arear: random point of the cell)
//!          scale  the (common) scale factor at the point is arg: "k0" (the configuration's k_0) or "one"
//!          origin the point maps to the false origin (x0, y0)
//!          arc    (central meridian) easting = x0, northing = y0 + k0 * (meridian arc from lat0 to the point)
//!          sph    (webmerc) the image is the spherical Mercator of radius a: closed form, and `partner` (merc on that sphere) if given
//!          fac    the library's Jacobian::new(..).factors() h, k, s agree with the finite-difference quantities
//!
//! THE MEASURING INSTRUMENT.  The Jacobian of the forward map at (lon, lat) is taken by 4th-order
//! central differences  f' ~ (-f(+2h) + 8 f(+h) - 8 f(-h) + f(-2h)) / 12h  in f64, separately in
//! longitude and latitude, and normalised by the parallel radius N cos(lat) and the meridian
//! radius M, both computed here from (a, f):  N = a / sqrt(1 - e2 sin^2), M = a (1 - e2) / (1 - e2 sin^2)^1.5.
//! Steps:   h_lat = min(1e-4, 0.003 * colatitude)        where the pole is a singular point of the map (merc, webmerc, lcc:
//!                                                        `polesing`, declared by the specification), else min(1e-4, 0.2 * colatitude)
//!          h_lon = clamp(1e-4 / cos(lat), 1e-4, 2e-3)   (a constant ~640 m on the ground, capped at 0.11 degrees)
//! Error budget (relative error of one normalised derivative):
//!   truncation  ~ (4/5) (h / L)^4, L = distance (radians) to the nearest singularity of the map in that
//!               direction: L_lat >= colatitude => <= 7e-11 (x n(n+1)..(n+4)/24 <= 5 for the power law of lcc);
//!               L_lon >= 0.3 (tmerc at 60 degrees from the central meridian, laea 30 degrees from the
//!               antipode, lcc 1/n) => <= 2e-9 at the cap (reached only above 87 degrees), 1e-14 elsewhere
//!   rounding    ~ 1.5 ulp(|X|) / (h D), |X| the magnitude of the projected coordinate (<= 2e7 m with false
//!               origins), D = a k cos(lat) resp. a k the derivative: <= 1e-10 for a >= 6.3e6 m
//!   the operator's own rounding is amplified by 1/h as well: laea's polar aspects compute rho = a sqrt(qp - q) with
//!               cancellation near their pole, and qs() itself loses digits in proportion to 1/e on nearly spherical
//!               ellipsoids (asin near +-1 amplifies that by 1/cos(lat)): ~1e-7 in the areal scale at 0.2 degrees from a
//!               pole for rf = 1e5: the equal-area class is 1e-5
//! so the instrument is good to a few 1e-9; the conformal tolerances of spec/Geometry.tla are 1e-7.
//! The meridian arc is a 16-point Gauss-Legendre quadrature of M over 8 panels (nodes by Newton iteration on
//! the Legendre polynomial), cross-checked in `selftest` against composite Simpson.
use geodesy::authoring::*;
use gvh::util::*;
use serde_json::{json, Value};
use std::collections::BTreeMap;
use std::io::{BufRead, Write};

const A_REF: f64 = 6378137.0;

// ---- the ellipsoid, from (a, f) only ---------------------------------------------------

#[derive(Clone, Copy, Debug)]
struct Ell {
    a: f64,
    f: f64,
    es: f64,
}

impl Ell {
    fn new(a: f64, f: f64) -> Ell {
        Ell { a, f, es: f * (2.0 - f) }
    }
    /// meridian radius of curvature
    fn m(&self, lat: f64) -> f64 {
        let s = lat.sin();
        let t = 1.0 - self.es * s * s;
        self.a * (1.0 - self.es) / (t * t.sqrt())
    }
    /// prime vertical radius of curvature
    fn n(&self, lat: f64) -> f64 {
        let s = lat.sin();
        self.a / (1.0 - self.es * s * s).sqrt()
    }
    /// meridian arc from lat1 to lat2 (Gauss-Legendre, 8 panels of 16 points)
    fn arc(&self, lat1: f64, lat2: f64, gl: &[(f64, f64)]) -> f64 {
        let panels = 8;
        let w = (lat2 - lat1) / panels as f64;
        let mut sum = 0.0;
        for p in 0..panels {
            let lo = lat1 + w * p as f64;
            let (c, r) = (lo + w / 2.0, w / 2.0);
            let mut s = 0.0;
            for (x, wt) in gl {
                s += wt * self.m(c + r * x);
            }
            sum += s * r;
        }
        sum
    }
    /// the same by composite Simpson (cross-check of the instrument)
    fn arc_simpson(&self, lat1: f64, lat2: f64) -> f64 {
        let n = 1 << 12;
        let h = (lat2 - lat1) / n as f64;
        let mut s = self.m(lat1) + self.m(lat2);
        for i in 1..n {
            s += self.m(lat1 + h * i as f64) * if i % 2 == 1 { 4.0 } else { 2.0 };
        }
        s * h / 3.0
    }
}

/// nodes and weights of the n-point Gauss-Legendre rule on [-1, 1]
fn gauss_legendre(n: usize) -> Vec<(f64, f64)> {
    let mut out = vec![];
    for i in 0..n {
        let mut x = (std::f64::consts::PI * (i as f64 + 0.75) / (n as f64 + 0.5)).cos();
        let mut dp = 1.0;
        for _ in 0..100 {
            let (mut p0, mut p1) = (1.0, x);
            for k in 2..=n {
                let pk = ((2 * k - 1) as f64 * x * p1 - (k - 1) as f64 * p0) / k as f64;
                p0 = p1;
                p1 = pk;
            }
            dp = n as f64 * (x * p1 - p0) / (x * x - 1.0);
            let dx = p1 / dp;
            x -= dx;
            if dx.abs() < 1e-16 {
                break;
            }
        }
        out.push((x, 2.0 / ((1.0 - x * x) * dp * dp)));
    }
    out
}

/// (a, f) of an ellipsoid given by name or as "a,rf".  For a built-in name the two constants are read
/// from the library's table (data, not behaviour); everything else is computed here.
fn ell_of(name: &str) -> Result<Ell, String> {
    if let Some((a, rf)) = name.split_once(',') {
        let a: f64 = a.trim().parse().map_err(|_| "bad semimajor axis".to_string())?;
        let rf: f64 = rf.trim().parse().map_err(|_| "bad reciprocal flattening".to_string())?;
        return Ok(Ell::new(a, 1.0 / rf));
    }
    match guarded(|| Ellipsoid::named(name)) {
        Ok(Ok(e)) => Ok(Ell::new(e.semimajor_axis(), e.flattening())),
        Ok(Err(e)) => Err(format!("rejected: {e:?}")),
        Err(p) => Err(format!("panic: {p}")),
    }
}

// ---- the Jacobian by finite differences -------------------------------------------------

fn steps(lat: f64, polesing: bool) -> (f64, f64) {
    let colat = std::f64::consts::FRAC_PI_2 - lat.abs();
    // where the pole is a singular point of the map (merc, webmerc, lcc) the step shrinks with the distance to it;
    // elsewhere it only has to keep the stencil on this side of the pole
    let h_lat = if polesing { (0.003 * colat).min(1e-4) } else { (0.2 * colat).min(1e-4) };
    let h_lon = (1e-4 / lat.cos().max(1e-9)).clamp(1e-4, 2e-3);
    (h_lon, h_lat)
}

/// the nine points of the stencil: centre, lon -2h -h +h +2h, lat -2h -h +h +2h
fn stencil(lon: f64, lat: f64, polesing: bool) -> Vec<Coor4D> {
    let (hl, hp) = steps(lat, polesing);
    let mut v = vec![Coor4D([lon, lat, 0.0, 0.0])];
    for m in [-2.0, -1.0, 1.0, 2.0] {
        v.push(Coor4D([lon + m * hl, lat, 0.0, 0.0]));
    }
    for m in [-2.0, -1.0, 1.0, 2.0] {
        v.push(Coor4D([lon, lat + m * hp, 0.0, 0.0]));
    }
    v
}

#[derive(Debug, Clone, Copy)]
struct Jac {
    /// meridional scale h, parallel scale k, cosine of the angle between the images of meridian and parallel,
    /// determinant of the normalised Jacobian (areal scale, positive when orientation is preserved)
    h: f64,
    k: f64,
    cos: f64,
    det: f64,
    /// the rounding part of the error budget for this stencil (relative)
    round: f64,
    x: f64,
    y: f64,
}

fn d4(f: &[f64; 4], h: f64) -> f64 {
    (-f[3] + 8.0 * f[2] - 8.0 * f[1] + f[0]) / (12.0 * h)
}

/// `img`: images of the nine stencil points
fn jacobian(ell: &Ell, lat: f64, polesing: bool, img: &[Coor4D]) -> Option<Jac> {
    if img.iter().take(9).any(|p| !p[0].is_finite() || !p[1].is_finite()) {
        return None;
    }
    let (hl, hp) = steps(lat, polesing);
    let col = |o: usize, c: usize| [img[o][c], img[o + 1][c], img[o + 2][c], img[o + 3][c]];
    let (x_l, y_l) = (d4(&col(1, 0), hl), d4(&col(1, 1), hl));
    let (x_p, y_p) = (d4(&col(5, 0), hp), d4(&col(5, 1), hp));
    let pr = ell.n(lat) * lat.cos();
    let mr = ell.m(lat);
    let (xl, yl, xp, yp) = (x_l / pr, y_l / pr, x_p / mr, y_p / mr);
    let h = xp.hypot(yp);
    let k = xl.hypot(yl);
    let mag = img.iter().take(9).map(|p| p[0].abs().max(p[1].abs())).fold(0.0, f64::max);
    let ulp = f64::EPSILON * mag;
    let round = 1.5 * ulp / (hl * pr * k).min(hp * mr * h);
    Some(Jac { h, k, cos: (xl * xp + yl * yp) / (h * k), det: xl * yp - xp * yl, round, x: img[0][0], y: img[0][1] })
}

// ---- seeded random point of a cell ----------------------------------------------------------

fn mix(mut z: u64) -> u64 {
    z = z.wrapping_add(0x9e3779b97f4a7c15);
    z = (z ^ (z >> 30)).wrapping_mul(0xbf58476d1ce4e5b9);
    z = (z ^ (z >> 27)).wrapping_mul(0x94d049bb133111eb);
    z ^ (z >> 31)
}

fn unit_pair(seed: u64, key: &str) -> (f64, f64) {
    let mut hsh: u64 = 0xcbf29ce484222325 ^ mix(seed);
    for b in key.bytes() {
        hsh = (hsh ^ b as u64).wrapping_mul(0x100000001b3);
    }
    let (u, v) = (mix(hsh), mix(mix(hsh)));
    let f = |z: u64| ((z >> 11) as f64 + 0.5) / (1u64 << 53) as f64;
    (f(u), f(v))
}

// ---- one configuration ------------------------------------------------------------------------

fn num(v: &Value, k: &str) -> Option<f64> {
    match &v[k] {
        Value::String(s) if !s.is_empty() => s.parse::<f64>().ok(),
        Value::Number(n) => n.as_f64(),
        _ => None,
    }
}

struct Task {
    kind: String,
    arg: String,
    /// degrees, as evaluated (a random point for the cell kinds)
    lon_deg: f64,
    lat_deg: f64,
    /// where its points start in the batch, and how many
    at: usize,
    n: usize,
    cell: Option<(String, String)>,
}

#[derive(Default)]
struct Group {
    fails: usize,
    max: f64,
    worst: Value,
    ellps: std::collections::BTreeSet<String>,
    lines: usize,
}

#[derive(Default)]
struct Worst {
    value: f64,
    n: usize,
    at: Value,
}

struct Out {
    w: std::io::BufWriter<std::fs::File>,
    groups: BTreeMap<(String, String, String, String), Group>,
    /// measured worst case of every metric on the obligations that hold, per (family, metric)
    worst: BTreeMap<(String, String), Worst>,
    /// the instrument's rounding budget, worst per family
    round: BTreeMap<String, f64>,
    per_fam: BTreeMap<String, (usize, usize, usize)>, // obligations, failing, configurations
    per_kind: BTreeMap<String, usize>,
    total: usize,
    failing: usize,
    evals: usize,
    not_compared: BTreeMap<String, usize>,
}

impl Out {
    fn fail(&mut self, v: &Value, kind: &str, what: &str, value: f64, tol: f64, detail: Value) {
        let g = |k: &str| v[k].as_str().unwrap_or("").to_string();
        let (fam, shape, ellps, def) = (g("fam"), g("shape"), g("ellps"), g("def"));
        self.failing += 1;
        self.per_fam.entry(fam.clone()).or_default().1 += 1;
        let gr = self.groups.entry((fam.clone(), shape.clone(), kind.to_string(), what.to_string())).or_default();
        gr.fails += 1;
        gr.ellps.insert(ellps.clone());
        let line = json!({"fam":fam,"def":def,"shape":shape,"ellps":ellps,"kind":kind,"what":what,
            "value":if value.is_finite() { json!(value) } else { json!(format!("{value}")) },"tol":tol,"detail":detail});
        if gr.worst.is_null() || (value.is_finite() && value > gr.max) {
            if value.is_finite() {
                gr.max = gr.max.max(value);
            }
            gr.worst = line.clone();
        }
        if gr.lines < 12 {
            gr.lines += 1;
            writeln!(self.w, "{}", line).unwrap();
        }
    }
    fn measure(&mut self, fam: &str, metric: &str, value: f64, at: impl FnOnce() -> Value) {
        let e = self.worst.entry((fam.to_string(), metric.to_string())).or_default();
        e.n += 1;
        if value > e.value || e.at.is_null() {
            e.value = value;
            e.at = at();
        }
    }
}

fn apply_guarded(ctx: &Minimal, h: OpHandle, data: &mut Vec<Coor4D>) -> Result<usize, String> {
    match guarded(|| ctx.apply(h, Fwd, data)) {
        Ok(Ok(n)) => Ok(n),
        Ok(Err(e)) => Err(format!("error: {e:?}")),
        Err(p) => Err(format!("panic: {p}")),
    }
}

fn op_guarded(ctx: &mut Minimal, def: &str) -> Result<OpHandle, String> {
    match guarded(|| ctx.op(def)) {
        Ok(Ok(h)) => Ok(h),
        Ok(Err(e)) => Err(format!("rejected: {e:?}")),
        Err(p) => Err(format!("panic: {p}")),
    }
}

fn ulp_of(x: f64) -> f64 {
    f64::EPSILON * x.abs().max(f64::MIN_POSITIVE)
}

fn configuration(v: &Value, seed: u64, gl: &[(f64, f64)], o: &mut Out) {
    let g = |k: &str| v[k].as_str().unwrap_or("").to_string();
    let (fam, def, ellps, chr, partner) = (g("fam"), g("def"), g("ellps"), g("chr"), g("partner"));
    let obs = v["obs"].as_array().cloned().unwrap_or_default();
    let nobs = obs.len();
    let polesing = v["polesing"].as_bool().unwrap_or(true);
    o.total += nobs;
    {
        let e = o.per_fam.entry(fam.clone()).or_default();
        e.0 += nobs;
        e.2 += 1;
    }
    let tol = |k: &str| v["tol"][k].as_f64().unwrap_or(f64::NAN);
    let whole = |o: &mut Out, what: &str, msg: String| {
        o.fail(v, "-", what, f64::NAN, 0.0, json!({"msg":msg,"obligations":nobs}));
        // every obligation of the configuration fails with it
        o.failing += nobs.saturating_sub(1);
        o.per_fam.entry(fam.clone()).or_default().1 += nobs.saturating_sub(1);
    };
    let ell = match ell_of(&ellps) {
        Ok(e) => e,
        Err(m) => return whole(o, if m.starts_with("panic") { "panic" } else { "opfail" }, format!("ellipsoid {ellps}: {m}")),
    };
    // (a hang of the code under test is recognised by the driver from the last configuration announced)
    println!("at {def}");
    let mut ctx = Minimal::default();
    o.evals += 1;
    let op = match op_guarded(&mut ctx, &def) {
        Ok(h) => h,
        Err(m) => return whole(o, if m.starts_with("panic") { "panic" } else { "opfail" }, m),
    };
    let k0 = num(v, "k0");
    let (x0, y0) = (num(v, "x0").unwrap_or(0.0), num(v, "y0").unwrap_or(0.0));
    let lat0 = num(v, "lat0").unwrap_or(0.0).to_radians();
    // absolute tolerances (given in nanometres on an ellipsoid of the size of the Earth) scale with the ellipsoid;
    // a false origin is allowed the rounding of its own magnitude
    let abs_tol = |nm: f64, mag: f64| nm * 1e-9 * (ell.a / A_REF) + 8.0 * ulp_of(mag.max(x0.abs()).max(y0.abs()));

    // ---- lay out every point needed, apply once
    let mut batch: Vec<Coor4D> = vec![];
    let mut tasks: Vec<Task> = vec![];
    for ob in &obs {
        let a = ob.as_array().expect("obligation");
        let s = |i: usize| a[i].as_str().unwrap_or("").to_string();
        let (kind, lons, lats, arg) = (s(0), s(1), s(2), s(3));
        *o.per_kind.entry(kind.clone()).or_default() += 1;
        let (mut lon_deg, mut lat_deg): (f64, f64) = (lons.parse().expect("lon"), lats.parse().expect("lat"));
        let mut cell = None;
        if kind == "confr" || kind == "arear" {
            let (u, w) = unit_pair(seed, &format!("{def}|{lons}|{lats}"));
            cell = Some((lons.clone(), lats.clone()));
            lon_deg += u;
            lat_deg += w;
        }
        let (lon, lat) = (lon_deg.to_radians(), lat_deg.to_radians());
        let pts = match kind.as_str() {
            "conf" | "confr" | "area" | "arear" | "scale" | "fac" => stencil(lon, lat, polesing),
            _ => vec![Coor4D([lon, lat, 0.0, 0.0])],
        };
        tasks.push(Task { kind, arg, lon_deg, lat_deg, at: batch.len(), n: pts.len(), cell });
        batch.extend(pts);
    }
    let input = batch.clone();
    o.evals += 1;
    let batch_ok = apply_guarded(&ctx, op, &mut batch);
    // the partner of the relational comparison (webmerc against merc on the sphere of radius a)
    let mut partner_img: Option<Vec<Coor4D>> = None;
    if !partner.is_empty() {
        o.evals += 2;
        match op_guarded(&mut ctx, &partner) {
            Ok(hp) => {
                let mut d = input.clone();
                if apply_guarded(&ctx, hp, &mut d).is_ok() {
                    partner_img = Some(d);
                }
            }
            Err(_) => {}
        }
        if partner_img.is_none() {
            *o.not_compared.entry(format!("partner definition not usable: {partner}")).or_default() += 1;
        }
    }
    for t in &tasks {
        let at = || json!({"def":def,"pt":[t.lon_deg, t.lat_deg]});
        let pt = json!([t.lon_deg, t.lat_deg]);
        let base = |extra: Value| {
            let mut b = json!({"pt":pt,"repro":format!("gvh_geom eval \"{}\" {:?} {:?}", def, t.lon_deg, t.lat_deg)});
            if let Some((a, b2)) = &t.cell {
                b["cell"] = json!([a, b2]);
            }
            for (k, x) in extra.as_object().unwrap() {
                b[k] = x.clone();
            }
            b
        };
        // the images of this task's points: from the batch, or - if the batch died - on their own
        let img: Vec<Coor4D> = match &batch_ok {
            Ok(_) => batch[t.at..t.at + t.n].to_vec(),
            Err(_) => {
                let mut d = input[t.at..t.at + t.n].to_vec();
                o.evals += 1;
                match apply_guarded(&ctx, op, &mut d) {
                    Ok(_) => d,
                    Err(m) => {
                        o.fail(v, &t.kind, "panic", f64::NAN, 0.0, base(json!({"msg":m})));
                        continue;
                    }
                }
            }
        };
        let (lon, lat) = (t.lon_deg.to_radians(), t.lat_deg.to_radians());
        match t.kind.as_str() {
            "conf" | "confr" | "area" | "arear" | "scale" | "fac" => {
                // webmerc is the Mercator projection of the SPHERE of radius a: its character is judged on that sphere
                let on = if chr == "sphmerc" { Ell::new(ell.a, 0.0) } else { ell };
                let Some(j) = jacobian(&on, lat, polesing, &img) else {
                    o.fail(v, &t.kind, "nan", f64::NAN, 0.0, base(json!({"image":show(&img[0])})));
                    continue;
                };
                let r = o.round.entry(fam.clone()).or_default();
                *r = r.max(j.round);
                let jd = json!({"h":j.h,"k":j.k,"cos_meridian_parallel":j.cos,"det":j.det,"image":[j.x, j.y],"instrument_rounding":j.round});
                match t.kind.as_str() {
                    "conf" | "confr" => {
                        let tc = tol("conf") * 1e-9;
                        let aniso = (j.h - j.k).abs() / j.h.max(j.k);
                        let mut bad = false;
                        if !(aniso <= tc) {
                            bad = true;
                            o.fail(v, &t.kind, "aniso", aniso, tc, base(jd.clone()));
                        } else if !(j.cos.abs() <= tc) {
                            bad = true;
                            o.fail(v, &t.kind, "skew", j.cos.abs(), tc, base(jd.clone()));
                        } else if !(j.det > 0.0) {
                            bad = true;
                            o.fail(v, &t.kind, "orientation", j.det, 0.0, base(jd.clone()));
                        }
                        if !bad {
                            o.measure(&fam, "aniso", aniso, at);
                            o.measure(&fam, "skew", j.cos.abs(), at);
                        }
                    }
                    "area" | "arear" => {
                        let ta = tol("area") * 1e-9;
                        let dev = (j.det - 1.0).abs();
                        if !(dev <= ta) {
                            o.fail(v, &t.kind, "area", dev, ta, base(jd));
                        } else {
                            o.measure(&fam, "area", dev, at);
                        }
                    }
                    "scale" => {
                        let ts = tol("scale") * 1e-9;
                        let want = if t.arg == "one" { Some(1.0) } else { k0 };
                        let Some(want) = want else {
                            o.fail(v, "scale", "spec", f64::NAN, 0.0, base(json!({"msg":"no k0 in the configuration"})));
                            continue;
                        };
                        let dev = ((j.h - want).abs()).max((j.k - want).abs()) / want;
                        if !(dev <= ts) {
                            let mut d = jd;
                            d["expected_scale"] = json!(want);
                            o.fail(v, "scale", "scale", dev, ts, base(d));
                        } else {
                            o.measure(&fam, "scale", dev, at);
                        }
                    }
                    _ => {
                        // the library's own factors, on the ellipsoid of the definition
                        let tf = tol("fac") * 1e-9;
                        let le = match guarded(|| Ellipsoid::named(&ellps)) {
                            Ok(Ok(e)) => e,
                            _ => continue,
                        };
                        o.evals += 1;
                        let fc = guarded(|| Jacobian::new(&ctx, op, [1f64.to_degrees(), 1.0], [false, false], le, Coor2D::raw(lon, lat)).map(|jj| jj.factors()));
                        match fc {
                            Err(m) => o.fail(v, "fac", "panic", f64::NAN, 0.0, base(json!({"msg":m}))),
                            Ok(Err(e)) => o.fail(v, "fac", "opfail", f64::NAN, 0.0, base(json!({"msg":format!("{e:?}")}))),
                            Ok(Ok(f)) => {
                                // (the finite-difference quantities on the ellipsoid itself, also for webmerc)
                                let je = jacobian(&ell, lat, polesing, &img).unwrap();
                                let dev = ((f.meridional_scale - je.h).abs() / je.h).max((f.parallel_scale - je.k).abs() / je.k).max((f.areal_scale - je.det).abs() / je.det.abs());
                                if !(dev <= tf) {
                                    o.fail(v, "fac", "factors", dev, tf, base(json!({"library":{"h":f.meridional_scale,"k":f.parallel_scale,"s":f.areal_scale},
                                        "finite_differences":{"h":je.h,"k":je.k,"s":je.det}})));
                                } else {
                                    o.measure(&fam, "fac", dev, at);
                                }
                            }
                        }
                    }
                }
            }
            "origin" | "arc" | "sph" => {
                let p = img[0];
                if !p[0].is_finite() || !p[1].is_finite() {
                    o.fail(v, &t.kind, "nan", f64::NAN, 0.0, base(json!({"image":show(&p)})));
                    continue;
                }
                match t.kind.as_str() {
                    "origin" => {
                        let ta = abs_tol(tol("origin"), 0.0);
                        let dev = (p[0] - x0).hypot(p[1] - y0);
                        if !(dev <= ta) {
                            o.fail(v, "origin", "origin", dev, ta, base(json!({"image":[p[0], p[1]],"false_origin":[x0, y0]})));
                        } else {
                            o.measure(&fam, "origin_m", dev * A_REF / ell.a, at);
                        }
                    }
                    "arc" => {
                        let Some(k) = k0 else {
                            o.fail(v, "arc", "spec", f64::NAN, 0.0, base(json!({"msg":"no k0 in the configuration"})));
                            continue;
                        };
                        let want = y0 + k * ell.arc(lat0, lat, gl);
                        let ta = abs_tol(tol("arc"), want.abs());
                        let dev = (p[1] - want).abs().max((p[0] - x0).abs());
                        if !(dev <= ta) {
                            o.fail(v, "arc", "arc", dev, ta, base(json!({"image":[p[0], p[1]],"expected":[x0, want],"meridian_arc_from_lat0":ell.arc(lat0, lat, gl)})));
                        } else {
                            o.measure(&fam, "arc_m", dev * A_REF / ell.a, at);
                        }
                    }
                    _ => {
                        let want = [ell.a * lon, ell.a * (std::f64::consts::FRAC_PI_4 + lat / 2.0).tan().ln()];
                        let ta = abs_tol(tol("sph"), want[1].abs().max(want[0].abs()));
                        let dev = (p[0] - want[0]).hypot(p[1] - want[1]);
                        if !(dev <= ta) {
                            o.fail(v, "sph", "sphere", dev, ta, base(json!({"image":[p[0], p[1]],"spherical_mercator_of_radius_a":want})));
                            continue;
                        }
                        o.measure(&fam, "sph_m", dev * A_REF / ell.a, at);
                        if let Some(pi) = &partner_img {
                            let q = pi[t.at];
                            let dev = (p[0] - q[0]).hypot(p[1] - q[1]);
                            if !(dev <= ta) {
                                o.fail(v, "sph", "partner", dev, ta, base(json!({"image":[p[0], p[1]],"partner":partner,"partner_image":show(&q)})));
                            } else {
                                o.measure(&fam, "sph_partner_m", dev * A_REF / ell.a, at);
                            }
                        }
                    }
                }
            }
            other => {
                eprintln!("unknown kind of obligation: {other}");
                std::process::exit(2);
            }
        }
    }
}

fn show(p: &Coor4D) -> Value {
    Value::Array(p.0[..2].iter().map(|x| if x.is_finite() { json!(x) } else { json!(format!("{x}")) }).collect())
}

fn replay(input: &str, output: &str, seed: u64) -> i32 {
    quiet_panics();
    let f = std::fs::File::open(input).expect("cannot open input");
    let w = std::io::BufWriter::new(std::fs::File::create(output).expect("cannot create output"));
    let mut o = Out { w, groups: BTreeMap::new(), worst: BTreeMap::new(), round: BTreeMap::new(), per_fam: BTreeMap::new(), per_kind: BTreeMap::new(),
                      total: 0, failing: 0, evals: 0, not_compared: BTreeMap::new() };
    let gl = gauss_legendre(16);
    let mut spec_ellps: std::collections::BTreeSet<String> = Default::default();
    for line in std::io::BufReader::new(f).lines() {
        let line = line.unwrap();
        if line.trim().is_empty() {
            continue;
        }
        let v: Value = serde_json::from_str(&line).expect("bad json");
        // one configuration, or one shape with the ellipsoids it is enumerated on: "ells":[[ellps, partner],..]
        match v["ells"].as_array() {
            None => {
                spec_ellps.insert(v["ellps"].as_str().unwrap_or("").to_string());
                configuration(&v, seed, &gl, &mut o);
            }
            Some(ells) => {
                for e in ells {
                    let (ellps, partner) = (e[0].as_str().unwrap_or(""), e[1].as_str().unwrap_or(""));
                    let mut c = v.clone();
                    c["ellps"] = json!(ellps);
                    c["partner"] = json!(partner);
                    c["def"] = json!(format!("{} ellps={}", v["shape"].as_str().unwrap_or(""), ellps));
                    spec_ellps.insert(ellps.to_string());
                    configuration(&c, seed, &gl, &mut o);
                }
            }
        }
    }
    for ((fam, shape, kind, what), gr) in o.groups.iter() {
        writeln!(o.w, "{}", json!({"group":true,"fam":fam,"shape":shape,"kind":kind,"what":what,"failing":gr.fails,"max":gr.max,
            "ellps":gr.ellps.iter().take(60).collect::<Vec<_>>(),"worst":gr.worst})).unwrap();
    }
    let code: Vec<&str> = geodesy::verif::ellipsoid_names();
    let uncovered: Vec<&str> = code.iter().copied().filter(|n| !spec_ellps.contains(*n)).collect();
    let fams: BTreeMap<String, Value> = o.per_fam.iter().map(|(k, x)| (k.clone(), json!({"obligations":x.0,"failing":x.1,"configurations":x.2,
        "instrument_rounding":o.round.get(k).copied().unwrap_or(0.0)}))).collect();
    let mut worst: BTreeMap<String, BTreeMap<String, Value>> = BTreeMap::new();
    for ((fam, metric), x) in o.worst.iter() {
        worst.entry(metric.clone()).or_default().insert(fam.clone(), json!({"max":x.value,"n":x.n,"at":x.at}));
    }
    writeln!(o.w, "{}", json!({"summary":true,"obligations":o.total,"failing":o.failing,"evaluations":o.evals,"families":fams,"kinds":o.per_kind,
        "worst":worst,"not_compared":o.not_compared,"ellipsoids_in_code_not_enumerated":uncovered})).unwrap();
    println!("geom: {} obligations, {} failing", o.total, o.failing);
    if o.failing == 0 { 0 } else { 1 }
}

fn eval(def: &str, lon_deg: f64, lat_deg: f64) -> i32 {
    quiet_panics();
    let ellps = def.split_whitespace().find_map(|t| t.strip_prefix("ellps=")).unwrap_or(if def.starts_with("webmerc") { "WGS84" } else { "GRS80" });
    let ell = match ell_of(ellps) {
        Ok(e) => e,
        Err(m) => {
            println!("ellipsoid {ellps}: {m}");
            return 1;
        }
    };
    let mut ctx = Minimal::default();
    let op = match op_guarded(&mut ctx, def) {
        Ok(h) => h,
        Err(m) => {
            println!("op: {m}");
            return 1;
        }
    };
    let (lon, lat) = (lon_deg.to_radians(), lat_deg.to_radians());
    let polesing = ["merc", "webmerc", "lcc"].contains(&def.split_whitespace().next().unwrap_or(""));
    let mut img = stencil(lon, lat, polesing);
    let r = apply_guarded(&ctx, op, &mut img);
    println!("{def}\n  ellipsoid a = {} f = {} (1/{})", ell.a, ell.f, 1.0 / ell.f);
    println!("  point lon = {lon_deg:?} lat = {lat_deg:?} degrees; steps (lon, lat) = {:?} rad; apply -> {r:?}", steps(lat, polesing));
    println!("  image = ({:?}, {:?})", img[0][0], img[0][1]);
    println!("  M = {:?}  N cos(lat) = {:?}", ell.m(lat), ell.n(lat) * lat.cos());
    match jacobian(&ell, lat, polesing, &img) {
        None => println!("  some stencil point has no finite image: {:?}", img.iter().map(|p| (p[0], p[1])).collect::<Vec<_>>()),
        Some(j) => {
            println!("  meridional scale h = {:?}\n  parallel scale   k = {:?}\n  |h-k|/max = {:e}", j.h, j.k, (j.h - j.k).abs() / j.h.max(j.k));
            println!("  cos(angle between the images of meridian and parallel) = {:e}", j.cos);
            println!("  determinant of the normalised Jacobian (areal scale) = {:?}  (-1: {:e})", j.det, j.det - 1.0);
            println!("  instrument rounding budget = {:e}", j.round);
        }
    }
    if let Ok(Ok(le)) = guarded(|| Ellipsoid::named(ellps)) {
        if let Ok(Ok(f)) = guarded(|| Jacobian::new(&ctx, op, [1f64.to_degrees(), 1.0], [false, false], le, Coor2D::raw(lon, lat)).map(|j| j.factors())) {
            println!("  library factors(): h = {:?} k = {:?} s = {:?}", f.meridional_scale, f.parallel_scale, f.areal_scale);
        }
    }
    let gl = gauss_legendre(16);
    println!("  meridian arc 0 -> lat = {:?} m", ell.arc(0.0, lat, &gl));
    0
}

/// the instrument on maps whose geometry is known in closed form
fn selftest() -> i32 {
    let gl = gauss_legendre(16);
    let mut bad = 0;
    // quadrature: Gauss-Legendre against Simpson, and the weights
    let wsum: f64 = gl.iter().map(|x| x.1).sum();
    if (wsum - 2.0).abs() > 1e-14 {
        println!("Gauss-Legendre weights sum to {wsum}");
        bad += 1;
    }
    for (a, rf) in [(6378137.0, 298.257223563), (6397300.0, 191.0), (6400000.0, 150.0)] {
        let e = Ell::new(a, 1.0 / rf);
        for lat in [0.3f64, -1.0, 1.5690] {
            let (g, s) = (e.arc(0.1, lat, &gl), e.arc_simpson(0.1, lat));
            if (g - s).abs() > 1e-12 * a {
                println!("meridian arc: Gauss-Legendre {g} vs Simpson {s}");
                bad += 1;
            }
        }
    }
    // finite differences: spherical Mercator (conformal, h = k = sec lat) and the cylindrical equal-area projection, computed here
    let e = Ell::new(6378137.0, 0.0);
    let mut worst = (0.0f64, 0.0f64);
    for lat_deg in [-89.8f64, -60.0, 0.0, 33.3, 85.0, 89.0, 89.8] {
        let lat = lat_deg.to_radians();
        let merc: Vec<Coor4D> = stencil(0.3, lat, true).iter().map(|p| Coor4D([e.a * p[0] + 5e5, e.a * (std::f64::consts::FRAC_PI_4 + p[1] / 2.0).tan().ln() + 1e7, 0., 0.])).collect();
        let j = jacobian(&e, lat, true, &merc).unwrap();
        let sec = 1.0 / lat.cos();
        worst.0 = worst.0.max((j.h - sec).abs() / sec).max((j.k - sec).abs() / sec).max(j.cos.abs());
        let cea: Vec<Coor4D> = stencil(0.3, lat, false).iter().map(|p| Coor4D([e.a * p[0], e.a * p[1].sin(), 0., 0.])).collect();
        let j = jacobian(&e, lat, false, &cea).unwrap();
        worst.1 = worst.1.max((j.det - 1.0).abs());
    }
    println!("instrument: spherical Mercator |h,k - sec|/sec, |cos| <= {:e}; cylindrical equal-area |det - 1| <= {:e}", worst.0, worst.1);
    if worst.0 > 5e-9 || worst.1 > 5e-9 {
        bad += 1;
    }
    if bad == 0 { 0 } else { 2 }
}

fn main() {
    let a: Vec<String> = std::env::args().collect();
    let code = match a.get(1).map(|s| s.as_str()) {
        Some("replay") if a.len() >= 4 => replay(&a[2], &a[3], a.get(4).and_then(|s| s.parse().ok()).unwrap_or(1)),
        Some("eval") if a.len() >= 5 => eval(&a[2], a[3].parse().expect("lon"), a[4].parse().expect("lat")),
        Some("selftest") => selftest(),
        _ => {
            eprintln!("usage: gvh_geom replay <in.ndjson> <out.ndjson> [seed]\n       gvh_geom eval \"<definition>\" <lon deg> <lat deg>\n       gvh_geom selftest");
            2
        }
    };
    std::process::exit(code);
}
