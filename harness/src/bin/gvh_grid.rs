//! gvh_grid — harness for C08 (grid lookup) and C15 (grid files).
//!
//!   gvh_grid c08   <scenarios.ndjson> <out.ndjson>   replay MC_C08 scenarios
//!   gvh_grid c15wf <cases.ndjson>     <out.ndjson>   well-formed files: encode, decode with the real readers, read back
//!   gvh_grid plain <cases.ndjson>     <out.ndjson>   BaseGrid::plain calls (header, nodes, offset) of spec/GridFile.tla: PlainCalls
//!   gvh_grid gsa   <out.ndjson>                      shipped .gsb files against this harness's reading of their .gsa twins
//!   gvh_grid fault <job.json> <out.ndjson> <progress> run decode + queries on damaged files (child process of the driver)
//!   gvh_grid encode <case.json> <outfile>            write the bytes of one abstract file (for minimal reproductions)
//!
//! The abstract grids come from TLC (spec/Grid.tla, spec/GridFile.tla): integer geometry in
//! units U (an eighth of the finest cell), node values as integers over a common `scale`.
//! This file contains (1) the encoder abstract grid -> Gravsoft text / NTv2 bytes, (2) a
//! Context serving in-memory grids decoded by the REAL BaseGrid::gravsoft / Ntv2Grid::new,
//! (3) the comparison rules of DESIGN 5.8.
use geodesy::authoring::*;
use gvh::util::guarded;

/// panics of the code under test are data; GVH_LOUD=1 shows them (and the harness's own) on stderr
fn quiet_panics() {
    if std::env::var("GVH_LOUD").is_err() {
        gvh::util::quiet_panics();
    }
}
use serde_json::{json, Value};
use std::collections::BTreeMap;
use std::io::{BufRead, Write};
use std::sync::Arc;

// ---------------------------------------------------------------------------------------------
// abstract grids
// ---------------------------------------------------------------------------------------------

#[derive(Clone, Debug)]
struct Sub {
    name: String,
    parent: String,
    n: i64,
    w: i64,
    dy: i64,
    dx: i64,
    rows: usize,
    cols: usize,
    bands: usize,
    nodes: Vec<Vec<Vec<i64>>>, // [row from north][col from west][band as in the file]
}

impl Sub {
    fn south(&self) -> i64 {
        self.n - (self.rows as i64 - 1) * self.dy
    }
    fn east(&self) -> i64 {
        self.w + (self.cols as i64 - 1) * self.dx
    }
    fn from_json(v: &Value) -> Sub {
        let i = |k: &str| v[k].as_i64().unwrap_or(0);
        let nodes = v["nodes"]
            .as_array()
            .map(|rows| {
                rows.iter()
                    .map(|r| {
                        r.as_array()
                            .unwrap()
                            .iter()
                            .map(|c| c.as_array().unwrap().iter().map(|b| b.as_i64().unwrap()).collect())
                            .collect()
                    })
                    .collect()
            })
            .unwrap_or_default();
        Sub {
            name: v["name"].as_str().unwrap_or("").to_string(),
            parent: v["parent"].as_str().unwrap_or("NONE").to_string(),
            n: i("n"),
            w: i("w"),
            dy: i("dy"),
            dx: i("dx"),
            rows: i("rows") as usize,
            cols: i("cols") as usize,
            bands: i("bands") as usize,
            nodes,
        }
    }
    fn max_abs_node(&self) -> i64 {
        self.nodes.iter().flatten().flatten().map(|x| x.abs()).max().unwrap_or(0)
    }
}

#[derive(Clone, Debug)]
struct FileA {
    subs: Vec<Sub>,
    order: Vec<usize>, // 1-based permutation: file position -> sub index
    big_endian: bool,
    text: u32, // Gravsoft text layout id
    /// spelling of the header of each sub-grid (spec/Grid.tla: Spellings): "asc", "ns", "ew", "nsew"
    spell: Vec<String>,
}

fn has_ns(sp: &str) -> bool {
    sp == "ns" || sp == "nsew"
}
fn has_ew(sp: &str) -> bool {
    sp == "ew" || sp == "nsew"
}

impl FileA {
    fn from_json(v: &Value) -> FileA {
        let subs: Vec<Sub> = v["subs"].as_array().unwrap().iter().map(Sub::from_json).collect();
        let order = v["order"]
            .as_array()
            .map(|a| a.iter().map(|x| x.as_u64().unwrap() as usize).collect())
            .unwrap_or_else(|| (1..=subs.len()).collect());
        // one spelling for every sub-grid (a string) or one per sub-grid (an array)
        let spell: Vec<String> = match &v["spell"] {
            Value::String(sp) => vec![sp.clone(); subs.len()],
            Value::Array(a) => a.iter().map(|x| x.as_str().unwrap_or("asc").to_string()).collect(),
            _ => vec!["asc".to_string(); subs.len()],
        };
        FileA { subs, order, big_endian: v["endian"].as_str() == Some("be"), text: v["text"].as_u64().unwrap_or(0) as u32, spell }
    }
}

/// The concrete frame the integer model is laid into.
/// angular: U = 1/64 degree, origin (lon 10, lat 50); projected: U = 1 m, origin (600000, 500000).
#[derive(Clone, Copy, Debug, PartialEq)]
enum Frame {
    Angular,
    /// origin (x0, y0) in metres
    Projected(i64, i64),
}
const LON0: i64 = 10;
const LAT0: i64 = 50;
const X0: i64 = 600_000;
const Y0: i64 = 500_000;

impl Frame {
    /// the frames of spec/GridFile.tla (XOrg, YOrg)
    fn from_name(name: &str) -> Frame {
        match name {
            "projected" => Frame::Projected(X0, Y0),
            "projected_w0" => Frame::Projected(0, Y0),
            "projected_s0" => Frame::Projected(X0, 0),
            "projected_neg" => Frame::Projected(-300, -Y0),
            _ => Frame::Angular,
        }
    }
    /// header text of a longitude / latitude / increment
    fn x_text(&self, x: i64) -> String {
        match self {
            Frame::Angular => fixed6((LON0 * 64 + x) * 15625),
            Frame::Projected(x0, _) => (x0 + x).to_string(),
        }
    }
    fn y_text(&self, y: i64) -> String {
        match self {
            Frame::Angular => fixed6((LAT0 * 64 + y) * 15625),
            Frame::Projected(_, y0) => (y0 + y).to_string(),
        }
    }
    fn d_text(&self, d: i64) -> String {
        match self {
            Frame::Angular => fixed6(d * 15625),
            Frame::Projected(..) => d.to_string(),
        }
    }
    fn x_deg(&self, x: i64) -> f64 {
        LON0 as f64 + x as f64 / 64.0
    }
    fn y_deg(&self, y: i64) -> f64 {
        LAT0 as f64 + y as f64 / 64.0
    }
    /// Query coordinate, produced with the same expression the decoder applies to the header
    fn x_query(&self, x: i64, ntv2: bool) -> f64 {
        match self {
            Frame::Projected(x0, _) => (x0 + x) as f64,
            Frame::Angular => {
                if ntv2 {
                    // decoder: -wlon.to_radians() / 3600. on the west-positive arc-second value
                    let west_positive = -(self.x_deg(x) * 3600.0);
                    -west_positive.to_radians() / 3600.
                } else {
                    self.x_deg(x).to_radians()
                }
            }
        }
    }
    fn y_query(&self, y: i64, ntv2: bool) -> f64 {
        match self {
            Frame::Projected(_, y0) => (y0 + y) as f64,
            Frame::Angular => {
                if ntv2 {
                    (self.y_deg(y) * 3600.0).to_radians() / 3600.
                } else {
                    self.y_deg(y).to_radians()
                }
            }
        }
    }
}

/// micro-units -> "[-]i.ffffff"
fn fixed6(micro: i64) -> String {
    let a = micro.abs();
    format!("{}{}.{:06}", if micro < 0 { "-" } else { "" }, a / 1_000_000, a % 1_000_000)
}

/// file text of a node value: node / scale in file units (arc-seconds, mm/yr, metres)
fn value_text(node: i64, scale: i64) -> String {
    if scale == 1 {
        node.to_string()
    } else if scale == 4096 && node % 64 == 0 {
        fixed6(node / 64 * 15625)
    } else {
        // not exactly representable with six decimals: shortest exact decimal via f64 (power-of-two scale)
        format!("{}", node as f64 / scale as f64)
    }
}

// ---------------------------------------------------------------------------------------------
// encoders
// ---------------------------------------------------------------------------------------------

/// Tokens of the Gravsoft file: six header numbers, then the node values row-major from the
/// north-west corner, bands interleaved.
fn gravsoft_tokens(g: &Sub, frame: Frame, scale: i64, spell: &str) -> (Vec<String>, Vec<Vec<String>>) {
    let mut header = vec![
        frame.y_text(g.south()),
        frame.y_text(g.n),
        frame.x_text(g.w),
        frame.x_text(g.east()),
        frame.d_text(g.dy),
        frame.d_text(g.dx),
    ];
    // a spelled header: the bounds of an axis exchange their slots; the node values stay in file order
    if has_ns(spell) {
        header.swap(0, 1);
    }
    if has_ew(spell) {
        header.swap(2, 3);
    }
    let rows = g
        .nodes
        .iter()
        .map(|r| r.iter().flat_map(|c| c.iter().map(|b| value_text(*b, scale))).collect())
        .collect();
    (header, rows)
}

/// The text layouts (ids as in spec/GridFile.tla, which produces the same texts)
fn gravsoft_layout(header: &[String], rows: &[Vec<String>], layout: u32) -> Vec<u8> {
    let mut s = String::new();
    match layout {
        0 => {
            s += &header.join(" ");
            s += "\n\n";
            for r in rows {
                s += "    ";
                s += &r.join("  ");
                s += "\n";
            }
        }
        1 => {
            s += "# gravsoft 1 2 3\n";
            s += &header.join("\t");
            s += " # 9 8 7\n\n";
            for r in rows {
                s += &r.join("\t");
                s += " #r\n";
            }
            s += "# end 42\n";
        }
        2 => {
            let mut all: Vec<&String> = header.iter().collect();
            for r in rows {
                all.extend(r.iter());
            }
            s += &all.iter().map(|x| x.as_str()).collect::<Vec<_>>().join("\r\n");
        }
        _ => {
            let mut all: Vec<&String> = header.iter().collect();
            for r in rows {
                all.extend(r.iter());
            }
            s += "\n\n";
            s += &all.iter().map(|x| x.as_str()).collect::<Vec<_>>().join(" ");
        }
    }
    s.into_bytes()
}

fn encode_gravsoft(g: &Sub, frame: Frame, scale: i64, layout: u32, spell: &str) -> Vec<u8> {
    let (h, r) = gravsoft_tokens(g, frame, scale, spell);
    gravsoft_layout(&h, &r, layout)
}

struct Ntv2Writer {
    be: bool,
    buf: Vec<u8>,
}
impl Ntv2Writer {
    fn key(&mut self, k: &str) {
        let mut b = k.as_bytes().to_vec();
        b.resize(8, b' ');
        self.buf.extend_from_slice(&b[..8]);
    }
    fn int(&mut self, k: &str, v: i32) {
        self.key(k);
        self.buf.extend_from_slice(&if self.be { v.to_be_bytes() } else { v.to_le_bytes() });
        self.buf.extend_from_slice(&[0; 4]);
    }
    fn text(&mut self, k: &str, v: &str) {
        self.key(k);
        self.key(v);
    }
    fn real(&mut self, k: &str, v: f64) {
        self.key(k);
        self.buf.extend_from_slice(&if self.be { v.to_be_bytes() } else { v.to_le_bytes() });
    }
    fn f32(&mut self, v: f32) {
        self.buf.extend_from_slice(&if self.be { v.to_be_bytes() } else { v.to_le_bytes() });
    }
}

/// NTv2: 11 overview records, then per sub-grid (in file order) 11 header records and the
/// nodes from the south-east corner, westwards, then northwards; longitudes and longitude
/// shifts count positive west; arc-seconds throughout; an END record closes the file.
/// Returns the bytes and, per sub-grid in file order, the offset of its header.
fn encode_ntv2(f: &FileA, scale: i64) -> (Vec<u8>, Vec<usize>) {
    let fr = Frame::Angular;
    let mut w = Ntv2Writer { be: f.big_endian, buf: vec![] };
    w.int("NUM_OREC", 11);
    w.int("NUM_SREC", 11);
    w.int("NUM_FILE", f.subs.len() as i32);
    w.text("GS_TYPE", "SECONDS");
    w.text("VERSION", "GVH");
    w.text("SYSTEM_F", "MODEL_F");
    w.text("SYSTEM_T", "MODEL_T");
    w.real("MAJOR_F", 6378137.0);
    w.real("MINOR_F", 6356752.314);
    w.real("MAJOR_T", 6378137.0);
    w.real("MINOR_T", 6356752.314);
    let mut offsets = vec![];
    for &k in &f.order {
        let g = &f.subs[k - 1];
        offsets.push(w.buf.len());
        w.text("SUB_NAME", &g.name);
        w.text("PARENT", &g.parent);
        w.text("CREATED", "20260927");
        w.text("UPDATED", "20260927");
        let (mut s_lat, mut n_lat) = (fr.y_deg(g.south()) * 3600.0, fr.y_deg(g.n) * 3600.0);
        let (mut e_long, mut w_long) = (-(fr.x_deg(g.east()) * 3600.0), -(fr.x_deg(g.w) * 3600.0));
        // a spelled header: the bounds of an axis exchange their slots; the node records stay in file order
        if has_ns(&f.spell[k - 1]) {
            std::mem::swap(&mut s_lat, &mut n_lat);
        }
        if has_ew(&f.spell[k - 1]) {
            std::mem::swap(&mut e_long, &mut w_long);
        }
        w.real("S_LAT", s_lat);
        w.real("N_LAT", n_lat);
        w.real("E_LONG", e_long);
        w.real("W_LONG", w_long);
        w.real("LAT_INC", g.dy as f64 / 64.0 * 3600.0);
        w.real("LONG_INC", g.dx as f64 / 64.0 * 3600.0);
        w.int("GS_COUNT", (g.rows * g.cols) as i32);
        for r in (0..g.rows).rev() {
            for c in (0..g.cols).rev() {
                w.f32((g.nodes[r][c][0] as f64 / scale as f64) as f32);
                w.f32((g.nodes[r][c][1] as f64 / scale as f64) as f32);
                w.f32(0.0);
                w.f32(0.0);
            }
        }
    }
    w.text("END", "");
    let l = w.buf.len();
    for b in &mut w.buf[l - 8..] {
        *b = 0;
    }
    (w.buf, offsets)
}

fn encode_file(f: &FileA, fmt: &str, frame: Frame, scale: i64) -> Vec<u8> {
    if fmt == "ntv2" {
        encode_ntv2(f, scale).0
    } else {
        encode_gravsoft(&f.subs[0], frame, scale, f.text, &f.spell[0])
    }
}

/// Decode with the real readers, under catch_unwind
fn decode(fmt: &str, bytes: &[u8]) -> Result<Result<Arc<dyn Grid>, String>, String> {
    if fmt == "ntv2" {
        guarded(|| Ntv2Grid::new(bytes).map(|g| Arc::new(g) as Arc<dyn Grid>).map_err(|e| format!("{e:?}")))
    } else {
        guarded(|| BaseGrid::gravsoft(bytes).map(|g| Arc::new(g) as Arc<dyn Grid>).map_err(|e| format!("{e:?}")))
    }
}

// ---------------------------------------------------------------------------------------------
// a Context serving in-memory grids
// ---------------------------------------------------------------------------------------------

struct HCtx {
    inner: Minimal,
    grids: BTreeMap<String, Arc<dyn Grid>>,
    ops: BTreeMap<OpHandle, Op>,
}

impl HCtx {
    fn with(grids: BTreeMap<String, Arc<dyn Grid>>) -> HCtx {
        HCtx { inner: Minimal::new(), grids, ops: BTreeMap::new() }
    }
}

const HCTX_BAD_ID: Error = Error::General("HCtx: unknown operator id");

impl Context for HCtx {
    fn new() -> Self {
        HCtx::with(BTreeMap::new())
    }
    fn op(&mut self, definition: &str) -> Result<OpHandle, Error> {
        let op = Op::new(definition, self)?;
        let id = op.id;
        self.ops.insert(id, op);
        Ok(id)
    }
    fn apply(&self, op: OpHandle, direction: Direction, operands: &mut dyn CoordinateSet) -> Result<usize, Error> {
        let op = self.ops.get(&op).ok_or(HCTX_BAD_ID)?;
        Ok(op.apply(self, operands, direction))
    }
    fn globals(&self) -> BTreeMap<String, String> {
        self.inner.globals()
    }
    fn steps(&self, op: OpHandle) -> Result<&Vec<String>, Error> {
        let op = self.ops.get(&op).ok_or(HCTX_BAD_ID)?;
        Ok(&op.descriptor.steps)
    }
    fn params(&self, op: OpHandle, index: usize) -> Result<ParsedParameters, Error> {
        let op = self.ops.get(&op).ok_or(HCTX_BAD_ID)?;
        if op.steps.is_empty() {
            if index > 0 {
                return Err(Error::General("HCtx: bad step index"));
            }
            return Ok(op.params.clone());
        }
        if index >= op.steps.len() {
            return Err(Error::General("HCtx: bad step index"));
        }
        Ok(op.steps[index].params.clone())
    }
    fn register_op(&mut self, name: &str, constructor: OpConstructor) {
        self.inner.register_op(name, constructor)
    }
    fn register_resource(&mut self, name: &str, definition: &str) {
        self.inner.register_resource(name, definition)
    }
    fn get_op(&self, name: &str) -> Result<OpConstructor, Error> {
        self.inner.get_op(name)
    }
    fn get_resource(&self, name: &str) -> Result<String, Error> {
        self.inner.get_resource(name)
    }
    fn get_blob(&self, name: &str) -> Result<Vec<u8>, Error> {
        self.inner.get_blob(name)
    }
    fn get_grid(&self, name: &str) -> Result<Arc<dyn Grid>, Error> {
        self.grids.get(name).cloned().ok_or_else(|| Error::NotFound(name.to_string(), ": Grid (HCtx)".to_string()))
    }
}

// ---------------------------------------------------------------------------------------------
// C08
// ---------------------------------------------------------------------------------------------

struct Conv {
    /// decoded value: element e of Grid::at = sign * band
    dec: Vec<(usize, f64)>,
    /// operator: element e (or E/N/U component) += sign * band in the forward direction
    el: Vec<(usize, f64)>,
    unit_num: f64,
    unit_den: f64,
    unit_deg: bool,
}

impl Conv {
    fn from_json(v: &Value, unit: &Value, dec: &Value) -> Conv {
        let pairs = |x: &Value| -> Vec<(usize, f64)> {
            x.as_array()
                .unwrap()
                .iter()
                .map(|p| (p[0].as_u64().unwrap() as usize, p[1].as_f64().unwrap()))
                .collect()
        };
        Conv {
            dec: pairs(dec),
            el: pairs(&v["el"]),
            unit_num: unit[0].as_f64().unwrap(),
            unit_den: unit[1].as_f64().unwrap(),
            unit_deg: unit[2].as_bool().unwrap(),
        }
    }
    /// file units -> internal units (arcsec -> rad, mm/yr -> m/yr, m -> m)
    fn to_internal(&self, v: f64) -> f64 {
        let x = v * self.unit_num / self.unit_den;
        if self.unit_deg {
            x.to_radians()
        } else {
            x
        }
    }
}

struct Pt {
    x: i64,
    y: i64,
    flag: u8,
    file: usize,
    inner: bool,
    /// selected value per band in file units
    val: Vec<f64>,
    /// geoid scenarios: slope per U towards north / east, file units
    grad: Option<(f64, f64)>,
}

#[derive(Default)]
struct Report {
    /// mismatch records (at most five per class), written out by cmd_c08
    lines: Vec<Value>,
    fails: usize,
    per_key: BTreeMap<String, usize>,
    evals: usize,
    compared: usize,
    not_compared: usize,
    nontrivial: std::collections::BTreeSet<String>,
    /// spelled headers the reader refused (admissible) / decoded under one of the readings
    spelled_rejected: usize,
    spelled_read: BTreeMap<String, usize>,
    spelled_failed: usize,
    /// points compared under a grids= list whose every grid is optional and missing
    empty_list_compared: usize,
    oneof_compared: usize,
    cross_calls: usize,
}

impl Report {
    /// counts of a scratch report (one reading of a spelled header) that passed
    fn absorb(&mut self, o: Report) {
        self.evals += o.evals;
        self.compared += o.compared;
        self.not_compared += o.not_compared;
        self.nontrivial.extend(o.nontrivial);
        self.empty_list_compared += o.empty_list_compared;
        self.oneof_compared += o.oneof_compared;
        self.cross_calls += o.cross_calls;
    }

    fn fail(&mut self, sc: &Value, what: &str, detail: Value) {
        self.fails += 1;
        let key = format!("{}|{}|{}|{}", sc["name"].as_str().unwrap_or(""), sc["kind"].as_str().unwrap_or(""), sc["fmt"].as_str().unwrap_or(""), what);
        let n = self.per_key.entry(key).or_insert(0);
        *n += 1;
        if *n <= 5 {
            let mut d = detail;
            d["sc"] = sc["id"].clone();
            d["what"] = json!(what);
            d["scenario"] = json!({"name":sc["name"],"kind":sc["kind"],"fmt":sc["fmt"],"list":sc["list"],"id":sc["id"]});
            self.lines.push(d);
        }
    }
}

fn close_to(expected: f64, observed: f64, tol: f64) -> bool {
    if expected == observed {
        return true;
    }
    (expected - observed).abs() <= tol
}

fn has_nan(c: &Coor4D) -> bool {
    c.0.iter().any(|x| x.is_nan())
}

fn bits_same(a: &Coor4D, b: &Coor4D) -> bool {
    (0..4).all(|i| a[i].to_bits() == b[i].to_bits() || (a[i].is_nan() && b[i].is_nan()))
}

fn list_text(sc: &Value, names: &[String]) -> String {
    let mut parts = vec![];
    for e in sc["list"].as_array().unwrap() {
        if e["k"] == "null" {
            parts.push("@null".to_string());
            continue;
        }
        let fi = e["fi"].as_u64().unwrap() as usize;
        let name = if e["present"].as_bool().unwrap() { names[fi - 1].clone() } else { format!("missing.{}", ext_of(sc)) };
        parts.push(format!("{}{}", if e["opt"].as_bool().unwrap() { "@" } else { "" }, name));
    }
    parts.join(",")
}

fn ext_of(sc: &Value) -> &'static str {
    if sc["fmt"] == "ntv2" {
        return "gsb";
    }
    match sc["kind"].as_str().unwrap_or("") {
        "geoid" | "projected" => "geoid",
        "deformation" => "deformation",
        _ => "datum",
    }
}

fn apply1(ctx: &HCtx, h: OpHandle, dir: Direction, c: Coor4D) -> Result<(usize, Coor4D), String> {
    let mut d = [c];
    let n = guarded(|| ctx.apply(h, dir, &mut d))?.map_err(|e| format!("{e:?}"))?;
    Ok((n, d[0]))
}

/// A header spelled with exchanged bounds (spec/Grid.tla: Spellings): the reader refuses the file, or
/// the decoded grid is the file under ONE of the readings the specification lists - at every point.
fn run_spelled(sc: &Value, rep: &mut Report) {
    let kind = sc["kind"].as_str().unwrap();
    let fmt = sc["fmt"].as_str().unwrap();
    let frame = if kind == "projected" { Frame::Projected(X0, Y0) } else { Frame::Angular };
    let f = FileA::from_json(&sc["files"][0]);
    let bytes = encode_file(&f, fmt, frame, sc["scale"].as_i64().unwrap());
    rep.evals += 1;
    match decode(fmt, &bytes) {
        Ok(Err(_)) => {
            rep.spelled_rejected += 1;
            rep.nontrivial.insert(format!("spelled_rejected|{}", sc["id"]));
            return;
        }
        Err(p) => {
            rep.spelled_failed += 1;
            rep.fail(sc, "decode_panic", json!({"file":"spelled","msg":p,"spell":f.spell}));
            return;
        }
        Ok(Ok(_)) => {}
    }
    let mut tried = vec![];
    for alt in sc["alts"].as_array().unwrap() {
        let mut sc2 = sc.clone();
        sc2["pts"] = alt["pts"].clone();
        sc2["spelled"] = json!(false);
        let mut scratch = Report::default();
        run_scenario(&sc2, &mut scratch);
        if scratch.fails == 0 {
            *rep.spelled_read.entry(format!("{}|{}|{}", fmt, f.spell[0], alt["reading"])).or_insert(0) += 1;
            rep.absorb(scratch);
            return;
        }
        tried.push(json!({"reading":alt["reading"],"mismatches":scratch.fails,"classes":scratch.per_key,"first":scratch.lines.first()}));
        rep.evals += scratch.evals;
    }
    rep.spelled_failed += 1;
    rep.fail(sc, "spelled_header_matches_no_reading", json!({"spell":f.spell[0],
        "expected":"the file is refused, or the grid reproduces the node values of the file at its nodes under one reading of the exchanged bounds",
        "observed":tried,"text":String::from_utf8_lossy(&bytes[..bytes.len().min(if fmt == "ntv2" { 0 } else { 400 })])}));
}

fn run_scenario(sc: &Value, rep: &mut Report) {
    if sc["spelled"].as_bool().unwrap_or(false) {
        return run_spelled(sc, rep);
    }
    let kind = sc["kind"].as_str().unwrap();
    let fmt = sc["fmt"].as_str().unwrap();
    let ntv2 = fmt == "ntv2";
    let scale = sc["scale"].as_i64().unwrap();
    let frame = if kind == "projected" { Frame::Projected(X0, Y0) } else { Frame::Angular };
    let exact = kind == "projected";
    let conv = Conv::from_json(&sc["conv"], &sc["unit"], &sc["dec"]);
    let files: Vec<FileA> = sc["files"].as_array().unwrap().iter().map(FileA::from_json).collect();
    let bands = files[0].subs[0].bands;

    // 1. encode, decode with the real readers
    let mut names = vec![];
    let mut grids: Vec<Option<Arc<dyn Grid>>> = vec![];
    let mut map = BTreeMap::new();
    for (i, f) in files.iter().enumerate() {
        let name = format!("{}{}.{}", f.subs[0].name.to_lowercase(), i + 1, ext_of(sc));
        let bytes = encode_file(f, fmt, frame, scale);
        rep.evals += 1;
        match decode(fmt, &bytes) {
            Ok(Ok(g)) => {
                if g.bands() != bands {
                    rep.fail(sc, "bands", json!({"file":name,"expected":bands,"observed":g.bands()}));
                }
                map.insert(name.clone(), g.clone());
                grids.push(Some(g));
            }
            Ok(Err(e)) => {
                rep.fail(sc, "decode_rejected", json!({"file":name,"err":e,"text":String::from_utf8_lossy(&bytes[..bytes.len().min(600)])}));
                grids.push(None);
            }
            Err(p) => {
                rep.fail(sc, "decode_panic", json!({"file":name,"msg":p}));
                grids.push(None);
            }
        }
        names.push(name);
    }
    if grids.iter().any(|g| g.is_none()) {
        return;
    }
    let mut ctx = HCtx::with(map);

    // 2. points
    let pts: Vec<Pt> = sc["pts"]
        .as_array()
        .unwrap()
        .iter()
        .map(|r| {
            let a: Vec<i64> = r.as_array().unwrap().iter().map(|x| x.as_i64().unwrap()).collect();
            let den = (a[5] * scale) as f64;
            let val = (0..bands).map(|b| a[6 + b] as f64 / den).collect();
            let grad = if kind == "geoid" { Some((a[6 + bands] as f64 / den, a[7 + bands] as f64 / den)) } else { None };
            Pt { x: a[0], y: a[1], flag: a[2] as u8, file: a[3] as usize, inner: a[4] == 1, val, grad }
        })
        .collect();
    // tolerance: the f32 storage precision, relative 1e-6 of the largest value of the selected file
    let maxval: Vec<f64> = files
        .iter()
        .map(|f| conv.to_internal(f.subs.iter().map(|s| s.max_abs_node()).max().unwrap_or(0) as f64 / scale as f64).abs())
        .collect();
    let tol_of = |p: &Pt| if exact || p.file == 0 { 0.0 } else { 1e-6 * maxval[p.file - 1] };
    let coord = |p: &Pt| Coor4D::raw(frame.x_query(p.x, ntv2), frame.y_query(p.y, ntv2), 100.0, 2020.0);
    // decoded value expected from Grid::at / grids_at
    let dec_expected = |p: &Pt| -> Vec<f64> { conv.dec.iter().map(|(b, s)| s * conv.to_internal(p.val[*b - 1])).collect() };
    let cmp_vec = |exp: &[f64], obs: &Coor4D, tol: f64| exp.iter().enumerate().all(|(i, e)| close_to(*e, obs[i], tol));

    let single = files.len() == 1 && sc["list"].as_array().unwrap().len() == 1;
    let effective: Vec<usize> = sc["effective"].as_array().unwrap().iter().map(|x| x.as_u64().unwrap() as usize).collect();
    let eff_arcs: Vec<Arc<dyn Grid>> = effective.iter().map(|fi| grids[*fi - 1].clone().unwrap()).collect();
    let use_null = sc["null"].as_bool().unwrap();

    // 3. the grid API: contains / at (one grid), grids_at (the list)
    for p in &pts {
        let c = coord(p);
        let pj = json!({"x":p.x,"y":p.y,"lon":c[0],"lat":c[1],"flag":p.flag});
        if single {
            let g = grids[0].as_ref().unwrap();
            for (m, mi) in [(0.0, 0usize), (0.5, 1usize)] {
                rep.evals += 2;
                let r = guarded(|| (g.contains(&c, m), g.at(&c, m)));
                let (inside, at) = match r {
                    Ok(v) => v,
                    Err(msg) => {
                        rep.fail(sc, "panic_at", json!({"p":pj,"margin":m,"msg":msg}));
                        continue;
                    }
                };
                if p.flag == 9 {
                    rep.not_compared += 1;
                    continue;
                }
                rep.compared += 1;
                let exp_inside = p.flag == 2 || (p.flag == 3 && mi == 1);
                if inside != exp_inside {
                    rep.fail(sc, "contains", json!({"p":pj,"margin":m,"expected":exp_inside,"observed":inside}));
                }
                match (exp_inside, at) {
                    (false, None) => {}
                    (false, Some(v)) => rep.fail(sc, "at_should_be_none", json!({"p":pj,"margin":m,"observed":v.0})),
                    (true, None) => rep.fail(sc, "at_should_be_some", json!({"p":pj,"margin":m})),
                    (true, Some(v)) => {
                        let e = dec_expected(p);
                        if !cmp_vec(&e, &v, tol_of(p)) {
                            rep.fail(sc, "at_value", json!({"p":pj,"margin":m,"expected":e,"observed":v.0,"tol":tol_of(p)}));
                        }
                    }
                }
            }
        }
        // grids_at over the effective list
        rep.evals += 1;
        match guarded(|| grids_at(&eff_arcs, &c, use_null)) {
            Err(msg) => rep.fail(sc, "panic_grids_at", json!({"p":pj,"msg":msg})),
            Ok(r) => {
                if p.flag == 9 {
                    rep.not_compared += 1;
                } else {
                    rep.compared += 1;
                    match (p.flag, r) {
                        (0, None) => {}
                        (0, Some(v)) => rep.fail(sc, "grids_at_should_be_none", json!({"p":pj,"observed":v.0})),
                        (_, None) => rep.fail(sc, "grids_at_should_be_some", json!({"p":pj})),
                        (1, Some(v)) => {
                            if v.0 != [0.0; 4] {
                                rep.fail(sc, "null_grid_value", json!({"p":pj,"observed":v.0}));
                            }
                        }
                        (_, Some(v)) => {
                            let e = dec_expected(p);
                            if !cmp_vec(&e, &v, tol_of(p)) {
                                rep.fail(sc, "grids_at_value", json!({"p":pj,"expected":e,"observed":v.0,"selected_file":p.file,"tol":tol_of(p)}));
                            }
                        }
                    }
                }
            }
        }
    }

    // 3b. overlapping siblings: the value of ONE of the admissible sub-grids (spec/Grid.tla: ChainEnds)
    for o in sc["oneof"].as_array().map(|a| a.as_slice()).unwrap_or(&[]) {
        let (x, y) = (o[0].as_i64().unwrap(), o[1].as_i64().unwrap());
        let c = Coor4D::raw(frame.x_query(x, ntv2), frame.y_query(y, ntv2), 100.0, 2020.0);
        let alts: Vec<Vec<f64>> = o[2]
            .as_array()
            .unwrap()
            .iter()
            .map(|a| {
                let a: Vec<f64> = a.as_array().unwrap().iter().map(|v| v.as_f64().unwrap()).collect();
                let val: Vec<f64> = (0..bands).map(|b| a[1 + b] / (a[0] * scale as f64)).collect();
                conv.dec.iter().map(|(b, s)| s * conv.to_internal(val[*b - 1])).collect()
            })
            .collect();
        rep.evals += 1;
        let pj = json!({"x":x,"y":y,"lon":c[0],"lat":c[1]});
        match guarded(|| grids[0].as_ref().unwrap().at(&c, 0.0)) {
            Err(msg) => rep.fail(sc, "panic_at", json!({"p":pj,"margin":0.0,"msg":msg})),
            Ok(None) => rep.fail(sc, "at_should_be_some", json!({"p":pj,"margin":0.0,"overlapping_siblings":true})),
            Ok(Some(v)) => {
                rep.compared += 1;
                rep.oneof_compared += 1;
                rep.nontrivial.insert(format!("{}|oneof|{}|{}", sc["id"], x, y));
                if !alts.iter().any(|e| cmp_vec(e, &v, 1e-6 * maxval[0])) {
                    rep.fail(sc, "overlapping_siblings_value", json!({"p":pj,"expected_one_of":alts,"observed":v.0}));
                }
            }
        }
    }

    // 3c. operators for which the documentation settles nothing on this kind of grid: they return
    for op in sc["cross"].as_array().map(|a| a.as_slice()).unwrap_or(&[]) {
        let opn = op.as_str().unwrap_or("");
        let def = match opn {
            "deformation" => format!("deformation dt=1 grids={}", names[0]),
            _ => format!("{} grids={}", opn, names[0]),
        };
        rep.evals += 1;
        let h = match guarded(|| ctx.op(&def).map_err(|e| format!("{e:?}"))) {
            Err(msg) => {
                rep.fail(sc, "panic_op", json!({"def":def,"msg":msg}));
                continue;
            }
            Ok(Err(_)) => continue, // refused: admissible
            Ok(Ok(h)) => h,
        };
        let e = Ellipsoid::default();
        for p in &pts {
            let c = coord(p);
            let input = match opn {
                "deformation" if !exact => {
                    let x = e.cartesian(&c);
                    Coor4D::raw(x[0], x[1], x[2], 2020.0)
                }
                "deflection" => Coor4D::raw(frame.y_deg(p.y), frame.x_deg(p.x), 0.0, 0.0),
                _ => c,
            };
            for (dir, dn) in [(Fwd, "F"), (Inv, "I")] {
                rep.evals += 1;
                rep.cross_calls += 1;
                let mut d = [input];
                if let Err(msg) = guarded(|| ctx.apply(h, dir, &mut d).map(|_| ()).unwrap_or(())) {
                    rep.fail(sc, "panic_apply", json!({"p":{"x":p.x,"y":p.y,"def":def},"dir":dn,"msg":msg}));
                }
            }
        }
    }

    // 4. the operators
    let glist = list_text(sc, &names);
    let refused = sc["refused"].as_u64().unwrap();
    let mut defs: Vec<(String, &str)> = vec![];
    match kind {
        "deformation" => {
            defs.push((format!("deformation raw dt={} grids={glist}", sc["deform"]["dt"]), "deformation_raw"));
            defs.push((format!("deformation dt={} grids={glist}", sc["deform"]["dt"]), "deformation"));
            defs.push((format!("deformation raw t_epoch={} grids={glist}", sc["deform"]["t_epoch"]), "deformation_epoch"));
        }
        "geoid" => {
            defs.push((format!("gridshift grids={glist}"), "gridshift"));
            defs.push((format!("deflection grids={glist}"), "deflection"));
        }
        _ => defs.push((format!("gridshift grids={glist}"), "gridshift")),
    }
    let ellps = Ellipsoid::named("GRS80").unwrap();
    for (def, opk) in defs {
        rep.evals += 1;
        let h = match guarded(|| ctx.op(&def).map_err(|e| format!("{e:?}"))) {
            Err(msg) => {
                rep.fail(sc, "panic_op", json!({"def":def,"msg":msg}));
                continue;
            }
            Ok(Err(e)) => {
                if refused == 0 {
                    rep.fail(sc, "op_refused", json!({"def":def,"err":e}));
                }
                continue;
            }
            Ok(Ok(h)) => {
                if refused == 1 {
                    rep.fail(sc, "op_should_be_refused", json!({"def":def}));
                    continue;
                }
                h
            }
        };
        if refused != 0 {
            rep.nontrivial.insert(format!("refused|{}", def));
        }
        // every grid optional and missing: no grid is left, every point is outside all grids
        let empty_list = sc["all_optional_missing"].as_bool().unwrap_or(false);
        for p in &pts {
            let c = coord(p);
            let tol = tol_of(p);
            let compare = p.flag != 9;
            if compare && empty_list {
                rep.empty_list_compared += 1;
                rep.nontrivial.insert(format!("{}|{}|empty|{}|{}", sc["id"], opk, p.x, p.y));
            }
            let pj = json!({"x":p.x,"y":p.y,"lon":c[0],"lat":c[1],"flag":p.flag,"selected_file":p.file,"def":def});
            if compare && p.flag >= 2 {
                rep.nontrivial.insert(format!("{}|{}|{}|{}", sc["id"], opk, p.x, p.y));
            }
            match opk {
                "gridshift" => {
                    for (dir, dn) in [(Fwd, "F"), (Inv, "I")] {
                        rep.evals += 1;
                        let (n, out) = match apply1(&ctx, h, dir, c) {
                            Ok(v) => v,
                            Err(msg) => {
                                rep.fail(sc, "panic_apply", json!({"p":pj,"dir":dn,"msg":msg}));
                                continue;
                            }
                        };
                        if !compare {
                            rep.not_compared += 1;
                            continue;
                        }
                        rep.compared += 1;
                        match p.flag {
                            0 => {
                                if n != 0 || !has_nan(&out) {
                                    let w = if dn == "I" && n == 0 && bits_same(&out, &c) { "outside_inverse_unchanged_uncounted" } else if empty_list { "no_grid_left_not_failed:gridshift" } else { "outside_not_failed" };
                                    rep.fail(sc, w, json!({"p":pj,"dir":dn,"count":n,"observed":fmt4(&out),"expected":"count 0, tuple carries NaN"}));
                                }
                            }
                            1 => {
                                if n != 1 || !bits_same(&out, &c) {
                                    rep.fail(sc, "null_grid_not_unchanged", json!({"p":pj,"dir":dn,"count":n,"input":fmt4(&c),"observed":fmt4(&out)}));
                                }
                            }
                            _ => {
                                let sgn = if dn == "F" { 1.0 } else { -1.0 };
                                let delta: Vec<f64> = conv.el.iter().map(|(b, s)| if *b == 0 { 0.0 } else { sgn * s * conv.to_internal(p.val[*b - 1]) }).collect();
                                if n != 1 {
                                    // the inverse of a 2-D shift is an iteration; it is compared at points strictly inside a
                                    // cell and a selection region only (see the suite's assumptions): on a border, where the
                                    // iterate may step into the margin claimed by another grid, giving up honestly (count 0,
                                    // NaN) is admissible
                                    if dn == "I" && bands >= 2 && !p.inner && n == 0 && has_nan(&out) {
                                        rep.compared -= 1;
                                        rep.not_compared += 1;
                                        continue;
                                    }
                                    rep.fail(sc, "inside_not_counted", json!({"p":pj,"dir":dn,"count":n,"observed":fmt4(&out)}));
                                    continue;
                                }
                                if bands == 1 || dn == "F" {
                                    // exact rule: out = in + delta (heights subtracted forward, shifts added forward)
                                    let mut ok = out[3].to_bits() == c[3].to_bits();
                                    for e in 0..3 {
                                        if conv.el[e].0 == 0 {
                                            ok &= out[e].to_bits() == c[e].to_bits();
                                        } else {
                                            let want = c[e] + delta[e];
                                            ok &= close_to(want, out[e], tol + if exact { 0.0 } else { 4e-16 });
                                        }
                                    }
                                    if !ok {
                                        rep.fail(sc, "shift_value", json!({"p":pj,"dir":dn,"input":fmt4(&c),"expected_delta":delta,
                                            "observed_delta":[out[0]-c[0],out[1]-c[1],out[2]-c[2]],"tol":tol}));
                                    }
                                } else if p.inner {
                                    // inverse of a 2-D shift: the solution t of forward(t) = p (iterative in the code).
                                    // Checked relationally with the (already compared) forward operator, and to first
                                    // order against the specification's value at p.
                                    let first_order = (0..2).all(|e| close_to(c[e] + delta[e], out[e], 0.02 * maxval[p.file - 1] + 1e-15));
                                    let back = apply1(&ctx, h, Fwd, out);
                                    let closed = match &back {
                                        Ok((1, b)) => (0..2).all(|e| close_to(c[e], b[e], 1e-11)),
                                        _ => false,
                                    };
                                    if !first_order || !closed || out[2].to_bits() != c[2].to_bits() || out[3].to_bits() != c[3].to_bits() {
                                        rep.fail(sc, "inverse_shift", json!({"p":pj,"input":fmt4(&c),"observed":fmt4(&out),"expected_first_order_delta":delta,
                                            "forward_of_result":back.map(|b| fmt4(&b.1)).unwrap_or(json!("panic"))}));
                                    }
                                }
                            }
                        }
                    }
                }
                "deformation_raw" | "deformation" | "deformation_epoch" => {
                    // the operator works on cartesian coordinates and looks the grid up at the geographic
                    // position recomputed from them: only points strictly inside a selection region are compared
                    let t_obs = sc["deform"]["t_obs"].as_f64().unwrap();
                    let geo = Coor4D::raw(c[0], c[1], 0.0, t_obs);
                    let cart = ellps.cartesian(&geo);
                    let cart = Coor4D::raw(cart[0], cart[1], cart[2], t_obs);
                    // duration: dt if given, else observation epoch - frame epoch (Grid.tla: Duration)
                    let duration = if opk == "deformation_epoch" { sc["deform"]["duration"].as_f64().unwrap() } else { sc["deform"]["dt"].as_f64().unwrap() };
                    for (dir, dn) in [(Fwd, "F"), (Inv, "I")] {
                        rep.evals += 1;
                        let (n, out) = match apply1(&ctx, h, dir, cart) {
                            Ok(v) => v,
                            Err(msg) => {
                                rep.fail(sc, "panic_apply", json!({"p":pj,"dir":dn,"msg":msg}));
                                continue;
                            }
                        };
                        if !compare || !(p.inner || p.flag == 0 || p.flag == 1) {
                            rep.not_compared += 1;
                            continue;
                        }
                        rep.compared += 1;
                        match p.flag {
                            0 => {
                                if n != 0 || !has_nan(&out) {
                                    rep.fail(sc, if empty_list { "no_grid_left_not_failed:deformation" } else { "outside_not_failed" }, json!({"p":pj,"dir":dn,"count":n,"observed":fmt4(&out),"expected":"count 0, tuple carries NaN"}));
                                }
                            }
                            1 => {
                                if n != 1 || !bits_same(&out, &cart) {
                                    rep.fail(sc, "null_grid_not_unchanged", json!({"p":pj,"dir":dn,"count":n,"input":fmt4(&cart),"observed":fmt4(&out)}));
                                }
                            }
                            _ => {
                                let sgn = if dn == "F" { 1.0 } else { -1.0 };
                                // local east / north / up velocity in m/yr, with the forward sign
                                let enu: Vec<f64> = conv.el.iter().map(|(b, s)| sgn * s * conv.to_internal(p.val[*b - 1])).collect();
                                let (sl, cl) = c[0].sin_cos();
                                let (sp, cp) = c[1].sin_cos();
                                let want = [
                                    duration * (-sl * enu[0] - sp * cl * enu[1] + cp * cl * enu[2]),
                                    duration * (cl * enu[0] - sp * sl * enu[1] + cp * sl * enu[2]),
                                    duration * (cp * enu[1] + sp * enu[2]),
                                ];
                                let t = duration * tol;
                                let raw = opk != "deformation";
                                let obs = if raw { [out[0], out[1], out[2]] } else { [out[0] - cart[0], out[1] - cart[1], out[2] - cart[2]] };
                                let abs = if raw { 1e-12 } else { 1e-8 };
                                let mut ok = n == 1 && (0..3).all(|e| close_to(want[e], obs[e], t + abs));
                                if raw {
                                    let len = (want[0] * want[0] + want[1] * want[1] + want[2] * want[2]).sqrt();
                                    ok &= close_to(len, out[3], 2.0 * t + abs);
                                }
                                if !ok {
                                    let reversed = n == 1 && (0..3).all(|e| close_to(-want[e], obs[e], t + abs));
                                    let w = if opk == "deformation_epoch" && reversed { "deformation_epoch_sign_reversed" } else if opk == "deformation_epoch" { "deformation_epoch_value" } else { "deformation_value" };
                                    rep.fail(sc, w, json!({"p":pj,"dir":dn,"count":n,"expected":want,"observed":obs,"observed_tuple":fmt4(&out),"enu_m_per_yr":enu,"duration":duration,"tol":t}));
                                }
                            }
                        }
                    }
                }
                "deflection" => {
                    rep.evals += 1;
                    let input = Coor4D::raw(frame.y_deg(p.y), frame.x_deg(p.x), 0.0, 0.0);
                    let (n, out) = match apply1(&ctx, h, Fwd, input) {
                        Ok(v) => v,
                        Err(msg) => {
                            rep.fail(sc, "panic_apply", json!({"p":pj,"msg":msg}));
                            continue;
                        }
                    };
                    if !compare || !(p.inner || p.flag == 0 || p.flag == 1) {
                        rep.not_compared += 1;
                        continue;
                    }
                    rep.compared += 1;
                    if p.flag == 0 {
                        if n != 0 || !has_nan(&out) {
                            rep.fail(sc, if empty_list { "no_grid_left_not_failed:deflection" } else { "outside_not_failed" }, json!({"p":pj,"count":n,"observed":fmt4(&out),"expected":"count 0, tuple carries NaN"}));
                        }
                        continue;
                    }
                    if p.flag == 1 {
                        if n != 1 || !bits_same(&out, &input) {
                            rep.fail(sc, "null_grid_not_unchanged", json!({"p":pj,"count":n,"input":fmt4(&input),"observed":fmt4(&out)}));
                        }
                        continue;
                    }
                    // geoid slope per metre towards north / east -> angle in arc-seconds; the sign
                    // convention of the deflection components is not documented: magnitudes only
                    let (gn, ge) = p.grad.unwrap();
                    let lat = frame.y_deg(p.y).to_radians();
                    let u = (1.0f64 / 64.0).to_radians();
                    let m_per_u_north = ellps.meridian_radius_of_curvature(lat) * u;
                    let m_per_u_east = ellps.prime_vertical_radius_of_curvature(lat) * lat.cos() * u;
                    let xi = (gn / m_per_u_north).atan().to_degrees() * 3600.0;
                    let eta = (ge / m_per_u_east).atan().to_degrees() * 3600.0;
                    // ("a coarse estimate": the operator steps one metre along the meridian / parallel through
                    //  series expansions; 1e-3 relative is far below the effect of any exchanged row, column or weight)
                    let t = |v: f64| 1e-3 * v.abs() + 1e-7;
                    if n != 1 || !close_to(xi.abs(), out[0].abs(), t(xi)) || !close_to(eta.abs(), out[1].abs(), t(eta)) {
                        rep.fail(sc, "deflection_value", json!({"p":pj,"count":n,"expected_abs":[xi.abs(),eta.abs()],"observed":fmt4(&out)}));
                    }
                }
                _ => {}
            }
        }
    }
}

fn fmt4(c: &Coor4D) -> Value {
    Value::Array(c.0.iter().map(|x| if x.is_nan() { json!("NaN") } else { json!(x) }).collect())
}

fn cmd_c08(input: &str, output: &str) -> i32 {
    quiet_panics();
    let f = std::fs::File::open(input).expect("cannot open input");
    let mut w = std::io::BufWriter::new(std::fs::File::create(output).expect("cannot create output"));
    let mut rep = Report::default();
    let mut scenarios = 0;
    for line in std::io::BufReader::new(f).lines() {
        let line = line.unwrap();
        if line.trim().is_empty() {
            continue;
        }
        let sc: Value = serde_json::from_str(&line).expect("bad json");
        scenarios += 1;
        run_scenario(&sc, &mut rep);
    }
    for l in &rep.lines {
        writeln!(w, "{}", l).unwrap();
    }
    writeln!(w, "{}", json!({"summary":true,"scenarios":scenarios,"evaluations":rep.evals,"compared":rep.compared,
        "not_compared":rep.not_compared,"mismatches":rep.fails,"per_key":rep.per_key,"nontrivial":rep.nontrivial.len(),
        "spelled_rejected":rep.spelled_rejected,"spelled_read":rep.spelled_read,"spelled_failed":rep.spelled_failed,"empty_list_compared":rep.empty_list_compared,
        "oneof_compared":rep.oneof_compared,"cross_calls":rep.cross_calls})).unwrap();
    println!("c08: {} scenarios, {} evaluations, {} compared, {} mismatches", scenarios, rep.evals, rep.compared, rep.fails);
    if rep.fails == 0 { 0 } else { 1 }
}

// ---------------------------------------------------------------------------------------------
// C15
// ---------------------------------------------------------------------------------------------
//C15-BEGIN
const REPO_GEODESY: &str = "/repo/geodesy";

fn repo_dir() -> String {
    std::env::var("VERIF_REPO").map(|r| format!("{r}/geodesy")).unwrap_or_else(|_| REPO_GEODESY.to_string())
}

struct Case {
    fmt: String,
    kind: String,
    frame: Frame,
    scale: i64,
    file: Option<FileA>,
    shipped: String,
    /// the margin classes of the specification's query enumeration (spec/Grid.tla: MarginClasses)
    margins: Vec<f64>,
}

impl Case {
    fn from_json(v: &Value) -> Case {
        let shipped = v["shipped"].as_str().unwrap_or("").to_string();
        Case {
            fmt: v["fmt"].as_str().unwrap_or("").to_string(),
            kind: v["kind"].as_str().unwrap_or("").to_string(),
            frame: Frame::from_name(v["frame"].as_str().unwrap_or("")),
            scale: v["scale"].as_i64().unwrap_or(1),
            file: if shipped.is_empty() { Some(FileA::from_json(&v["file"])) } else { None },
            shipped,
            margins: v["margins"].as_array().map(|a| a.iter().filter_map(|m| m.as_str().and_then(|t| t.parse::<f64>().ok())).collect()).unwrap_or_default(),
        }
    }
    fn base_bytes(&self) -> Vec<u8> {
        match &self.file {
            Some(f) => encode_file(f, &self.fmt, self.frame, self.scale),
            None => std::fs::read(format!("{}/{}", repo_dir(), self.shipped)).expect("cannot read shipped grid file"),
        }
    }
}

// ---- Corrupt(field, class) on generated files --------------------------------------------------

fn corrupt_gravsoft(c: &Case, token: usize, field: &str, class: &str) -> Vec<u8> {
    let f = c.file.as_ref().unwrap();
    let g = &f.subs[0];
    let (mut h, mut rows) = gravsoft_tokens(g, c.frame, c.scale, &f.spell[0]);
    if field == "token" {
        let i = token - 1;
        let partner = [1usize, 0, 3, 2, 4, 5][i];
        h[i] = match class {
            "zero" => "0".to_string(),
            "neg" => if h[i].starts_with('-') { h[i][1..].to_string() } else { format!("-{}", h[i]) },
            "bad" => "x7".to_string(),
            "inf" => "inf".to_string(),
            "plus" => match i {
                0 => c.frame.y_text(g.south() + g.dy),
                1 => c.frame.y_text(g.n + g.dy),
                2 => c.frame.x_text(g.w + g.dy),
                3 => c.frame.x_text(g.east() + g.dy),
                4 => c.frame.d_text(g.dy + g.dy),
                _ => c.frame.d_text(g.dx + g.dy),
            },
            "frac" => match i {
                0 => c.frame.y_text(g.south() + g.dy / 2),
                1 => c.frame.y_text(g.n + g.dy / 2),
                2 => c.frame.x_text(g.w + g.dy / 2),
                3 => c.frame.x_text(g.east() + g.dy / 2),
                4 => c.frame.d_text(g.dy + g.dy / 2),
                _ => c.frame.d_text(g.dx + g.dy / 2),
            },
            "eq" => h[partner].clone(),
            _ => h[i].clone(),
        };
    } else {
        match class {
            "drop_last" => {
                rows.last_mut().unwrap().pop();
            }
            "extra" => rows.push(vec!["1".to_string()]),
            "header_only" => rows.clear(),
            "five_numbers" => {
                rows.clear();
                h.truncate(5);
            }
            _ => {}
        }
    }
    gravsoft_layout(&h, &rows, f.text)
}

fn corrupt_ntv2(c: &Case, field: &str, class: &str, k: usize) -> Vec<u8> {
    let f = c.file.as_ref().unwrap();
    let (mut b, offsets) = encode_ntv2(f, c.scale);
    let be = f.big_endian;
    let rd_i = |b: &[u8], o: usize| -> i32 { let x: [u8; 4] = b[o..o + 4].try_into().unwrap(); if be { i32::from_be_bytes(x) } else { i32::from_le_bytes(x) } };
    let rd_f = |b: &[u8], o: usize| -> f64 { let x: [u8; 8] = b[o..o + 8].try_into().unwrap(); if be { f64::from_be_bytes(x) } else { f64::from_le_bytes(x) } };
    let wr_i = |b: &mut Vec<u8>, o: usize, v: i32| b[o..o + 4].copy_from_slice(&if be { v.to_be_bytes() } else { v.to_le_bytes() });
    let wr_f = |b: &mut Vec<u8>, o: usize, v: f64| b[o..o + 8].copy_from_slice(&if be { v.to_be_bytes() } else { v.to_le_bytes() });
    let wr_s = |b: &mut Vec<u8>, o: usize, v: &[u8]| {
        let mut x = v.to_vec();
        x.resize(8, b' ');
        b[o..o + 8].copy_from_slice(&x[..8]);
    };
    let int_of = |v: i32, class: &str| match class { "zero" => 0, "minus" => -1, "less" => v - 1, "more" => v + 1, _ => i32::MAX };
    let str_of = |own: &[u8], class: &str| -> Vec<u8> {
        match class { "nonutf8" => vec![0xff, 0xfe, 0xc0, 0x80, b'A', 0xff, b' ', b' '], "none" => b"NONE".to_vec(), "self" => own.to_vec(), "unknown" => b"ZZZ".to_vec(), _ => b"METERS".to_vec() }
    };
    if k == 0 {
        match field {
            "NUM_OREC" | "NUM_SREC" | "NUM_FILE" => {
                let o = match field { "NUM_OREC" => 8, "NUM_SREC" => 24, _ => 40 };
                let v = rd_i(&b, o);
                wr_i(&mut b, o, int_of(v, class));
            }
            _ => wr_s(&mut b, 56, &str_of(b"", class)),
        }
        return b;
    }
    let p = offsets[k - 1];
    let (name, parent, slat, nlat, elon, wlon, dlat, dlon, cnt) = (p + 8, p + 24, p + 72, p + 88, p + 104, p + 120, p + 136, p + 152, p + 168);
    let g = &f.subs[f.order[k - 1] - 1];
    match field {
        "one_row" => {
            let v = rd_f(&b, slat);
            wr_f(&mut b, nlat, v);
            wr_i(&mut b, cnt, g.cols as i32);
        }
        "one_col" => {
            let v = rd_f(&b, elon);
            wr_f(&mut b, wlon, v);
            wr_i(&mut b, cnt, g.rows as i32);
        }
        "none_named_none" => {
            wr_s(&mut b, name, b"NONE");
            wr_s(&mut b, parent, b"NONE");
        }
        "GS_COUNT" => {
            let v = rd_i(&b, cnt);
            wr_i(&mut b, cnt, int_of(v, class));
        }
        "SUB_NAME" | "PARENT" => {
            let own = b[name..name + 8].to_vec();
            let o = if field == "SUB_NAME" { name } else { parent };
            wr_s(&mut b, o, &str_of(&own, class));
        }
        _ => {
            let (o, partner) = match field {
                "S_LAT" => (slat, nlat),
                "N_LAT" => (nlat, slat),
                "E_LONG" => (elon, wlon),
                "W_LONG" => (wlon, elon),
                "LAT_INC" => (dlat, dlat),
                _ => (dlon, dlon),
            };
            let v = rd_f(&b, o);
            let nv = match class { "zero" => 0.0, "nan" => f64::NAN, "inf" => f64::INFINITY, "neg" => -v, "tiny" => 1e-300, "huge" => 1e300, _ => rd_f(&b, partner) };
            wr_f(&mut b, o, nv);
        }
    }
    b
}

/// fault row <<t, a, b, c, fs, cl>> -> the damaged bytes
fn apply_fault(c: &Case, base: &[u8], ft: &Value) -> Vec<u8> {
    let a = ft[1].as_u64().unwrap_or(0) as usize;
    let b = ft[2].as_u64().unwrap_or(0) as usize;
    let k = ft[3].as_u64().unwrap_or(0) as usize;
    match ft[0].as_str().unwrap_or("") {
        "trunc" => base[..a.min(base.len())].to_vec(),
        "flip" => {
            let mut x = base.to_vec();
            if a < x.len() {
                x[a] ^= 1 << b;
            }
            x
        }
        // hand-written reproductions: overwrite bytes at offset a with the hex string fs / replace the whole file by the text fs
        "patch" => {
            let mut x = base.to_vec();
            let hex = ft[4].as_str().unwrap_or("");
            for (i, k) in (0..hex.len() / 2).enumerate() {
                if a + i < x.len() {
                    x[a + i] = u8::from_str_radix(&hex[2 * k..2 * k + 2], 16).unwrap_or(0);
                }
            }
            x
        }
        "replace" => ft[4].as_str().unwrap_or("").as_bytes().to_vec(),
        "corrupt" => {
            let (fs, cl) = (ft[4].as_str().unwrap_or(""), ft[5].as_str().unwrap_or(""));
            if c.fmt == "ntv2" { corrupt_ntv2(c, fs, cl, k) } else { corrupt_gravsoft(c, a, fs, cl) }
        }
        _ => base.to_vec(),
    }
}

/// Points a decoded (possibly damaged) grid is queried at
fn query_points(c: &Case) -> Vec<Coor4D> {
    let mut pts = vec![];
    let ntv2 = c.fmt == "ntv2";
    if let Some(f) = &c.file {
        let (mut x0, mut x1, mut y0, mut y1) = (i64::MAX, i64::MIN, i64::MAX, i64::MIN);
        for g in &f.subs {
            x0 = x0.min(g.w);
            x1 = x1.max(g.east());
            y0 = y0.min(g.south());
            y1 = y1.max(g.n);
        }
        let mut x = x0 - 24;
        while x <= x1 + 24 {
            let mut y = y0 - 24;
            while y <= y1 + 24 {
                pts.push(Coor4D::raw(c.frame.x_query(x, ntv2), c.frame.y_query(y, ntv2), 10.0, 2020.0));
                y += 2;
            }
            x += 2;
        }
    } else {
        // the shipped grids: every whole and half degree of 52..60 N x 6..18 E, 38..44 N x -2..5 E, a coarse globe
        let mut add = |la0: f64, la1: f64, lo0: f64, lo1: f64, step: f64| {
            let mut la = la0;
            while la <= la1 {
                let mut lo = lo0;
                while lo <= lo1 {
                    pts.push(Coor4D::geo(la, lo, 10.0, 2020.0));
                    lo += step;
                }
                la += step;
            }
        };
        add(52.0, 60.0, 6.0, 18.0, 0.5);
        add(38.0, 44.0, -2.0, 5.0, 0.5);
        add(62.0, 70.0, 16.0, 28.0, 1.0);
        add(-90.0, 90.0, -180.0, 180.0, 15.0);
    }
    for v in [0.0, f64::NAN, f64::INFINITY, f64::NEG_INFINITY, 1e300, -1e300, 1e-300] {
        pts.push(Coor4D::raw(v, v, 0.0, 0.0));
        pts.push(Coor4D::raw(v, 0.9, 0.0, 0.0));
        pts.push(Coor4D::raw(0.2, v, 0.0, 0.0));
    }
    pts
}

/// Everything a user may do with a grid that decoded: contains / at with several margins, and
/// the operators built on it.  Returns Err(panic message) if any of it panics.
fn query_all(grid: Arc<dyn Grid>, pts: &[Coor4D], with_ops: bool, margins: &[f64]) -> Result<usize, String> {
    let mut n = 0;
    let g2 = grid.clone();
    guarded(move || {
        let mut k = 0usize;
        for p in pts {
            for m in [0.0, 0.5, 3.0] {
                if g2.contains(p, m) {
                    k += 1;
                }
                if g2.at(p, m).is_some() {
                    k += 1;
                }
            }
        }
        k
    })
    .map(|k| n += k)?;
    if with_ops {
        let bands = guarded(|| grid.bands())?;
        let mut map = BTreeMap::new();
        map.insert("damaged.grid".to_string(), grid.clone());
        let mut ctx = HCtx::with(map);
        let def = if bands == 3 { "deformation dt=10 grids=damaged.grid" } else { "gridshift grids=damaged.grid" };
        if let Ok(h) = guarded(|| ctx.op(def))?.map_err(|e| format!("{e:?}")) {
            let ctx = &ctx;
            guarded(move || {
                for dir in [Fwd, Inv] {
                    let mut d: Vec<Coor4D> = pts.to_vec();
                    if bands == 3 {
                        let e = Ellipsoid::default();
                        for x in d.iter_mut() {
                            *x = e.cartesian(x);
                        }
                    }
                    let _ = ctx.apply(h, dir, &mut d);
                }
            })?;
        }
    }
    // the margin is an argument of the query like the point: every margin class of the specification
    // (negative, NaN, infinite), on every 7th lattice point and on the exceptional points
    let mut margin_panics: Vec<String> = vec![];
    for &m in margins {
        let g3 = grid.clone();
        let r = guarded(move || {
            let mut k = 0usize;
            let special = pts.len().saturating_sub(21);
            for (i, p) in pts.iter().enumerate() {
                if i % 7 != 0 && i < special {
                    continue;
                }
                if g3.contains(p, m) {
                    k += 1;
                }
                if g3.at(p, m).is_some() {
                    k += 1;
                }
            }
            k
        });
        match r {
            Ok(k) => n += k,
            Err(msg) => margin_panics.push(format!("[margin {m}] {msg}")),
        }
    }
    if !margin_panics.is_empty() {
        return Err(margin_panics.join(" || "));
    }
    Ok(n)
}

/// fault <job.json> <out.ndjson> <progress>: job = {"case": FILE record, "start": index}
fn cmd_fault(job: &str, output: &str, progress: &str) -> i32 {
    quiet_panics();
    let j: Value = serde_json::from_str(&std::fs::read_to_string(job).expect("cannot read job")).expect("bad job json");
    let case = Case::from_json(&j["case"]);
    let start = j["start"].as_u64().unwrap_or(0) as usize;
    let with_ops = j["ops"].as_bool().unwrap_or(true);
    let base = case.base_bytes();
    let pts = query_points(&case);
    let faults = j["case"]["faults"].as_array().cloned().unwrap_or_default();
    let mut w = std::io::BufWriter::new(std::fs::OpenOptions::new().create(true).append(true).open(output).expect("cannot open output"));
    let (mut n_err, mut n_ok, mut n_bad, mut evals) = (0usize, 0usize, 0usize, 0usize);
    for (i, ft) in faults.iter().enumerate().skip(start) {
        // index of the fault in progress and the outcome counts so far (read by the driver if this process dies)
        std::fs::write(progress, format!("{i} {n_err} {n_ok} {evals}")).ok();
        let bytes = apply_fault(&case, &base, ft);
        evals += 1;
        // self-test of the driver's three detection paths (panic / abort / hang of the code under test)
        match ft[0].as_str().unwrap_or("") {
            "selftest_abort" => std::process::abort(),
            "selftest_hang" => loop {
                std::thread::sleep(std::time::Duration::from_millis(50));
            },
            _ => {}
        }
        let selftest_panic = ft[0] == "selftest_panic";
        let decoded = if selftest_panic { guarded(|| -> Result<Arc<dyn Grid>, String> { panic!("selftest panic") }) } else { decode(&case.fmt, &bytes) };
        let outcome = match decoded {
            Err(msg) => Some(("panic_decode", msg)),
            Ok(Err(_)) => {
                n_err += 1;
                None
            }
            Ok(Ok(g)) => match query_all(g, &pts, with_ops, &case.margins) {
                Ok(k) => {
                    evals += k.max(1);
                    n_ok += 1;
                    None
                }
                Err(msg) if msg.starts_with("[margin") => Some(("panic_margin", msg)),
                Err(msg) => Some(("panic_query", msg)),
            },
        };
        if let Some((what, msg)) = outcome {
            n_bad += 1;
            writeln!(w, "{}", json!({"i":i,"fault":ft,"what":what,"msg":msg,"len":bytes.len()})).unwrap();
            w.flush().unwrap();
        }
    }
    writeln!(w, "{}", json!({"summary":true,"start":start,"faults":faults.len(),"err":n_err,"ok_safe":n_ok,"violating":n_bad,"evaluations":evals})).unwrap();
    w.flush().unwrap();
    std::fs::write(progress, "done").ok();
    0
}

/// encode <case.json> <outfile>: {"case": FILE record, "fault": row or null} -> the bytes
fn cmd_encode(casefile: &str, out: &str) -> i32 {
    let j: Value = serde_json::from_str(&std::fs::read_to_string(casefile).expect("cannot read case")).expect("bad json");
    let case = Case::from_json(&j["case"]);
    let base = case.base_bytes();
    let bytes = if j["fault"].is_array() { apply_fault(&case, &base, &j["fault"]) } else { base };
    std::fs::write(out, bytes).expect("cannot write");
    0
}

// ---- well-formed files -------------------------------------------------------------------------

#[derive(Default)]
struct Wf {
    lines: Vec<Value>,
    fails: usize,
    tool: usize,
    evals: usize,
    cases: usize,
    nodes_read: usize,
    spelled_rejected: usize,
    spelled_read: BTreeMap<String, usize>,
}
impl Wf {
    fn fail(&mut self, id: &Value, what: &str, mut d: Value) {
        self.fails += 1;
        d["id"] = id.clone();
        d["what"] = json!(what);
        self.lines.push(d);
    }
    fn tool(&mut self, id: &Value, what: &str, mut d: Value) {
        self.tool += 1;
        d["id"] = id.clone();
        d["tool"] = json!(what);
        self.lines.push(d);
    }
}

fn subgrid_contains(g: &Sub, x: i64, y: i64) -> bool {
    x >= g.w && x <= g.east() && y >= g.south() && y <= g.n
}

/// Read a decoded grid back through Grid::at at the node positions and Grid::contains at the
/// borders, and compare with the abstract file.
fn read_back(wf: &mut Wf, id: &Value, c: &Case, f: &FileA, grid: &Arc<dyn Grid>, dec: &[(usize, f64)], conv: &Conv) {
    let ntv2 = c.fmt == "ntv2";
    let exact = c.frame != Frame::Angular;
    let maxv = conv.to_internal(f.subs.iter().map(|s| s.max_abs_node()).max().unwrap_or(0) as f64 / c.scale as f64).abs();
    let tol = if exact { 0.0 } else { 1e-6 * maxv };
    for (si, g) in f.subs.iter().enumerate() {
        let is_root = g.parent == "NONE";
        for r in 0..g.rows {
            for cc in 0..g.cols {
                let (x, y) = (g.w + cc as i64 * g.dx, g.n - r as i64 * g.dy);
                // a node that another (deeper or neighbouring) sub-grid may answer for is not read
                let covered = f.subs.iter().enumerate().any(|(j, h)| j != si && h.parent != "NONE" && subgrid_contains(h, x, y) && !is_ancestor(f, j, si));
                let upper = !is_root && (x == g.east() || y == g.n);
                // (which border of a sub-grid with exchanged bounds is its "upper" one is not for this check to say)
                // - neither its own borders, nor those of its children lying on a border of a root spelled this way
                let any_border = f.subs.iter().enumerate().any(|(j, h)| {
                    f.spell[j] != "asc"
                        && subgrid_contains(h, x, y)
                        && (x == h.w || x == h.east() || y == h.n || y == h.south())
                        && !(j == si && is_root)
                });
                if covered || upper || any_border {
                    continue;
                }
                let p = Coor4D::raw(c.frame.x_query(x, ntv2), c.frame.y_query(y, ntv2), 0.0, 0.0);
                wf.evals += 1;
                match guarded(|| grid.at(&p, 0.0)) {
                    Err(msg) => wf.fail(id, "panic_at_node", json!({"sub":g.name,"row":r,"col":cc,"msg":msg})),
                    Ok(None) => wf.fail(id, "node_not_contained", json!({"sub":g.name,"row":r,"col":cc,"lon":p[0],"lat":p[1]})),
                    Ok(Some(v)) => {
                        wf.nodes_read += 1;
                        let want: Vec<f64> = dec.iter().map(|(b, s)| s * conv.to_internal(g.nodes[r][cc][*b - 1] as f64 / c.scale as f64)).collect();
                        if !want.iter().enumerate().all(|(i, e)| close_to(*e, v[i], tol)) {
                            wf.fail(id, "node_value", json!({"sub":g.name,"row":r,"col":cc,"expected":want,"observed":v.0,"tol":tol}));
                        }
                    }
                }
            }
        }
        if !is_root {
            continue;
        }
        // the extent: an eighth of a cell inside / outside each border, and on it
        let (xm, ym) = ((g.w + g.east()) / 2, (g.south() + g.n) / 2);
        let probes = [
            (g.w, ym, true), (g.w + g.dx / 8, ym, true), (g.w - g.dx / 8, ym, false),
            (g.east(), ym, true), (g.east() - g.dx / 8, ym, true), (g.east() + g.dx / 8, ym, false),
            (xm, g.n, true), (xm, g.n - g.dy / 8, true), (xm, g.n + g.dy / 8, false),
            (xm, g.south(), true), (xm, g.south() + g.dy / 8, true), (xm, g.south() - g.dy / 8, false),
        ];
        for (x, y, want) in probes {
            // another root may legitimately contain a point outside this one
            let other = f.subs.iter().enumerate().any(|(j, h)| j != si && h.parent == "NONE" && subgrid_contains(h, x, y));
            if other && !want {
                continue;
            }
            let p = Coor4D::raw(c.frame.x_query(x, ntv2), c.frame.y_query(y, ntv2), 0.0, 0.0);
            wf.evals += 1;
            match guarded(|| grid.contains(&p, 0.0)) {
                Err(msg) => wf.fail(id, "panic_contains", json!({"sub":g.name,"x":x,"y":y,"msg":msg})),
                Ok(obs) => {
                    if obs != want {
                        wf.fail(id, "extent", json!({"sub":g.name,"x":x,"y":y,"expected":want,"observed":obs}));
                    }
                }
            }
        }
    }
}

fn is_ancestor(f: &FileA, anc: usize, of: usize) -> bool {
    let mut cur = of;
    for _ in 0..f.subs.len() {
        let p = &f.subs[cur].parent;
        match f.subs.iter().position(|s| &s.name == p) {
            Some(j) => {
                if j == anc {
                    return true;
                }
                cur = j;
            }
            None => return false,
        }
    }
    false
}

fn cmd_c15wf(input: &str, output: &str) -> i32 {
    quiet_panics();
    let f = std::fs::File::open(input).expect("cannot open input");
    let mut w = std::io::BufWriter::new(std::fs::File::create(output).expect("cannot create output"));
    let mut wf = Wf::default();
    for line in std::io::BufReader::new(f).lines() {
        let line = line.unwrap();
        if line.trim().is_empty() {
            continue;
        }
        let v: Value = serde_json::from_str(&line).expect("bad json");
        let id = v["id"].clone();
        let c = Case::from_json(&v);
        let Some(file) = c.file.clone() else { continue };
        wf.cases += 1;
        let bytes = c.base_bytes();
        // the harness's encoder and the specification's Encode must be the same relation
        if bytes.len() as u64 != v["speclen"].as_u64().unwrap_or(0) {
            wf.tool(&id, "length differs from the specification's", json!({"harness":bytes.len(),"spec":v["speclen"]}));
        }
        if c.fmt == "gravsoft" {
            let eol = if v["eol"] == "crlf" { "\r\n" } else { "\n" };
            let lines: Vec<String> = v["lines"].as_array().unwrap().iter().map(|l| l.as_str().unwrap().replace('~', "\t")).collect();
            let mut text = lines.join(eol);
            if v["final_eol"].as_bool().unwrap_or(false) {
                text += eol;
            }
            if text.as_bytes() != bytes.as_slice() {
                wf.tool(&id, "text differs from the specification's", json!({"harness":String::from_utf8_lossy(&bytes),"spec":text}));
            }
        } else {
            let be = file.big_endian;
            let recs = v["records"].as_array().unwrap();
            for (i, r) in recs.iter().enumerate() {
                let b = &bytes[16 * i..(16 * i + 16).min(bytes.len())];
                if b.len() < 16 {
                    break;
                }
                let key = r[0].as_str().unwrap();
                let t = r[1].as_str().unwrap();
                let i4 = |o: usize| { let x: [u8; 4] = b[o..o + 4].try_into().unwrap(); if be { i32::from_be_bytes(x) } else { i32::from_le_bytes(x) } };
                let f4 = |o: usize| { let x: [u8; 4] = b[o..o + 4].try_into().unwrap(); if be { f32::from_be_bytes(x) } else { f32::from_le_bytes(x) } };
                let f8 = |o: usize| { let x: [u8; 8] = b[o..o + 8].try_into().unwrap(); if be { f64::from_be_bytes(x) } else { f64::from_le_bytes(x) } };
                let keytext = String::from_utf8_lossy(&b[..8]).trim().to_string();
                let ok = match t {
                    "int" => keytext == key && i4(8) as i64 == r[2].as_i64().unwrap(),
                    "str" => keytext == key && String::from_utf8_lossy(&b[8..16]).trim() == r[3].as_str().unwrap(),
                    "real" => {
                        let a = r[4].as_i64().unwrap();
                        let want = match key {
                            "S_LAT" | "N_LAT" => (LAT0 * 64 + a) as f64 * 56.25,
                            // the specification holds -x (west-positive); in arc-seconds: -(LON0 * 64 + x) * 56.25
                            "E_LONG" | "W_LONG" => -((LON0 * 64 - a) as f64) * 56.25,
                            "LAT_INC" | "LONG_INC" => a as f64 * 56.25,
                            _ => f8(8),
                        };
                        keytext == key && f8(8) == want
                    }
                    "node" => f4(0) as f64 == r[4].as_i64().unwrap() as f64 / c.scale as f64 && f4(4) as f64 == r[5].as_i64().unwrap() as f64 / c.scale as f64,
                    "end" => keytext == "END",
                    _ => false,
                };
                if !ok {
                    wf.tool(&id, "record differs from the specification's", json!({"index":i,"spec":r,"bytes":b}));
                    break;
                }
            }
        }
        // decode with the real reader and read back
        wf.evals += 1;
        let conv = Conv::from_json(&json!({"el":[]}), &v["unit"], &v["dec"]);
        if v["spelled"].as_bool().unwrap_or(false) {
            // a header with exchanged bounds: refused, or the file under ONE of the specification's readings
            match decode(&c.fmt, &bytes) {
                Err(msg) => wf.fail(&id, "panic_decode_spelled", json!({"msg":msg,"case":v["file"]})),
                Ok(Err(_)) => wf.spelled_rejected += 1,
                Ok(Ok(g)) => {
                    let mut tried = vec![];
                    let mut matched = false;
                    for alt in v["alts"].as_array().unwrap() {
                        let mut fa = file.clone();
                        fa.subs = alt["subs"].as_array().unwrap().iter().map(Sub::from_json).collect();
                        let mut scratch = Wf::default();
                        read_back(&mut scratch, &id, &c, &fa, &g, &conv.dec.clone(), &conv);
                        wf.evals += scratch.evals;
                        if scratch.fails == 0 {
                            wf.nodes_read += scratch.nodes_read;
                            *wf.spelled_read.entry(format!("{}|{}|{}", c.fmt, file.spell.join(","), alt["reading"])).or_insert(0) += 1;
                            matched = true;
                            break;
                        }
                        tried.push(json!({"reading":alt["reading"],"mismatches":scratch.fails,"first":scratch.lines.first()}));
                    }
                    if !matched {
                        wf.fail(&id, "spelled_header_matches_no_reading", json!({"fmt":c.fmt,"kind":c.kind,"spell":file.spell,"layout":file.text,
                            "expected":"the file is refused, or decodes to the grid of one reading of the exchanged bounds (node values reproduced at the nodes)",
                            "observed":tried,"text":if c.fmt == "gravsoft" { String::from_utf8_lossy(&bytes).to_string() } else { String::new() }}));
                    }
                }
            }
            continue;
        }
        match decode(&c.fmt, &bytes) {
            Err(msg) => wf.fail(&id, "panic_decode_wellformed", json!({"msg":msg,"case":v["file"]})),
            Ok(Err(e)) => wf.fail(&id, "wellformed_rejected", json!({"err":e,"fmt":c.fmt,"kind":c.kind,"layout":file.text,"order":file.order,"endian":v["file"]["endian"]})),
            Ok(Ok(g)) => {
                let bands = file.subs[0].bands;
                if g.bands() != bands {
                    wf.fail(&id, "bands", json!({"expected":bands,"observed":g.bands()}));
                }
                read_back(&mut wf, &id, &c, &file, &g, &conv.dec.clone(), &conv);
            }
        }
    }
    let (cases, evals, fails, tool, nodes) = (wf.cases, wf.evals, wf.fails, wf.tool, wf.nodes_read);
    for l in &wf.lines {
        writeln!(w, "{}", l).unwrap();
    }
    writeln!(w, "{}", json!({"summary":true,"cases":cases,"evaluations":evals,"mismatches":fails,"tool_problems":tool,"nodes_read":nodes,
        "spelled_rejected":wf.spelled_rejected,"spelled_read":wf.spelled_read})).unwrap();
    println!("c15wf: {cases} files, {evals} evaluations, {fails} mismatches, {tool} tool problems");
    if tool > 0 { 2 } else if fails > 0 { 1 } else { 0 }
}

// ---- BaseGrid::plain: the constructor both readers end in ------------------------------------------

/// plain <cases.ndjson> <out.ndjson>: for every generated Gravsoft case the calls <<pad, cut, off, consistent, reads>>
/// of spec/GridFile.tla (PlainCalls): an error, or a grid that can be queried safely; where the grid
/// starts at the given offset, its node values are reproduced.
fn cmd_plain(input: &str, output: &str) -> i32 {
    quiet_panics();
    let f = std::fs::File::open(input).expect("cannot open input");
    let mut w = std::io::BufWriter::new(std::fs::File::create(output).expect("cannot create output"));
    let (mut calls, mut errs, mut oks, mut fails, mut evals, mut nodes_read) = (0usize, 0usize, 0usize, 0usize, 0usize, 0usize);
    for line in std::io::BufReader::new(f).lines() {
        let line = line.unwrap();
        if line.trim().is_empty() {
            continue;
        }
        let v: Value = serde_json::from_str(&line).expect("bad json");
        let c = Case::from_json(&v);
        let Some(file) = c.file.clone() else { continue };
        let g = &file.subs[0];
        // the header in the order of BaseGrid::plain, in model units
        let header = [g.n as f64, g.south() as f64, g.w as f64, g.east() as f64, g.dy as f64, g.dx as f64, g.bands as f64];
        let values: Vec<f32> = g.nodes.iter().flatten().flatten().map(|x| (*x as f64 / c.scale as f64) as f32).collect();
        for call in v["plain"].as_array().map(|a| a.as_slice()).unwrap_or(&[]) {
            let (pad, cut, off) = (call[0].as_u64().unwrap() as usize, call[1].as_u64().unwrap() as usize, call[2].as_i64().unwrap());
            let (consistent, reads) = (call[3].as_bool().unwrap(), call[4].as_bool().unwrap());
            let mut vec = vec![777.0f32; pad];
            vec.extend_from_slice(&values[..values.len() - cut]);
            let nodes_arg: Option<&[f32]> = if vec.is_empty() { None } else { Some(&vec) };
            let off_arg = match off { -1 => None, -2 => Some(usize::MAX), k => Some(k as usize) };
            calls += 1;
            evals += 1;
            let cj = json!({"header":header,"nodes":if vec.is_empty() { json!(null) } else { json!(format!("{} values", vec.len())) },
                "offset":match off { -1 => json!(null), -2 => json!("usize::MAX"), k => json!(k) },"grid_elements":values.len(),"consistent":consistent});
            let grid = match guarded(|| BaseGrid::plain(&header, nodes_arg, off_arg)) {
                Err(msg) => {
                    fails += 1;
                    writeln!(w, "{}", json!({"id":v["id"],"what":"panic_plain","call":cj,"msg":msg})).unwrap();
                    continue;
                }
                Ok(Err(_)) => {
                    errs += 1;
                    continue;
                }
                Ok(Ok(g)) => g,
            };
            oks += 1;
            // queries: every node, between and around the nodes, the specification's margins
            let mut panic = None;
            'q: for y in (g.south() - 12..=g.n + 12).step_by(2) {
                for x in (g.w - 12..=g.east() + 12).step_by(2) {
                    let p = Coor4D::raw(x as f64, y as f64, 0.0, 0.0);
                    for &m in c.margins.iter().filter(|m| m.is_finite() && **m >= 0.0).chain([3.0].iter()) {
                        evals += 2;
                        if let Err(msg) = guarded(|| (grid.contains(&p, m), grid.at(&p, m))) {
                            panic = Some(json!({"x":x,"y":y,"margin":m,"msg":msg}));
                            break 'q;
                        }
                    }
                }
            }
            if let Some(pj) = panic {
                fails += 1;
                writeln!(w, "{}", json!({"id":v["id"],"what":"panic_query_plain","call":cj,"query":pj,
                    "expected":"Err, or a grid that can be queried safely"})).unwrap();
                continue;
            }
            if reads {
                for r in 0..g.rows {
                    for cc in 0..g.cols {
                        let p = Coor4D::raw((g.w + cc as i64 * g.dx) as f64, (g.n - r as i64 * g.dy) as f64, 0.0, 0.0);
                        evals += 1;
                        let want: Vec<f64> = (0..g.bands).map(|b| ((g.nodes[r][cc][b] as f64 / c.scale as f64) as f32) as f64).collect();
                        match guarded(|| grid.at(&p, 0.0)) {
                            Ok(Some(got)) if (0..g.bands).all(|b| got[b] == want[b]) => nodes_read += 1,
                            other => {
                                fails += 1;
                                writeln!(w, "{}", json!({"id":v["id"],"what":"plain_node_value","call":cj,"row":r,"col":cc,"expected":want,
                                    "observed":format!("{other:?}")})).unwrap();
                            }
                        }
                    }
                }
            }
        }
    }
    writeln!(w, "{}", json!({"summary":true,"calls":calls,"err":errs,"ok":oks,"mismatches":fails,"evaluations":evals,"nodes_read":nodes_read})).unwrap();
    println!("plain: {calls} calls, {errs} refused, {oks} grids, {fails} mismatches");
    if fails > 0 { 1 } else { 0 }
}

// ---- the shipped .gsb files against this harness's reading of their .gsa twins -------------------

struct GsaSub {
    name: String,
    parent: String,
    s: f64,
    n: f64,
    e: f64,
    w: f64,
    dlat: f64,
    dlon: f64,
    nodes: Vec<(f64, f64)>,
}

fn read_gsa(text: &str) -> Vec<GsaSub> {
    let mut subs: Vec<GsaSub> = vec![];
    let mut count = 0usize;
    let mut in_nodes = false;
    for line in text.lines() {
        let t = line.trim();
        if t.is_empty() {
            continue;
        }
        let key = if t.len() >= 8 { &t[..8] } else { t };
        let val = if t.len() > 8 { t[8..].trim() } else { "" };
        let num = || val.parse::<f64>().unwrap_or(f64::NAN);
        if in_nodes && subs.last().map(|s| s.nodes.len() < count).unwrap_or(false) {
            let a: Vec<f64> = t.split_whitespace().map(|x| x.parse::<f64>().unwrap_or(f64::NAN)).collect();
            subs.last_mut().unwrap().nodes.push((a[0], a[1]));
            continue;
        }
        in_nodes = false;
        match key.trim() {
            "SUB_NAME" => subs.push(GsaSub { name: val.to_string(), parent: String::new(), s: 0., n: 0., e: 0., w: 0., dlat: 0., dlon: 0., nodes: vec![] }),
            "PARENT" => subs.last_mut().unwrap().parent = val.to_string(),
            "S_LAT" => subs.last_mut().unwrap().s = num(),
            "N_LAT" => subs.last_mut().unwrap().n = num(),
            "E_LONG" => subs.last_mut().unwrap().e = num(),
            "W_LONG" => subs.last_mut().unwrap().w = num(),
            "LAT_INC" => subs.last_mut().unwrap().dlat = num(),
            "LONG_INC" => subs.last_mut().unwrap().dlon = num(),
            "GS_COUNT" => {
                count = num() as usize;
                in_nodes = true;
            }
            _ => {}
        }
    }
    subs
}

fn cmd_gsa(output: &str) -> i32 {
    quiet_panics();
    let mut w = std::io::BufWriter::new(std::fs::File::create(output).expect("cannot create output"));
    let (mut fails, mut evals, mut nodes) = (0usize, 0usize, 0usize);
    let mut files = 0;
    for stem in ["5458", "5458_with_subgrid"] {
        let dir = format!("{}/gsb", repo_dir());
        let (Ok(gsa), Ok(gsb)) = (std::fs::read_to_string(format!("{dir}/{stem}.gsa")), std::fs::read(format!("{dir}/{stem}.gsb"))) else { continue };
        files += 1;
        let subs = read_gsa(&gsa);
        evals += 1;
        let grid = match decode("ntv2", &gsb) {
            Ok(Ok(g)) => g,
            other => {
                fails += 1;
                writeln!(w, "{}", json!({"file":stem,"what":"shipped_gsb_not_decoded","detail":format!("{:?}", other.map(|r| r.map(|_| ())))})).unwrap();
                continue;
            }
        };
        for (si, g) in subs.iter().enumerate() {
            let rows = ((g.n - g.s) / g.dlat).round() as usize + 1;
            let cols = ((g.w - g.e) / g.dlon).round() as usize + 1;
            if rows * cols != g.nodes.len() {
                fails += 1;
                writeln!(w, "{}", json!({"file":stem,"what":"gsa_count","sub":g.name})).unwrap();
                continue;
            }
            for k in 0..g.nodes.len() {
                // k-th record: from the south-east corner westwards, then northwards
                let lat = g.s + (k / cols) as f64 * g.dlat;
                let wlon = g.e + (k % cols) as f64 * g.dlon;
                let inside_other = subs.iter().enumerate().any(|(j, h)| j != si && h.parent == g.name && lat >= h.s && lat <= h.n && wlon >= h.e && wlon <= h.w);
                let upper = g.parent != "NONE" && (lat == g.n || wlon == g.e);
                if inside_other || upper {
                    continue;
                }
                let p = Coor4D::raw(-wlon.to_radians() / 3600., lat.to_radians() / 3600., 0.0, 0.0);
                evals += 1;
                match guarded(|| grid.at(&p, 0.0)) {
                    Ok(Some(v)) => {
                        nodes += 1;
                        let want = [(-g.nodes[k].1 / 3600.0).to_radians(), (g.nodes[k].0 / 3600.0).to_radians()];
                        let tol = 1e-6 * want[0].abs().max(want[1].abs()) + 1e-15;
                        if !close_to(want[0], v[0], tol) || !close_to(want[1], v[1], tol) {
                            fails += 1;
                            writeln!(w, "{}", json!({"file":stem,"what":"gsb_differs_from_gsa","sub":g.name,"record":k,"lat_arcsec":lat,"west_lon_arcsec":wlon,
                                "expected_lon_lat_shift_rad":want,"observed":v.0})).unwrap();
                        }
                    }
                    other => {
                        fails += 1;
                        writeln!(w, "{}", json!({"file":stem,"what":"gsa_node_not_served","sub":g.name,"record":k,"detail":format!("{other:?}")})).unwrap();
                    }
                }
            }
        }
    }
    writeln!(w, "{}", json!({"summary":true,"files":files,"evaluations":evals,"nodes_read":nodes,"mismatches":fails})).unwrap();
    println!("gsa: {files} files, {nodes} nodes compared, {fails} mismatches");
    if fails > 0 { 1 } else { 0 }
}
//C15-END

fn main() {
    let args: Vec<String> = std::env::args().collect();
    let a: Vec<&str> = args.iter().map(|s| s.as_str()).collect();
    let code = match a.get(1).copied() {
        Some("c08") if a.len() >= 4 => cmd_c08(a[2], a[3]),
        Some("c15wf") if a.len() >= 4 => cmd_c15wf(a[2], a[3]),
        Some("gsa") if a.len() >= 3 => cmd_gsa(a[2]),
        Some("plain") if a.len() >= 4 => cmd_plain(a[2], a[3]),
        Some("fault") if a.len() >= 5 => cmd_fault(a[2], a[3], a[4]),
        Some("encode") if a.len() >= 4 => cmd_encode(a[2], a[3]),
        _ => {
            eprintln!("usage: gvh_grid c08|c15wf|plain <in> <out> | gsa <out> | fault <job> <out> <progress> | encode <case> <file>");
            2
        }
    };
    std::process::exit(code);
}
