//! gvh_grid — harness for C08 (grid lookup) and C15 (grid files).
//!
//!   gvh_grid c08   <scenarios.ndjson> <out.ndjson>   replay MC_C08 scenarios
//!   gvh_grid c15wf <cases.ndjson>     <out.ndjson>   well-formed files: encode, decode with the real readers, read back
//!   gvh_grid gsa   <out.ndjson>                      shipped .gsb files against this harness's reading of their .gsa twins
//!   gvh_grid fault <job.json> <out.ndjson> <progress> run decode + queries on damaged files (child process of the driver)
//!   gvh_grid encode <case.json> <outfile>            write the bytes of one abstract file (for minimal reproductions)
//!
//! The abstract grids come from TLC (spec/Grid.tla, spec/GridFile.tla): integer geometry in
//! units U (an eighth of the finest cell), node values as integers over a common `scale`.
//! This file contains (1) the encoder abstract grid -> Gravsoft text / NTv2 bytes, (2) a
//! Context serving in-memory grids decoded by the REAL BaseGrid::gravsoft / Ntv2Grid::new,
//! (3) the comparison rules of DESIGN 5.8.
use geodesy::authoring::*;
use gvh::util::{guarded, quiet_panics};
use serde_json::{json, Value};
use std::collections::BTreeMap;
use std::io::{BufRead, Write};
use std::sync::Arc;

// ---------------------------------------------------------------------------------------------
// abstract grids
// ---------------------------------------------------------------------------------------------

#[derive(Clone, Debug)]
struct Sub {
    name: String,
    parent: String,
    n: i64,
    w: i64,
    dy: i64,
    dx: i64,
    rows: usize,
    cols: usize,
    bands: usize,
    nodes: Vec<Vec<Vec<i64>>>, // [row from north][col from west][band as in the file]
}

impl Sub {
    fn south(&self) -> i64 {
        self.n - (self.rows as i64 - 1) * self.dy
    }
    fn east(&self) -> i64 {
        self.w + (self.cols as i64 - 1) * self.dx
    }
    fn from_json(v: &Value) -> Sub {
        let i = |k: &str| v[k].as_i64().unwrap_or(0);
        let nodes = v["nodes"]
            .as_array()
            .map(|rows| {
                rows.iter()
                    .map(|r| {
                        r.as_array()
                            .unwrap()
                            .iter()
                            .map(|c| c.as_array().unwrap().iter().map(|b| b.as_i64().unwrap()).collect())
                            .collect()
                    })
                    .collect()
            })
            .unwrap_or_default();
        Sub {
            name: v["name"].as_str().unwrap_or("").to_string(),
            parent: v["parent"].as_str().unwrap_or("NONE").to_string(),
            n: i("n"),
            w: i("w"),
            dy: i("dy"),
            dx: i("dx"),
            rows: i("rows") as usize,
            cols: i("cols") as usize,
            bands: i("bands") as usize,
            nodes,
        }
    }
    fn max_abs_node(&self) -> i64 {
        self.nodes.iter().flatten().flatten().map(|x| x.abs()).max().unwrap_or(0)
    }
}

#[derive(Clone, Debug)]
struct FileA {
    subs: Vec<Sub>,
    order: Vec<usize>, // 1-based permutation: file position -> sub index
    big_endian: bool,
    text: u32, // Gravsoft text layout id
}

impl FileA {
    fn from_json(v: &Value) -> FileA {
        let subs: Vec<Sub> = v["subs"].as_array().unwrap().iter().map(Sub::from_json).collect();
        let order = v["order"]
            .as_array()
            .map(|a| a.iter().map(|x| x.as_u64().unwrap() as usize).collect())
            .unwrap_or_else(|| (1..=subs.len()).collect());
        FileA { subs, order, big_endian: v["endian"].as_str() == Some("be"), text: v["text"].as_u64().unwrap_or(0) as u32 }
    }
}

/// The concrete frame the integer model is laid into.
/// angular: U = 1/64 degree, origin (lon 10, lat 50); projected: U = 1 m, origin (600000, 500000).
#[derive(Clone, Copy, Debug, PartialEq)]
enum Frame {
    Angular,
    Projected,
}
const LON0: i64 = 10;
const LAT0: i64 = 50;
const X0: i64 = 600_000;
const Y0: i64 = 500_000;

impl Frame {
    /// header text of a longitude / latitude / increment
    fn x_text(&self, x: i64) -> String {
        match self {
            Frame::Angular => fixed6((LON0 * 64 + x) * 15625),
            Frame::Projected => (X0 + x).to_string(),
        }
    }
    fn y_text(&self, y: i64) -> String {
        match self {
            Frame::Angular => fixed6((LAT0 * 64 + y) * 15625),
            Frame::Projected => (Y0 + y).to_string(),
        }
    }
    fn d_text(&self, d: i64) -> String {
        match self {
            Frame::Angular => fixed6(d * 15625),
            Frame::Projected => d.to_string(),
        }
    }
    fn x_deg(&self, x: i64) -> f64 {
        LON0 as f64 + x as f64 / 64.0
    }
    fn y_deg(&self, y: i64) -> f64 {
        LAT0 as f64 + y as f64 / 64.0
    }
    /// Query coordinate, produced with the same expression the decoder applies to the header
    fn x_query(&self, x: i64, ntv2: bool) -> f64 {
        match self {
            Frame::Projected => (X0 + x) as f64,
            Frame::Angular => {
                if ntv2 {
                    // decoder: -wlon.to_radians() / 3600. on the west-positive arc-second value
                    let west_positive = -(self.x_deg(x) * 3600.0);
                    -west_positive.to_radians() / 3600.
                } else {
                    self.x_deg(x).to_radians()
                }
            }
        }
    }
    fn y_query(&self, y: i64, ntv2: bool) -> f64 {
        match self {
            Frame::Projected => (Y0 + y) as f64,
            Frame::Angular => {
                if ntv2 {
                    (self.y_deg(y) * 3600.0).to_radians() / 3600.
                } else {
                    self.y_deg(y).to_radians()
                }
            }
        }
    }
}

/// micro-units -> "[-]i.ffffff"
fn fixed6(micro: i64) -> String {
    let a = micro.abs();
    format!("{}{}.{:06}", if micro < 0 { "-" } else { "" }, a / 1_000_000, a % 1_000_000)
}

/// file text of a node value: node / scale in file units (arc-seconds, mm/yr, metres)
fn value_text(node: i64, scale: i64) -> String {
    if scale == 1 {
        node.to_string()
    } else if scale == 4096 && node % 64 == 0 {
        fixed6(node / 64 * 15625)
    } else {
        // not exactly representable with six decimals: shortest exact decimal via f64 (power-of-two scale)
        format!("{}", node as f64 / scale as f64)
    }
}

// ---------------------------------------------------------------------------------------------
// encoders
// ---------------------------------------------------------------------------------------------

/// Tokens of the Gravsoft file: six header numbers, then the node values row-major from the
/// north-west corner, bands interleaved.
fn gravsoft_tokens(g: &Sub, frame: Frame, scale: i64) -> (Vec<String>, Vec<Vec<String>>) {
    let header = vec![
        frame.y_text(g.south()),
        frame.y_text(g.n),
        frame.x_text(g.w),
        frame.x_text(g.east()),
        frame.d_text(g.dy),
        frame.d_text(g.dx),
    ];
    let rows = g
        .nodes
        .iter()
        .map(|r| r.iter().flat_map(|c| c.iter().map(|b| value_text(*b, scale))).collect())
        .collect();
    (header, rows)
}

/// The text layouts (ids as in spec/GridFile.tla, which produces the same texts)
fn gravsoft_layout(header: &[String], rows: &[Vec<String>], layout: u32) -> Vec<u8> {
    let mut s = String::new();
    match layout {
        0 => {
            s += &header.join(" ");
            s += "\n\n";
            for r in rows {
                s += "    ";
                s += &r.join("  ");
                s += "\n";
            }
        }
        1 => {
            s += "# gravsoft 1 2 3\n";
            s += &header.join("\t");
            s += " # 9 8 7\n\n";
            for r in rows {
                s += &r.join("\t");
                s += " #r\n";
            }
            s += "# end 42\n";
        }
        2 => {
            let mut all: Vec<&String> = header.iter().collect();
            for r in rows {
                all.extend(r.iter());
            }
            s += &all.iter().map(|x| x.as_str()).collect::<Vec<_>>().join("\r\n");
        }
        _ => {
            let mut all: Vec<&String> = header.iter().collect();
            for r in rows {
                all.extend(r.iter());
            }
            s += "\n\n";
            s += &all.iter().map(|x| x.as_str()).collect::<Vec<_>>().join(" ");
        }
    }
    s.into_bytes()
}

fn encode_gravsoft(g: &Sub, frame: Frame, scale: i64, layout: u32) -> Vec<u8> {
    let (h, r) = gravsoft_tokens(g, frame, scale);
    gravsoft_layout(&h, &r, layout)
}

struct Ntv2Writer {
    be: bool,
    buf: Vec<u8>,
}
impl Ntv2Writer {
    fn key(&mut self, k: &str) {
        let mut b = k.as_bytes().to_vec();
        b.resize(8, b' ');
        self.buf.extend_from_slice(&b[..8]);
    }
    fn int(&mut self, k: &str, v: i32) {
        self.key(k);
        self.buf.extend_from_slice(&if self.be { v.to_be_bytes() } else { v.to_le_bytes() });
        self.buf.extend_from_slice(&[0; 4]);
    }
    fn text(&mut self, k: &str, v: &str) {
        self.key(k);
        self.key(v);
    }
    fn real(&mut self, k: &str, v: f64) {
        self.key(k);
        self.buf.extend_from_slice(&if self.be { v.to_be_bytes() } else { v.to_le_bytes() });
    }
    fn f32(&mut self, v: f32) {
        self.buf.extend_from_slice(&if self.be { v.to_be_bytes() } else { v.to_le_bytes() });
    }
}

/// NTv2: 11 overview records, then per sub-grid (in file order) 11 header records and the
/// nodes from the south-east corner, westwards, then northwards; longitudes and longitude
/// shifts count positive west; arc-seconds throughout; an END record closes the file.
/// Returns the bytes and, per sub-grid in file order, the offset of its header.
fn encode_ntv2(f: &FileA, scale: i64) -> (Vec<u8>, Vec<usize>) {
    let fr = Frame::Angular;
    let mut w = Ntv2Writer { be: f.big_endian, buf: vec![] };
    w.int("NUM_OREC", 11);
    w.int("NUM_SREC", 11);
    w.int("NUM_FILE", f.subs.len() as i32);
    w.text("GS_TYPE", "SECONDS");
    w.text("VERSION", "GVH");
    w.text("SYSTEM_F", "MODEL_F");
    w.text("SYSTEM_T", "MODEL_T");
    w.real("MAJOR_F", 6378137.0);
    w.real("MINOR_F", 6356752.314);
    w.real("MAJOR_T", 6378137.0);
    w.real("MINOR_T", 6356752.314);
    let mut offsets = vec![];
    for &k in &f.order {
        let g = &f.subs[k - 1];
        offsets.push(w.buf.len());
        w.text("SUB_NAME", &g.name);
        w.text("PARENT", &g.parent);
        w.text("CREATED", "20260927");
        w.text("UPDATED", "20260927");
        w.real("S_LAT", fr.y_deg(g.south()) * 3600.0);
        w.real("N_LAT", fr.y_deg(g.n) * 3600.0);
        w.real("E_LONG", -(fr.x_deg(g.east()) * 3600.0));
        w.real("W_LONG", -(fr.x_deg(g.w) * 3600.0));
        w.real("LAT_INC", g.dy as f64 / 64.0 * 3600.0);
        w.real("LONG_INC", g.dx as f64 / 64.0 * 3600.0);
        w.int("GS_COUNT", (g.rows * g.cols) as i32);
        for r in (0..g.rows).rev() {
            for c in (0..g.cols).rev() {
                w.f32((g.nodes[r][c][0] as f64 / scale as f64) as f32);
                w.f32((g.nodes[r][c][1] as f64 / scale as f64) as f32);
                w.f32(0.0);
                w.f32(0.0);
            }
        }
    }
    w.text("END", "");
    let l = w.buf.len();
    for b in &mut w.buf[l - 8..] {
        *b = 0;
    }
    (w.buf, offsets)
}

fn encode_file(f: &FileA, fmt: &str, frame: Frame, scale: i64) -> Vec<u8> {
    if fmt == "ntv2" {
        encode_ntv2(f, scale).0
    } else {
        encode_gravsoft(&f.subs[0], frame, scale, f.text)
    }
}

/// Decode with the real readers, under catch_unwind
fn decode(fmt: &str, bytes: &[u8]) -> Result<Result<Arc<dyn Grid>, String>, String> {
    if fmt == "ntv2" {
        guarded(|| Ntv2Grid::new(bytes).map(|g| Arc::new(g) as Arc<dyn Grid>).map_err(|e| format!("{e:?}")))
    } else {
        guarded(|| BaseGrid::gravsoft(bytes).map(|g| Arc::new(g) as Arc<dyn Grid>).map_err(|e| format!("{e:?}")))
    }
}

// ---------------------------------------------------------------------------------------------
// a Context serving in-memory grids
// ---------------------------------------------------------------------------------------------

struct HCtx {
    inner: Minimal,
    grids: BTreeMap<String, Arc<dyn Grid>>,
    ops: BTreeMap<OpHandle, Op>,
}

impl HCtx {
    fn with(grids: BTreeMap<String, Arc<dyn Grid>>) -> HCtx {
        HCtx { inner: Minimal::new(), grids, ops: BTreeMap::new() }
    }
}

const HCTX_BAD_ID: Error = Error::General("HCtx: unknown operator id");

impl Context for HCtx {
    fn new() -> Self {
        HCtx::with(BTreeMap::new())
    }
    fn op(&mut self, definition: &str) -> Result<OpHandle, Error> {
        let op = Op::new(definition, self)?;
        let id = op.id;
        self.ops.insert(id, op);
        Ok(id)
    }
    fn apply(&self, op: OpHandle, direction: Direction, operands: &mut dyn CoordinateSet) -> Result<usize, Error> {
        let op = self.ops.get(&op).ok_or(HCTX_BAD_ID)?;
        Ok(op.apply(self, operands, direction))
    }
    fn globals(&self) -> BTreeMap<String, String> {
        self.inner.globals()
    }
    fn steps(&self, op: OpHandle) -> Result<&Vec<String>, Error> {
        let op = self.ops.get(&op).ok_or(HCTX_BAD_ID)?;
        Ok(&op.descriptor.steps)
    }
    fn params(&self, op: OpHandle, index: usize) -> Result<ParsedParameters, Error> {
        let op = self.ops.get(&op).ok_or(HCTX_BAD_ID)?;
        if op.steps.is_empty() {
            if index > 0 {
                return Err(Error::General("HCtx: bad step index"));
            }
            return Ok(op.params.clone());
        }
        if index >= op.steps.len() {
            return Err(Error::General("HCtx: bad step index"));
        }
        Ok(op.steps[index].params.clone())
    }
    fn register_op(&mut self, name: &str, constructor: OpConstructor) {
        self.inner.register_op(name, constructor)
    }
    fn register_resource(&mut self, name: &str, definition: &str) {
        self.inner.register_resource(name, definition)
    }
    fn get_op(&self, name: &str) -> Result<OpConstructor, Error> {
        self.inner.get_op(name)
    }
    fn get_resource(&self, name: &str) -> Result<String, Error> {
        self.inner.get_resource(name)
    }
    fn get_blob(&self, name: &str) -> Result<Vec<u8>, Error> {
        self.inner.get_blob(name)
    }
    fn get_grid(&self, name: &str) -> Result<Arc<dyn Grid>, Error> {
        self.grids.get(name).cloned().ok_or_else(|| Error::NotFound(name.to_string(), ": Grid (HCtx)".to_string()))
    }
}

// ---------------------------------------------------------------------------------------------
// C08
// ---------------------------------------------------------------------------------------------

struct Conv {
    /// decoded value: element e of Grid::at = sign * band
    dec: Vec<(usize, f64)>,
    /// operator: element e (or E/N/U component) += sign * band in the forward direction
    el: Vec<(usize, f64)>,
    unit_num: f64,
    unit_den: f64,
    unit_deg: bool,
}

impl Conv {
    fn from_json(v: &Value, unit: &Value, dec: &Value) -> Conv {
        let pairs = |x: &Value| -> Vec<(usize, f64)> {
            x.as_array()
                .unwrap()
                .iter()
                .map(|p| (p[0].as_u64().unwrap() as usize, p[1].as_f64().unwrap()))
                .collect()
        };
        Conv {
            dec: pairs(dec),
            el: pairs(&v["el"]),
            unit_num: unit[0].as_f64().unwrap(),
            unit_den: unit[1].as_f64().unwrap(),
            unit_deg: unit[2].as_bool().unwrap(),
        }
    }
    /// file units -> internal units (arcsec -> rad, mm/yr -> m/yr, m -> m)
    fn to_internal(&self, v: f64) -> f64 {
        let x = v * self.unit_num / self.unit_den;
        if self.unit_deg {
            x.to_radians()
        } else {
            x
        }
    }
}

struct Pt {
    x: i64,
    y: i64,
    flag: u8,
    file: usize,
    inner: bool,
    /// selected value per band in file units
    val: Vec<f64>,
    /// geoid scenarios: slope per U towards north / east, file units
    grad: Option<(f64, f64)>,
}

struct Report {
    w: std::io::BufWriter<std::fs::File>,
    fails: usize,
    per_key: BTreeMap<String, usize>,
    evals: usize,
    compared: usize,
    not_compared: usize,
    nontrivial: std::collections::BTreeSet<String>,
}

impl Report {
    fn fail(&mut self, sc: &Value, what: &str, detail: Value) {
        self.fails += 1;
        let key = format!("{}|{}|{}|{}", sc["name"].as_str().unwrap_or(""), sc["kind"].as_str().unwrap_or(""), sc["fmt"].as_str().unwrap_or(""), what);
        let n = self.per_key.entry(key).or_insert(0);
        *n += 1;
        if *n <= 5 {
            let mut d = detail;
            d["sc"] = sc["id"].clone();
            d["what"] = json!(what);
            d["scenario"] = json!({"name":sc["name"],"kind":sc["kind"],"fmt":sc["fmt"],"list":sc["list"],"id":sc["id"]});
            writeln!(self.w, "{}", d).unwrap();
        }
    }
}

fn close_to(expected: f64, observed: f64, tol: f64) -> bool {
    if expected == observed {
        return true;
    }
    (expected - observed).abs() <= tol
}

fn has_nan(c: &Coor4D) -> bool {
    c.0.iter().any(|x| x.is_nan())
}

fn bits_same(a: &Coor4D, b: &Coor4D) -> bool {
    (0..4).all(|i| a[i].to_bits() == b[i].to_bits() || (a[i].is_nan() && b[i].is_nan()))
}

fn list_text(sc: &Value, names: &[String]) -> String {
    let mut parts = vec![];
    for e in sc["list"].as_array().unwrap() {
        if e["k"] == "null" {
            parts.push("@null".to_string());
            continue;
        }
        let fi = e["fi"].as_u64().unwrap() as usize;
        let name = if e["present"].as_bool().unwrap() { names[fi - 1].clone() } else { format!("missing.{}", ext_of(sc)) };
        parts.push(format!("{}{}", if e["opt"].as_bool().unwrap() { "@" } else { "" }, name));
    }
    parts.join(",")
}

fn ext_of(sc: &Value) -> &'static str {
    if sc["fmt"] == "ntv2" {
        return "gsb";
    }
    match sc["kind"].as_str().unwrap_or("") {
        "geoid" | "projected" => "geoid",
        "deformation" => "deformation",
        _ => "datum",
    }
}

fn apply1(ctx: &HCtx, h: OpHandle, dir: Direction, c: Coor4D) -> Result<(usize, Coor4D), String> {
    let mut d = [c];
    let n = guarded(|| ctx.apply(h, dir, &mut d))?.map_err(|e| format!("{e:?}"))?;
    Ok((n, d[0]))
}

fn run_scenario(sc: &Value, rep: &mut Report) {
    let kind = sc["kind"].as_str().unwrap();
    let fmt = sc["fmt"].as_str().unwrap();
    let ntv2 = fmt == "ntv2";
    let scale = sc["scale"].as_i64().unwrap();
    let frame = if kind == "projected" { Frame::Projected } else { Frame::Angular };
    let exact = kind == "projected";
    let conv = Conv::from_json(&sc["conv"], &sc["unit"], &sc["dec"]);
    let files: Vec<FileA> = sc["files"].as_array().unwrap().iter().map(FileA::from_json).collect();
    let bands = files[0].subs[0].bands;

    // 1. encode, decode with the real readers
    let mut names = vec![];
    let mut grids: Vec<Option<Arc<dyn Grid>>> = vec![];
    let mut map = BTreeMap::new();
    for (i, f) in files.iter().enumerate() {
        let name = format!("{}{}.{}", f.subs[0].name.to_lowercase(), i + 1, ext_of(sc));
        let bytes = encode_file(f, fmt, frame, scale);
        rep.evals += 1;
        match decode(fmt, &bytes) {
            Ok(Ok(g)) => {
                if g.bands() != bands {
                    rep.fail(sc, "bands", json!({"file":name,"expected":bands,"observed":g.bands()}));
                }
                map.insert(name.clone(), g.clone());
                grids.push(Some(g));
            }
            Ok(Err(e)) => {
                rep.fail(sc, "decode_rejected", json!({"file":name,"err":e,"text":String::from_utf8_lossy(&bytes[..bytes.len().min(600)])}));
                grids.push(None);
            }
            Err(p) => {
                rep.fail(sc, "decode_panic", json!({"file":name,"msg":p}));
                grids.push(None);
            }
        }
        names.push(name);
    }
    if grids.iter().any(|g| g.is_none()) {
        return;
    }
    let mut ctx = HCtx::with(map);

    // 2. points
    let pts: Vec<Pt> = sc["pts"]
        .as_array()
        .unwrap()
        .iter()
        .map(|r| {
            let a: Vec<i64> = r.as_array().unwrap().iter().map(|x| x.as_i64().unwrap()).collect();
            let den = (a[5] * scale) as f64;
            let val = (0..bands).map(|b| a[6 + b] as f64 / den).collect();
            let grad = if kind == "geoid" { Some((a[6 + bands] as f64 / den, a[7 + bands] as f64 / den)) } else { None };
            Pt { x: a[0], y: a[1], flag: a[2] as u8, file: a[3] as usize, inner: a[4] == 1, val, grad }
        })
        .collect();
    // tolerance: the f32 storage precision, relative 1e-6 of the largest value of the selected file
    let maxval: Vec<f64> = files
        .iter()
        .map(|f| conv.to_internal(f.subs.iter().map(|s| s.max_abs_node()).max().unwrap_or(0) as f64 / scale as f64).abs())
        .collect();
    let tol_of = |p: &Pt| if exact || p.file == 0 { 0.0 } else { 1e-6 * maxval[p.file - 1] };
    let coord = |p: &Pt| Coor4D::raw(frame.x_query(p.x, ntv2), frame.y_query(p.y, ntv2), 100.0, 2020.0);
    // decoded value expected from Grid::at / grids_at
    let dec_expected = |p: &Pt| -> Vec<f64> { conv.dec.iter().map(|(b, s)| s * conv.to_internal(p.val[*b - 1])).collect() };
    let cmp_vec = |exp: &[f64], obs: &Coor4D, tol: f64| exp.iter().enumerate().all(|(i, e)| close_to(*e, obs[i], tol));

    let single = files.len() == 1 && sc["list"].as_array().unwrap().len() == 1;
    let effective: Vec<usize> = sc["effective"].as_array().unwrap().iter().map(|x| x.as_u64().unwrap() as usize).collect();
    let eff_arcs: Vec<Arc<dyn Grid>> = effective.iter().map(|fi| grids[*fi - 1].clone().unwrap()).collect();
    let use_null = sc["null"].as_bool().unwrap();

    // 3. the grid API: contains / at (one grid), grids_at (the list)
    for p in &pts {
        let c = coord(p);
        let pj = json!({"x":p.x,"y":p.y,"lon":c[0],"lat":c[1],"flag":p.flag});
        if single {
            let g = grids[0].as_ref().unwrap();
            for (m, mi) in [(0.0, 0usize), (0.5, 1usize)] {
                rep.evals += 2;
                let r = guarded(|| (g.contains(&c, m), g.at(&c, m)));
                let (inside, at) = match r {
                    Ok(v) => v,
                    Err(msg) => {
                        rep.fail(sc, "panic_at", json!({"p":pj,"margin":m,"msg":msg}));
                        continue;
                    }
                };
                if p.flag == 9 {
                    rep.not_compared += 1;
                    continue;
                }
                rep.compared += 1;
                let exp_inside = p.flag == 2 || (p.flag == 3 && mi == 1);
                if inside != exp_inside {
                    rep.fail(sc, "contains", json!({"p":pj,"margin":m,"expected":exp_inside,"observed":inside}));
                }
                match (exp_inside, at) {
                    (false, None) => {}
                    (false, Some(v)) => rep.fail(sc, "at_should_be_none", json!({"p":pj,"margin":m,"observed":v.0})),
                    (true, None) => rep.fail(sc, "at_should_be_some", json!({"p":pj,"margin":m})),
                    (true, Some(v)) => {
                        let e = dec_expected(p);
                        if !cmp_vec(&e, &v, tol_of(p)) {
                            rep.fail(sc, "at_value", json!({"p":pj,"margin":m,"expected":e,"observed":v.0,"tol":tol_of(p)}));
                        }
                    }
                }
            }
        }
        // grids_at over the effective list
        rep.evals += 1;
        match guarded(|| grids_at(&eff_arcs, &c, use_null)) {
            Err(msg) => rep.fail(sc, "panic_grids_at", json!({"p":pj,"msg":msg})),
            Ok(r) => {
                if p.flag == 9 {
                    rep.not_compared += 1;
                } else {
                    rep.compared += 1;
                    match (p.flag, r) {
                        (0, None) => {}
                        (0, Some(v)) => rep.fail(sc, "grids_at_should_be_none", json!({"p":pj,"observed":v.0})),
                        (_, None) => rep.fail(sc, "grids_at_should_be_some", json!({"p":pj})),
                        (1, Some(v)) => {
                            if v.0 != [0.0; 4] {
                                rep.fail(sc, "null_grid_value", json!({"p":pj,"observed":v.0}));
                            }
                        }
                        (_, Some(v)) => {
                            let e = dec_expected(p);
                            if !cmp_vec(&e, &v, tol_of(p)) {
                                rep.fail(sc, "grids_at_value", json!({"p":pj,"expected":e,"observed":v.0,"selected_file":p.file,"tol":tol_of(p)}));
                            }
                        }
                    }
                }
            }
        }
    }

    // 4. the operators
    let glist = list_text(sc, &names);
    let refused = sc["refused"].as_u64().unwrap();
    let mut defs: Vec<(String, &str)> = vec![];
    match kind {
        "deformation" => {
            defs.push((format!("deformation raw dt={} grids={glist}", sc["deform"]["dt"]), "deformation_raw"));
            defs.push((format!("deformation dt={} grids={glist}", sc["deform"]["dt"]), "deformation"));
            defs.push((format!("deformation raw t_epoch={} grids={glist}", sc["deform"]["t_epoch"]), "deformation_epoch"));
        }
        "geoid" => {
            defs.push((format!("gridshift grids={glist}"), "gridshift"));
            if !use_null {
                defs.push((format!("deflection grids={glist}"), "deflection"));
            }
        }
        _ => defs.push((format!("gridshift grids={glist}"), "gridshift")),
    }
    let ellps = Ellipsoid::named("GRS80").unwrap();
    for (def, opk) in defs {
        rep.evals += 1;
        let h = match guarded(|| ctx.op(&def).map_err(|e| format!("{e:?}"))) {
            Err(msg) => {
                rep.fail(sc, "panic_op", json!({"def":def,"msg":msg}));
                continue;
            }
            Ok(Err(e)) => {
                if refused == 0 {
                    rep.fail(sc, "op_refused", json!({"def":def,"err":e}));
                }
                continue;
            }
            Ok(Ok(h)) => {
                if refused == 1 {
                    rep.fail(sc, "op_should_be_refused", json!({"def":def}));
                    continue;
                }
                h
            }
        };
        if refused != 0 {
            rep.nontrivial.insert(format!("refused|{}", def));
        }
        let empty_amb = sc["empty_amb"].as_bool().unwrap();
        for p in &pts {
            let c = coord(p);
            let tol = tol_of(p);
            let compare = p.flag != 9 && !empty_amb;
            let pj = json!({"x":p.x,"y":p.y,"lon":c[0],"lat":c[1],"flag":p.flag,"selected_file":p.file,"def":def});
            if compare && p.flag >= 2 {
                rep.nontrivial.insert(format!("{}|{}|{}|{}", sc["id"], opk, p.x, p.y));
            }
            match opk {
                "gridshift" => {
                    for (dir, dn) in [(Fwd, "F"), (Inv, "I")] {
                        rep.evals += 1;
                        let (n, out) = match apply1(&ctx, h, dir, c) {
                            Ok(v) => v,
                            Err(msg) => {
                                rep.fail(sc, "panic_apply", json!({"p":pj,"dir":dn,"msg":msg}));
                                continue;
                            }
                        };
                        if !compare {
                            rep.not_compared += 1;
                            continue;
                        }
                        rep.compared += 1;
                        match p.flag {
                            0 => {
                                if n != 0 || !has_nan(&out) {
                                    let w = if dn == "I" && n == 0 && bits_same(&out, &c) { "outside_inverse_unchanged_uncounted" } else { "outside_not_failed" };
                                    rep.fail(sc, w, json!({"p":pj,"dir":dn,"count":n,"observed":fmt4(&out),"expected":"count 0, tuple carries NaN"}));
                                }
                            }
                            1 => {
                                if n != 1 || !bits_same(&out, &c) {
                                    rep.fail(sc, "null_grid_not_unchanged", json!({"p":pj,"dir":dn,"count":n,"input":fmt4(&c),"observed":fmt4(&out)}));
                                }
                            }
                            _ => {
                                let sgn = if dn == "F" { 1.0 } else { -1.0 };
                                let delta: Vec<f64> = conv.el.iter().map(|(b, s)| if *b == 0 { 0.0 } else { sgn * s * conv.to_internal(p.val[*b - 1]) }).collect();
                                if n != 1 {
                                    rep.fail(sc, "inside_not_counted", json!({"p":pj,"dir":dn,"count":n,"observed":fmt4(&out)}));
                                    continue;
                                }
                                if bands == 1 || dn == "F" {
                                    // exact rule: out = in + delta (heights subtracted forward, shifts added forward)
                                    let mut ok = out[3].to_bits() == c[3].to_bits();
                                    for e in 0..3 {
                                        if conv.el[e].0 == 0 {
                                            ok &= out[e].to_bits() == c[e].to_bits();
                                        } else {
                                            let want = c[e] + delta[e];
                                            ok &= close_to(want, out[e], tol + if exact { 0.0 } else { 4e-16 });
                                        }
                                    }
                                    if !ok {
                                        rep.fail(sc, "shift_value", json!({"p":pj,"dir":dn,"input":fmt4(&c),"expected_delta":delta,
                                            "observed_delta":[out[0]-c[0],out[1]-c[1],out[2]-c[2]],"tol":tol}));
                                    }
                                } else if p.inner {
                                    // inverse of a 2-D shift: the solution t of forward(t) = p (iterative in the code).
                                    // Checked relationally with the (already compared) forward operator, and to first
                                    // order against the specification's value at p.
                                    let first_order = (0..2).all(|e| close_to(c[e] + delta[e], out[e], 0.02 * maxval[p.file - 1] + 1e-15));
                                    let back = apply1(&ctx, h, Fwd, out);
                                    let closed = match &back {
                                        Ok((1, b)) => (0..2).all(|e| close_to(c[e], b[e], 1e-11)),
                                        _ => false,
                                    };
                                    if !first_order || !closed || out[2].to_bits() != c[2].to_bits() || out[3].to_bits() != c[3].to_bits() {
                                        rep.fail(sc, "inverse_shift", json!({"p":pj,"input":fmt4(&c),"observed":fmt4(&out),"expected_first_order_delta":delta,
                                            "forward_of_result":back.map(|b| fmt4(&b.1)).unwrap_or(json!("panic"))}));
                                    }
                                }
                            }
                        }
                    }
                }
                "deformation_raw" | "deformation" | "deformation_epoch" => {
                    // the operator works on cartesian coordinates and looks the grid up at the geographic
                    // position recomputed from them: only points strictly inside a selection region are compared
                    let t_obs = sc["deform"]["t_obs"].as_f64().unwrap();
                    let geo = Coor4D::raw(c[0], c[1], 0.0, t_obs);
                    let cart = ellps.cartesian(&geo);
                    let cart = Coor4D::raw(cart[0], cart[1], cart[2], t_obs);
                    // duration: dt if given, else observation epoch - frame epoch (Grid.tla: Duration)
                    let duration = if opk == "deformation_epoch" { sc["deform"]["duration"].as_f64().unwrap() } else { sc["deform"]["dt"].as_f64().unwrap() };
                    for (dir, dn) in [(Fwd, "F"), (Inv, "I")] {
                        rep.evals += 1;
                        let (n, out) = match apply1(&ctx, h, dir, cart) {
                            Ok(v) => v,
                            Err(msg) => {
                                rep.fail(sc, "panic_apply", json!({"p":pj,"dir":dn,"msg":msg}));
                                continue;
                            }
                        };
                        if !compare || !(p.inner || p.flag == 0 || p.flag == 1) {
                            rep.not_compared += 1;
                            continue;
                        }
                        rep.compared += 1;
                        match p.flag {
                            0 => {
                                if n != 0 || !has_nan(&out) {
                                    rep.fail(sc, "outside_not_failed", json!({"p":pj,"dir":dn,"count":n,"observed":fmt4(&out)}));
                                }
                            }
                            1 => {
                                if n != 1 || !bits_same(&out, &cart) {
                                    rep.fail(sc, "null_grid_not_unchanged", json!({"p":pj,"dir":dn,"count":n,"input":fmt4(&cart),"observed":fmt4(&out)}));
                                }
                            }
                            _ => {
                                let sgn = if dn == "F" { 1.0 } else { -1.0 };
                                // local east / north / up velocity in m/yr, with the forward sign
                                let enu: Vec<f64> = conv.el.iter().map(|(b, s)| sgn * s * conv.to_internal(p.val[*b - 1])).collect();
                                let (sl, cl) = c[0].sin_cos();
                                let (sp, cp) = c[1].sin_cos();
                                let want = [
                                    duration * (-sl * enu[0] - sp * cl * enu[1] + cp * cl * enu[2]),
                                    duration * (cl * enu[0] - sp * sl * enu[1] + cp * sl * enu[2]),
                                    duration * (cp * enu[1] + sp * enu[2]),
                                ];
                                let t = duration * tol;
                                let raw = opk != "deformation";
                                let obs = if raw { [out[0], out[1], out[2]] } else { [out[0] - cart[0], out[1] - cart[1], out[2] - cart[2]] };
                                let abs = if raw { 1e-12 } else { 1e-8 };
                                let mut ok = n == 1 && (0..3).all(|e| close_to(want[e], obs[e], t + abs));
                                if raw {
                                    let len = (want[0] * want[0] + want[1] * want[1] + want[2] * want[2]).sqrt();
                                    ok &= close_to(len, out[3], 2.0 * t + abs);
                                }
                                if !ok {
                                    let reversed = n == 1 && (0..3).all(|e| close_to(-want[e], obs[e], t + abs));
                                    let w = if opk == "deformation_epoch" && reversed { "deformation_epoch_sign_reversed" } else if opk == "deformation_epoch" { "deformation_epoch_value" } else { "deformation_value" };
                                    rep.fail(sc, w, json!({"p":pj,"dir":dn,"count":n,"expected":want,"observed":obs,"observed_tuple":fmt4(&out),"enu_m_per_yr":enu,"duration":duration,"tol":t}));
                                }
                            }
                        }
                    }
                }
                "deflection" => {
                    rep.evals += 1;
                    let input = Coor4D::raw(frame.y_deg(p.y), frame.x_deg(p.x), 0.0, 0.0);
                    let (n, out) = match apply1(&ctx, h, Fwd, input) {
                        Ok(v) => v,
                        Err(msg) => {
                            rep.fail(sc, "panic_apply", json!({"p":pj,"msg":msg}));
                            continue;
                        }
                    };
                    if !compare || !(p.inner || p.flag == 0) {
                        rep.not_compared += 1;
                        continue;
                    }
                    rep.compared += 1;
                    if p.flag == 0 {
                        if n != 0 || !has_nan(&out) {
                            rep.fail(sc, "outside_not_failed", json!({"p":pj,"count":n,"observed":fmt4(&out)}));
                        }
                        continue;
                    }
                    // geoid slope per metre towards north / east -> angle in arc-seconds; the sign
                    // convention of the deflection components is not documented: magnitudes only
                    let (gn, ge) = p.grad.unwrap();
                    let lat = frame.y_deg(p.y).to_radians();
                    let u = (1.0f64 / 64.0).to_radians();
                    let m_per_u_north = ellps.meridian_radius_of_curvature(lat) * u;
                    let m_per_u_east = ellps.prime_vertical_radius_of_curvature(lat) * lat.cos() * u;
                    let xi = (gn / m_per_u_north).atan().to_degrees() * 3600.0;
                    let eta = (ge / m_per_u_east).atan().to_degrees() * 3600.0;
                    // ("a coarse estimate": the operator steps one metre along the meridian / parallel through
                    //  series expansions; 1e-3 relative is far below the effect of any exchanged row, column or weight)
                    let t = |v: f64| 1e-3 * v.abs() + 1e-7;
                    if n != 1 || !close_to(xi.abs(), out[0].abs(), t(xi)) || !close_to(eta.abs(), out[1].abs(), t(eta)) {
                        rep.fail(sc, "deflection_value", json!({"p":pj,"count":n,"expected_abs":[xi.abs(),eta.abs()],"observed":fmt4(&out)}));
                    }
                }
                _ => {}
            }
        }
    }
}

fn fmt4(c: &Coor4D) -> Value {
    Value::Array(c.0.iter().map(|x| if x.is_nan() { json!("NaN") } else { json!(x) }).collect())
}

fn cmd_c08(input: &str, output: &str) -> i32 {
    quiet_panics();
    let f = std::fs::File::open(input).expect("cannot open input");
    let w = std::io::BufWriter::new(std::fs::File::create(output).expect("cannot create output"));
    let mut rep = Report { w, fails: 0, per_key: BTreeMap::new(), evals: 0, compared: 0, not_compared: 0, nontrivial: Default::default() };
    let mut scenarios = 0;
    for line in std::io::BufReader::new(f).lines() {
        let line = line.unwrap();
        if line.trim().is_empty() {
            continue;
        }
        let sc: Value = serde_json::from_str(&line).expect("bad json");
        scenarios += 1;
        run_scenario(&sc, &mut rep);
    }
    let per_key: BTreeMap<String, usize> = rep.per_key.clone();
    writeln!(rep.w, "{}", json!({"summary":true,"scenarios":scenarios,"evaluations":rep.evals,"compared":rep.compared,
        "not_compared":rep.not_compared,"mismatches":rep.fails,"per_key":per_key,"nontrivial":rep.nontrivial.len()})).unwrap();
    println!("c08: {} scenarios, {} evaluations, {} compared, {} mismatches", scenarios, rep.evals, rep.compared, rep.fails);
    if rep.fails == 0 { 0 } else { 1 }
}

// ---------------------------------------------------------------------------------------------
// C15
// ---------------------------------------------------------------------------------------------
//C15-BEGIN
fn cmd_c15wf(_i: &str, _o: &str) -> i32 { 2 }
fn cmd_gsa(_o: &str) -> i32 { 2 }
fn cmd_fault(_j: &str, _o: &str, _p: &str) -> i32 { 2 }
fn cmd_encode(_c: &str, _o: &str) -> i32 { 2 }
//C15-END

fn main() {
    let args: Vec<String> = std::env::args().collect();
    let a: Vec<&str> = args.iter().map(|s| s.as_str()).collect();
    let code = match a.get(1).copied() {
        Some("c08") if a.len() >= 4 => cmd_c08(a[2], a[3]),
        Some("c15wf") if a.len() >= 4 => cmd_c15wf(a[2], a[3]),
        Some("gsa") if a.len() >= 3 => cmd_gsa(a[2]),
        Some("fault") if a.len() >= 5 => cmd_fault(a[2], a[3], a[4]),
        Some("encode") if a.len() >= 4 => cmd_encode(a[2], a[3]),
        _ => {
            eprintln!("usage: gvh_grid c08|c15wf <in> <out> | gsa <out> | fault <job> <out> <progress> | encode <case> <file>");
            2
        }
    };
    std::process::exit(code);
}
