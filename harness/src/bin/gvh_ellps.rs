//! C06 (partial): ellipsoid geometry.
//!
//! `gvh_ellps eval <in> <out> [progress]`: evaluates the obligations enumerated by
//! spec/Ellipsoid.tla (MC_C06_q / MC_C06_t; one input line per identity x ellipsoid,
//! carrying its lattice, accuracy class and - for table entries - the published
//! constants) on the real library: the Ellipsoid / EllipsoidBase / GeoCart /
//! Geodesics / Latitudes / Meridians API and the cart / latitude / geodesic /
//! curvature operators through Context::apply.  The references (closed forms,
//! defining integrals by Gauss-Legendre quadrature, great circles by vector
//! algebra) are computed here, independently of the library, from nothing but
//! the semi-major axis and the flattening the library reports.
//!
//! Output: one line per failing obligation (at most 20 per group), one `group`
//! line per (identity, ellipsoid class, what), one `measure` line per
//! (identity, check) with the worst value met, and a `summary` line.
//!
//! `gvh_ellps names`: the names of the code's ellipsoid table (JSON array).
use geodesy::authoring::*;
use gvh::util::{guarded, quiet_panics};
use serde_json::{json, Value};
use std::collections::{BTreeMap, BTreeSet};
use std::f64::consts::{FRAC_PI_2, PI};
use std::io::{BufRead, Write};

const A_REF: f64 = 6378137.0;

// ---- small helpers ------------------------------------------------------------------------

/// millidegrees -> radians; the poles and the antimeridian are the library's own constants
fn rad(mdeg: i64) -> f64 {
    match mdeg {
        90000 => FRAC_PI_2,
        -90000 => -FRAC_PI_2,
        180000 => PI,
        -180000 => -PI,
        0 => 0.0,
        _ => (mdeg as f64 / 1000.0).to_radians(),
    }
}

fn wrap_pi(x: f64) -> f64 {
    let two = 2.0 * PI;
    let mut y = x % two;
    if y > PI {
        y -= two;
    }
    if y < -PI {
        y += two;
    }
    y
}

fn decimal(i: i64, f: i64, d: usize) -> f64 {
    let text = if d == 0 { format!("{i}") } else { format!("{i}.{f:0d$}") };
    text.parse::<f64>().expect("decimal")
}

/// |x - y| relative to the larger magnitude (0 if both are 0)
fn rel(x: f64, y: f64) -> f64 {
    if x == y {
        return 0.0;
    }
    (x - y).abs() / x.abs().max(y.abs())
}

// ---- independent references ---------------------------------------------------------------

/// Gauss-Legendre nodes and weights on [-1, 1], by Newton's iteration on the Legendre polynomial
fn gauss_legendre(n: usize) -> Vec<(f64, f64)> {
    let mut out = Vec::with_capacity(n);
    for i in 0..n {
        let mut x = (PI * (i as f64 + 0.75) / (n as f64 + 0.5)).cos();
        let mut dp = 1.0;
        for _ in 0..100 {
            let (mut p0, mut p1) = (1.0, x);
            for k in 2..=n {
                let kf = k as f64;
                let p2 = ((2.0 * kf - 1.0) * x * p1 - (kf - 1.0) * p0) / kf;
                p0 = p1;
                p1 = p2;
            }
            dp = n as f64 * (x * p1 - p0) / (x * x - 1.0);
            let dx = p1 / dp;
            x -= dx;
            if dx.abs() < 1e-16 {
                break;
            }
        }
        out.push((x, 2.0 / ((1.0 - x * x) * dp * dp)));
    }
    out
}

/// Shape of an ellipsoid, from nothing but (a, f)
#[derive(Clone, Copy)]
struct Shape {
    a: f64,
    f: f64,
    es: f64,
    b: f64,
}

impl Shape {
    fn new(a: f64, f: f64) -> Shape {
        Shape { a, f, es: f * (2.0 - f), b: a * (1.0 - f) }
    }
    fn e(&self) -> f64 {
        self.es.sqrt()
    }
    fn n_radius(&self, phi: f64) -> f64 {
        let s = phi.sin();
        self.a / (1.0 - self.es * s * s).sqrt()
    }
    fn m_radius(&self, phi: f64) -> f64 {
        let s = phi.sin();
        let w = 1.0 - self.es * s * s;
        self.a * (1.0 - self.es) / (w * w.sqrt())
    }
    /// the arc of the meridian from the equator to phi: the defining integral of M, by quadrature
    fn meridian_arc(&self, phi: f64, gl: &[(f64, f64)]) -> f64 {
        let h = phi / 2.0;
        let mut sum = 0.0;
        for (x, w) in gl {
            sum += w * self.m_radius(h * (x + 1.0));
        }
        sum * h
    }
    fn cartesian(&self, lam: f64, phi: f64, h: f64) -> [f64; 3] {
        let n = self.n_radius(phi);
        let (sp, cp) = phi.sin_cos();
        let (sl, cl) = lam.sin_cos();
        [(n + h) * cp * cl, (n + h) * cp * sl, (n * (1.0 - self.es) + h) * sp]
    }
    /// distance on the ground between two geographical positions close to each other
    fn ground(&self, p: [f64; 3], q: [f64; 3]) -> f64 {
        let dlat = (q[1] - p[1]) * (self.m_radius(p[1]) + p[2]);
        let dlon = wrap_pi(q[0] - p[0]) * (self.n_radius(p[1]) + p[2]) * p[1].cos();
        let dh = q[2] - p[2];
        (dlat * dlat + dlon * dlon + dh * dh).sqrt()
    }

    // closed forms of the auxiliary latitudes
    fn geocentric(&self, phi: f64) -> f64 {
        ((1.0 - self.es) * phi.tan()).atan()
    }
    fn reduced(&self, phi: f64) -> f64 {
        ((1.0 - self.f) * phi.tan()).atan()
    }
    /// tan(chi) = tan(phi) sqrt(1 + sigma^2) - sigma sqrt(1 + tan^2(phi)), sigma = sinh(e atanh(e sin(phi)))
    fn conformal(&self, phi: f64) -> f64 {
        let e = self.e();
        let t = phi.tan();
        let sigma = (e * (e * phi.sin()).atanh()).sinh();
        (t * (1.0 + sigma * sigma).sqrt() - sigma * (1.0 + t * t).sqrt()).atan()
    }
    fn isometric(&self, phi: f64) -> f64 {
        let e = self.e();
        phi.tan().asinh() - e * (e * phi.sin()).atanh()
    }
    /// sin(xi) = q(phi) / q(pi/2),  q = (1 - e^2) (sin/(1 - e^2 sin^2) + atanh(e sin)/e);
    /// evaluated through 1 - sin(xi), which is well conditioned up to the pole
    fn authalic(&self, phi: f64) -> f64 {
        if self.es == 0.0 {
            return phi;
        }
        let sign = if phi < 0.0 { -1.0 } else { 1.0 };
        let p = phi.abs();
        let e = self.e();
        let es = self.es;
        let s = p.sin();
        // 1 - sin(p), without cancellation
        let h = (FRAC_PI_2 - p) / 2.0;
        let w = 2.0 * h.sin() * h.sin();
        let qp = (1.0 - es) * (1.0 / (1.0 - es) + e.atanh() / e);
        // q(pi/2) - q(p)
        let dq = (1.0 - es) * (w * (1.0 + es * s) / ((1.0 - es) * (1.0 - es * s * s)) + (e * w / (1.0 - es * s)).atanh() / e);
        let u = dq / qp; // 1 - sin(xi)
        sign * (1.0 - u).atan2((u * (2.0 - u)).max(0.0).sqrt())
    }
    fn rectifying(&self, phi: f64, gl: &[(f64, f64)]) -> f64 {
        FRAC_PI_2 * self.meridian_arc(phi, gl) / self.meridian_arc(FRAC_PI_2, gl)
    }
}

fn unit(lam: f64, phi: f64) -> [f64; 3] {
    [phi.cos() * lam.cos(), phi.cos() * lam.sin(), phi.sin()]
}
fn dot(a: [f64; 3], b: [f64; 3]) -> f64 {
    a[0] * b[0] + a[1] * b[1] + a[2] * b[2]
}
fn cross(a: [f64; 3], b: [f64; 3]) -> [f64; 3] {
    [a[1] * b[2] - a[2] * b[1], a[2] * b[0] - a[0] * b[2], a[0] * b[1] - a[1] * b[0]]
}
fn norm(a: [f64; 3]) -> f64 {
    dot(a, a).sqrt()
}
/// local north and east unit vectors at (lam, phi)
fn north_east(lam: f64, phi: f64) -> ([f64; 3], [f64; 3]) {
    ([-phi.sin() * lam.cos(), -phi.sin() * lam.sin(), phi.cos()], [-lam.sin(), lam.cos(), 0.0])
}
/// great circle, direct problem: destination (lam, phi) and the azimuth there
fn sphere_direct(lam: f64, phi: f64, az: f64, sigma: f64) -> (f64, f64, f64) {
    let p = unit(lam, phi);
    let (n, e) = north_east(lam, phi);
    let t = [n[0] * az.cos() + e[0] * az.sin(), n[1] * az.cos() + e[1] * az.sin(), n[2] * az.cos() + e[2] * az.sin()];
    let q = [p[0] * sigma.cos() + t[0] * sigma.sin(), p[1] * sigma.cos() + t[1] * sigma.sin(), p[2] * sigma.cos() + t[2] * sigma.sin()];
    let tq = [-p[0] * sigma.sin() + t[0] * sigma.cos(), -p[1] * sigma.sin() + t[1] * sigma.cos(), -p[2] * sigma.sin() + t[2] * sigma.cos()];
    let lam2 = q[1].atan2(q[0]);
    let phi2 = q[2].atan2(q[0].hypot(q[1]));
    let (n2, e2) = north_east(lam2, phi2);
    (lam2, phi2, dot(tq, e2).atan2(dot(tq, n2)))
}
/// great circle, inverse problem: (azimuth at 1, azimuth at 2, central angle)
fn sphere_inverse(l1: f64, b1: f64, l2: f64, b2: f64) -> (f64, f64, f64) {
    let (p, q) = (unit(l1, b1), unit(l2, b2));
    let sigma = norm(cross(p, q)).atan2(dot(p, q));
    let (n1, e1) = north_east(l1, b1);
    let (n2, e2) = north_east(l2, b2);
    // direction of q seen from p, and the direction of travel at q (away from p)
    let a1 = dot(q, e1).atan2(dot(q, n1));
    let a2 = (-dot(p, e2)).atan2(-dot(p, n2));
    (a1, a2, sigma)
}

// ---- the library behind two routes ----------------------------------------------------------

struct World {
    ctx: Minimal,
    handles: BTreeMap<String, Result<OpHandle, String>>,
    evals: usize,
}

impl World {
    fn new() -> World {
        World { ctx: Minimal::new(), handles: BTreeMap::new(), evals: 0 }
    }
    fn op(&mut self, def: &str) -> Result<OpHandle, String> {
        if let Some(h) = self.handles.get(def) {
            return h.clone();
        }
        self.evals += 1;
        let c = &mut self.ctx;
        let r = match guarded(|| c.op(def)) {
            Ok(Ok(h)) => Ok(h),
            Ok(Err(e)) => Err(format!("rejected: {e:?}")),
            Err(p) => Err(format!("panic: {p}")),
        };
        self.handles.insert(def.to_string(), r.clone());
        r
    }
    fn apply(&mut self, def: &str, fwd: bool, data: &[Coor4D]) -> Result<Vec<Coor4D>, String> {
        let h = self.op(def)?;
        self.evals += data.len();
        let mut d = data.to_vec();
        let c = &self.ctx;
        match guarded(|| c.apply(h, if fwd { Fwd } else { Inv }, &mut d)) {
            Ok(Ok(_)) => Ok(d),
            Ok(Err(e)) => Err(format!("error: {e:?}")),
            Err(p) => Err(format!("panic: {p}")),
        }
    }
}

/// One check of an obligation: a name, the deviation found and what it is allowed to be
struct Check {
    what: String,
    value: f64,
    tol: f64,
    detail: Value,
}

fn chk(what: &str, value: f64, tol: f64, detail: Value) -> Check {
    Check { what: what.to_string(), value, tol, detail }
}

fn bad(what: &str, msg: String) -> Check {
    Check { what: what.to_string(), value: f64::INFINITY, tol: 0.0, detail: json!({ "msg": msg }) }
}

struct Cfg<'a> {
    name: &'a str,
    kind: &'a str,
    sub: &'a str,
    tol: f64,
    sh: Shape,
    e: Ellipsoid,
    gl: &'a [(f64, f64)],
}

type LatFn<'a> = Box<dyn Fn(f64) -> Result<f64, String> + 'a>;

fn show(v: &[f64]) -> Value {
    Value::Array(v.iter().map(|x| if x.is_finite() { json!(x) } else { json!(format!("{x}")) }).collect())
}

// ---- table ----------------------------------------------------------------------------------

fn table_checks(c: &Cfg, rec: &Value, world: &mut World) -> Vec<Check> {
    let a_pub = decimal(rec["am"].as_i64().unwrap(), rec["af"].as_i64().unwrap(), 4);
    let a = c.e.semimajor_axis();
    let f = c.e.flattening();
    let mut out = vec![];
    match c.sub {
        "named" => {
            out.push(chk("semimajor_axis", rel(a, a_pub), c.tol, json!({"code": a, "published": a_pub})));
            // the shape, against every published definition: the entry is right if it agrees with one
            let mut best = f64::INFINITY;
            let mut seen = vec![];
            for p in rec["pubs"].as_array().unwrap() {
                let (i, fr, d) = (p["i"].as_i64().unwrap(), p["f"].as_i64().unwrap(), p["d"].as_u64().unwrap() as usize);
                let dev = match p["k"].as_str().unwrap() {
                    "rf" => {
                        let rf_pub = decimal(i, fr, d);
                        seen.push(json!({"rf": rf_pub}));
                        if f != 0.0 { rel(1.0 / f, rf_pub) } else { f64::INFINITY }
                    }
                    "b" => {
                        let b_pub = decimal(i, fr, d);
                        seen.push(json!({"b": b_pub}));
                        // within the class, and within half a unit of the last published digit
                        let half = 0.5 * 10f64.powi(-(d as i32));
                        let allowed = (c.tol * b_pub).min(half);
                        (a * (1.0 - f) - b_pub).abs() / allowed * c.tol
                    }
                    _ => {
                        seen.push(json!("sphere"));
                        f.abs()
                    }
                };
                best = best.min(dev);
            }
            out.push(chk("shape", best, c.tol, json!({"code_a": a, "code_f": f, "code_rf": if f != 0.0 { json!(1.0 / f) } else { json!("-") }, "published": seen})));
            // "GRS80 is the default ellipsoid"
            if c.name == "GRS80" {
                let d = Ellipsoid::default();
                out.push(chk("default_is_GRS80", rel(d.semimajor_axis(), a).max(rel(d.flattening(), f)), c.tol, json!({"default a": d.semimajor_axis(), "default f": d.flattening()})));
            }
            // a proper ellipsoid inside the quantifier of the property
            let proper = a.is_finite() && a > 0.0 && f.is_finite() && (0.0..=1.0 / 150.0).contains(&f);
            out.push(chk("proper", if proper { 0.0 } else { f64::INFINITY }, c.tol, json!({"a": a, "f": f})));
        }
        "triaxial" => match guarded(|| TriaxialEllipsoid::named(c.name)) {
            Ok(Ok(t)) => {
                out.push(chk("triaxial_a", rel(t.semimajor_axis(), a), c.tol, json!({"triaxial": t.semimajor_axis(), "biaxial": a})));
                out.push(chk("triaxial_f", rel(t.flattening(), f), c.tol, json!({"triaxial": t.flattening(), "biaxial": f})));
                out.push(chk("semimedian", rel(t.semimedian_axis(), a_pub), c.tol, json!({"semimedian": t.semimedian_axis(), "published a": a_pub})));
            }
            Ok(Err(e)) => out.push(bad("instantiate", format!("TriaxialEllipsoid::named: {e:?}"))),
            Err(p) => out.push(bad("panic", format!("TriaxialEllipsoid::named: {p}"))),
        },
        "op" => {
            // the same constants seen through an operator: N(0) = a, M(90) = a / (1 - f)
            let prime = world.apply(&format!("curvature prime ellps={}", c.name), true, &[Coor4D::raw(0., 0., 0., 0.)]);
            let merid = world.apply(&format!("curvature meridian ellps={}", c.name), true, &[Coor4D::raw(90., 0., 0., 0.)]);
            match (prime, merid) {
                (Ok(p), Ok(m)) => {
                    out.push(chk("op_a", rel(p[0][0], a_pub), c.tol, json!({"curvature prime at 0": p[0][0], "published a": a_pub})));
                    out.push(chk("op_c", rel(m[0][0], a / (1.0 - f)), c.tol, json!({"curvature meridian at 90": m[0][0], "a/(1-f) of Ellipsoid::named": a / (1.0 - f)})));
                }
                (x, y) => {
                    let msg = x.err().or(y.err()).unwrap_or_default();
                    out.push(bad(if msg.starts_with("panic") { "panic" } else { "opfail" }, msg));
                }
            }
        }
        _ => out.push(bad("unknown", format!("unknown table identity {}", c.sub))),
    }
    out
}

// ---- shape ----------------------------------------------------------------------------------

fn shape_checks(c: &Cfg) -> Vec<Check> {
    let e = &c.e;
    let (a, f) = (e.semimajor_axis(), e.flattening());
    let b = e.semiminor_axis();
    let es = e.eccentricity_squared();
    let eps = e.second_eccentricity_squared();
    // `r`: dimensionless parameters: relative to the value in the class, plus 1e-13 absolutely (a ratio of the axes, which a
    // library may well use, carries the rounding of the axes: a few 1e-16 absolutely, whatever the size of the parameter);
    // `len`: lengths, relative to a
    let r = |what: &str, x: f64, y: f64| {
        let scale = x.abs().max(y.abs());
        chk(what, if x == y { 0.0 } else { (x - y).abs() / (scale + 1e-13 / c.tol) }, c.tol, json!({"library": x, "identity": y}))
    };
    let one = |what: &str, x: f64, y: f64| r(what, x, y);
    let len = |what: &str, x: f64, y: f64| chk(what, (x - y).abs() / a, c.tol, json!({"library": x, "identity": y}));
    match c.sub {
        "es" => vec![r("es", es, f * (2.0 - f)), r("es_2f-ff", es, 2.0 * f - f * f)],
        "b" => vec![len("b", b, a * (1.0 - f))],
        "n" => vec![r("n", e.third_flattening(), f / (2.0 - f))],
        "n_axes" => vec![one("n_axes", e.third_flattening(), (a - b) / (a + b))],
        "eps" => vec![r("eps", eps, es / (1.0 - es))],
        "eps_axes" => vec![one("eps_axes", eps, (a * a - b * b) / (b * b))],
        "g" => vec![r("g", e.second_flattening(), f / (1.0 - f)), one("g_axes", e.second_flattening(), (a - b) / b)],
        "aspect" => vec![r("aspect", e.aspect_ratio(), 1.0 / (1.0 - f)), r("aspect_axes", e.aspect_ratio(), a / b)],
        "E" => vec![len("E", e.linear_eccentricity(), a * es.sqrt()), len("E_axes", e.linear_eccentricity(), ((a - b) * (a + b)).sqrt())],
        "e" => vec![r("e", e.eccentricity(), es.sqrt()), r("e2", e.second_eccentricity(), eps.sqrt())],
        "c" => vec![len("c", e.polar_radius_of_curvature(), a * a / b), len("c_f", e.polar_radius_of_curvature(), a / (1.0 - f))],
        "aliases" => vec![len("a()", e.a(), a), r("f()", e.f(), f), len("semimedian", e.semimedian_axis(), a)],
        "Qn" => {
            let quad = c.sh.meridian_arc(FRAC_PI_2, c.gl);
            vec![
                len("rectifying_radius", e.rectifying_radius(), a * e.normalized_meridian_arc_unit()),
                len("meridian_quadrant", e.meridian_quadrant(), FRAC_PI_2 * e.rectifying_radius()),
                len("quadrant_integral", e.meridian_quadrant(), quad),
            ]
        }
        _ => vec![bad("unknown", format!("unknown shape identity {}", c.sub))],
    }
}

// ---- cart -----------------------------------------------------------------------------------

fn cart_checks(c: &Cfg, pts: &[[i64; 4]], world: &mut World) -> Vec<Vec<Check>> {
    let geo: Vec<Coor4D> = pts.iter().map(|p| Coor4D::raw(rad(p[0]), rad(p[1]), p[2] as f64, 0.0)).collect();
    let def = format!("cart ellps={}", c.name);
    // forward and back, by the route of the identity
    let (fwd, back): (Result<Vec<Coor4D>, String>, Result<Vec<Coor4D>, String>) = if c.kind == "op" {
        let f = world.apply(&def, true, &geo);
        let b = match &f {
            Ok(x) if c.sub == "rt" => world.apply(&def, false, x),
            Ok(x) => Ok(x.clone()),
            Err(m) => Err(m.clone()),
        };
        (f, b)
    } else {
        let e = c.e;
        let f = guarded(|| geo.iter().map(|g| e.cartesian(g)).collect::<Vec<_>>()).map_err(|p| format!("panic: {p}"));
        let b = match &f {
            Ok(x) if c.sub == "rt" => guarded(|| x.iter().map(|g| e.geographic(g)).collect::<Vec<_>>()).map_err(|p| format!("panic: {p}")),
            Ok(x) => Ok(x.clone()),
            Err(m) => Err(m.clone()),
        };
        (f, b)
    };
    world.evals += 2 * geo.len();
    let (fwd, back) = match (fwd, back) {
        (Ok(f), Ok(b)) => (f, b),
        (x, y) => {
            let msg = x.err().or(y.err()).unwrap_or_default();
            let what = if msg.starts_with("panic") { "panic" } else { "opfail" };
            return pts.iter().map(|_| vec![bad(what, msg.clone())]).collect();
        }
    };
    let sh = c.sh;
    let mut out = vec![];
    for i in 0..geo.len() {
        let g = [geo[i][0], geo[i][1], geo[i][2]];
        let x = [fwd[i][0], fwd[i][1], fwd[i][2]];
        let mut v = vec![];
        if x.iter().any(|t| !t.is_finite()) {
            v.push(bad("nan", format!("forward of {:?} gave {:?}", g, x)));
            out.push(v);
            continue;
        }
        match c.sub {
            "rt" => {
                let q = [back[i][0], back[i][1], back[i][2]];
                if q.iter().any(|t| !t.is_finite()) {
                    v.push(bad("nan", format!("{:?} -> {:?} -> {:?}", g, x, q)));
                } else {
                    v.push(chk("roundtrip", sh.ground(g, q), c.tol, json!({"geo": show(&g), "xyz": show(&x), "back": show(&q)})));
                }
            }
            "def" => {
                let r = sh.cartesian(g[0], g[1], g[2]);
                let d = ((x[0] - r[0]).powi(2) + (x[1] - r[1]).powi(2) + (x[2] - r[2]).powi(2)).sqrt();
                v.push(chk("forward_definition", d, c.tol, json!({"geo": show(&g), "xyz": show(&x), "definition": show(&r)})));
            }
            _ => {
                let q = (x[0] * x[0] + x[1] * x[1]) / (sh.a * sh.a) + x[2] * x[2] / (sh.b * sh.b);
                v.push(chk("ellipsoid_equation", (q - 1.0).abs(), c.tol, json!({"geo": show(&g), "xyz": show(&x), "X2/a2+Y2/a2+Z2/b2": q})));
            }
        }
        out.push(v);
    }
    out
}

// ---- latitudes --------------------------------------------------------------------------------

/// (forward, inverse) of one kind of latitude by the trait route, where it has one
fn lat_trait<'a>(kind: &str, e: &'a Ellipsoid) -> Option<(LatFn<'a>, LatFn<'a>)> {
    let g = |f: Box<dyn Fn(f64) -> f64 + 'a>| -> LatFn<'a> { Box::new(move |x| guarded(|| f(x)).map_err(|p| format!("panic: {p}"))) };
    match kind {
        "geocentric" => Some((g(Box::new(|x| e.latitude_geographic_to_geocentric(x))), g(Box::new(|x| e.latitude_geocentric_to_geographic(x))))),
        "reduced" => Some((g(Box::new(|x| e.latitude_geographic_to_reduced(x))), g(Box::new(|x| e.latitude_reduced_to_geographic(x))))),
        "isometric" => Some((g(Box::new(|x| e.latitude_geographic_to_isometric(x))), g(Box::new(|x| e.latitude_isometric_to_geographic(x))))),
        "conformal" => {
            let k = guarded(|| e.coefficients_for_conformal_latitude_computations()).ok()?;
            Some((g(Box::new(move |x| e.latitude_geographic_to_conformal(x, &k))), g(Box::new(move |x| e.latitude_conformal_to_geographic(x, &k)))))
        }
        "authalic" => {
            let k = guarded(|| e.coefficients_for_authalic_latitude_computations()).ok()?;
            Some((g(Box::new(move |x| e.latitude_geographic_to_authalic(x, &k))), g(Box::new(move |x| e.latitude_authalic_to_geographic(x, &k)))))
        }
        "rectifying" => {
            let k = guarded(|| e.coefficients_for_rectifying_latitude_computations()).ok()?;
            Some((g(Box::new(move |x| e.latitude_geographic_to_rectifying(x, &k))), g(Box::new(move |x| e.latitude_rectifying_to_geographic(x, &k)))))
        }
        _ => None,
    }
}

fn lat_checks(c: &Cfg, pts: &[[i64; 4]], world: &mut World) -> Vec<Vec<Check>> {
    let sh = c.sh;
    let gl = c.gl;
    let kind = c.kind;
    let closed = |phi: f64| -> f64 {
        match kind {
            "geocentric" => sh.geocentric(phi),
            "reduced" | "parametric" => sh.reduced(phi),
            "conformal" => sh.conformal(phi),
            "authalic" => sh.authalic(phi),
            "rectifying" => sh.rectifying(phi, gl),
            _ => sh.isometric(phi),
        }
    };
    // deviation of two latitudes in the unit of the class (isometric: relative, with 1 as the smallest scale)
    let iso = kind == "isometric";
    let dev = move |x: f64, y: f64| if iso { (x - y).abs() / x.abs().max(y.abs()).max(1.0) } else { (x - y).abs() };
    let e = c.e;
    let mut routes: Vec<(&str, LatFn, LatFn)> = vec![];
    if kind != "parametric" {
        match lat_trait(kind, &e) {
            Some((f, i)) => routes.push(("trait", f, i)),
            None => return pts.iter().map(|_| vec![bad("panic", format!("coefficients for {kind} latitudes"))]).collect(),
        }
    }
    // the operator route is evaluated in one batch per direction, below; closures over the results
    let def = format!("latitude {} ellps={}", kind, c.name);
    let mut out: Vec<Vec<Check>> = pts.iter().map(|_| vec![]).collect();

    // every latitude any obligation of this configuration needs, for the operator route
    let op_eval = |world: &mut World, fwd: bool, xs: &[f64]| -> Result<Vec<f64>, String> {
        let data: Vec<Coor4D> = xs.iter().map(|x| Coor4D::raw(0.2, *x, 0.0, 0.0)).collect();
        world.apply(&def, fwd, &data).map(|d| d.iter().map(|t| t[1]).collect())
    };

    for (ri, route) in ["trait", "op"].iter().enumerate() {
        if (*route == "trait" && kind == "parametric") || (*route == "op" && iso) {
            continue;
        }
        // f and g: forward and inverse over a batch
        let fw = |world: &mut World, xs: &[f64]| -> Result<Vec<f64>, String> {
            if ri == 0 {
                world.evals += xs.len();
                xs.iter().map(|x| (routes[0].1)(*x)).collect()
            } else {
                op_eval(world, true, xs)
            }
        };
        let phis: Vec<f64> = pts.iter().map(|p| rad(p[0])).collect();
        let tag = |w: &str| format!("{w}@{route}");
        let fail_all = |out: &mut Vec<Vec<Check>>, msg: String| {
            let what = if msg.starts_with("panic") { "panic" } else { "opfail" };
            for v in out.iter_mut() {
                v.push(bad(&tag(what), msg.clone()));
            }
        };
        match c.sub {
            "odd" => {
                let neg: Vec<f64> = phis.iter().map(|x| -x).collect();
                match (fw(world, &phis), fw(world, &neg)) {
                    (Ok(p), Ok(n)) => {
                        for i in 0..pts.len() {
                            out[i].push(chk(&tag("odd"), dev(p[i], -n[i]), c.tol, json!({"lat": phis[i], "f(lat)": show(&[p[i]]), "f(-lat)": show(&[n[i]])})));
                        }
                    }
                    (x, y) => fail_all(&mut out, x.err().or(y.err()).unwrap_or_default()),
                }
            }
            "fix" => match fw(world, &phis) {
                Ok(p) => {
                    for i in 0..pts.len() {
                        out[i].push(chk(&tag("fixed_point"), dev(p[i], phis[i]), c.tol, json!({"lat": phis[i], "f(lat)": show(&[p[i]])})));
                    }
                }
                Err(m) => fail_all(&mut out, m),
            },
            "mono" => {
                let hi: Vec<f64> = pts.iter().map(|p| rad(p[1])).collect();
                match (fw(world, &phis), fw(world, &hi)) {
                    (Ok(p), Ok(q)) => {
                        for i in 0..pts.len() {
                            let ok = p[i] < q[i];
                            out[i].push(chk(&tag("increasing"), if ok { 0.0 } else { 1.0 }, 0.0, json!({"lat1": phis[i], "lat2": hi[i], "f(lat1)": show(&[p[i]]), "f(lat2)": show(&[q[i]])})));
                        }
                    }
                    (x, y) => fail_all(&mut out, x.err().or(y.err()).unwrap_or_default()),
                }
            }
            "rt" => {
                let f = fw(world, &phis);
                let b = match &f {
                    Ok(p) => {
                        if ri == 0 {
                            world.evals += p.len();
                            p.iter().map(|x| (routes[0].2)(*x)).collect()
                        } else {
                            op_eval(world, false, p)
                        }
                    }
                    Err(m) => Err(m.clone()),
                };
                match (f, b) {
                    (Ok(p), Ok(q)) => {
                        for i in 0..pts.len() {
                            // the round trip is judged on the geographical side: radians
                            out[i].push(chk(&tag("roundtrip"), (q[i] - phis[i]).abs(), if iso { 1e-12 } else { c.tol }, json!({"lat": phis[i], "f(lat)": show(&[p[i]]), "back": show(&[q[i]])})));
                        }
                    }
                    (x, y) => fail_all(&mut out, x.err().or(y.err()).unwrap_or_default()),
                }
            }
            _ => {
                // agreement with the closed form, in both directions
                let refs: Vec<f64> = phis.iter().map(|x| closed(*x)).collect();
                let f = fw(world, &phis);
                let b = if ri == 0 {
                    world.evals += refs.len();
                    refs.iter().map(|x| (routes[0].2)(*x)).collect()
                } else {
                    op_eval(world, false, &refs)
                };
                match (f, b) {
                    (Ok(p), Ok(q)) => {
                        for i in 0..pts.len() {
                            out[i].push(chk(&tag("closed_form"), dev(p[i], refs[i]), c.tol, json!({"lat": phis[i], "f(lat)": show(&[p[i]]), "closed form": show(&[refs[i]]),
                                "f(lat) / closed form": if refs[i] != 0.0 { json!(p[i] / refs[i]) } else { json!("-") }})));
                            out[i].push(chk(&tag("closed_form_inverse"), (q[i] - phis[i]).abs(), if iso { 1e-12 } else { c.tol }, json!({"lat": phis[i], "closed form": show(&[refs[i]]), "inverse of it": show(&[q[i]])})));
                        }
                    }
                    (x, y) => fail_all(&mut out, x.err().or(y.err()).unwrap_or_default()),
                }
            }
        }
    }
    out
}

// ---- meridians --------------------------------------------------------------------------------

fn mer_checks(c: &Cfg, pts: &[[i64; 4]], world: &mut World) -> Vec<Vec<Check>> {
    let e = c.e;
    let mut out = vec![];
    for p in pts {
        let phi = rad(p[0]);
        let arc = c.sh.meridian_arc(phi, c.gl);
        world.evals += 3;
        let r = guarded(|| {
            let d = e.meridian_latitude_to_distance(phi);
            let back = e.meridian_distance_to_latitude(d);
            let lat = e.meridian_distance_to_latitude(arc);
            let dist = e.meridian_latitude_to_distance(lat);
            (d, back, lat, dist)
        });
        let v = match r {
            Err(m) => vec![bad("panic", m)],
            Ok((d, back, lat, dist)) => {
                if c.sub == "def" {
                    vec![
                        chk("distance_is_arc", (d - arc).abs(), c.tol, json!({"lat": phi, "meridian_latitude_to_distance": d, "arc (integral)": arc})),
                        chk("latitude_of_arc", (lat - phi).abs() * c.sh.a, c.tol, json!({"lat": phi, "arc (integral)": arc, "meridian_distance_to_latitude": lat})),
                    ]
                } else {
                    vec![
                        chk("lat_dist_lat", (back - phi).abs() * c.sh.a, c.tol, json!({"lat": phi, "distance": d, "back": back})),
                        chk("dist_lat_dist", (dist - arc).abs(), c.tol, json!({"distance": arc, "lat": lat, "back": dist})),
                    ]
                }
            }
        };
        out.push(v);
    }
    out
}

// ---- curvatures ---------------------------------------------------------------------------------

fn curv_checks(c: &Cfg, pts: &[[i64; 4]], world: &mut World) -> Vec<Vec<Check>> {
    let e = c.e;
    let sh = c.sh;
    let lat_deg: Vec<f64> = pts.iter().map(|p| p[0] as f64 / 1000.0).collect();
    let data: Vec<Coor4D> = lat_deg.iter().map(|x| Coor4D::raw(*x, 12.0, 0.0, 0.0)).collect();
    let mut ops: BTreeMap<&str, Result<Vec<Coor4D>, String>> = BTreeMap::new();
    // the second element (12) is a longitude to four of them, and the azimuth in degrees to `azimuthal`
    for flag in ["prime", "meridian", "gaussian", "mean", "azimuthal"] {
        ops.insert(flag, world.apply(&format!("curvature {} ellps={}", flag, c.name), true, &data));
    }
    let mut out = vec![];
    for (i, p) in pts.iter().enumerate() {
        let phi = rad(p[0]);
        world.evals += 2;
        let r = guarded(|| (e.meridian_radius_of_curvature(phi), e.prime_vertical_radius_of_curvature(phi), e.polar_radius_of_curvature()));
        let (m, n, pol) = match r {
            Ok(x) => x,
            Err(msg) => {
                out.push(vec![bad("panic", msg)]);
                continue;
            }
        };
        let mut v = vec![];
        let r = |what: &str, x: f64, y: f64| chk(what, rel(x, y), c.tol, json!({"lat": phi, "library": x, "identity": y}));
        match c.sub {
            "def" => {
                let (mr, nr) = (sh.m_radius(phi), sh.n_radius(phi));
                v.push(r("M@trait", m, mr));
                v.push(r("N@trait", n, nr));
                for (flag, want) in [("prime", nr), ("meridian", mr), ("gaussian", (mr * nr).sqrt()), ("mean", 2.0 / (1.0 / mr + 1.0 / nr)),
                                     ("azimuthal", 1.0 / (12f64.to_radians().cos().powi(2) / mr + 12f64.to_radians().sin().powi(2) / nr))] {
                    match &ops[flag] {
                        Ok(d) => v.push(r(&format!("{flag}@op"), d[i][0], want)),
                        Err(msg) => v.push(bad(if msg.starts_with("panic") { "panic@op" } else { "opfail@op" }, msg.clone())),
                    }
                }
            }
            "pole" => {
                let cc = sh.a * sh.a / sh.b;
                v.push(r("M_pole", m, cc));
                v.push(r("N_pole", n, cc));
                v.push(r("M=N", m, n));
                v.push(r("polar_radius", pol, m));
            }
            _ => {
                v.push(r("N_equator", n, sh.a));
                v.push(r("M_equator", m, sh.b * sh.b / sh.a));
            }
        }
        out.push(v);
    }
    out
}

// ---- geodesics ------------------------------------------------------------------------------------

fn geod_checks(c: &Cfg, pts: &[[i64; 4]], world: &mut World) -> Vec<Vec<Check>> {
    let e = c.e;
    let sh = c.sh;
    let a = sh.a;
    let mut out = vec![];
    let conv = |t: &Coor4D| t[3] < 990.0 && t.0.iter().all(|x| x.is_finite());
    // the `geodesic` operator, in one batch per direction
    let mut op_inv: Result<Vec<Coor4D>, String> = Err(String::new());
    let mut op_fwd: Result<Vec<Coor4D>, String> = Err(String::new());
    let mut dests: Vec<Option<Coor4D>> = vec![];
    if c.sub == "op" {
        let def = format!("geodesic ellps={}", c.name);
        let fwd_in: Vec<Coor4D> = pts.iter().map(|p| Coor4D::raw(p[0] as f64 / 1000.0, p[3] as f64 / 1000.0, p[1] as f64 / 1000.0, a * rad(p[2]))).collect();
        op_fwd = world.apply(&def, true, &fwd_in);
        for p in pts {
            let from = Coor2D::raw(rad(p[3]), rad(p[0]));
            dests.push(guarded(|| e.geodesic_fwd(&from, rad(p[1]), a * rad(p[2]))).ok());
        }
        let inv_in: Vec<Coor4D> = pts
            .iter()
            .zip(dests.iter())
            .map(|(p, d)| match d {
                Some(d) => Coor4D::raw(p[0] as f64 / 1000.0, p[3] as f64 / 1000.0, d[1].to_degrees(), d[0].to_degrees()),
                None => Coor4D::nan(),
            })
            .collect();
        op_inv = world.apply(&def, false, &inv_in);
    }
    for (i, p) in pts.iter().enumerate() {
        let mut v = vec![];
        world.evals += 3;
        match c.sub {
            "consistent" | "symmetric" | "sphere" | "op" => {
                let (b1, az, sigma, l1) = (rad(p[0]), rad(p[1]), rad(p[2]), rad(p[3]));
                let s = a * sigma;
                // the displacement on the ground that an error of an azimuth at one end causes at the other end
                let lever = a * sigma.sin().abs();
                let from = Coor2D::raw(l1, b1);
                let r = guarded(|| {
                    let d = e.geodesic_fwd(&from, az, s);
                    let to = Coor2D::raw(d[0], d[1]);
                    let inv = e.geodesic_inv(&from, &to);
                    let rev = e.geodesic_inv(&to, &from);
                    let again = e.geodesic_fwd(&from, inv[0], inv[2]);
                    (d, inv, rev, again)
                });
                let (d, inv, rev, again) = match r {
                    Ok(x) => x,
                    Err(msg) => {
                        out.push(vec![bad("panic", msg)]);
                        continue;
                    }
                };
                let det = json!({"from": show(&[l1, b1]), "azimuth": az, "distance": s, "direct": show(&d.0), "inverse": show(&inv.0), "inverse reversed": show(&rev.0)});
                if !conv(&d) || !conv(&inv) || !conv(&rev) || !conv(&again) {
                    out.push(vec![Check { what: "no_convergence".into(), value: f64::INFINITY, tol: 0.0, detail: det }]);
                    continue;
                }
                match c.sub {
                    "consistent" => {
                        v.push(chk("distance", (inv[2] - s).abs(), c.tol, det.clone()));
                        v.push(chk("azimuth_at_1", wrap_pi(inv[0] - az).abs() * lever, c.tol, det.clone()));
                        v.push(chk("azimuth_at_2", wrap_pi(inv[1] - d[2]).abs() * lever, c.tol, det.clone()));
                        v.push(chk("position", sh.ground([d[0], d[1], 0.], [again[0], again[1], 0.]), c.tol, det));
                    }
                    "symmetric" => {
                        v.push(chk("s12=s21", (inv[2] - rev[2]).abs(), c.tol, det.clone()));
                        v.push(chk("azimuth_1_reversed", wrap_pi(rev[1] - inv[0] - PI).abs() * lever, c.tol, det.clone()));
                        v.push(chk("azimuth_2_reversed", wrap_pi(rev[0] - inv[1] - PI).abs() * lever, c.tol, det));
                    }
                    "sphere" => {
                        let (l2, b2, a2) = sphere_direct(l1, b1, az, sigma);
                        v.push(chk("direct_position", sh.ground([l2, b2, 0.], [d[0], d[1], 0.]), c.tol, json!({"great circle": show(&[l2, b2, a2]), "library": det.clone()})));
                        // the azimuth at a destination that is a pole depends on the longitude given to the pole: not compared
                        if b2.cos() > 1e-6 {
                            v.push(chk("direct_azimuth", wrap_pi(d[2] - a2).abs() * lever, c.tol, json!({"great circle": show(&[l2, b2, a2]), "library": det.clone()})));
                        }
                        let (g1, g2, gs) = sphere_inverse(l1, b1, d[0], d[1]);
                        v.push(chk("inverse_distance", (inv[2] - a * gs).abs(), c.tol, json!({"great circle": show(&[g1, g2, a * gs]), "library": det.clone()})));
                        v.push(chk("inverse_azimuth_1", wrap_pi(inv[0] - g1).abs() * lever, c.tol, json!({"great circle": show(&[g1, g2, a * gs]), "library": det.clone()})));
                        v.push(chk("inverse_azimuth_2", wrap_pi(inv[1] - g2).abs() * lever, c.tol, json!({"great circle": show(&[g1, g2, a * gs]), "library": det})));
                    }
                    _ => {
                        // operator against trait: degrees and metres, relative (the smallest scale of an angle: 1 degree)
                        let cmp = |x: f64, y: f64| (x - y).abs() / x.abs().max(y.abs()).max(1.0);
                        let ang = |x: f64, y: f64| (wrap_pi((x - y).to_radians()).to_degrees()).abs();
                        match (&op_fwd, &op_inv) {
                            (Ok(f), Ok(n)) => {
                                let (f, n) = (f[i], n[i]);
                                v.push(chk("op_direct", ang(f[0], d[1].to_degrees()).max(ang(f[1], d[0].to_degrees())), c.tol, json!({"operator": show(&f.0), "trait": det.clone()})));
                                // the points handed to the operator went through degrees: compare with the trait on the same route
                                let to = Coor2D::raw(d[0].to_degrees().to_radians(), d[1].to_degrees().to_radians());
                                let fr = Coor2D::raw((p[3] as f64 / 1000.0).to_radians(), (p[0] as f64 / 1000.0).to_radians());
                                let tr = e.geodesic_inv(&fr, &to);
                                v.push(chk("op_inverse", ang(n[0], tr[0].to_degrees()).max(ang(n[1], tr[1].to_degrees())).max(cmp(n[2], tr[2])), c.tol, json!({"operator": show(&n.0), "trait": show(&tr.0)})));
                                v.push(chk("op_return_azimuth", ang(n[3], tr[1].to_degrees() + 180.0), c.tol, json!({"operator": show(&n.0), "trait": show(&tr.0)})));
                            }
                            (x, y) => {
                                let msg = x.clone().err().or(y.clone().err()).unwrap_or_default();
                                v.push(bad(if msg.starts_with("panic") { "panic" } else { "opfail" }, msg));
                            }
                        }
                    }
                }
            }
            "meridian" => {
                let (b1, b2, l) = (rad(p[0]), rad(p[1]), rad(p[2]));
                let across = p[3] == 1;
                let (m1, m2) = (sh.meridian_arc(b1, c.gl), sh.meridian_arc(b2, c.gl));
                // same meridian: the arc between the latitudes; opposite meridians: over the nearer pole
                let (arc, heading, l2, lever) = if !across {
                    ((m2 - m1).abs(), if b2 > b1 { 0.0 } else { PI }, l, a * (b2 - b1).sin().abs())
                } else if b1 + b2 > 0.0 {
                    (2.0 * sh.meridian_arc(FRAC_PI_2, c.gl) - m1 - m2, 0.0, l + PI, a * (b1 + b2).sin().abs())
                } else {
                    (2.0 * sh.meridian_arc(FRAC_PI_2, c.gl) + m1 + m2, PI, l + PI, a * (b1 + b2).sin().abs())
                };
                let (from, to) = (Coor2D::raw(l, b1), Coor2D::raw(l2, b2));
                let r = guarded(|| (e.geodesic_inv(&from, &to), e.geodesic_fwd(&from, heading, arc)));
                let (inv, d) = match r {
                    Ok(x) => x,
                    Err(msg) => {
                        out.push(vec![bad("panic", msg)]);
                        continue;
                    }
                };
                let det = json!({"lon1": l, "lat1": b1, "lon2": l2, "lat2": b2, "meridian arc (integral)": arc, "inverse": show(&inv.0), "direct": show(&d.0)});
                let sfx = if across { "_over_pole" } else { "" };
                if !conv(&inv) || !conv(&d) {
                    out.push(vec![Check { what: format!("no_convergence{sfx}"), value: f64::INFINITY, tol: 0.0, detail: det }]);
                    continue;
                }
                v.push(chk(&format!("distance{sfx}"), (inv[2] - arc).abs(), c.tol, det.clone()));
                v.push(chk(&format!("azimuth{sfx}"), wrap_pi(inv[0] - heading).abs() * lever, c.tol, det.clone()));
                // the destination of the direct problem: at a pole every longitude is the same point
                v.push(chk(&format!("direct{sfx}"), sh.ground([l2, b2, 0.], [d[0], d[1], 0.]), c.tol, det));
            }
            _ => {
                let (l1, l2) = (rad(p[0]), rad(p[1]));
                let arc = a * (l2 - l1).abs();
                let heading = if l2 > l1 { FRAC_PI_2 } else { -FRAC_PI_2 };
                let (from, to) = (Coor2D::raw(l1, 0.0), Coor2D::raw(l2, 0.0));
                let r = guarded(|| (e.geodesic_inv(&from, &to), e.geodesic_fwd(&from, heading, arc)));
                let (inv, d) = match r {
                    Ok(x) => x,
                    Err(msg) => {
                        out.push(vec![bad("panic", msg)]);
                        continue;
                    }
                };
                let det = json!({"lon1": l1, "lon2": l2, "a*dlon": arc, "inverse": show(&inv.0), "direct": show(&d.0)});
                if !conv(&inv) || !conv(&d) {
                    out.push(vec![Check { what: "no_convergence".into(), value: f64::INFINITY, tol: 0.0, detail: det }]);
                    continue;
                }
                let lever = a * (l2 - l1).sin().abs();
                v.push(chk("distance", (inv[2] - arc).abs(), c.tol, det.clone()));
                v.push(chk("azimuth", wrap_pi(inv[0] - heading).abs().max(wrap_pi(inv[1] - heading).abs()) * lever, c.tol, det.clone()));
                v.push(chk("direct", sh.ground([l2, 0., 0.], [d[0], d[1], 0.]), c.tol, det));
            }
        }
        out.push(v);
    }
    out
}

// ---- driver -----------------------------------------------------------------------------------------

#[derive(Default)]
struct Group {
    fails: usize,
    worst: f64,
    sample: Value,
    // the worst case on GRS80, if the group has one: the reproduction a reader recognises
    ref_worst: f64,
    ref_sample: Value,
    ellps: BTreeSet<String>,
    lines: usize,
}

#[derive(Default)]
struct Measure {
    n: usize,
    fails: usize,
    worst: f64,
    ratio: f64,
    tol: f64,
    at: Value,
}

fn eval(input: &str, output: &str, progress: Option<&String>) -> i32 {
    quiet_panics();
    let f = std::fs::File::open(input).expect("cannot open input");
    let mut w = std::io::BufWriter::new(std::fs::File::create(output).expect("cannot create output"));
    let gl = gauss_legendre(48);
    let mut world = World::new();
    let mut groups: BTreeMap<(String, String, String), Group> = BTreeMap::new();
    let mut measures: BTreeMap<(String, String), Measure> = BTreeMap::new();
    let mut per_id: BTreeMap<String, (usize, usize)> = BTreeMap::new();
    let mut per_fam: BTreeMap<String, (usize, usize, usize)> = BTreeMap::new();
    let mut spec_names: BTreeSet<String> = BTreeSet::new();
    let (mut total, mut failing, mut configs) = (0usize, 0usize, 0usize);
    for line in std::io::BufReader::new(f).lines() {
        let line = line.unwrap();
        if line.trim().is_empty() {
            continue;
        }
        let rec: Value = serde_json::from_str(&line).expect("bad json");
        let g = |k: &str| rec[k].as_str().unwrap_or("").to_string();
        let (id, fam, kind, sub, name, src, unit) = (g("id"), g("fam"), g("kind"), g("sub"), g("ellps"), g("src"), g("unit"));
        let pts: Vec<[i64; 4]> = rec["pts"].as_array().unwrap().iter().map(|p| {
            let a = p.as_array().unwrap();
            [a[0].as_i64().unwrap(), a[1].as_i64().unwrap(), a[2].as_i64().unwrap(), a[3].as_i64().unwrap()]
        }).collect();
        configs += 1;
        total += pts.len();
        if src == "table" {
            spec_names.insert(name.clone());
        }
        if let Some(p) = progress {
            let _ = std::fs::write(p, json!({"id": id, "ellps": name}).to_string());
        }
        let pid = per_id.entry(id.clone()).or_default();
        pid.0 += pts.len();
        let pf = per_fam.entry(fam.clone()).or_default();
        pf.0 += pts.len();
        pf.2 += 1;

        // the ellipsoid: by name, or as "a,rf"
        let ell = match guarded(|| Ellipsoid::named(&name)) {
            Ok(Ok(e)) => Ok(e),
            Ok(Err(e)) => Err(("named_error", format!("Ellipsoid::named({name:?}): {e:?}"))),
            Err(p) => Err(("named_panic", format!("Ellipsoid::named({name:?}) panicked: {p}"))),
        };
        let results: Vec<Vec<Check>> = match ell {
            Err((what, msg)) => pts.iter().map(|_| vec![bad(what, msg.clone())]).collect(),
            Ok(e) => {
                let (a, f) = (e.semimajor_axis(), e.flattening());
                let raw_tol = rec["tol"].as_f64().unwrap();
                let tol = match unit.as_str() {
                    "nm" => raw_tol * 1e-9,
                    "nm_a" => raw_tol * 1e-9 * a / A_REF,
                    "frad" | "frel" => raw_tol * 1e-15,
                    _ => 0.0,
                };
                let c = Cfg { name: &name, kind: &kind, sub: &sub, tol, sh: Shape::new(a, f), e, gl: &gl };
                let r = guarded(|| match fam.as_str() {
                    "table" => vec![table_checks(&c, &rec, &mut world)],
                    "shape" => vec![shape_checks(&c)],
                    "cart" => cart_checks(&c, &pts, &mut world),
                    "lat" => lat_checks(&c, &pts, &mut world),
                    "mer" => mer_checks(&c, &pts, &mut world),
                    "curv" => curv_checks(&c, &pts, &mut world),
                    "geod" => geod_checks(&c, &pts, &mut world),
                    _ => pts.iter().map(|_| vec![bad("unknown", format!("unknown family {fam}"))]).collect(),
                });
                match r {
                    Ok(v) => v,
                    Err(p) => pts.iter().map(|_| vec![bad("panic", p.clone())]).collect(),
                }
            }
        };
        if results.len() != pts.len() {
            eprintln!("internal: {} results for {} points of {}", results.len(), pts.len(), id);
            return 2;
        }
        let ecls = if fam == "table" { name.clone() } else if rec["sphere"].as_bool().unwrap_or(false) { "sphere".to_string() } else { "ellipsoid".to_string() };
        for (p, checks) in pts.iter().zip(results.iter()) {
            let mut failed: Option<&Check> = None;
            for ch in checks {
                let m = measures.entry((id.clone(), ch.what.clone())).or_default();
                m.n += 1;
                if m.n == 1 {
                    m.tol = ch.tol;
                }
                let ok = ch.value <= ch.tol;
                if !ok {
                    m.fails += 1;
                }
                // the worst case relative to what is allowed (tolerances scale with the axis)
                let ratio = if ch.tol > 0.0 { ch.value / ch.tol } else { ch.value };
                if ratio.is_finite() && (ratio > m.ratio || m.at.is_null()) {
                    m.ratio = m.ratio.max(ratio);
                    m.worst = ch.value;
                    m.tol = ch.tol;
                    m.at = json!({"ellps": name, "pt": p});
                }
                if !ok && failed.is_none() {
                    failed = Some(ch);
                }
            }
            if let Some(ch) = failed {
                failing += 1;
                per_id.get_mut(&id).unwrap().1 += 1;
                per_fam.get_mut(&fam).unwrap().1 += 1;
                let gr = groups.entry((id.clone(), ecls.clone(), ch.what.clone())).or_default();
                gr.fails += 1;
                gr.ellps.insert(name.clone());
                let val = if ch.value.is_finite() { json!(ch.value) } else { json!(format!("{}", ch.value)) };
                let row = json!({"id": id, "fam": fam, "kind": kind, "sub": sub, "ellps": name, "ecls": ecls, "pt": p, "what": ch.what, "value": val,
                                 "tol": ch.tol, "unit": unit, "cls": rec["cls"], "detail": ch.detail, "record": {"id": id, "fam": fam, "kind": kind, "sub": sub,
                                 "ellps": name, "src": src, "sphere": rec["sphere"], "ecls": rec["ecls"], "am": rec["am"], "af": rec["af"], "pubs": rec["pubs"],
                                 "cls": rec["cls"], "tol": rec["tol"], "unit": unit, "pts": [p]}});
                if gr.sample.is_null() || (ch.value.is_finite() && ch.value > gr.worst) {
                    gr.sample = row.clone();
                }
                if ch.value.is_finite() {
                    gr.worst = gr.worst.max(ch.value);
                }
                if name == "GRS80" && (gr.ref_sample.is_null() || (ch.value.is_finite() && ch.value > gr.ref_worst)) {
                    gr.ref_sample = row.clone();
                    if ch.value.is_finite() {
                        gr.ref_worst = ch.value;
                    }
                }
                if gr.lines < 20 {
                    gr.lines += 1;
                    writeln!(w, "{}", row).unwrap();
                }
            }
        }
        w.flush().unwrap();
        if world.handles.len() > 400 {
            let ev = world.evals;
            world = World::new();
            world.evals = ev;
        }
    }
    for ((id, ecls, what), gr) in groups.iter() {
        writeln!(w, "{}", json!({"group": true, "id": id, "ecls": ecls, "what": what, "failing": gr.fails, "worst": gr.worst,
            "ellps": gr.ellps.iter().take(60).collect::<Vec<_>>(), "sample": gr.sample, "ref_sample": gr.ref_sample})).unwrap();
    }
    for ((id, what), m) in measures.iter() {
        writeln!(w, "{}", json!({"measure": true, "id": id, "what": what, "n": m.n, "fails": m.fails, "worst": m.worst, "tol": m.tol, "ratio": m.ratio, "at": m.at})).unwrap();
    }
    let code_names: Vec<&str> = geodesy::verif::ellipsoid_names();
    let uncovered: Vec<&str> = code_names.iter().copied().filter(|n| !spec_names.contains(*n)).collect();
    let unknown: Vec<&String> = spec_names.iter().filter(|n| !code_names.contains(&n.as_str())).collect();
    let ids: BTreeMap<String, Value> = per_id.iter().map(|(k, v)| (k.clone(), json!({"obligations": v.0, "failing": v.1}))).collect();
    let fams: BTreeMap<String, Value> = per_fam.iter().map(|(k, v)| (k.clone(), json!({"obligations": v.0, "failing": v.1, "configurations": v.2}))).collect();
    writeln!(w, "{}", json!({"summary": true, "configurations": configs, "obligations": total, "failing": failing, "evaluations": world.evals,
        "identities": ids, "families": fams, "code_table": code_names.len(), "in_code_not_in_spec": uncovered, "in_spec_not_in_code": unknown})).unwrap();
    w.flush().unwrap();
    println!("ellps: {} obligations in {} configurations, {} failing", total, configs, failing);
    if failing == 0 { 0 } else { 1 }
}

fn main() {
    let a: Vec<String> = std::env::args().collect();
    let code = match a.get(1).map(|s| s.as_str()) {
        Some("eval") if a.len() >= 4 => eval(&a[2], &a[3], a.get(4)),
        Some("names") => {
            println!("{}", json!(geodesy::verif::ellipsoid_names()));
            0
        }
        _ => {
            eprintln!("usage: gvh_ellps eval <in.ndjson> <out.ndjson> [progress-file]\n       gvh_ellps names");
            2
        }
    };
    std::process::exit(code);
}
