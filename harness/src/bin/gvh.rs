//! gvh — the Rust side of the /verif machinery: replays TLC-generated
//! behaviours into the real library and records traces from it.
use gvh::{script, tables};

fn main() {
    let args: Vec<String> = std::env::args().collect();
    let a: Vec<&str> = args.iter().map(|s| s.as_str()).collect();
    let code = match a.get(1).copied() {
        Some("replay") => match a.get(2).copied() {
            Some("script") => script::replay(a[3], a[4]),
            Some("twin") => script::replay_twin(a[3], a[4]),
            Some("tables") => tables::replay(a[3], a[4]),
            other => {
                eprintln!("unknown replay suite {other:?}");
                2
            }
        },
        Some("record") => match a.get(2).copied() {
            Some("steps") => script::record_steps(a[3], a[4]),
            other => {
                eprintln!("unknown record suite {other:?}");
                2
            }
        },
        _ => {
            eprintln!("usage: gvh replay <suite> <in> <out> | gvh record <suite> ...");
            2
        }
    };
    std::process::exit(code);
}
