//! gvh_routes — C14, the numeric route pairs.
//!
//! `gvh_routes eval <in.ndjson> <out.ndjson>`: evaluates the obligations enumerated by
//! spec/Routes.tla (MC_C14_routes_*): for every record (pair x shape x ellipsoid) and every
//! lattice point x direction in it, both routes are run on the real library - operators through
//! Context::apply on a Minimal context, methods through the public Ellipsoid / EllipsoidBase /
//! GeoCart / Geodesics / Latitudes / Meridians / Gravity traits and math::ancillary - and the
//! two results are compared with the accuracy class the specification took from the C14 statement.
//!
//! Input record (one per line; written by the `Emit` invariant of spec/Routes.tla):
//!   {"pair","clause","shape","ellps","a":{"k":"op"|"api","F","I"},"b":{..},"dk",
//!    "dirs":[{"dir":"F"|"I","cls","tol":{"m","e","unit"},"via":""|"a.F"|"b.F","expect":"b"|"origin",
//!             "cmp":{"joint":""|"plane"|"ground2"|"ground3","el":[mode;4]}}],
//!    "dev":{"name":"DEV_.."|"","b":{..}},      (a named deviation of the code: route B of the deviated prediction)
//!    "pts":[[i,i,i,i],..],"n"}
//! Lattice points are integers: angles in tenths of a degree, lengths in metres; `dk` says how
//! they become a tuple in the units route A reads.
//!
//! An obligation that contradicts the reference is also compared with the prediction of the record's deviation
//! switch; a group of failures all of whose cases equal that prediction carries `"deviation":"DEV_.."`.
//! A route that panics or returns an error is re-run point by point, so that the failure is attributed.
//!
//! Output: `{"begin":k}` before each record (so that a hang / crash of the code under test can be
//! attributed by the driver), one line per failing obligation (at most 20 per group), one
//! `{"group":true,..}` line per (pair, shape, dir, what) with the worst case as a one-point record
//! that can be fed back to `eval`, one `{"stat":true,..}` line per (pair, dir) with the largest
//! residual seen (the measured worst cases of the tolerance table), and a `{"summary":true,..}` line.
//!
//! Exit code: 0 all obligations hold, 1 some fail, 2 usage / malformed input (spec and harness
//! out of step: unknown route name, unknown comparison mode).
use geodesy::authoring::*;
use gvh::util::*;
use serde_json::{json, Value};
use std::collections::{BTreeMap, BTreeSet};
use std::f64::consts::{FRAC_PI_2, FRAC_PI_4, PI};
use std::io::{BufRead, Write};

// ---- numerics of the harness itself: Gauss-Legendre quadrature --------------------------------

/// nodes and weights on [-1, 1] (Newton iteration on the Legendre polynomial)
fn gauss_legendre(n: usize) -> Vec<(f64, f64)> {
    let mut out = Vec::with_capacity(n);
    for i in 0..n {
        let mut x = (PI * (i as f64 + 0.75) / (n as f64 + 0.5)).cos();
        let mut dp = 1.0;
        for _ in 0..100 {
            let (mut p0, mut p1) = (1.0, x);
            for k in 2..=n {
                let kf = k as f64;
                let p2 = ((2.0 * kf - 1.0) * x * p1 - (kf - 1.0) * p0) / kf;
                p0 = p1;
                p1 = p2;
            }
            dp = n as f64 * (x * p1 - p0) / (x * x - 1.0);
            let dx = p1 / dp;
            x -= dx;
            if dx.abs() < 1e-16 {
                break;
            }
        }
        out.push((x, 2.0 / ((1.0 - x * x) * dp * dp)));
    }
    out
}

struct Quad {
    fine: Vec<(f64, f64)>,
    coarse: Vec<(f64, f64)>,
    /// largest |fine - coarse| seen, relative to the semimajor axis: the quadrature's own error estimate
    selfcheck: std::cell::Cell<f64>,
}

impl Quad {
    fn new() -> Quad {
        Quad { fine: gauss_legendre(64), coarse: gauss_legendre(40), selfcheck: std::cell::Cell::new(0.0) }
    }
    /// integral of g over [0, upper], compensated summation
    fn integrate(rule: &[(f64, f64)], upper: f64, g: &dyn Fn(f64) -> f64) -> f64 {
        let h = upper / 2.0;
        let (mut s, mut c) = (0.0f64, 0.0f64);
        for (x, w) in rule {
            let y = w * g(h * (x + 1.0)) - c;
            let t = s + y;
            c = (t - s) - y;
            s = t;
        }
        s * h
    }
    /// meridian arc from the equator: the integral of the meridian radius of curvature
    /// a (1 - e^2) / (1 - e^2 sin^2 t)^(3/2), the definition, in the harness's own arithmetic
    fn arc(&self, a: f64, es: f64, lat: f64) -> f64 {
        let g = |t: f64| {
            let s = t.sin();
            (1.0 - es) / ((1.0 - es * s * s) * (1.0 - es * s * s).sqrt())
        };
        let fine = Quad::integrate(&self.fine, lat, &g);
        let coarse = Quad::integrate(&self.coarse, lat, &g);
        self.selfcheck.set(self.selfcheck.get().max((fine - coarse).abs()));
        a * fine
    }
}

// ---- the routes ------------------------------------------------------------------------------

struct World {
    ctx: Ctx,
    handles: BTreeMap<String, Result<OpHandle, String>>,
    evals: usize,
}

impl World {
    fn new() -> World {
        World { ctx: Ctx::new("minimal"), handles: BTreeMap::new(), evals: 0 }
    }
    fn op(&mut self, def: &str) -> Result<OpHandle, String> {
        if let Some(h) = self.handles.get(def) {
            return h.clone();
        }
        self.evals += 1;
        let c = self.ctx.get_mut();
        let r = match guarded(|| c.op(def)) {
            Ok(Ok(h)) => Ok(h),
            Ok(Err(e)) => Err(format!("rejected: {e:?}")),
            Err(p) => Err(format!("panic: {p}")),
        };
        self.handles.insert(def.to_string(), r.clone());
        r
    }
    fn apply(&mut self, h: OpHandle, dir: &str, data: &[Coor4D]) -> Result<Vec<Coor4D>, String> {
        self.evals += 1;
        let mut d = data.to_vec();
        let c = self.ctx.get();
        match guarded(|| c.apply(h, dir_of(dir), &mut d)) {
            Ok(Ok(_)) => Ok(d),
            Ok(Err(e)) => Err(format!("error: {e:?}")),
            Err(p) => Err(format!("panic: {p}")),
        }
    }
}

/// what a method route needs besides the tuple
struct Env<'a> {
    e: Ellipsoid,
    quad: &'a Quad,
}

/// None: the route is not defined at this point by its own report (Vincenty: no convergence)
type ApiFn = Box<dyn Fn(&Env, &Coor4D) -> Option<Coor4D>>;

fn lat_only(f: impl Fn(&Env, f64) -> f64 + 'static) -> ApiFn {
    Box::new(move |env, c| {
        let mut o = *c;
        o[1] = f(env, c[1]);
        Some(o)
    })
}

fn first_only(f: impl Fn(&Env, &Coor4D) -> f64 + 'static) -> ApiFn {
    Box::new(move |env, c| {
        let mut o = *c;
        o[0] = f(env, c);
        Some(o)
    })
}

/// the closed form of the statement: chi = 2 atan( tan(pi/4 + phi/2) ((1 - e sin phi)/(1 + e sin phi))^(e/2) ) - pi/2
fn conformal_closed(ecc: f64, phi: f64) -> f64 {
    let es = ecc * phi.sin();
    2.0 * ((FRAC_PI_4 + phi / 2.0).tan() * ((1.0 - es) / (1.0 + es)).powf(ecc / 2.0)).atan() - FRAC_PI_2
}

/// q(phi) = (1 - e^2) ( sin phi / (1 - e^2 sin^2 phi) + atanh(e sin phi) / e ); 2 sin phi on a sphere
fn q_closed(ecc: f64, sinphi: f64) -> f64 {
    if ecc == 0.0 {
        return 2.0 * sinphi;
    }
    let es = ecc * sinphi;
    (1.0 - ecc * ecc) * (sinphi / (1.0 - es * es) + es.atanh() / ecc)
}

/// Probe routes of the harness itself (binding self-test of the comparison machinery; independent of the library):
/// `probe: identity` | `probe: add <element> <delta>` | `probe: scale <element> <factor - 1>` | `probe: nan <element>` | `probe: panic`
fn probe(spec: &str) -> Option<ApiFn> {
    let t: Vec<&str> = spec.split_whitespace().collect();
    let f: ApiFn = match t.as_slice() {
        ["identity"] => Box::new(|_, c| Some(*c)),
        ["panic"] => Box::new(|_, _| panic!("probe panic")),
        ["undefined"] => Box::new(|_, _| None),
        ["nan", i] => {
            let i: usize = i.parse().ok().filter(|i| *i < 4)?;
            Box::new(move |_, c| {
                let mut o = *c;
                o[i] = f64::NAN;
                Some(o)
            })
        }
        [kind @ ("add" | "scale"), i, x] => {
            let i: usize = i.parse().ok().filter(|i| *i < 4)?;
            let x: f64 = x.parse().ok()?;
            let scale = *kind == "scale";
            Box::new(move |_, c| {
                let mut o = *c;
                o[i] = if scale { c[i] * (1.0 + x) } else { c[i] + x };
                Some(o)
            })
        }
        _ => return None,
    };
    Some(f)
}

/// The method routes, by the names spec/Routes.tla gives them
fn api(name: &str) -> Option<ApiFn> {
    if let Some(spec) = name.strip_prefix("probe: ") {
        return probe(spec);
    }
    let f: ApiFn = match name {
        // ---- GeoCart
        "GeoCart::cartesian" => Box::new(|env, c| Some(env.e.cartesian(c))),
        "GeoCart::geographic" => Box::new(|env, c| Some(env.e.geographic(c))),
        // ---- Latitudes (the operator `latitude` reads and writes the second element, radians)
        "Latitudes::latitude_geographic_to_geocentric" => lat_only(|env, x| env.e.latitude_geographic_to_geocentric(x)),
        "Latitudes::latitude_geocentric_to_geographic" => lat_only(|env, x| env.e.latitude_geocentric_to_geographic(x)),
        "Latitudes::latitude_geographic_to_reduced" => lat_only(|env, x| env.e.latitude_geographic_to_reduced(x)),
        "Latitudes::latitude_reduced_to_geographic" => lat_only(|env, x| env.e.latitude_reduced_to_geographic(x)),
        "Latitudes::latitude_geographic_to_conformal" => lat_only(|env, x| env.e.latitude_geographic_to_conformal(x, &env.e.coefficients_for_conformal_latitude_computations())),
        "Latitudes::latitude_conformal_to_geographic" => lat_only(|env, x| env.e.latitude_conformal_to_geographic(x, &env.e.coefficients_for_conformal_latitude_computations())),
        "Latitudes::latitude_geographic_to_authalic" => lat_only(|env, x| env.e.latitude_geographic_to_authalic(x, &env.e.coefficients_for_authalic_latitude_computations())),
        "Latitudes::latitude_authalic_to_geographic" => lat_only(|env, x| env.e.latitude_authalic_to_geographic(x, &env.e.coefficients_for_authalic_latitude_computations())),
        "Latitudes::latitude_geographic_to_rectifying" => lat_only(|env, x| env.e.latitude_geographic_to_rectifying(x, &env.e.coefficients_for_rectifying_latitude_computations())),
        "Latitudes::latitude_rectifying_to_geographic" => lat_only(|env, x| env.e.latitude_rectifying_to_geographic(x, &env.e.coefficients_for_rectifying_latitude_computations())),
        // ---- curvature: latitude (and azimuth) in degrees in, radius out in the first element
        "EllipsoidBase::prime_vertical_radius_of_curvature" => first_only(|env, c| env.e.prime_vertical_radius_of_curvature(c[0].to_radians())),
        "EllipsoidBase::meridian_radius_of_curvature" => first_only(|env, c| env.e.meridian_radius_of_curvature(c[0].to_radians())),
        "doc: sqrt(M * N)" => first_only(|env, c| {
            let lat = c[0].to_radians();
            (env.e.meridian_radius_of_curvature(lat) * env.e.prime_vertical_radius_of_curvature(lat)).sqrt()
        }),
        "doc: 2 / (1/M + 1/N)" => first_only(|env, c| {
            let lat = c[0].to_radians();
            2.0 / (1.0 / env.e.meridian_radius_of_curvature(lat) + 1.0 / env.e.prime_vertical_radius_of_curvature(lat))
        }),
        "doc: 1 / (cos^2(alpha)/M + sin^2(alpha)/N)" => first_only(|env, c| {
            let (lat, azi) = (c[0].to_radians(), c[1].to_radians());
            let (s, co) = azi.sin_cos();
            1.0 / (co * co / env.e.meridian_radius_of_curvature(lat) + s * s / env.e.prime_vertical_radius_of_curvature(lat))
        }),
        // ---- gravity: latitude in degrees, height in metres in; normal gravity out in the first element
        "Gravity::welmec(lat, h)" => first_only(|env, c| env.e.welmec(c[0].to_radians(), c[1])),
        "Gravity::welmec(lat, 0)" => first_only(|env, c| env.e.welmec(c[0].to_radians(), 0.0)),
        "Gravity::grs80_gravity" => first_only(|env, c| env.e.grs80_gravity(c[0].to_radians())),
        "Gravity::grs67_gravity" => first_only(|env, c| env.e.grs67_gravity(c[0].to_radians())),
        "Gravity::jeffreys_gravity_1948" => first_only(|env, c| env.e.jeffreys_gravity_1948(c[0].to_radians())),
        "Gravity::cassinis_gravity_1930" => first_only(|env, c| env.e.cassinis_gravity_1930(c[0].to_radians())),
        "Gravity::grs80_gravity - Gravity::grs67_height_correction" => first_only(|env, c| {
            let lat = c[0].to_radians();
            env.e.grs80_gravity(lat) - env.e.grs67_height_correction(lat, c[1])
        }),
        "Gravity::grs67_gravity - Gravity::grs67_height_correction" => first_only(|env, c| {
            let lat = c[0].to_radians();
            env.e.grs67_gravity(lat) - env.e.grs67_height_correction(lat, c[1])
        }),
        // ---- geodesics: operator tuples are degrees, latitude first
        // forward: (lat, lon, azimuth, distance) -> (lat, lon) of the destination, degrees
        "Geodesics::geodesic_fwd" => Box::new(|env, c| {
            let from = Coor2D::geo(c[0], c[1]);
            let d = env.e.geodesic_fwd(&from, c[2].to_radians(), c[3]);
            if d[3] > 990.0 {
                return None;
            }
            Some(Coor4D([d[1].to_degrees(), d[0].to_degrees(), f64::NAN, f64::NAN]))
        }),
        // inverse: (lat1, lon1, lat2, lon2) -> azimuth at the origin, azimuth at the destination, distance,
        // return azimuth from the destination to the origin (the destination azimuth turned by 180 degrees)
        "Geodesics::geodesic_inv" => Box::new(|env, c| {
            let (from, to) = (Coor2D::geo(c[0], c[1]), Coor2D::geo(c[2], c[3]));
            let g = env.e.geodesic_inv(&from, &to);
            if g[3] > 990.0 {
                return None;
            }
            let s = env.e.distance(&from, &to);
            if s.to_bits() != g[2].to_bits() {
                // the two methods of the trait disagree with each other: let the comparison see it
                return Some(Coor4D([g[0].to_degrees(), g[1].to_degrees(), f64::NAN, g[1].to_degrees() + 180.0]));
            }
            Some(Coor4D([g[0].to_degrees(), g[1].to_degrees(), g[2], g[1].to_degrees() + 180.0]))
        }),
        "Geodesics::geodesic_inv (reversible layout)" => Box::new(|env, c| {
            let (from, to) = (Coor2D::geo(c[0], c[1]), Coor2D::geo(c[2], c[3]));
            let g = env.e.geodesic_inv(&from, &to);
            if g[3] > 990.0 {
                return None;
            }
            Some(Coor4D([c[2], c[3], g[1].to_degrees() + 180.0, g[2]]))
        }),
        // ---- closed forms and quadrature (the harness's own arithmetic), second element = latitude, radians
        "closed: conformal" => lat_only(|env, x| conformal_closed(env.e.eccentricity(), x)),
        "closed: authalic" => lat_only(|env, x| {
            let ecc = env.e.eccentricity();
            (q_closed(ecc, x.sin()) / q_closed(ecc, 1.0)).clamp(-1.0, 1.0).asin()
        }),
        "closed: atan((1 - f)^2 tan(phi))" => lat_only(|env, x| {
            let f = env.e.flattening();
            ((1.0 - f) * (1.0 - f) * x.tan()).atan()
        }),
        "closed: atan((1 - f) tan(phi))" => lat_only(|env, x| ((1.0 - env.e.flattening()) * x.tan()).atan()),
        "quadrature: rectifying" => lat_only(|env, x| {
            let (a, es) = (env.e.semimajor_axis(), env.e.eccentricity_squared());
            FRAC_PI_2 * env.quad.arc(a, es, x) / env.quad.arc(a, es, FRAC_PI_2)
        }),
        "quadrature: meridian arc" => lat_only(|env, x| env.quad.arc(env.e.semimajor_axis(), env.e.eccentricity_squared(), x)),
        // ---- the library's own closed forms
        "gudermannian::fwd(Latitudes::latitude_geographic_to_isometric)" => lat_only(|env, x| gudermannian::fwd(env.e.latitude_geographic_to_isometric(x))),
        "Latitudes::latitude_isometric_to_geographic(gudermannian::inv)" => lat_only(|env, x| env.e.latitude_isometric_to_geographic(gudermannian::inv(x))),
        "pi/2 - 2 atan(ancillary::ts)" => lat_only(|env, x| FRAC_PI_2 - 2.0 * ancillary::ts(x.sin_cos(), env.e.eccentricity()).atan()),
        "ancillary::pj_phi2(tan(pi/4 - chi/2))" => lat_only(|env, x| ancillary::pj_phi2((FRAC_PI_4 - x / 2.0).tan(), env.e.eccentricity())),
        "asin(ancillary::qs(sin phi) / ancillary::qs(1))" => lat_only(|env, x| {
            let ecc = env.e.eccentricity();
            (ancillary::qs(x.sin(), ecc) / ancillary::qs(1.0, ecc)).clamp(-1.0, 1.0).asin()
        }),
        // ---- meridian arcs, second element = metres (forward) / latitude (inverse)
        "Meridians::meridian_latitude_to_distance" => lat_only(|env, x| env.e.meridian_latitude_to_distance(x)),
        "Meridians::meridian_distance_to_latitude" => lat_only(|env, x| env.e.meridian_distance_to_latitude(x)),
        "Meridians::rectifying_radius * Latitudes::latitude_geographic_to_rectifying" => lat_only(|env, x| {
            env.e.rectifying_radius() * env.e.latitude_geographic_to_rectifying(x, &env.e.coefficients_for_rectifying_latitude_computations())
        }),
        "Latitudes::latitude_rectifying_to_geographic(M / Meridians::rectifying_radius)" => lat_only(|env, x| {
            env.e.latitude_rectifying_to_geographic(x / env.e.rectifying_radius(), &env.e.coefficients_for_rectifying_latitude_computations())
        }),
        // ---- predictions with a named deviation of the code enabled (spec/Routes.tla, Dev)
        // DEV_rectifying_latitude_scaled_by_Qn: the "rectifying latitude" is the meridian arc in units of the semimajor axis
        "quadrature: meridian arc / a" => lat_only(|env, x| env.quad.arc(1.0, env.e.eccentricity_squared(), x)),
        "quadrature: meridian arc * rectifying radius / a" => lat_only(|env, x| {
            let es = env.e.eccentricity_squared();
            env.quad.arc(env.e.semimajor_axis(), es, x) * env.quad.arc(1.0, es, FRAC_PI_2) / FRAC_PI_2
        }),
        "Meridians::meridian_quadrant" => lat_only(|env, _| env.e.meridian_quadrant()),
        "Meridians::rectifying_radius" => lat_only(|env, _| env.e.rectifying_radius()),
        "Meridians::rectifying_radius_bowring" => lat_only(|env, _| env.e.rectifying_radius_bowring()),
        "quadrature: meridian arc / latitude" => lat_only(|env, x| env.quad.arc(env.e.semimajor_axis(), env.e.eccentricity_squared(), x) / x),
        _ => return None,
    };
    Some(f)
}

enum Route {
    Op(OpHandle),
    Api(ApiFn),
}

/// the result of a route at one lattice point
#[derive(Clone)]
enum Pt {
    Val(Coor4D),
    /// the route reports that it is not defined here (Vincenty: no convergence), or its input was not
    Undefined,
    /// the route panicked or returned an error here (or its input could not be made for that reason)
    Failed(String),
}

/// Run a route on a batch. An operator is applied to the whole batch; if that panics or returns an error, it is
/// applied point by point, so that the failure is attributed to the points that cause it.
fn run(world: &mut World, env: &Env, r: &Route, dir: &str, data: &[Pt]) -> Vec<Pt> {
    match r {
        Route::Op(h) => {
            let idx: Vec<usize> = (0..data.len()).filter(|i| matches!(data[*i], Pt::Val(_))).collect();
            let dense: Vec<Coor4D> = idx.iter().map(|i| if let Pt::Val(c) = &data[*i] { *c } else { unreachable!() }).collect();
            let mut res: Vec<Pt> = data.to_vec();
            match world.apply(*h, dir, &dense) {
                Ok(out) => {
                    for (k, i) in idx.iter().enumerate() {
                        res[*i] = Pt::Val(out[k]);
                    }
                }
                Err(_) => {
                    for (k, i) in idx.iter().enumerate() {
                        res[*i] = match world.apply(*h, dir, &dense[k..k + 1]) {
                            Ok(out) => Pt::Val(out[0]),
                            Err(msg) => Pt::Failed(msg),
                        };
                    }
                }
            }
            res
        }
        Route::Api(f) => data
            .iter()
            .map(|d| match d {
                Pt::Val(c) => {
                    world.evals += 1;
                    match guarded(|| f(env, c)) {
                        Ok(Some(v)) => Pt::Val(v),
                        Ok(None) => Pt::Undefined,
                        Err(p) => Pt::Failed(format!("panic: {p}")),
                    }
                }
                other => other.clone(),
            })
            .collect(),
    }
}

// ---- decoding and comparison -----------------------------------------------------------------

fn decode(dk: &str, p: &Value) -> Option<Coor4D> {
    let a = p.as_array()?;
    let v: Vec<f64> = a.iter().map(|x| x.as_f64().unwrap_or(f64::NAN)).collect();
    if v.len() != 4 {
        return None;
    }
    let deg = |x: f64| x / 10.0;
    Some(match dk {
        "lonlat10" => Coor4D([deg(v[0]).to_radians(), deg(v[1]).to_radians(), v[2], v[3]]),
        "latazi10" => Coor4D([deg(v[0]), deg(v[1]), v[2], v[3]]),
        "lath" => Coor4D([deg(v[0]), v[1], v[2], v[3]]),
        "geodfwd" => Coor4D([deg(v[0]), deg(v[1]), deg(v[2]), v[3]]),
        "geodinv" => Coor4D([deg(v[0]), deg(v[1]), deg(v[2]), deg(v[3])]),
        _ => return None,
    })
}

fn wrap(x: f64, half: f64) -> f64 {
    let full = 2.0 * half;
    let mut y = x % full;
    if y > half {
        y -= full;
    }
    if y < -half {
        y += full;
    }
    y
}

fn geo_residual(a: f64, p: &Coor4D, q: &Coor4D, with_height: bool) -> f64 {
    let dlat = (q[1] - p[1]) * a;
    let dlon = wrap(q[0] - p[0], PI) * a * p[1].cos();
    let dh = if with_height { q[2] - p[2] } else { 0.0 };
    (dlat * dlat + dlon * dlon + dh * dh).sqrt()
}

struct Verdict {
    /// residual in the unit of the tolerance (metres, radians, relative, or the largest absolute difference for bits)
    residual: f64,
    /// residual / admitted (> 1: fails); infinite for a bit mismatch or a NaN
    ratio: f64,
    what: &'static str,
}

fn compare(cmp: &Value, unit: &str, tol: f64, a: f64, ya: &Coor4D, yb: &Coor4D) -> Result<Verdict, String> {
    let joint = cmp["joint"].as_str().unwrap_or("");
    let el = cmp["el"].as_array().ok_or("cmp.el missing")?;
    let nan3 = |t: &Coor4D, n: usize| t.0[..n].iter().any(|x| x.is_nan());
    if !joint.is_empty() {
        if unit != "m" {
            return Err(format!("joint comparison {joint} with unit {unit}"));
        }
        let n = if joint == "ground3" { 3 } else { 2 };
        if nan3(ya, n) || nan3(yb, n) {
            return Ok(Verdict { residual: f64::NAN, ratio: f64::INFINITY, what: "nan" });
        }
        let r = match joint {
            "plane" => (ya[0] - yb[0]).hypot(ya[1] - yb[1]),
            "ground2" => geo_residual(a, yb, ya, false),
            "ground3" => geo_residual(a, yb, ya, true),
            _ => return Err(format!("unknown joint comparison {joint}")),
        };
        return Ok(Verdict { residual: r, ratio: r / tol, what: "residual" });
    }
    let mut worst = Verdict { residual: 0.0, ratio: 0.0, what: "residual" };
    for i in 0..4 {
        let mode = el[i].as_str().unwrap_or("skip");
        if mode == "skip" {
            continue;
        }
        let (x, y) = (ya[i], yb[i]);
        if mode == "bits" {
            if unit != "bits" {
                return Err(format!("element mode bits with unit {unit}"));
            }
            if !bits_eq(x, y) {
                let d = if x.is_nan() || y.is_nan() { f64::NAN } else { (x - y).abs() };
                return Ok(Verdict { residual: d, ratio: f64::INFINITY, what: if d.is_nan() { "nan" } else { "bits" } });
            }
            continue;
        }
        if x.is_nan() || y.is_nan() {
            return Ok(Verdict { residual: f64::NAN, ratio: f64::INFINITY, what: "nan" });
        }
        let (d, mag) = match mode {
            "len" => ((x - y).abs(), a),
            "rad" => (wrap(x - y, PI).abs(), PI),
            "deg" => (wrap(x - y, 180.0).abs(), 180.0),
            "num" => ((x - y).abs(), 1.0),
            _ => return Err(format!("unknown element mode {mode}")),
        };
        let (residual, ratio) = match (unit, mode) {
            ("rel", _) => {
                let m = x.abs().max(y.abs()).max(mag);
                (d / m, d / (tol * m))
            }
            ("rad", "rad") | ("m", "len") => (d, d / tol),
            _ => return Err(format!("element mode {mode} cannot be judged in unit {unit}")),
        };
        if ratio > worst.ratio || (ratio == worst.ratio && residual > worst.residual) {
            worst = Verdict { residual, ratio, what: "residual" };
        }
    }
    Ok(worst)
}

fn show(t: &Coor4D) -> Value {
    Value::Array(t.0.iter().map(|x| if x.is_finite() { json!(x) } else { json!(format!("{x}")) }).collect())
}

#[derive(Default)]
struct Group {
    fails: usize,
    max: f64,
    worst: Value,
    ellps: BTreeSet<String>,
    lines: usize,
    /// deviation switches that explain failing cases of the group, and the number of cases none explains
    deviations: BTreeSet<String>,
    unexplained: usize,
}

#[derive(Default)]
struct Stat {
    n: usize,
    failing: usize,
    excluded: usize,
    max_residual: f64,
    max_ratio: f64,
    worst: Value,
    cls: String,
    unit: String,
    tol: f64,
    clause: String,
    /// largest residual per ellipsoid (the three largest are reported)
    by_ellps: BTreeMap<String, f64>,
}

enum Outcome {
    /// specification and harness out of step
    Tool(String),
    /// a route could not be built (definition refused / instantiation panicked)
    Batch { what: &'static str, msg: String, route: Value },
    /// per lattice point: the input both routes got, the result of route A, and what it is compared with
    Done { input: Vec<Pt>, ya: Vec<Pt>, yb: Vec<Pt> },
}

fn build(world: &mut World, r: &Value, rdir: &str) -> Result<Result<Route, String>, String> {
    let name = r[rdir].as_str().unwrap_or("");
    if name.is_empty() {
        return Err(format!("route {r} has no direction {rdir}"));
    }
    match r["k"].as_str().unwrap_or("") {
        "op" => Ok(world.op(name).map(Route::Op)),
        "api" => match api(name) {
            Some(f) => Ok(Ok(Route::Api(f))),
            None => Err(format!("unknown method route `{name}`")),
        },
        other => Err(format!("unknown route kind {other}")),
    }
}

/// One direction of one record: make the input (the lattice points, or a route applied forward to them), run route A,
/// and obtain what it is compared with (route B in the same direction, or the lattice points themselves).
fn eval_dir(world: &mut World, env: &Env, ra: &Value, rb: &Value, d: &Value, x0: &[Pt]) -> Outcome {
    let dir = d["dir"].as_str().unwrap_or("");
    macro_rules! go {
        ($r:expr, $rdir:expr, $data:expr) => {{
            let route = match build(world, $r, $rdir) {
                Err(msg) => return Outcome::Tool(msg),
                Ok(Err(msg)) => return Outcome::Batch { what: if msg.starts_with("panic") { "panic" } else { "opfail" }, msg, route: $r[$rdir].clone() },
                Ok(Ok(x)) => x,
            };
            run(world, env, &route, $rdir, $data)
        }};
    }
    let input: Vec<Pt> = match d["via"].as_str().unwrap_or("") {
        "" => x0.to_vec(),
        "a.F" => go!(ra, "F", x0),
        "b.F" => go!(rb, "F", x0),
        other => return Outcome::Tool(format!("unknown via {other}")),
    };
    let ya = go!(ra, dir, &input);
    let yb = match d["expect"].as_str().unwrap_or("b") {
        "origin" => x0.to_vec(),
        "b" => go!(rb, dir, &input),
        other => return Outcome::Tool(format!("unknown expectation {other}")),
    };
    Outcome::Done { input, ya, yb }
}

fn eval(input: &str, output: &str) -> i32 {
    quiet_panics();
    let f = std::fs::File::open(input).expect("cannot open input");
    let mut w = std::io::BufWriter::new(std::fs::File::create(output).expect("cannot create output"));
    let mut world = World::new();
    let quad = Quad::new();
    let mut groups: BTreeMap<(String, String, String, String), Group> = BTreeMap::new();
    let mut totals: BTreeMap<(String, String, String), usize> = BTreeMap::new(); // (pair, shape, dir) -> obligations
    let mut stats: BTreeMap<(String, String), Stat> = BTreeMap::new(); // (pair, dir)
    let mut spec_ellps: BTreeSet<String> = Default::default();
    let (mut total, mut failing, mut excluded, mut records) = (0usize, 0usize, 0usize, 0usize);
    for (k, line) in std::io::BufReader::new(f).lines().enumerate() {
        let line = line.unwrap();
        if line.trim().is_empty() {
            continue;
        }
        let v: Value = match serde_json::from_str(&line) {
            Ok(v) => v,
            Err(e) => {
                eprintln!("bad json on line {}: {e}", k + 1);
                return 2;
            }
        };
        records += 1;
        let g = |key: &str| v[key].as_str().unwrap_or("").to_string();
        let (pair, clause, shape, ellps, dk) = (g("pair"), g("clause"), g("shape"), g("ellps"), g("dk"));
        writeln!(w, "{}", json!({"begin": k, "pair": pair, "shape": shape, "ellps": ellps})).unwrap();
        w.flush().unwrap();
        spec_ellps.insert(ellps.clone());
        let pts = v["pts"].as_array().cloned().unwrap_or_default();
        let dirs = v["dirs"].as_array().cloned().unwrap_or_default();
        if pts.is_empty() || dirs.is_empty() {
            eprintln!("record {} has no points or no directions", k + 1);
            return 2;
        }
        let x0: Vec<Pt> = pts.iter().filter_map(|p| decode(&dk, p)).map(Pt::Val).collect();
        if x0.len() != pts.len() {
            eprintln!("record {}: cannot decode points of kind {dk}", k + 1);
            return 2;
        }
        let nobl = pts.len() * dirs.len();
        total += nobl;
        for d in &dirs {
            let dir = d["dir"].as_str().unwrap_or("");
            *totals.entry((pair.clone(), shape.clone(), dir.to_string())).or_default() += pts.len();
            let st = stats.entry((pair.clone(), dir.to_string())).or_default();
            st.n += pts.len();
            st.cls = d["cls"].as_str().unwrap_or("").to_string();
            st.unit = d["tol"]["unit"].as_str().unwrap_or("").to_string();
            st.tol = d["tol"]["m"].as_f64().unwrap_or(0.0) * 10f64.powi(d["tol"]["e"].as_i64().unwrap_or(0) as i32);
            st.clause = clause.clone();
        }
        // one failing obligation (or `cases` of them, when a whole batch fails)
        let mut note = |dir: &str, what: &str, res: f64, cases: usize, detail: Value, one: Value, deviation: Value,
                        groups: &mut BTreeMap<(String, String, String, String), Group>, stats: &mut BTreeMap<(String, String), Stat>,
                        w: &mut std::io::BufWriter<std::fs::File>| {
            failing += cases;
            if let Some(st) = stats.get_mut(&(pair.clone(), dir.to_string())) {
                st.failing += cases;
            }
            let gr = groups.entry((pair.clone(), shape.clone(), dir.to_string(), what.to_string())).or_default();
            gr.fails += cases;
            gr.ellps.insert(ellps.clone());
            match deviation.as_str() {
                Some(dv) => { gr.deviations.insert(dv.to_string()); }
                None => gr.unexplained += cases,
            }
            let line = json!({"pair":pair,"clause":clause,"shape":shape,"ellps":ellps,"dir":dir,"what":what,
                              "residual":if res.is_finite() { json!(res) } else { json!(format!("{res}")) },"detail":detail,"deviation":deviation,"record":one});
            if gr.worst.is_null() || (res.is_finite() && res > gr.max) {
                gr.worst = line.clone();
            }
            if res.is_finite() {
                gr.max = gr.max.max(res);
            }
            if gr.lines < 20 {
                gr.lines += 1;
                writeln!(w, "{}", line).unwrap();
            }
        };
        let single = |pt: &Value, d: &Value| -> Value {
            let mut r = v.clone();
            r["pts"] = json!([pt]);
            r["dirs"] = json!([d]);
            r["n"] = json!(1);
            r
        };
        let whole = |d: &Value| -> Value {
            let mut r = v.clone();
            r["dirs"] = json!([d]);
            r["n"] = json!(pts.len());
            r
        };
        // ---- the ellipsoid and the two routes
        let e = match guarded(|| Ellipsoid::named(&ellps)) {
            Ok(Ok(e)) => e,
            other => {
                let what = if other.is_err() { "panic" } else { "opfail" };
                for d in &dirs {
                    note(d["dir"].as_str().unwrap_or(""), what, f64::NAN, pts.len(), json!({"msg":format!("Ellipsoid::named({ellps}): {other:?}")}), whole(d), Value::Null, &mut groups, &mut stats, &mut w);
                }
                continue;
            }
        };
        let env = Env { e, quad: &quad };
        let a_axis = e.semimajor_axis();
        for d in &dirs {
            let dir = d["dir"].as_str().unwrap_or("").to_string();
            let tol = d["tol"]["m"].as_f64().unwrap_or(0.0) * 10f64.powi(d["tol"]["e"].as_i64().unwrap_or(0) as i32);
            let unit = d["tol"]["unit"].as_str().unwrap_or("");
            let expect = d["expect"].as_str().unwrap_or("b");
            let (input, ya, yb) = match eval_dir(&mut world, &env, &v["a"], &v["b"], d, &x0) {
                Outcome::Tool(msg) => {
                    eprintln!("record {}: {msg}", k + 1);
                    return 2;
                }
                // a route that cannot be built (definition refused / instantiation panicked): every obligation of the batch fails
                Outcome::Batch { what, msg, route } => {
                    note(&dir, what, f64::NAN, pts.len(), json!({"msg":msg,"route":route}), whole(d), Value::Null, &mut groups, &mut stats, &mut w);
                    continue;
                }
                Outcome::Done { input, ya, yb } => (input, ya, yb),
            };
            // the prediction with the named deviation of the code enabled (DESIGN 2.3), evaluated only if something fails
            let dev_name = v["dev"]["name"].as_str().unwrap_or("");
            let mut deviated: Option<Option<(Vec<Pt>, Vec<Pt>)>> = None;
            for i in 0..pts.len() {
                let (inp, a, b) = match (&input[i], &ya[i], &yb[i]) {
                    (Pt::Val(inp), Pt::Val(a), Pt::Val(b)) => (*inp, *a, *b),
                    // a panic or an error of a route at this point (a failure of the input is passed on by the routes after it)
                    (_, Pt::Failed(msg), _) | (_, _, Pt::Failed(msg)) | (Pt::Failed(msg), _, _) => {
                        let what = if msg.starts_with("panic") { "panic" } else { "opfail" };
                        note(&dir, what, f64::NAN, 1, json!({"pt":pts[i],"msg":msg}), single(&pts[i], d), Value::Null, &mut groups, &mut stats, &mut w);
                        continue;
                    }
                    // a method route reports that it is not defined here (no convergence): nothing to compare
                    _ => {
                        excluded += 1;
                        stats.get_mut(&(pair.clone(), dir.clone())).unwrap().excluded += 1;
                        continue;
                    }
                };
                let verdict = match compare(&d["cmp"], unit, tol, a_axis, &a, &b) {
                    Ok(x) => x,
                    Err(msg) => {
                        eprintln!("record {}: {msg}", k + 1);
                        return 2;
                    }
                };
                let st = stats.get_mut(&(pair.clone(), dir.clone())).unwrap();
                if verdict.residual.is_finite() && (verdict.residual > st.max_residual || st.worst.is_null()) {
                    st.max_residual = verdict.residual;
                    st.worst = json!({"ellps":ellps,"shape":shape,"pt":pts[i]});
                }
                if verdict.ratio.is_finite() {
                    st.max_ratio = st.max_ratio.max(verdict.ratio);
                }
                if verdict.residual.is_finite() {
                    let m = st.by_ellps.entry(ellps.clone()).or_insert(0.0);
                    *m = m.max(verdict.residual);
                }
                if !(verdict.ratio <= 1.0) {
                    // contradicts the reference: does it equal the prediction of the applicable deviation switch?
                    let mut deviation = Value::Null;
                    if !dev_name.is_empty() {
                        if deviated.is_none() {
                            deviated = Some(match eval_dir(&mut world, &env, &v["a"], &v["dev"]["b"], d, &x0) {
                                Outcome::Done { ya, yb, .. } => Some((ya, yb)),
                                Outcome::Tool(msg) => {
                                    eprintln!("record {}: deviation {dev_name}: {msg}", k + 1);
                                    return 2;
                                }
                                Outcome::Batch { .. } => None,
                            });
                        }
                        if let Some(Some((da, db))) = &deviated {
                            if let (Pt::Val(da), Pt::Val(db)) = (&da[i], &db[i]) {
                                if let Ok(dv) = compare(&d["cmp"], unit, tol, a_axis, da, db) {
                                    if dv.ratio <= 1.0 {
                                        deviation = json!(dev_name);
                                    }
                                }
                            }
                        }
                    }
                    let detail = json!({"pt":pts[i],"input":show(&inp),"a":show(&a),"b":show(&b),"route_a":v["a"][dir.as_str()],
                        "route_b":if expect == "origin" { json!("the lattice point") } else { v["b"][dir.as_str()].clone() },
                        "tolerance":tol,"unit":unit,"cls":d["cls"]});
                    note(&dir, verdict.what, verdict.residual, 1, detail, single(&pts[i], d), deviation, &mut groups, &mut stats, &mut w);
                }
            }
        }
        // keep the registry small
        if world.handles.len() > 400 {
            let evals = world.evals;
            world = World::new();
            world.evals = evals;
        }
    }
    for ((pair, shape, dir, what), gr) in groups.iter() {
        let of = totals.get(&(pair.clone(), shape.clone(), dir.clone())).copied().unwrap_or(0);
        writeln!(w, "{}", json!({"group":true,"pair":pair,"shape":shape,"dir":dir,"what":what,"failing":gr.fails,"of":of,
            "max_residual":gr.max,"ellps":gr.ellps.iter().take(60).collect::<Vec<_>>(),"worst":gr.worst,
            // the group is explained by a deviation switch iff every failing case equals that switch's prediction
            "deviation":if gr.unexplained == 0 && gr.deviations.len() == 1 { json!(gr.deviations.iter().next()) } else { Value::Null },
            "unexplained":gr.unexplained})).unwrap();
    }
    for ((pair, dir), st) in stats.iter() {
        let mut top: Vec<(&String, &f64)> = st.by_ellps.iter().collect();
        top.sort_by(|x, y| y.1.partial_cmp(x.1).unwrap_or(std::cmp::Ordering::Equal));
        let top: Vec<Value> = top.iter().take(3).map(|(n, r)| json!([n, r])).collect();
        writeln!(w, "{}", json!({"stat":true,"largest_by_ellipsoid":top,"pair":pair,"dir":dir,"clause":st.clause,"cls":st.cls,"unit":st.unit,"tol":st.tol,"n":st.n,
            "failing":st.failing,"excluded":st.excluded,"max_residual":st.max_residual,"max_ratio":st.max_ratio,"worst":st.worst})).unwrap();
    }
    let code_ellps: Vec<&str> = geodesy::verif::ellipsoid_names();
    let uncovered: Vec<&str> = code_ellps.iter().copied().filter(|n| !spec_ellps.contains(*n)).collect();
    writeln!(w, "{}", json!({"summary":true,"records":records,"obligations":total,"failing":failing,"excluded":excluded,
        "evaluations":world.evals,"quadrature_selfcheck":quad.selfcheck.get(),"ellipsoids_in_code_not_enumerated":uncovered})).unwrap();
    w.flush().unwrap();
    println!("routes: {} records, {} obligations, {} failing, {} excluded", records, total, failing, excluded);
    if failing == 0 { 0 } else { 1 }
}

fn main() {
    let a: Vec<String> = std::env::args().collect();
    let code = match a.get(1).map(|s| s.as_str()) {
        Some("eval") if a.len() >= 4 => eval(&a[2], &a[3]),
        _ => {
            eprintln!("usage: gvh_routes eval <in.ndjson> <out.ndjson>");
            2
        }
    };
    std::process::exit(code);
}
