//! C18: replays registry/grid-cache histories generated from spec/Context.tla
//! into real Minimal and Plain contexts, and records traces of concurrent
//! histories for validation by spec/Trace_C18.tla.
use geodesy::authoring::*;
use gvh::util::*;
use serde_json::{json, Value};
use std::collections::BTreeMap;
use std::io::{BufRead, Write};

// user-registered operators: version v adds 10 * v to the first coordinate
fn u_fwd(op: &Op, _ctx: &dyn Context, operands: &mut dyn CoordinateSet) -> usize {
    let k = op.params.real("k").unwrap_or(0.);
    let n = operands.len();
    for i in 0..n {
        let mut t = operands.get_coord(i);
        t[0] += k;
        operands.set_coord(i, &t);
    }
    n
}
fn u_inv(op: &Op, _ctx: &dyn Context, operands: &mut dyn CoordinateSet) -> usize {
    let k = op.params.real("k").unwrap_or(0.);
    let n = operands.len();
    for i in 0..n {
        let mut t = operands.get_coord(i);
        t[0] -= k;
        operands.set_coord(i, &t);
    }
    n
}
const UG: [OpParameter; 1] = [OpParameter::Flag { key: "inv" }];
fn u_new(k: f64, p: &RawParameters, ctx: &dyn Context) -> Result<Op, Error> {
    let mut op = Op::plain(p, InnerOp(u_fwd), Some(InnerOp(u_inv)), &UG, ctx)?;
    op.params.real.insert("k", k);
    Ok(op)
}
fn u10(p: &RawParameters, ctx: &dyn Context) -> Result<Op, Error> {
    u_new(10., p, ctx)
}
fn u20(p: &RawParameters, ctx: &dyn Context) -> Result<Op, Error> {
    u_new(20., p, ctx)
}

fn body_text(b: &str) -> &str {
    match b {
        "lit100" => "t_add c=100",
        "lit200" => "t_add c=200",
        x => x,
    }
}

const GRID_TEXT_1: &str = "54 56 10 12 1 1\n 1 2  1 2  1 2\n 1 2  1 2  1 2\n 1 2  1 2  1 2\n";
const GRID_TEXT_2: &str = "54 56 10 12 1 1\n 3 4  3 4  3 4\n 3 4  3 4  3 4\n 3 4  3 4  3 4\n";

fn setup_scratch(dir: &str) {
    let d = std::path::Path::new(dir);
    std::fs::create_dir_all(d.join("geodesy/datum")).unwrap();
    std::fs::create_dir_all(d.join("geodesy/resources")).unwrap();
    std::fs::write(d.join("geodesy/datum/g1.datum"), GRID_TEXT_1).unwrap();
    std::fs::write(d.join("geodesy/datum/g2.datum"), GRID_TEXT_2).unwrap();
    std::env::set_current_dir(d).unwrap();
}

#[derive(Clone, PartialEq, Debug)]
struct Fingerprint {
    out: Vec<u64>,
    count: usize,
    steps: Vec<String>,
    given: Vec<(String, String)>,
}

fn probe_for(grid: bool) -> Coor4D {
    if grid {
        Coor4D::geo(55., 11., 0., 0.)
    } else {
        Coor4D([0., 0., 0., 0.])
    }
}

fn observe(ctx: &dyn Context, h: OpHandle, grid: bool) -> Result<Fingerprint, String> {
    let mut d = [probe_for(grid)];
    let count = guarded(|| ctx.apply(h, Fwd, &mut d))?.map_err(|e| format!("{e:?}"))?;
    let steps = guarded(|| ctx.steps(h).map(|s| s.clone()))?.map_err(|e| format!("{e:?}"))?;
    let given = guarded(|| ctx.params(h, 0))?
        .map(|p| p.given.into_iter().collect::<Vec<_>>())
        .unwrap_or_default();
    Ok(Fingerprint { out: d[0].0.iter().map(|x| x.to_bits()).collect(), count, steps, given })
}

struct Live {
    ctx: usize,
    real: OpHandle,
    grid: bool,
    first: Fingerprint,
}

fn run_history(kind: &str, rec: &Value, fails: &mut Vec<Value>, evals: &mut usize) {
    let hist = rec["hist"].as_array().unwrap();
    let mut ctxs: Vec<Ctx> = vec![Ctx::new(kind), Ctx::new(kind)];
    if kind == "plain" {
        Plain::clear_grids();
    }
    let mut live: BTreeMap<u64, Live> = BTreeMap::new();
    let mut objmap: BTreeMap<u64, String> = BTreeMap::new(); // model obj -> pointer
    let fail = |fails: &mut Vec<Value>, i: usize, what: &str, detail: Value| {
        fails.push(json!({"kind":kind,"step":i,"what":what,"detail":detail,"hist":rec["hist"]}));
    };
    for (i, e) in hist.iter().enumerate() {
        let c = e["c"].as_u64().unwrap_or(1) as usize - 1;
        match e["a"].as_str().unwrap() {
            "regop" => {
                let f = if e["v"] == 1 { OpConstructor(u10) } else { OpConstructor(u20) };
                ctxs[c].get_mut().register_op(e["n"].as_str().unwrap(), f);
            }
            "regres" => {
                ctxs[c].get_mut().register_resource(e["n"].as_str().unwrap(), body_text(e["b"].as_str().unwrap()));
            }
            "op" => {
                let d = e["d"].as_str().unwrap();
                *evals += 1;
                let r = guarded(|| ctxs[c].get_mut().op(d).map_err(|x| format!("{x:?}")));
                match r {
                    Err(p) => fail(fails, i, "panic", json!({"def":d,"msg":p})),
                    Ok(Err(err)) => {
                        if e["ok"] == true {
                            fail(fails, i, "op_should_succeed", json!({"def":d,"err":err}));
                        }
                    }
                    Ok(Ok(h)) => {
                        if e["ok"] == false {
                            fail(fails, i, "op_should_fail", json!({"def":d}));
                            continue;
                        }
                        if live.values().any(|l| l.real == h) {
                            fail(fails, i, "handle_not_unique", json!({"def":d}));
                        }
                        match observe(ctxs[c].get(), h, false) {
                            Err(m) => fail(fails, i, "observe_failed", json!({"def":d,"msg":m})),
                            Ok(fp) => {
                                // resolution order: the behaviour fixed at instantiation
                                let val = e["val"].as_f64().unwrap();
                                let got = f64::from_bits(fp.out[0]);
                                if got != val || fp.count != 1 {
                                    fail(fails, i, "resolution", json!({"def":d,"expected_shift":val,"observed":got}));
                                }
                                live.insert(e["h"].as_u64().unwrap(), Live { ctx: c, real: h, grid: false, first: fp });
                            }
                        }
                    }
                }
            }
            "opgrid" => {
                let g = e["g"].as_str().unwrap();
                let d = format!("gridshift grids={g}");
                geodesy::verif::drain();
                geodesy::verif::enable(true);
                *evals += 1;
                let r = guarded(|| ctxs[c].get_mut().op(&d).map_err(|x| format!("{x:?}")));
                geodesy::verif::enable(false);
                let evs: Vec<_> = geodesy::verif::drain().into_iter().filter(|x| x.kind == "grid_get").collect();
                match r {
                    Err(p) => fail(fails, i, "panic", json!({"def":d,"msg":p})),
                    Ok(Err(err)) => fail(fails, i, "op_should_succeed", json!({"def":d,"err":err})),
                    Ok(Ok(h)) => {
                        let field = |ev: &geodesy::verif::Event, k: &str| {
                            ev.fields.iter().find(|f| f.0 == k).map(|f| f.1.clone()).unwrap_or_default()
                        };
                        if evs.len() != 1 {
                            fail(fails, i, "cache_events", json!({"def":d,"events":evs.len()}));
                        } else {
                            let outcome = field(&evs[0], "outcome");
                            let ptr = field(&evs[0], "obj");
                            let want = e["ev"].as_str().unwrap();
                            let obj = e["obj"].as_u64().unwrap();
                            if outcome != want {
                                fail(fails, i, "cache_outcome", json!({"def":d,"expected":want,"observed":outcome}));
                            } else if want == "hit" {
                                if objmap.get(&obj) != Some(&ptr) {
                                    fail(fails, i, "cache_identity", json!({"def":d,"expected":objmap.get(&obj),"observed":ptr}));
                                }
                            } else {
                                // a freshly loaded grid is a new object: not one still owned by an operator
                                if objmap.values().any(|p| *p == ptr) {
                                    fail(fails, i, "cache_alias", json!({"def":d,"observed":ptr}));
                                }
                                objmap.insert(obj, ptr);
                            }
                        }
                        if live.values().any(|l| l.real == h) {
                            fail(fails, i, "handle_not_unique", json!({"def":d}));
                        }
                        match observe(ctxs[c].get(), h, true) {
                            Err(m) => fail(fails, i, "observe_failed", json!({"def":d,"msg":m})),
                            Ok(fp) => {
                                if fp.count != 1 {
                                    fail(fails, i, "grid_op_failed_inside_coverage", json!({"def":d}));
                                }
                                live.insert(e["h"].as_u64().unwrap(), Live { ctx: c, real: h, grid: true, first: fp });
                            }
                        }
                    }
                }
            }
            "clear" => Plain::clear_grids(),
            _ => {}
        }
        // after every step: every operator ever instantiated still behaves as it did at first
        for (mh, l) in live.iter() {
            *evals += 1;
            match observe(ctxs[l.ctx].get(), l.real, l.grid) {
                Err(m) => fail(fails, i, "handle_lost", json!({"h":mh,"msg":m})),
                Ok(fp) => {
                    if fp != l.first {
                        fail(fails, i, "handle_changed", json!({"h":mh,"first":format!("{:?}", l.first),"now":format!("{fp:?}")}));
                    }
                }
            }
            // unknown (foreign) handles give errors
            let other = 1 - l.ctx;
            let mut d = [probe_for(l.grid)];
            match guarded(|| ctxs[other].get().apply(l.real, Fwd, &mut d)) {
                Err(p) => fail(fails, i, "panic", json!({"api":"apply foreign","msg":p})),
                Ok(Ok(_)) => fail(fails, i, "foreign_handle_accepted", json!({"h":mh})),
                Ok(Err(_)) => {}
            }
        }
    }
}

fn replay(kind: &str, input: &str, output: &str, scratch: &str) -> i32 {
    quiet_panics();
    let input = std::fs::canonicalize(input).unwrap();
    let out_path = std::path::absolute(output).unwrap();
    setup_scratch(scratch);
    let f = std::fs::File::open(input).expect("cannot open histories");
    let mut w = std::io::BufWriter::new(std::fs::File::create(out_path).expect("cannot create output"));
    let mut fails = vec![];
    let mut evals = 0usize;
    let mut n = 0usize;
    for line in std::io::BufReader::new(f).lines() {
        let line = line.unwrap();
        if line.trim().is_empty() {
            continue;
        }
        let rec: Value = serde_json::from_str(&line).unwrap();
        let before = fails.len();
        run_history(kind, &rec, &mut fails, &mut evals);
        n += 1;
        // one report per history is enough
        fails.truncate(before + 1);
    }
    for f in &fails {
        writeln!(w, "{f}").unwrap();
    }
    writeln!(w, "{}", json!({"summary":true,"histories":n,"evaluations":evals,"mismatching":fails.len()})).unwrap();
    println!("ctx/{kind}: {n} histories, {evals} evaluations, {} mismatching", fails.len());
    if fails.is_empty() { 0 } else { 1 }
}

/// C18/Plain: file based macros are found in resource files and registers exactly as documented
fn lookup(input: &str, output: &str, scratch: &str) -> i32 {
    quiet_panics();
    let input = std::fs::canonicalize(input).unwrap();
    let out_path = std::path::absolute(output).unwrap();
    setup_scratch(scratch);
    let xdg = std::env::var("XDG_DATA_HOME").expect("XDG_DATA_HOME must point into the scratch directory");
    let dirs = [
        std::path::PathBuf::from("geodesy/resources"),
        std::path::PathBuf::from(&xdg).join("geodesy/resources"),
    ];
    let f = std::fs::File::open(input).expect("cannot open configurations");
    let mut w = std::io::BufWriter::new(std::fs::File::create(out_path).expect("cannot create output"));
    let (mut n, mut bad, mut evals) = (0usize, 0usize, 0usize);
    for line in std::io::BufReader::new(f).lines() {
        let line = line.unwrap();
        if line.trim().is_empty() {
            continue;
        }
        let rec: Value = serde_json::from_str(&line).unwrap();
        for (i, d) in dirs.iter().enumerate() {
            let _ = std::fs::remove_dir_all(d);
            std::fs::create_dir_all(d).unwrap();
            let body = rec["files"][i].as_str().unwrap_or("");
            if !body.is_empty() {
                std::fs::write(d.join("f_a.resource"), body).unwrap();
            }
            let reg = rec["registers"][i].as_str().unwrap_or("");
            if !reg.is_empty() {
                std::fs::write(d.join("f.md"), reg).unwrap();
            }
        }
        let mut ctx = Ctx::new("plain");
        if rec["rt"] == true {
            ctx.get_mut().register_resource("f:a", rec["rtbody"].as_str().unwrap());
        }
        let expected = rec["expected"].as_f64().unwrap();
        n += 1;
        evals += 1;
        let r = guarded(|| ctx.get_mut().op("f:a").map_err(|e| format!("{e:?}")));
        let mut problem: Option<Value> = None;
        match r {
            Err(p) => problem = Some(json!({"what":"panic","msg":p})),
            Ok(Err(e)) => {
                if expected != 0.0 {
                    problem = Some(json!({"what":"not_found","expected_shift":expected,"err":e}));
                }
            }
            Ok(Ok(h)) => {
                let mut d = [Coor4D([0., 0., 0., 0.])];
                evals += 1;
                match guarded(|| ctx.get().apply(h, Fwd, &mut d)) {
                    Ok(Ok(_)) => {
                        if d[0][0] != expected {
                            problem = Some(json!({"what":"wrong_source","expected_shift":expected,"observed":d[0][0]}));
                        }
                    }
                    other => problem = Some(json!({"what":"apply_failed","msg":format!("{other:?}")})),
                }
            }
        }
        // names nobody defines must not resolve (whatever f:a resolves to)
        if problem.is_none() {
            for u in rec["unknown"].as_array().map(|a| a.to_vec()).unwrap_or_default() {
                let name = u.as_str().unwrap_or("").to_string();
                evals += 1;
                match guarded(|| ctx.get_mut().op(&name).map_err(|e| format!("{e:?}"))) {
                    Err(p) => problem = Some(json!({"what":"panic","name":name,"msg":p})),
                    Ok(Ok(_)) => problem = Some(json!({"what":"unknown_name_resolved","name":name})),
                    Ok(Err(_)) => {}
                }
                if problem.is_some() {
                    break;
                }
            }
        }
        if let Some(mut p) = problem {
            bad += 1;
            p["config"] = rec.clone();
            writeln!(w, "{p}").unwrap();
        }
    }
    writeln!(w, "{}", json!({"summary":true,"histories":n,"evaluations":evals,"mismatching":bad})).unwrap();
    println!("ctx/lookup: {n} configurations, {bad} mismatching");
    if bad == 0 { 0 } else { 1 }
}

/// C18, concurrent histories: threads share one Plain context for `apply` while another
/// thread, with its own Plain, instantiates grid operators and clears the shared cache.
/// Every call/return is logged through the library's event sink (one sequence for harness
/// and hook events); the trace is validated by spec/Trace_C18.tla.
fn threads(seed: u64, rounds: usize, output: &str, scratch: &str) -> i32 {
    use rand::{Rng, SeedableRng};
    quiet_panics();
    let out_path = std::path::absolute(output).unwrap();
    setup_scratch(scratch);
    let mut w = std::io::BufWriter::new(std::fs::File::create(out_path).expect("cannot create output"));
    let emit = |kind: &'static str, f: Vec<(&'static str, String)>| geodesy::verif::emit(kind, f);
    let mut total_events = 0usize;
    for segment in 0..rounds {
        Plain::clear_grids();
        geodesy::verif::drain();
        geodesy::verif::enable(true);
        emit("reset", vec![]);
        let mut shared = Ctx::new("plain");
        let defs = ["addone", "gridshift grids=g1.datum", "t_add c=100 | gridshift grids=g2.datum | addone", "geo:in | utm zone=32"];
        let mut handles = vec![];
        for d in defs {
            let h = shared.get_mut().op(d).expect("setup op");
            emit("t_op", vec![("thr", "0".into()), ("h", format!("{h:?}")), ("def", d.to_string())]);
            handles.push(h);
        }
        let shared_ref: &dyn Context = shared.get();
        let Ctx::Plain(ref plain) = shared else { unreachable!() };
        let plain: &Plain = plain;
        let _ = shared_ref;
        std::thread::scope(|sc| {
            for t in 1..=2u64 {
                let handles = handles.clone();
                sc.spawn(move || {
                    let mut rng = rand::rngs::StdRng::seed_from_u64(seed * 1000 + segment as u64 * 10 + t);
                    for _ in 0..40 {
                        let k = rng.gen_range(0..handles.len());
                        let h = handles[k];
                        let dir = if rng.gen_bool(0.3) { "I" } else { "F" };
                        geodesy::verif::emit("t_call", vec![("thr", t.to_string()), ("h", format!("{h:?}")), ("dir", dir.into())]);
                        let mut d = [Coor4D::geo(55., 11., 0., 0.), Coor4D::geo(54.5, 10.5, 10., 0.)];
                        let r = guarded(|| plain.apply(h, dir_of(dir), &mut d));
                        let out = match r {
                            Ok(Ok(n)) => format!("{n}:{:?}", d.iter().map(|c| c.0.map(|x| x.to_bits())).collect::<Vec<_>>()),
                            Ok(Err(e)) => format!("err:{e:?}"),
                            Err(p) => format!("panic:{p}"),
                        };
                        geodesy::verif::emit("t_ret", vec![("thr", t.to_string()), ("h", format!("{h:?}")), ("dir", dir.into()), ("out", out)]);
                    }
                });
            }
            sc.spawn(move || {
                let mut rng = rand::rngs::StdRng::seed_from_u64(seed * 1000 + segment as u64 * 10 + 3);
                let mut own = Ctx::new("plain");
                let mut mine: Vec<OpHandle> = vec![];
                for _ in 0..40 {
                    match rng.gen_range(0..4) {
                        0 | 1 => {
                            let g = if rng.gen_bool(0.5) { "g1.datum" } else { "g2.datum" };
                            let d = format!("gridshift grids={g}");
                            match guarded(|| own.get_mut().op(&d)) {
                                Ok(Ok(h)) => {
                                    geodesy::verif::emit("t_op", vec![("thr", "3".into()), ("h", format!("{h:?}")), ("def", d)]);
                                    mine.push(h);
                                }
                                other => geodesy::verif::emit("t_fail", vec![("thr", "3".into()), ("msg", format!("{other:?}"))]),
                            }
                        }
                        2 => Plain::clear_grids(),
                        _ => {
                            if let Some(h) = mine.last().copied() {
                                geodesy::verif::emit("t_call", vec![("thr", "3".into()), ("h", format!("{h:?}")), ("dir", "F".into())]);
                                let mut d = [Coor4D::geo(55., 11., 0., 0.), Coor4D::geo(54.5, 10.5, 10., 0.)];
                                let r = guarded(|| own.get().apply(h, Fwd, &mut d));
                                let out = match r {
                                    Ok(Ok(n)) => format!("{n}:{:?}", d.iter().map(|c| c.0.map(|x| x.to_bits())).collect::<Vec<_>>()),
                                    Ok(Err(e)) => format!("err:{e:?}"),
                                    Err(p) => format!("panic:{p}"),
                                };
                                geodesy::verif::emit("t_ret", vec![("thr", "3".into()), ("h", format!("{h:?}")), ("dir", "F".into()), ("out", out)]);
                            }
                        }
                    }
                }
                // keep `own` (and thereby every grid object it captured) alive until the segment ends
                std::mem::forget(own);
            });
        });
        geodesy::verif::enable(false);
        // intern long strings (handles, outputs, object pointers) as small integers
        let evs = geodesy::verif::drain();
        let mut ids: BTreeMap<String, i64> = BTreeMap::new();
        let mut intern = |s: &str| -> i64 {
            let n = ids.len() as i64 + 1;
            *ids.entry(s.to_string()).or_insert(n)
        };
        for e in evs {
            if matches!(e.kind, "dispatch" | "step" | "resolve") {
                continue;
            }
            let get = |k: &str| e.fields.iter().find(|f| f.0 == k).map(|f| f.1.clone()).unwrap_or_default();
            let thr: i64 = get("thr").parse().unwrap_or(0);
            let rec = match e.kind {
                "reset" => json!({"ev":"reset"}),
                "t_op" => json!({"ev":"op","thr":thr,"h":intern(&get("h"))}),
                "t_call" => json!({"ev":"call","thr":thr,"h":intern(&get("h")),"dir":get("dir")}),
                "t_ret" => json!({"ev":"ret","thr":thr,"h":intern(&get("h")),"dir":get("dir"),"out":intern(&get("out")),
                                  "bad": get("out").starts_with("err") || get("out").starts_with("panic")}),
                "t_fail" => json!({"ev":"fail","thr":thr}),
                "grid_get" => json!({"ev":"grid_get","name":get("name"),"outcome":get("outcome"),"obj":intern(&get("obj"))}),
                "grid_clear" => json!({"ev":"grid_clear"}),
                _ => continue,
            };
            writeln!(w, "{rec}").unwrap();
            total_events += 1;
        }
    }
    println!("ctx/threads: {rounds} segments, {total_events} events");
    0
}

fn main() {
    let a: Vec<String> = std::env::args().collect();
    let code = match a.get(1).map(|s| s.as_str()) {
        Some("replay") => replay(&a[2], &a[3], &a[4], &a[5]),
        Some("lookup") => lookup(&a[2], &a[3], &a[4]),
        Some("threads") => threads(a[2].parse().unwrap_or(1), a[3].parse().unwrap_or(5), &a[4], &a[5]),
        _ => {
            eprintln!("usage: gvh_ctx replay <minimal|plain> <in> <out> <scratchdir>");
            2
        }
    };
    std::process::exit(code);
}
