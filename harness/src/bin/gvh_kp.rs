//! gvh_kp — the library side of the C20 check ("kp prints what the library
//! computes").
//!
//! For every job it reads the input tuples the specification assigns to the
//! expected output lines (numbers, not the text kp parses), lets the library
//! transform them in-process in the mode the specification names, rounds and
//! cuts them as requested, and
//!   * writes these lines ("what the library computes"), if asked to, and
//!   * compares them line by line with what the real kp binary wrote.
//!
//! usage: gvh_kp jobs <jobs.ndjson> <results.ndjson>
//!
//! job:    {"id":.., "def": operation, "mode":"fwd"|"inv"|"rt_fwd_inv"|"rt_inv_fwd",
//!          "d": decimals|null, "D": dimension|null,
//!          "tuples": path     one line per expected output line: v1 v2 v3 v4 mask
//!                             (mask: four characters, '1' = element is compared),
//!          "observed": path|null       stdout of kp,
//!          "expected_out": path|null   where to write what the library computes,
//!          "compare": "numbers" | "prefix" (stdout may stop early) | "count" | "none", "slack": 0.5,
//!          "dclass": "shown" | "beyond" (more decimals requested than a binary64 number has: the
//!                    token must denote the library's number, its count of decimals is free)}
//! result: {"id":.., "op_ok":bool, "n_expected":n, "n_observed":n, "count_ok":bool,
//!          "successes": what the library's apply returned for the first direction,
//!          "successes2": ... for the second direction of a roundtrip (applied to the result of the first),
//!          "n_mismatch":n, "mismatches":[first five], "evaluations":n}
//!
//! Token comparison: the text must be the value with exactly d decimals; a
//! token that differs from Rust's own rounding is still accepted if it is a
//! d-decimal number within `slack` (default half a) unit of the last place
//! (ties may be broken either way; the job raises `slack` for operations that
//! are not exact in binary64, kp and this harness being two builds of the library), "-0.00" and "0.00" are the same number, NaN is "NaN" in any
//! letter case.  In the roundtrip modes only magnitudes are compared (the
//! documentation does not fix the sign convention of a residual).
use geodesy::authoring::*;
use gvh::util::guarded;
use serde_json::{json, Value};
use std::io::{BufRead, BufReader, BufWriter, Write};

fn all_zero(tok: &str) -> bool {
    !tok.is_empty() && tok.bytes().all(|b| b == b'0' || b == b'.')
}

/// "-0.000" -> "0.000"; with `magnitude` every leading minus goes
fn canon(tok: &str, magnitude: bool) -> &str {
    if let Some(rest) = tok.strip_prefix('-') {
        if magnitude || all_zero(rest) {
            return rest;
        }
    }
    tok
}

fn well_formed(tok: &str, d: usize) -> bool {
    let t = tok.strip_prefix('-').unwrap_or(tok);
    let (int, frac) = match t.split_once('.') {
        Some((i, f)) => (i, Some(f)),
        None => (t, None),
    };
    if int.is_empty() || !int.bytes().all(|b| b.is_ascii_digit()) {
        return false;
    }
    match frac {
        None => d == 0,
        Some(f) => d > 0 && f.len() == d && f.bytes().all(|b| b.is_ascii_digit()),
    }
}

/// Every decimal of a binary64 number lies within the first 1074 places
const ALL_DECIMALS: usize = 1100;

/// The value with d decimals, for any d (the formatting machinery of the standard library has a
/// limit of its own): what follows the last decimal a binary64 number can have is zeros.
fn fmt_dec(v: f64, d: usize) -> String {
    if d <= ALL_DECIMALS || !v.is_finite() {
        return format!("{:.*}", d.min(ALL_DECIMALS), v);
    }
    let mut s = format!("{:.*}", ALL_DECIMALS, v);
    s.extend(std::iter::repeat('0').take(d - ALL_DECIMALS));
    s
}

/// a decimal number: [-]digits[.digits]
fn is_decimal(tok: &str) -> bool {
    let t = tok.strip_prefix('-').unwrap_or(tok);
    let (int, frac) = t.split_once('.').unwrap_or((t, ""));
    !int.is_empty() && int.bytes().all(|b| b.is_ascii_digit()) && frac.bytes().all(|b| b.is_ascii_digit())
}

/// for the reports: a token of 100000 decimals is cut
fn brief(tok: &str) -> String {
    if tok.len() <= 48 {
        return tok.to_string();
    }
    let decimals = tok.split_once('.').map(|x| x.1.len()).unwrap_or(0);
    format!("{}...({} decimals)", &tok[..tok.char_indices().nth(32).map(|x| x.0).unwrap_or(tok.len())], decimals)
}

fn token_ok(v: f64, d: usize, obs: &str, magnitude: bool, slack: f64, beyond: bool) -> bool {
    let e = fmt_dec(v, d);
    if canon(&e, magnitude) == canon(obs, magnitude) {
        return true;
    }
    if v.is_nan() {
        return obs.eq_ignore_ascii_case("nan");
    }
    if !v.is_finite() || !(if beyond { is_decimal(obs) } else { well_formed(obs, d) }) {
        return false;
    }
    let Ok(o) = obs.parse::<f64>() else {
        return false;
    };
    let (a, b) = if magnitude { (o.abs(), v.abs()) } else { (o, v) };
    let unit = 10f64.powi(-(d.min(400) as i32));
    (a - b).abs() <= slack * unit * (1.0 + 1e-9) + 4.0 * f64::EPSILON * b.abs()
}

struct Tuples {
    data: Vec<Coor4D>,
    mask: Vec<[bool; 4]>,
}

fn read_tuples(path: &str) -> Result<Tuples, String> {
    let f = std::fs::File::open(path).map_err(|e| format!("{path}: {e}"))?;
    let mut t = Tuples { data: vec![], mask: vec![] };
    for (n, line) in BufReader::new(f).lines().enumerate() {
        let line = line.map_err(|e| format!("{path}: {e}"))?;
        let mut it = line.split_ascii_whitespace();
        let mut c = [0f64; 4];
        for x in c.iter_mut() {
            let tok = it.next().ok_or(format!("{path}:{}: short line", n + 1))?;
            *x = tok.parse::<f64>().map_err(|_| format!("{path}:{}: bad number {tok}", n + 1))?;
        }
        let m = it.next().ok_or(format!("{path}:{}: no mask", n + 1))?.as_bytes();
        if m.len() != 4 {
            return Err(format!("{path}:{}: bad mask", n + 1));
        }
        t.data.push(Coor4D(c));
        t.mask.push([m[0] == b'1', m[1] == b'1', m[2] == b'1', m[3] == b'1']);
    }
    Ok(t)
}

fn run_job(job: &Value) -> Value {
    let id = job["id"].clone();
    let def = job["def"].as_str().unwrap_or("");
    let mode = job["mode"].as_str().unwrap_or("fwd");
    let compare = job["compare"].as_str().unwrap_or("numbers");
    let mut evaluations = 0usize;

    // the operation, as the library sees it (kp uses the Plain context)
    let mut ctx = Plain::new();
    evaluations += 1;
    let op = match guarded(|| ctx.op(def).map_err(|e| format!("{e:?}"))) {
        Ok(Ok(op)) => op,
        Ok(Err(e)) => return json!({"id": id, "op_ok": false, "op_err": e, "evaluations": evaluations}),
        Err(p) => return json!({"id": id, "op_ok": false, "op_err": format!("panic: {p}"), "oracle_panic": p, "evaluations": evaluations}),
    };
    if job["tuples"].is_null() {
        return json!({"id": id, "op_ok": true, "evaluations": evaluations});
    }
    let tuples = match read_tuples(job["tuples"].as_str().unwrap_or("")) {
        Ok(t) => t,
        Err(e) => return json!({"id": id, "op_ok": true, "tool_error": e}),
    };
    let input = tuples.data;
    let mut data = input.clone();
    let n = data.len();

    // what the library computes
    let (first, second) = match mode {
        "fwd" => (Fwd, None),
        "inv" => (Inv, None),
        "rt_fwd_inv" => (Fwd, Some(Inv)),
        _ => (Inv, Some(Fwd)),
    };
    let roundtrip = second.is_some();
    let mut successes = 0usize;
    let mut successes2 = 0usize;
    let r = guarded(|| -> Result<(), String> {
        successes = ctx.apply(op, first, &mut data).map_err(|e| format!("{e:?}"))?;
        if let Some(dir) = second {
            successes2 = ctx.apply(op, dir, &mut data).map_err(|e| format!("{e:?}"))?;
            for (o, i) in data.iter_mut().zip(input.iter()) {
                for e in 0..4 {
                    o[e] -= i[e];
                }
            }
        }
        Ok(())
    });
    evaluations += n * if roundtrip { 2 } else { 1 };
    match r {
        Ok(Ok(())) => {}
        Ok(Err(e)) => return json!({"id": id, "op_ok": true, "oracle_error": e, "evaluations": evaluations}),
        Err(p) => return json!({"id": id, "op_ok": true, "oracle_panic": p, "evaluations": evaluations}),
    }

    let d = job["d"].as_u64().map(|x| x as usize);
    let dim = job["D"].as_u64().map(|x| x as usize);
    // units of the last place a token may be away from the library's value: 0.5 = correctly
    // rounded; more for operations whose last bits may differ between two builds of the library
    let slack = job["slack"].as_f64().unwrap_or(0.5);
    let beyond = job["dclass"].as_str() == Some("beyond");

    // "prints what the library computes, rounded and cut"
    if let (Some(path), Some(d), Some(dim)) = (job["expected_out"].as_str(), d, dim) {
        if let Ok(f) = std::fs::File::create(path) {
            let mut w = BufWriter::new(f);
            for t in &data {
                let toks: Vec<String> = (0..dim.min(4)).map(|e| fmt_dec(t[e], d)).collect();
                let _ = writeln!(w, "{}", toks.join(" "));
            }
        }
    }

    let Some(obs_path) = job["observed"].as_str() else {
        return json!({"id": id, "op_ok": true, "n_expected": n, "successes": successes, "successes2": successes2,
                      "evaluations": evaluations});
    };
    let observed = match std::fs::read(obs_path) {
        Ok(b) => String::from_utf8_lossy(&b).into_owned(),
        Err(e) => return json!({"id": id, "op_ok": true, "tool_error": format!("{obs_path}: {e}")}),
    };
    let mut lines: Vec<&str> = observed.split('\n').collect();
    if lines.last() == Some(&"") {
        lines.pop();
    }
    let n_obs = lines.len();
    let mut mism: Vec<Value> = vec![];
    let mut n_mism = 0usize;
    if compare == "numbers" || compare == "prefix" {
        let (d, dim) = (d.unwrap_or(0), dim.unwrap_or(4).min(4));
        for (k, line) in lines.iter().enumerate().take(n) {
            let toks: Vec<&str> = line.split_ascii_whitespace().collect();
            let mut ok = toks.len() == dim;
            if ok {
                for e in 0..dim {
                    if tuples.mask[k][e] && !token_ok(data[k][e], d, toks[e], roundtrip, slack, beyond) {
                        ok = false;
                        break;
                    }
                }
            }
            if !ok {
                n_mism += 1;
                if mism.len() < 5 {
                    let exp: Vec<String> = (0..dim)
                        .map(|e| if tuples.mask[k][e] { brief(&fmt_dec(data[k][e], d)) } else { "*".to_string() })
                        .collect();
                    let inp: Vec<String> = (0..4).map(|e| format!("{}", input[k][e])).collect();
                    let obs: Vec<String> = toks.iter().take(8).map(|t| brief(t)).collect();
                    mism.push(json!({"line": k + 1, "expected": exp.join(" "), "observed": obs.join(" "),
                                     "input_tuple": inp.join(" ")}));
                }
            }
        }
    }
    // "prefix": the run was allowed to stop early; what it wrote must be the first lines of the prediction
    let count_ok = if compare == "prefix" { n_obs <= n } else { n == n_obs };
    json!({"id": id, "op_ok": true, "n_expected": n, "n_observed": n_obs, "count_ok": count_ok, "successes": successes,
           "successes2": successes2,
           "n_mismatch": n_mism, "mismatches": mism, "evaluations": evaluations})
}

fn main() {
    let args: Vec<String> = std::env::args().collect();
    if args.len() != 4 || args[1] != "jobs" {
        eprintln!("usage: gvh_kp jobs <jobs.ndjson> <results.ndjson>");
        std::process::exit(2);
    }
    gvh::util::quiet_panics();
    let inp = match std::fs::File::open(&args[2]) {
        Ok(f) => f,
        Err(e) => {
            eprintln!("{}: {e}", args[2]);
            std::process::exit(2);
        }
    };
    let mut out = match std::fs::File::create(&args[3]) {
        Ok(f) => BufWriter::new(f),
        Err(e) => {
            eprintln!("{}: {e}", args[3]);
            std::process::exit(2);
        }
    };
    for line in BufReader::new(inp).lines() {
        let Ok(line) = line else { break };
        if line.trim().is_empty() {
            continue;
        }
        let job: Value = match serde_json::from_str(&line) {
            Ok(v) => v,
            Err(e) => {
                eprintln!("bad job: {e}");
                std::process::exit(2);
            }
        };
        let r = run_job(&job);
        let _ = writeln!(out, "{r}");
    }
    let _ = out.flush();
}
