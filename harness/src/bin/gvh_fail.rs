//! C10 (and the operator-catalogue part of C01).
//!
//! `gvh_fail replay <in> <out> <scratch>`: replays the cases derived by
//! spec/Catalogue.tla (MC_C10*, MC_C10_pipe*) on the real operators and compares the
//! *abstraction* of each concrete result (bit comparison with the input,
//! is_nan, the returned count, the per-step counts of the `step` hook) with
//! the specification's prediction.
//!
//! `gvh_fail roundtrip <in> <out> <scratch>`: evaluates the round trip
//! residuals of the configuration x point lattice enumerated by
//! spec/RoundTrip.tla (MC_C01_rt*) on the ground and compares them with the
//! accuracy class of the C01 statement (validated assumption).
//!
//! `gvh_fail eval <ctx> <def> <F|I> x y z t ...`: apply one operator to tuples
//! given as catalogue strings (minimal reproductions).
//!
//! Coordinates travel as strings: a decimal number, "NaN", or a decimal
//! number followed by `d` (degrees, converted with f64::to_radians).
use geodesy::authoring::*;
use gvh::util::*;
use serde_json::{json, Value};
use std::collections::BTreeMap;
use std::io::{BufRead, Write};

// ---- grids written by the harness (Gravsoft text; 54..56 N, 10..12 E, 1 degree spacing) ----
const DATUM: &str = "56 54 10 12 1 1\n 1 2  3 -2  5 2\n -1 2  1 7  1 2\n 1 -4  1 2  9 2\n";
const GEOID: &str = "56 54 10 12 1 1\n 31 32 33\n 34 36 38\n 39 42 45\n";
const DEFORMATION: &str = "56 54 10 12 1 1\n 1 2 3  4 5 6  7 8 9\n 9 7 5  3 1 -1  -3 -5 -7\n 2 4 8  16 32 64  1 3 9\n";

fn setup_scratch(dir: &str) {
    let d = std::path::Path::new(dir);
    for sub in ["datum", "geoid", "deformation"] {
        std::fs::create_dir_all(d.join("geodesy").join(sub)).unwrap();
    }
    std::fs::write(d.join("geodesy/datum/g1.datum"), DATUM).unwrap();
    std::fs::write(d.join("geodesy/geoid/h1.geoid"), GEOID).unwrap();
    std::fs::write(d.join("geodesy/deformation/d1.deformation"), DEFORMATION).unwrap();
    std::env::set_current_dir(d).unwrap();
}

fn parse_coord(s: &str) -> f64 {
    let s = s.trim();
    if s == "NaN" {
        return f64::NAN;
    }
    if let Some(deg) = s.strip_suffix('d') {
        return deg.parse::<f64>().expect("bad degree value").to_radians();
    }
    s.parse::<f64>().expect("bad coordinate value")
}

fn point_from(v: &Value) -> Coor4D {
    let a = v.as_array().expect("point must be an array");
    let mut t = [0.0; 4];
    for i in 0..4 {
        t[i] = match &a[i] {
            Value::String(s) => parse_coord(s),
            Value::Number(n) => n.as_f64().unwrap(),
            _ => f64::NAN,
        };
    }
    Coor4D(t)
}

fn masked(p: Coor4D, mask: &Value) -> Coor4D {
    let mut q = p;
    if let Some(a) = mask.as_array() {
        for e in a {
            let k = e.as_u64().unwrap() as usize;
            q[k - 1] = f64::NAN;
        }
    }
    q
}

fn show(t: &Coor4D) -> Value {
    Value::Array(t.0.iter().map(|x| if x.is_nan() { json!("NaN") } else if x.is_infinite() { json!(format!("{x}")) } else { json!(x) }).collect())
}

struct World {
    minimal: Ctx,
    plain: Ctx,
    handles: BTreeMap<(String, String), Result<OpHandle, String>>,
    evals: usize,
}

impl World {
    fn new() -> World {
        World { minimal: Ctx::new("minimal"), plain: Ctx::new("plain"), handles: BTreeMap::new(), evals: 0 }
    }
    fn ctx(&self, kind: &str) -> &dyn Context {
        if kind == "plain" { self.plain.get() } else { self.minimal.get() }
    }
    /// Err(msg): the definition was rejected, or instantiation panicked ("panic: ..")
    fn op(&mut self, kind: &str, def: &str) -> Result<OpHandle, String> {
        let key = (kind.to_string(), def.to_string());
        if let Some(h) = self.handles.get(&key) {
            return h.clone();
        }
        self.evals += 1;
        let c = if kind == "plain" { self.plain.get_mut() } else { self.minimal.get_mut() };
        let r = match guarded(|| c.op(def)) {
            Ok(Ok(h)) => Ok(h),
            Ok(Err(e)) => Err(format!("rejected: {e:?}")),
            Err(p) => Err(format!("panic: {p}")),
        };
        self.handles.insert(key, r.clone());
        r
    }
    /// Err(msg): apply panicked or returned an error
    fn apply(&mut self, kind: &str, h: OpHandle, dir: &str, data: &mut Vec<Coor4D>) -> Result<usize, String> {
        self.evals += 1;
        let c = self.ctx(kind);
        match guarded(|| c.apply(h, dir_of(dir), data)) {
            Ok(Ok(n)) => Ok(n),
            Ok(Err(e)) => Err(format!("error: {e:?}")),
            Err(p) => Err(format!("panic: {p}")),
        }
    }
}

// ---- abstraction and comparison --------------------------------------------------------

/// The clauses of one admissible outcome that the observation breaks
fn broken(outcome: &Value, counted: Option<bool>, input: &Coor4D, out: &Coor4D) -> Vec<String> {
    let mut b = vec![];
    if let (Some(c), Some(want)) = (counted, outcome["c"].as_bool()) {
        if c != want {
            b.push(if want { "not counted".to_string() } else { "counted".to_string() });
        }
    }
    if let Some(el) = outcome["el"].as_array() {
        for i in 0..4 {
            let ok = match el[i].as_str().unwrap_or("any") {
                "same" => bits_eq(input[i], out[i]),
                "new" | "val" => !out[i].is_nan(),
                "nan" => out[i].is_nan(),
                _ => true,
            };
            if !ok {
                b.push(format!("element {} not {}", i + 1, el[i].as_str().unwrap_or("?")));
            }
        }
    }
    if outcome["sn"].as_bool().unwrap_or(false) && !out.0.iter().any(|x| x.is_nan()) {
        b.push("carries no NaN".to_string());
    }
    if outcome["mv"].as_bool().unwrap_or(false) && (0..4).all(|i| bits_eq(input[i], out[i])) {
        b.push("returned unchanged".to_string());
    }
    b
}

/// None: some admissible outcome matches; Some(clauses): the clauses broken for the closest outcome
fn judge(outs: &Value, counted: Option<bool>, input: &Coor4D, out: &Coor4D) -> Option<Vec<String>> {
    let mut best: Option<Vec<String>> = None;
    for o in outs.as_array().expect("outs") {
        let b = broken(o, counted, input, out);
        if b.is_empty() {
            return None;
        }
        if best.as_ref().map(|x| b.len() < x.len()).unwrap_or(true) {
            best = Some(b);
        }
    }
    best.or(Some(vec!["no admissible outcome".to_string()]))
}

fn abstract_of(input: &Coor4D, out: &Coor4D) -> Value {
    Value::Array((0..4).map(|i| {
        if out[i].is_nan() && input[i].is_nan() { json!("nan(same)") }
        else if out[i].is_nan() { json!("nan") }
        else if bits_eq(input[i], out[i]) { json!("same") }
        else { json!("new") }
    }).collect())
}

struct Tally {
    fails: Vec<Value>,
    cases: usize,
    sets: usize,
    pipes: usize,
    nontrivial: std::collections::BTreeSet<String>,
    rows: std::collections::BTreeSet<String>,
    names: std::collections::BTreeSet<String>,
    step_events: usize,
}

fn names_of(def: &str, into: &mut std::collections::BTreeSet<String>) {
    for step in def.split(['|', '<', '>']) {
        if let Some(name) = step.split_whitespace().find(|t| !["inv", "omit_fwd", "omit_inv"].contains(t)) {
            into.insert(name.to_string());
        }
    }
}

fn replay(input: &str, output: &str, scratch: &str) -> i32 {
    quiet_panics();
    let in_path = std::path::absolute(input).unwrap();
    let out_path = std::path::absolute(output).unwrap();
    setup_scratch(scratch);
    let f = std::fs::File::open(in_path).expect("cannot open input");
    let mut w = std::io::BufWriter::new(std::fs::File::create(out_path).expect("cannot create output"));
    let mut world = World::new();
    let mut t = Tally { fails: vec![], cases: 0, sets: 0, pipes: 0, nontrivial: Default::default(), rows: Default::default(),
                        names: Default::default(), step_events: 0 };
    for line in std::io::BufReader::new(f).lines() {
        let line = line.unwrap();
        if line.trim().is_empty() {
            continue;
        }
        let v: Value = serde_json::from_str(&line).expect("bad json");
        let kind = v["ctx"].as_str().unwrap_or("minimal").to_string();
        let def = v["def"].as_str().unwrap_or("").to_string();
        let dir = v["dir"].as_str().unwrap_or("F").to_string();
        let ty = v["t"].as_str().unwrap_or("");
        if !["case", "set", "pipe"].contains(&ty) {
            continue;
        }
        names_of(&def, &mut t.names);
        let h = match world.op(&kind, &def) {
            Ok(h) => h,
            Err(msg) => {
                let what = if msg.starts_with("panic") { "panic" } else { "opfail" };
                t.fails.push(json!({"t":ty,"what":what,"def":def,"ctx":kind,"dir":dir,"msg":msg,"clauses":[what],"row":v["row"],"cls":v["cls"]}));
                continue;
            }
        };
        match ty {
            "case" => {
                t.cases += 1;
                t.rows.insert(v["row"].as_str().unwrap_or("").to_string());
                let inp = masked(point_from(&v["pt"]), &v["mask"]);
                let mut data = vec![inp];
                match world.apply(&kind, h, &dir, &mut data) {
                    Err(msg) => t.fails.push(json!({"t":"case","what":"panic","def":def,"ctx":kind,"dir":dir,"row":v["row"],"cls":v["cls"],"mask":v["mask"],
                        "input":show(&inp),"msg":msg,"clauses":["panic"]})),
                    Ok(n) => {
                        if n > 1 {
                            t.fails.push(json!({"t":"case","what":"count","def":def,"ctx":kind,"dir":dir,"row":v["row"],"cls":v["cls"],"mask":v["mask"],
                                "input":show(&inp),"count":n,"n":1,"clauses":["more successes than tuples"]}));
                        }
                        let out = data[0];
                        // non-trivial: the prediction is not "counted, everything unchanged"
                        let trivial = v["outs"].as_array().map(|a| a.len() == 1 && a[0]["c"] == true
                            && a[0]["el"].as_array().unwrap().iter().all(|e| e == "same")).unwrap_or(false);
                        if !trivial {
                            t.nontrivial.insert(format!("{}|{}|{}", v["row"], dir, v["cls"]));
                        }
                        if let Some(clauses) = judge(&v["outs"], Some(n >= 1), &inp, &out) {
                            // contradicts the reference: does it equal the prediction of the applicable deviation switch?
                            let dev = v["dev"].as_str().unwrap_or("");
                            let deviation = if !dev.is_empty() && judge(&v["douts"], Some(n >= 1), &inp, &out).is_none() { json!([dev]) } else { Value::Null };
                            t.fails.push(json!({"t":"case","what":"outcome","def":def,"ctx":kind,"dir":dir,"row":v["row"],"cls":v["cls"],"mask":v["mask"],
                                "pt":v["pt"],"input":show(&inp),"output":show(&out),"count":n,"observed":abstract_of(&inp, &out),
                                "admissible":v["outs"],"clauses":clauses,"deviation":deviation}));
                        }
                    }
                }
            }
            "set" | "pipe" => {
                if ty == "set" { t.sets += 1 } else { t.pipes += 1 }
                let members = v["members"].as_array().unwrap();
                let inputs: Vec<Coor4D> = members.iter().map(|m| masked(point_from(&m["pt"]), &m["mask"])).collect();
                // twice: in the given order, and reversed (the count must not depend on the order)
                for rev in [false, true] {
                    let mut data: Vec<Coor4D> = inputs.clone();
                    if rev { data.reverse(); }
                    if ty == "pipe" {
                        geodesy::verif::drain();
                        geodesy::verif::enable(true);
                    }
                    let r = world.apply(&kind, h, &dir, &mut data);
                    let events: Vec<geodesy::verif::Event> = if ty == "pipe" {
                        geodesy::verif::enable(false);
                        geodesy::verif::drain().into_iter().filter(|e| e.kind == "step").collect()
                    } else { vec![] };
                    if rev { data.reverse(); }
                    let base = json!({"t":ty,"def":def,"ctx":kind,"dir":dir,"row":v["row"],"reversed":rev,"n":inputs.len()});
                    let fail = |extra: Value, t: &mut Tally| {
                        let mut b = base.clone();
                        for (k, x) in extra.as_object().unwrap() { b[k] = x.clone(); }
                        t.fails.push(b);
                    };
                    let n = match r {
                        Err(msg) => { fail(json!({"what":"panic","msg":msg,"clauses":["panic"],"inputs":inputs.iter().map(show).collect::<Vec<_>>()}), &mut t); continue; }
                        Ok(n) => n,
                    };
                    if n > inputs.len() {
                        fail(json!({"what":"count","count":n,"clauses":["more successes than tuples"]}), &mut t);
                    }
                    // the observed step counts (pipelines): in execution order, skipped flags
                    let field = |e: &geodesy::verif::Event, k: &str| e.fields.iter().find(|f| f.0 == k).map(|f| f.1.clone()).unwrap_or_default();
                    let nsteps = v["steps"].as_array().map(|a| a.len()).unwrap_or(0);
                    let order: Vec<usize> = if dir == "F" { (0..nsteps).collect() } else { (0..nsteps).rev().collect() };
                    if ty == "pipe" {
                        t.step_events += events.len();
                        if events.len() != nsteps {
                            fail(json!({"what":"steps","clauses":["number of step events differs from the number of steps"],"events":events.len(),"steps":nsteps}), &mut t);
                            continue;
                        }
                        let executed: Vec<usize> = events.iter().filter(|e| field(e, "skipped") != "true").map(|e| field(e, "count").parse().unwrap_or(usize::MAX)).collect();
                        let want = executed.iter().copied().min().unwrap_or(inputs.len());
                        if n != want {
                            fail(json!({"what":"mincount","count":n,"stepcounts":executed,"clauses":["pipeline count is not the minimum over its executed steps"]}), &mut t);
                        }
                    }
                    // everything that depends on the prediction: once against the reference, and - if that fails and
                    // deviation switches apply - against the deviated prediction
                    let same_set = |a: &Value, b: &Value| -> bool {
                        let norm = |x: &Value| { let mut v: Vec<String> = x.as_array().map(|a| a.iter().map(|s| s.as_str().unwrap_or("").to_string()).collect()).unwrap_or_default(); v.sort(); v };
                        norm(a) == norm(b)
                    };
                    let check = |variant: Option<&Value>| -> Vec<Value> {
                        let mut out: Vec<Value> = vec![];
                        let top = variant.unwrap_or(&v);
                        let lo = top["lo"].as_u64().unwrap() as usize;
                        let hi = top["hi"].as_u64().unwrap() as usize;
                        if n <= inputs.len() && (n < lo || n > hi) {
                            let c = if n < lo { "count below the number of tuples that must be counted" } else { "count above the number of tuples that may be counted" };
                            out.push(json!({"what":"count","count":n,"lo":lo,"hi":hi,"clauses":[c],
                                "inputs":inputs.iter().map(show).collect::<Vec<_>>(),"outputs":data.iter().map(show).collect::<Vec<_>>()}));
                        }
                        for (k, m) in members.iter().enumerate() {
                            let outs = match (ty, variant) {
                                ("set", None) => m["outs"].clone(),
                                ("set", Some(var)) => {
                                    let on = var["on"].as_array().map(|a| a.iter().any(|d| d == &m["dev"])).unwrap_or(false);
                                    if on { m["douts"].clone() } else { m["outs"].clone() }
                                }
                                (_, None) => json!([{"el":m["el"],"sn":m["sn"]}]),
                                (_, Some(var)) => {
                                    let e = m["dv"].as_array().and_then(|a| a.iter().find(|x| same_set(&x["on"], &var["on"]))).cloned().unwrap_or(json!({"el":m["el"],"sn":m["sn"]}));
                                    json!([{"el":e["el"],"sn":e["sn"]}])
                                }
                            };
                            if let Some(clauses) = judge(&outs, None, &inputs[k], &data[k]) {
                                out.push(json!({"what":"outcome","member":k + 1,"cls":m["cls"],"mask":m["mask"],"pt":m["pt"],"input":show(&inputs[k]),"output":show(&data[k]),
                                    "observed":abstract_of(&inputs[k], &data[k]),"admissible":outs,"clauses":clauses,"count":n}));
                            }
                        }
                        if ty == "pipe" {
                            let steps = top["steps"].as_array().unwrap();
                            for (e, &si) in events.iter().zip(order.iter()) {
                                let s = &steps[si];
                                let skipped = field(e, "skipped") == "true";
                                if skipped != s["skipped"].as_bool().unwrap_or(false) {
                                    out.push(json!({"what":"steps","step":si + 1,"clauses":["step skipped/executed contrary to its omit_* modifier"]}));
                                    continue;
                                }
                                if skipped { continue; }
                                let c: usize = field(e, "count").parse().unwrap_or(usize::MAX);
                                let (slo, shi) = (s["lo"].as_u64().unwrap() as usize, s["hi"].as_u64().unwrap() as usize);
                                if c < slo || c > shi {
                                    out.push(json!({"what":"stepcount","step":si + 1,"stepdef":field(e, "def"),"count":c,"lo":slo,"hi":shi,
                                        "clauses":[format!("step {} count outside the admissible range", field(e, "name"))]}));
                                }
                            }
                        }
                        out
                    };
                    let reference = check(None);
                    if !reference.is_empty() {
                        // contradicts the reference: is it exactly what some combination of the applicable deviation switches predicts?
                        // (smallest combination first)
                        let mut variants: Vec<&Value> = v["variants"].as_array().map(|a| a.iter().collect()).unwrap_or_default();
                        variants.sort_by_key(|x| x["on"].as_array().map(|a| a.len()).unwrap_or(0));
                        let explained = variants.into_iter().find(|var| check(Some(var)).is_empty()).map(|var| var["on"].clone());
                        for mut x in reference {
                            x["deviation"] = explained.clone().unwrap_or(Value::Null);
                            fail(x, &mut t);
                        }
                    }
                }
            }
            _ => {}
        }
    }
    // catalogue drift: built-in names no replayed definition mentions (reported, not judged)
    let uncovered: Vec<&str> = geodesy::verif::builtin_names().into_iter().filter(|n| *n != "pipeline" && !t.names.contains(*n)).collect();
    for fl in t.fails.iter().take(5000) {
        writeln!(w, "{}", fl).unwrap();
    }
    writeln!(w, "{}", json!({"summary":true,"cases":t.cases,"sets":t.sets,"pipes":t.pipes,"evaluations":world.evals,
        "nontrivial":t.nontrivial.len(),"rows":t.rows.len(),"step_events":t.step_events,"mismatching":t.fails.len(),"uncovered_builtins":uncovered})).unwrap();
    println!("fail: {} cases, {} sets, {} pipelines, {} evaluations, {} mismatches", t.cases, t.sets, t.pipes, world.evals, t.fails.len());
    if t.fails.is_empty() { 0 } else { 1 }
}

// ---- C01: round trips over the configuration x point lattice --------------------------

fn wrap_pi(x: f64) -> f64 {
    let two = 2.0 * std::f64::consts::PI;
    let mut y = x % two;
    if y > std::f64::consts::PI { y -= two; }
    if y < -std::f64::consts::PI { y += two; }
    y
}

/// ground distance between two geographical tuples (lon, lat in radians, h in metres)
fn geo_residual(a: f64, p: [f64; 3], q: [f64; 3]) -> f64 {
    let dlat = (q[1] - p[1]) * a;
    let dlon = wrap_pi(q[0] - p[0]) * a * p[1].cos();
    let dh = q[2] - p[2];
    (dlat * dlat + dlon * dlon + dh * dh).sqrt()
}

fn iso_to_deg(v: f64, seconds: bool) -> f64 {
    let s = if v.is_sign_negative() { -1.0 } else { 1.0 };
    let x = v.abs();
    if seconds {
        let d = (x / 10000.0).floor();
        let m = ((x - d * 10000.0) / 100.0).floor();
        let sec = x - d * 10000.0 - m * 100.0;
        s * (d + m / 60.0 + sec / 3600.0)
    } else {
        let d = (x / 100.0).floor();
        let m = x - d * 100.0;
        s * (d + m / 60.0)
    }
}

/// residual on the ground, in metres, between a tuple and what came back, by kind of tuple
fn residual(kind: &str, a: f64, unit: f64, p: &Coor4D, q: &Coor4D, scale: f64) -> f64 {
    let r = |x: f64| x.to_radians();
    match kind {
        "geo" => geo_residual(a, [p[0], p[1], p[2]], [q[0], q[1], q[2]]),
        "lonlat_deg" => geo_residual(a, [r(p[0]), r(p[1]), p[2]], [r(q[0]), r(q[1]), q[2]]),
        "latlon_deg" => geo_residual(a, [r(p[1]), r(p[0]), p[2]], [r(q[1]), r(q[0]), q[2]]),
        "lonlat_gon" => geo_residual(a, [r(p[0] * 0.9), r(p[1] * 0.9), p[2]], [r(q[0] * 0.9), r(q[1] * 0.9), q[2]]),
        "iso_dm" | "iso_dms" => {
            let sec = kind == "iso_dms";
            geo_residual(a, [r(iso_to_deg(p[1], sec)), r(iso_to_deg(p[0], sec)), p[2]], [r(iso_to_deg(q[1], sec)), r(iso_to_deg(q[0], sec)), q[2]])
        }
        "xyz" => ((q[0] - p[0]).powi(2) + (q[1] - p[1]).powi(2) + (q[2] - p[2]).powi(2)).sqrt(),
        "lin" => ((q[0] - p[0]).powi(2) + (q[1] - p[1]).powi(2) + (q[2] - p[2]).powi(2)).sqrt() * unit,
        // projected metres, brought back to the ground with the local linear scale of the projection
        "prj" => ((q[0] - p[0]).powi(2) + (q[1] - p[1]).powi(2)).sqrt() / scale + (q[2] - p[2]).abs(),
        // origin (lat lon, degrees), azimuth (degrees), distance (metres)
        "geodesic" => {
            let pos = geo_residual(a, [r(p[1]), r(p[0]), 0.], [r(q[1]), r(q[0]), 0.]);
            let azi = wrap_pi(r(q[2] - p[2])) * p[3];
            (pos * pos + azi * azi + (q[3] - p[3]).powi(2)).sqrt()
        }
        // two points (lat lon, degrees)
        "pair_deg" => {
            let a1 = geo_residual(a, [r(p[1]), r(p[0]), 0.], [r(q[1]), r(q[0]), 0.]);
            let a2 = geo_residual(a, [r(p[3]), r(p[2]), 0.], [r(q[3]), r(q[2]), 0.]);
            a1.hypot(a2)
        }
        // exact: the numbers themselves must come back (the largest difference is reported)
        _ => (0..4).map(|i| if p[i] == q[i] { 0.0 } else { (q[i] - p[i]).abs().max(f64::MIN_POSITIVE) }).fold(0.0, f64::max),
    }
}

#[derive(Default)]
struct Group {
    n: usize,
    fails: usize,
    max: f64,
    worst: Value,
    ellps: std::collections::BTreeSet<String>,
    lines: usize,
}

fn roundtrip(input: &str, output: &str, scratch: &str) -> i32 {
    quiet_panics();
    let in_path = std::path::absolute(input).unwrap();
    let out_path = std::path::absolute(output).unwrap();
    setup_scratch(scratch);
    let f = std::fs::File::open(in_path).expect("cannot open input");
    let mut w = std::io::BufWriter::new(std::fs::File::create(out_path).expect("cannot create output"));
    let mut world = World::new();
    let mut groups: BTreeMap<(String, String, String, String), Group> = BTreeMap::new();
    let mut per_fam: BTreeMap<String, (usize, usize, f64, usize)> = BTreeMap::new(); // cases, fails, max residual, configurations
    let mut spec_ellps: std::collections::BTreeSet<String> = Default::default();
    let mut total = 0usize;
    let mut failing = 0usize;
    for line in std::io::BufReader::new(f).lines() {
        let line = line.unwrap();
        if line.trim().is_empty() { continue; }
        let v: Value = serde_json::from_str(&line).expect("bad json");
        let g = |k: &str| v[k].as_str().unwrap_or("").to_string();
        let (fam, def, shape, ellps, kind, dk, ik, via) = (g("fam"), g("def"), g("shape"), g("ellps"), g("ctx"), g("dk"), g("ik"), g("via"));
        let tol = v["tol_um"].as_f64().unwrap() * 1e-6;
        let unit: f64 = g("unit").parse().unwrap_or(1.0);
        if !ellps.is_empty() { spec_ellps.insert(ellps.clone()); }
        let pts = v["pts"].as_array().unwrap();
        let fam_e = per_fam.entry(fam.clone()).or_insert((0, 0, 0.0, 0));
        fam_e.3 += 1;
        fam_e.0 += 2 * pts.len();
        total += 2 * pts.len();
        let note = |order: &str, what: &str, res: f64, detail: Value, groups: &mut BTreeMap<(String, String, String, String), Group>, w: &mut std::io::BufWriter<std::fs::File>| {
            let gr = groups.entry((fam.clone(), shape.clone(), order.to_string(), what.to_string())).or_default();
            gr.fails += 1;
            if !ellps.is_empty() { gr.ellps.insert(ellps.clone()); }
            let line = json!({"fam":fam,"def":def,"shape":shape,"ellps":ellps,"ctx":kind,"order":order,"what":what,"residual_m":if res.is_finite() { json!(res) } else { json!(format!("{res}")) },
                              "tol_m":tol,"detail":detail});
            if res.is_nan() || res > gr.max || gr.worst.is_null() { if !res.is_nan() { gr.max = gr.max.max(res); } gr.worst = line.clone(); }
            if gr.lines < 20 { gr.lines += 1; writeln!(w, "{}", line).unwrap(); }
        };
        // the semimajor axis that turns angles into metres on the ground
        let a = if ellps.is_empty() { 6378137.0 } else {
            match guarded(|| Ellipsoid::named(&ellps)) {
                Ok(Ok(e)) => e.semimajor_axis(),
                other => {
                    failing += 2 * pts.len(); fam_e.1 += 2 * pts.len();
                    let what = if other.is_err() { "panic" } else { "opfail" };
                    note("-", what, f64::NAN, json!({"msg":format!("Ellipsoid::named: {other:?}"),"cases":2 * pts.len()}), &mut groups, &mut w);
                    continue;
                }
            }
        };
        let h = match world.op(&kind, &def) {
            Ok(h) => h,
            Err(msg) => {
                failing += 2 * pts.len(); fam_e.1 += 2 * pts.len();
                let what = if msg.starts_with("panic") { "panic" } else { "opfail" };
                note("-", what, f64::NAN, json!({"msg":msg,"cases":2 * pts.len()}), &mut groups, &mut w);
                continue;
            }
        };
        let mut start: Vec<Coor4D> = pts.iter().map(point_from).collect();
        if !via.is_empty() {
            let hv = world.op("minimal", &via).expect("via operator");
            world.apply("minimal", hv, "F", &mut start).expect("via apply");
        }
        let n = start.len();
        let run = |world: &mut World, dir: &str, data: &Vec<Coor4D>| -> Result<Vec<Coor4D>, String> {
            let mut d = data.clone();
            world.apply(&kind, h, dir, &mut d).map(|_| d)
        };
        // forward, then inverse
        let fwd = run(&mut world, "F", &start);
        let back = fwd.clone().and_then(|d| run(&mut world, "I", &d));
        // inverse, then forward, from the forward image
        let again = back.clone().and_then(|d| run(&mut world, "F", &d));
        let (fwd, back, again) = match (fwd, back, again) {
            (Ok(a1), Ok(a2), Ok(a3)) => (a1, a2, a3),
            (x, y, z) => {
                failing += 2 * n; fam_e.1 += 2 * n;
                let msg = [x.err(), y.err(), z.err()].into_iter().flatten().next().unwrap_or_default();
                note("-", "panic", f64::NAN, json!({"msg":msg,"cases":2 * n}), &mut groups, &mut w);
                continue;
            }
        };
        // local linear scale of a projection (finite differences of the forward mapping), for residuals in projected metres
        let mut scale = vec![1.0f64; n];
        if ik == "prj" && dk == "geo" {
            let d = 1e-6;
            let north: Vec<Coor4D> = start.iter().map(|p| { let mut q = *p; q[1] += if p[1] > 0. { -d } else { d }; q }).collect();
            let east: Vec<Coor4D> = start.iter().map(|p| { let mut q = *p; q[0] += d; q }).collect();
            if let (Ok(fnorth), Ok(feast)) = (run(&mut world, "F", &north), run(&mut world, "F", &east)) {
                for i in 0..n {
                    let kn = (fnorth[i][0] - fwd[i][0]).hypot(fnorth[i][1] - fwd[i][1]) / (d * a);
                    let c = start[i][1].cos();
                    let ke = if c > 1e-6 { (feast[i][0] - fwd[i][0]).hypot(feast[i][1] - fwd[i][1]) / (d * a * c) } else { 0.0 };
                    let k = kn.max(ke);
                    scale[i] = if k.is_finite() && k > 1e-3 { k } else { 1.0 };
                }
            }
        }
        for i in 0..n {
            for (order, from, mid, to, kd) in [("FI", &start[i], &fwd[i], &back[i], dk.as_str()), ("IF", &fwd[i], &back[i], &again[i], ik.as_str())] {
                let gr = groups.entry((fam.clone(), shape.clone(), order.to_string(), "ok".to_string())).or_default();
                gr.n += 1;
                let nan = |t: &Coor4D| t.0[..3].iter().any(|x| x.is_nan());
                let detail = |res: f64| json!({"pt":pts[i],"from":show(from),"via":show(mid),"back":show(to),"residual_m":if res.is_finite() { json!(res) } else { json!(format!("{res}")) }});
                if nan(mid) || nan(to) || (order == "IF" && nan(from)) {
                    failing += 1; fam_e.1 += 1;
                    note(order, "nan", f64::NAN, detail(f64::NAN), &mut groups, &mut w);
                    continue;
                }
                let res = residual(kd, a, unit, from, to, if order == "IF" { scale[i] } else { 1.0 });
                if res.is_finite() { fam_e.2 = fam_e.2.max(res); }
                if !(res <= tol) {
                    failing += 1; fam_e.1 += 1;
                    note(order, "residual", res, detail(res), &mut groups, &mut w);
                }
            }
        }
        // keep the registries small
        if world.handles.len() > 500 { world = World::new(); }
    }
    for ((fam, shape, order, what), gr) in groups.iter() {
        if what == "ok" { continue; }
        let cases = groups.get(&(fam.clone(), shape.clone(), order.clone(), "ok".to_string())).map(|g| g.n).unwrap_or(0);
        writeln!(w, "{}", json!({"group":true,"fam":fam,"shape":shape,"order":order,"what":what,"failing":gr.fails,"of":cases,
            "max_residual_m":gr.max,"ellps":gr.ellps.iter().take(60).collect::<Vec<_>>(),"worst":gr.worst})).unwrap();
    }
    let code_ellps: Vec<&str> = geodesy::verif::ellipsoid_names();
    let uncovered: Vec<&str> = code_ellps.iter().copied().filter(|n| !spec_ellps.contains(*n)).collect();
    let fams: BTreeMap<String, Value> = per_fam.iter().map(|(k, v)| (k.clone(), json!({"cases":v.0,"failing":v.1,"max_residual_m":v.2,"configurations":v.3}))).collect();
    writeln!(w, "{}", json!({"summary":true,"cases":total,"failing":failing,"evaluations":world.evals,"families":fams,
        "ellipsoids_in_code_not_enumerated":uncovered})).unwrap();
    println!("roundtrip: {} cases, {} failing", total, failing);
    if failing == 0 { 0 } else { 1 }
}

fn eval(a: &[String]) -> i32 {
    quiet_panics();
    let (kind, def, dir) = (&a[0], &a[1], &a[2]);
    if kind == "plain" {
        setup_scratch(&std::env::var("GVH_SCRATCH").unwrap_or("/tmp/gvh_fail_scratch".to_string()));
    }
    let mut world = World::new();
    let h = match world.op(kind, def) {
        Ok(h) => h,
        Err(m) => { println!("op: {m}"); return 1; }
    };
    let vals: Vec<f64> = a[3..].iter().map(|s| parse_coord(s)).collect();
    let mut data: Vec<Coor4D> = vals.chunks(4).map(|c| { let mut t = [0., 0., 0., f64::NAN]; for (i, x) in c.iter().enumerate() { t[i] = *x; } Coor4D(t) }).collect();
    let input = data.clone();
    geodesy::verif::enable(true);
    let r = world.apply(kind, h, dir, &mut data);
    geodesy::verif::enable(false);
    println!("apply({def}, {dir}) on {} tuple(s) -> {:?}", input.len(), r);
    for (i, o) in input.iter().zip(data.iter()) {
        println!("  {:?}\n   -> {:?}   {}", i.0, o.0, abstract_of(i, o));
        if o[0].abs() < 7. && o[1].abs() < 7. {
            println!("   (as degrees: {} {})", o[0].to_degrees(), o[1].to_degrees());
        }
    }
    for e in geodesy::verif::drain().into_iter().filter(|e| e.kind == "step") {
        println!("  step {:?}", e.fields);
    }
    0
}

fn main() {
    let a: Vec<String> = std::env::args().collect();
    let code = match a.get(1).map(|s| s.as_str()) {
        Some("replay") if a.len() >= 5 => replay(&a[2], &a[3], &a[4]),
        Some("roundtrip") if a.len() >= 5 => roundtrip(&a[2], &a[3], &a[4]),
        Some("eval") if a.len() >= 6 => eval(&a[2..]),
        _ => {
            eprintln!("usage: gvh_fail replay <in> <out> <scratchdir>\n       gvh_fail roundtrip <in> <out> <scratchdir>\n       gvh_fail eval <minimal|plain> <def> <F|I> x y z t [x y z t ...]");
            2
        }
    };
    std::process::exit(code);
}
