//! C09: the recorder for spec/Trace_C09.tla ("no definition string and no
//! coordinate value can make the library panic or hang").
//!
//! `gvh_robust record <jobs.ndjson> <sets.json> <trace.ndjson> <scratch> <start_job> <skip_slot> <next_id> <next_h> <seg_events>`
//!
//! executes the calls derived from the jobs TLC generated (spec/Gamut.tla) and
//! appends to the trace one `call` event immediately before every call into
//! the library (flushed, so that the event is on disk if the process dies or
//! hangs inside the call) and one event when the call is over: `ret_ok`,
//! `ret_err`, `ret_count`, `ret_value` - or `panic` (caught by catch_unwind).
//! `crash` and `timeout` events are appended by the Python driver, which
//! supervises this process (watchdog on the CPU time of the call in progress,
//! address space limit) and restarts it after the culprit: the last `call`
//! event of the trace says which job / slot was in progress.
//!
//! Job kinds (one JSON object per line, field `kind`):
//!   def   {text, res:[[name, body]..], sets:[..]}  Context::op on Minimal and Plain, then steps(), params(),
//!         apply in both directions through two container kinds each, and the Tokenize methods / parse_proj on the text
//!   fn    {fn, grp, recv, args}                    one public function of the angular / ellipsoid modules
//!
//! Slots: every call of a job has a fixed slot number, so that a restarted
//! recorder can skip what was already done (re-instantiating, and re-recording,
//! the operators later slots depend on).
//!
//! `gvh_robust names` prints the catalogue hooks; `gvh_robust replay <call.json>` re-executes one call.
use geodesy::authoring::*;
use serde_json::{json, Value};
use std::cell::RefCell;
use std::collections::BTreeMap;
use std::io::Write;
use std::panic::{catch_unwind, AssertUnwindSafe};

thread_local! {
    static LAST_PANIC_AT: RefCell<String> = const { RefCell::new(String::new()) };
}

fn install_hook() {
    std::panic::set_hook(Box::new(|info| {
        let at = info.location().map(|l| format!("{}:{}", l.file(), l.line())).unwrap_or_default();
        LAST_PANIC_AT.with(|p| *p.borrow_mut() = at);
    }));
}

/// Run `f`; a panic becomes Err("message @ file:line")
fn guarded<T>(f: impl FnOnce() -> T) -> Result<T, String> {
    match catch_unwind(AssertUnwindSafe(f)) {
        Ok(v) => Ok(v),
        Err(e) => {
            let msg = if let Some(s) = e.downcast_ref::<&str>() {
                s.to_string()
            } else if let Some(s) = e.downcast_ref::<String>() {
                s.clone()
            } else {
                "panic".to_string()
            };
            let at = LAST_PANIC_AT.with(|p| p.borrow().clone());
            Err(format!("{msg} @ {at}"))
        }
    }
}

/// %uXXXX; -> the character
fn decode(text: &str) -> String {
    let mut out = String::new();
    let mut rest = text;
    while let Some(i) = rest.find("%u") {
        out.push_str(&rest[..i]);
        let tail = &rest[i + 2..];
        if let Some(j) = tail.find(';') {
            if let Some(c) = u32::from_str_radix(&tail[..j], 16).ok().and_then(char::from_u32) {
                out.push(c);
                rest = &tail[j + 1..];
                continue;
            }
        }
        out.push_str("%u");
        rest = tail;
    }
    out.push_str(rest);
    out
}

/// special values travel as names
fn special(v: &str) -> f64 {
    use std::f64::consts::{FRAC_PI_2, PI};
    match v {
        "NaN" => f64::NAN,
        "inf" => f64::INFINITY,
        "-inf" => f64::NEG_INFINITY,
        "-0" => -0.0,
        "sub" => f64::from_bits(1),
        "-sub" => -f64::from_bits(1),
        "hpi" => FRAC_PI_2,
        "-hpi" => -FRAC_PI_2,
        "pi" => PI,
        "-pi" => -PI,
        "2pi" => 2.0 * PI,
        "max" => f64::MAX,
        "-max" => -f64::MAX,
        "hpi+" => f64::from_bits(FRAC_PI_2.to_bits() + 1),
        "-hpi-" => -f64::from_bits(FRAC_PI_2.to_bits() + 1),
        "pi+" => f64::from_bits(PI.to_bits() + 1),
        "91d" => 91f64.to_radians(),
        _ => v.parse::<f64>().unwrap_or(f64::NAN),
    }
}

fn tuple_of(v: &Value) -> Coor4D {
    let mut t = [0.0; 4];
    if let Some(a) = v.as_array() {
        for (i, x) in a.iter().enumerate().take(4) {
            t[i] = special(x.as_str().unwrap_or("NaN"));
        }
    }
    Coor4D(t)
}

// ---- grids for the grid based operators (cf. gvh_indep.rs) ------------------------
const DATUM: &str = "56 54 10 12 1 1\n 1 2  3 -2  5 2\n -1 2  1 7  1 2\n 1 -4  1 2  9 2\n";
const GEOID: &str = "56 54 10 12 1 1\n 31 32 33\n 34 36 38\n 39 42 45\n";
const DEFORMATION: &str = "56 54 10 12 1 1\n 1 2 3  4 5 6  7 8 9\n 9 7 5  3 1 -1  -3 -5 -7\n 2 4 8  16 32 64  1 3 9\n";

fn setup_scratch(dir: &str) {
    let d = std::path::Path::new(dir);
    for sub in ["datum", "geoid", "deformation", "resources"] {
        std::fs::create_dir_all(d.join("geodesy").join(sub)).expect("scratch");
    }
    std::fs::write(d.join("geodesy/datum/g1.datum"), DATUM).unwrap();
    std::fs::write(d.join("geodesy/geoid/h1.geoid"), GEOID).unwrap();
    std::fs::write(d.join("geodesy/deformation/d1.deformation"), DEFORMATION).unwrap();
    std::env::set_current_dir(d).expect("chdir scratch");
}

// ---- the recorder -------------------------------------------------------------------
struct Rec {
    w: std::io::BufWriter<std::fs::File>,
    id: u64,
    next_h: u64,
    job: u64,
    events: u64,
    calls: u64,
    panics: u64,
    start_job: u64,
    skip_slot: i64,
}

enum Outcome {
    Ok(Value),
    Err(String),
    Count(usize),
    Value(String),
}

impl Rec {
    fn emit(&mut self, v: Value, flush: bool) {
        writeln!(self.w, "{v}").expect("trace write");
        if flush {
            self.w.flush().expect("trace flush");
        }
        self.events += 1;
    }
    /// is this slot still to be executed (not yet done before a restart)?
    fn todo(&self, slot: i64) -> bool {
        self.job != self.start_job || slot > self.skip_slot
    }
    /// record one call: `call` event, the call under catch_unwind, the closing event
    fn call(&mut self, slot: i64, api: &str, grp: &str, mut extra: Value, f: impl FnOnce() -> Outcome) -> Option<Outcome> {
        self.id += 1;
        self.calls += 1;
        let id = self.id;
        let o = extra.as_object_mut().unwrap();
        o.insert("ev".into(), json!("call"));
        o.insert("id".into(), json!(id));
        o.insert("j".into(), json!(self.job));
        o.insert("s".into(), json!(slot));
        o.insert("api".into(), json!(api));
        o.insert("grp".into(), json!(grp));
        self.emit(extra, true);
        match guarded(f) {
            Ok(out) => {
                let e = match &out {
                    Outcome::Ok(v) => {
                        let mut e = json!({"ev":"ret_ok","id":id});
                        if let Some(h) = v.get("h") {
                            e["h"] = h.clone();
                        }
                        e
                    }
                    Outcome::Err(m) => json!({"ev":"ret_err","id":id,"msg":m.chars().take(80).collect::<String>()}),
                    Outcome::Count(c) => json!({"ev":"ret_count","id":id,"count":c}),
                    Outcome::Value(v) => json!({"ev":"ret_value","id":id,"v":v.chars().take(60).collect::<String>()}),
                };
                self.emit(e, false);
                Some(out)
            }
            Err(msg) => {
                self.panics += 1;
                self.emit(json!({"ev":"panic","id":id,"api":api,"msg":msg}), false);
                None
            }
        }
    }
}

enum AnyCtx {
    M(Minimal),
    P(Plain),
}
impl AnyCtx {
    fn new(kind: &str) -> AnyCtx {
        if kind == "plain" {
            AnyCtx::P(Plain::new())
        } else {
            AnyCtx::M(Minimal::new())
        }
    }
    fn get(&self) -> &dyn Context {
        match self {
            AnyCtx::M(m) => m,
            AnyCtx::P(p) => p,
        }
    }
    fn get_mut(&mut self) -> &mut dyn Context {
        match self {
            AnyCtx::M(m) => m,
            AnyCtx::P(p) => p,
        }
    }
}

const CONTAINERS: [&str; 8] = ["vec4", "vec2", "vec3", "vec32", "slice4", "vec2ht", "vec3t", "slice2"];

/// Context::apply through the container kind `cont`
fn apply_through(ctx: &dyn Context, h: OpHandle, dir: Direction, cont: &str, input: &[Coor4D]) -> Outcome {
    fn fin(r: Result<usize, Error>) -> Outcome {
        match r {
            Ok(n) => Outcome::Count(n),
            Err(e) => Outcome::Err(format!("{e:?}")),
        }
    }
    match cont {
        "vec2" => {
            let mut c: Vec<Coor2D> = input.iter().map(|t| Coor2D([t[0], t[1]])).collect();
            fin(ctx.apply(h, dir, &mut c))
        }
        "slice2" => {
            let mut v: Vec<Coor2D> = input.iter().map(|t| Coor2D([t[0], t[1]])).collect();
            let mut s: &mut [Coor2D] = &mut v[..];
            fin(ctx.apply(h, dir, &mut s))
        }
        "vec3" => {
            let mut c: Vec<Coor3D> = input.iter().map(|t| Coor3D([t[0], t[1], t[2]])).collect();
            fin(ctx.apply(h, dir, &mut c))
        }
        "vec32" => {
            let mut c: Vec<Coor32> = input.iter().map(|t| Coor32([t[0] as f32, t[1] as f32])).collect();
            fin(ctx.apply(h, dir, &mut c))
        }
        "slice4" => {
            let mut v = input.to_vec();
            let mut s: &mut [Coor4D] = &mut v[..];
            fin(ctx.apply(h, dir, &mut s))
        }
        "vec2ht" => {
            let v: Vec<Coor2D> = input.iter().map(|t| Coor2D([t[0], t[1]])).collect();
            let (hh, tt) = input.first().map(|t| (t[2], t[3])).unwrap_or((0., 0.));
            let mut c = (v, hh, tt);
            fin(ctx.apply(h, dir, &mut c))
        }
        "vec3t" => {
            let v: Vec<Coor3D> = input.iter().map(|t| Coor3D([t[0], t[1], t[2]])).collect();
            let tt = input.first().map(|t| t[3]).unwrap_or(0.);
            let mut c = (v, tt);
            fin(ctx.apply(h, dir, &mut c))
        }
        _ => {
            let mut c = input.to_vec();
            fin(ctx.apply(h, dir, &mut c))
        }
    }
}

fn tuple_strs(t: &Coor4D) -> Value {
    json!(t.0.iter().map(|x| if x.is_nan() { "NaN".to_string() } else { format!("{x:e}") }).collect::<Vec<_>>())
}

fn dir_of(d: &str) -> Direction {
    if d == "I" {
        Inv
    } else {
        Fwd
    }
}

/// One recorded application; on a panic of a set with more than one tuple, the culprit is
/// located by bisection (every probe is a recorded call of its own).
#[allow(clippy::too_many_arguments)]
fn apply_set(rec: &mut Rec, slot: i64, ctx: &dyn Context, ctxname: &str, h: OpHandle, hid: u64, dir: &str, cont: &str, setname: &str, set: &[Coor4D]) {
    // true: the application of set[lo..hi] panicked
    let probe = |rec: &mut Rec, lo: usize, hi: usize| -> bool {
        let part = &set[lo..hi];
        let mut extra = json!({"ctx":ctxname,"h":hid,"d":dir,"c":cont,"set":setname,"lo":lo,"n":part.len()});
        if part.len() == 1 {
            extra["t"] = tuple_strs(&part[0]);
        }
        rec.call(slot, "apply", "ctx", extra, || apply_through(ctx, h, dir_of(dir), cont, part)).is_none()
    };
    if !probe(rec, 0, set.len()) {
        return;
    }
    if set.len() <= 1 || probe(rec, 0, 1) {
        return; // the first tuple alone already does it
    }
    let (mut lo, mut hi) = (0usize, set.len());
    while hi - lo > 1 {
        let mid = lo + (hi - lo) / 2;
        if probe(rec, lo, mid) {
            hi = mid;
        } else if probe(rec, mid, hi) {
            lo = mid;
        } else {
            return; // only the combination fails: the enclosing call is the reproduction
        }
    }
}

struct Sets(BTreeMap<String, Vec<Coor4D>>);

fn run_def(rec: &mut Rec, job: &Value, sets: &Sets) {
    let text = decode(job["text"].as_str().unwrap_or(""));
    let res: Vec<(String, String)> = job["res"]
        .as_array()
        .map(|a| a.iter().map(|p| (decode(p[0].as_str().unwrap_or("")), decode(p[1].as_str().unwrap_or("")))).collect())
        .unwrap_or_default();
    let setnames: Vec<String> = job["sets"].as_array().map(|a| a.iter().map(|s| s.as_str().unwrap_or("small").to_string()).collect()).unwrap_or_default();
    let nconts = job["conts"].as_u64().unwrap_or(2) as usize;
    for (ci, ctxname) in ["minimal", "plain"].iter().enumerate() {
        let base = 1000 * ci as i64;
        // anything left to do in this context?
        if rec.job == rec.start_job && rec.skip_slot >= base + 999 {
            continue;
        }
        let mut ctx = AnyCtx::new(ctxname);
        for (n, b) in &res {
            ctx.get_mut().register_resource(n, b);
        }
        // the instantiation is (re-)recorded unless it is the very call that killed the previous recorder
        if rec.job == rec.start_job && rec.skip_slot == base {
            continue;
        }
        let hid = rec.id + 1; // a handle is named after the call that issued it
        let mut handle: Option<OpHandle> = None;
        let r = rec.call(base, "op", "ctx", json!({"ctx":ctxname}), || match ctx.get_mut().op(&text) {
            Ok(h) => {
                handle = Some(h);
                Outcome::Ok(json!({"h":hid}))
            }
            Err(e) => Outcome::Err(format!("{e:?}")),
        });
        if r.is_none() {
            continue;
        }
        let Some(h) = handle else { continue };
        let c = ctx.get();
        if rec.todo(base + 1) {
            rec.call(base + 1, "steps", "ctx", json!({"ctx":ctxname,"h":hid}), || match c.steps(h) {
                Ok(s) => Outcome::Ok(json!({"n":s.len()})),
                Err(e) => Outcome::Err(format!("{e:?}")),
            });
        }
        for (k, idx) in [0usize, 1, 7].iter().enumerate() {
            let slot = base + 2 + k as i64;
            if rec.todo(slot) {
                rec.call(slot, "params", "ctx", json!({"ctx":ctxname,"h":hid,"idx":idx}), || match c.params(h, *idx) {
                    Ok(p) => Outcome::Ok(json!({"name":p.name})),
                    Err(e) => Outcome::Err(format!("{e:?}")),
                });
            }
        }
        // applications: every set, both directions, `nconts` container kinds (rotating with the job number)
        let mut slot = base + 10;
        for setname in &setnames {
            let Some(set) = sets.0.get(setname) else { continue };
            for dir in ["F", "I"] {
                for k in 0..nconts {
                    let cont = if nconts >= CONTAINERS.len() { CONTAINERS[k] } else { CONTAINERS[(rec.job as usize + ci * 2 + k * 3) % CONTAINERS.len()] };
                    let cont = if k == 0 && nconts < CONTAINERS.len() { "vec4" } else { cont };
                    if rec.todo(slot) {
                        apply_set(rec, slot, c, ctxname, h, hid, dir, cont, setname, set);
                    }
                    slot += 1;
                }
            }
        }
    }
    // the tokenizer on the same text
    let t = &text;
    let calls: [(&str, Box<dyn Fn() -> Outcome + '_>); 7] = [
        ("token.split_into_steps", Box::new(|| Outcome::Value(format!("{}", t.split_into_steps().len())))),
        ("token.split_into_parameters", Box::new(|| Outcome::Value(format!("{}", t.split_into_parameters().len())))),
        ("token.normalize", Box::new(|| Outcome::Value(t.normalize()))),
        ("token.is_pipeline", Box::new(|| Outcome::Value(format!("{}", t.is_pipeline())))),
        ("token.is_resource_name", Box::new(|| Outcome::Value(format!("{}", t.is_resource_name())))),
        ("token.operator_name", Box::new(|| Outcome::Value(t.operator_name()))),
        ("parse_proj", Box::new(|| match parse_proj(t) {
            Ok(s) => Outcome::Ok(json!({"len":s.len()})),
            Err(e) => Outcome::Err(format!("{e:?}")),
        })),
    ];
    for (k, (api, f)) in calls.iter().enumerate() {
        let slot = 2000 + k as i64;
        if rec.todo(slot) {
            let grp = if *api == "parse_proj" { "proj" } else { "token" };
            rec.call(slot, api, grp, json!({}), f);
        }
    }
}

fn receiver(recv: &Value) -> Option<Ellipsoid> {
    match recv["k"].as_str().unwrap_or("none") {
        "named" => guarded(|| Ellipsoid::named(recv["n"].as_str().unwrap_or("GRS80"))).ok().and_then(|r| r.ok()),
        "new" => Some(Ellipsoid::new(special(recv["a"].as_str().unwrap_or("1")), special(recv["f"].as_str().unwrap_or("0")))),
        _ => Some(Ellipsoid::default()),
    }
}

fn val(x: f64) -> Outcome {
    Outcome::Value(format!("{x:e}"))
}
fn valc(c: Coor4D) -> Outcome {
    Outcome::Value(format!("{:e},{:e},{:e},{:e}", c[0], c[1], c[2], c[3]))
}

fn run_fn(rec: &mut Rec, job: &Value) {
    let name = job["fn"].as_str().unwrap_or("").to_string();
    let grp = job["grp"].as_str().unwrap_or("ellipsoid").to_string();
    let args: Vec<String> = job["args"].as_array().map(|a| a.iter().map(|x| decode(x.as_str().unwrap_or(""))).collect()).unwrap_or_default();
    let arg = |i: usize| args.get(i).map(|s| s.as_str()).unwrap_or("");
    let f = |i: usize| special(args.get(i).map(|s| s.as_str()).unwrap_or("NaN"));
    let s0 = args.first().cloned().unwrap_or_default();
    let method = name.strip_prefix("ellipsoid.").unwrap_or("").to_string();
    let extra = json!({"recv": job["recv"], "args": job["args"]});
    if !rec.todo(0) && name != "ellipsoid.base" {
        return;
    }
    if grp == "angular" {
        rec.call(0, &name, &grp, extra, || match name.as_str() {
            "angular.dms_to_dd" => val(angular::dms_to_dd(s0.parse::<i32>().unwrap_or(0), arg(1).parse::<u16>().unwrap_or(0), f(2))),
            "angular.dm_to_dd" => val(angular::dm_to_dd(s0.parse::<i32>().unwrap_or(0), f(1))),
            "angular.iso_dm_to_dd" => val(angular::iso_dm_to_dd(f(0))),
            "angular.dd_to_iso_dm" => val(angular::dd_to_iso_dm(f(0))),
            "angular.iso_dms_to_dd" => val(angular::iso_dms_to_dd(f(0))),
            "angular.dd_to_iso_dms" => val(angular::dd_to_iso_dms(f(0))),
            "angular.normalize_symmetric" => val(angular::normalize_symmetric(f(0))),
            "angular.normalize_positive" => val(angular::normalize_positive(f(0))),
            _ => val(angular::parse_sexagesimal(&s0)),
        });
        return;
    }
    if name == "ellipsoid.named" {
        rec.call(0, &name, &grp, extra, || match Ellipsoid::named(&s0) {
            Ok(e) => Outcome::Ok(json!({"a":format!("{:e}", e.semimajor_axis())})),
            Err(e) => Outcome::Err(format!("{e:?}")),
        });
        return;
    }
    if name == "triaxial.named" {
        rec.call(0, &name, &grp, extra, || match TriaxialEllipsoid::named(&s0) {
            Ok(e) => Outcome::Ok(json!({"a":format!("{:e}", e.semimajor_axis())})),
            Err(e) => Outcome::Err(format!("{e:?}")),
        });
        return;
    }
    let Some(e) = receiver(&job["recv"]) else { return };
    if name == "ellipsoid.base" {
        type M = (&'static str, fn(&Ellipsoid) -> f64);
        let methods: [M; 19] = [
            ("semimajor_axis", |e| e.semimajor_axis()),
            ("flattening", |e| e.flattening()),
            ("a", |e| e.a()),
            ("f", |e| e.f()),
            ("semimedian_axis", |e| e.semimedian_axis()),
            ("semiminor_axis", |e| e.semiminor_axis()),
            ("second_flattening", |e| e.second_flattening()),
            ("third_flattening", |e| e.third_flattening()),
            ("aspect_ratio", |e| e.aspect_ratio()),
            ("linear_eccentricity", |e| e.linear_eccentricity()),
            ("eccentricity_squared", |e| e.eccentricity_squared()),
            ("eccentricity", |e| e.eccentricity()),
            ("second_eccentricity_squared", |e| e.second_eccentricity_squared()),
            ("second_eccentricity", |e| e.second_eccentricity()),
            ("polar_radius_of_curvature", |e| e.polar_radius_of_curvature()),
            ("normalized_meridian_arc_unit", |e| e.normalized_meridian_arc_unit()),
            ("rectifying_radius", |e| e.rectifying_radius()),
            ("rectifying_radius_bowring", |e| e.rectifying_radius_bowring()),
            ("meridian_quadrant", |e| e.meridian_quadrant()),
        ];
        for (k, (m, fun)) in methods.iter().enumerate() {
            if rec.todo(k as i64) {
                rec.call(k as i64, &format!("ellipsoid.{m}"), &grp, json!({"recv": job["recv"]}), || val(fun(&e)));
            }
        }
        type C = (&'static str, fn(&Ellipsoid) -> FourierCoefficients);
        let coefs: [C; 3] = [
            ("coefficients_for_rectifying_latitude_computations", |e| e.coefficients_for_rectifying_latitude_computations()),
            ("coefficients_for_conformal_latitude_computations", |e| e.coefficients_for_conformal_latitude_computations()),
            ("coefficients_for_authalic_latitude_computations", |e| e.coefficients_for_authalic_latitude_computations()),
        ];
        for (k, (m, fun)) in coefs.iter().enumerate() {
            let slot = 30 + k as i64;
            if rec.todo(slot) {
                rec.call(slot, &format!("ellipsoid.{m}"), &grp, json!({"recv": job["recv"]}), || val(fun(&e).etc[0]));
            }
        }
        return;
    }
    let c2 = |i: usize| Coor4D::raw(f(i), f(i + 1), 0., 0.);
    rec.call(0, &name, &grp, extra, || match method.as_str() {
        "prime_vertical_radius_of_curvature" => val(e.prime_vertical_radius_of_curvature(f(0))),
        "meridian_radius_of_curvature" => val(e.meridian_radius_of_curvature(f(0))),
        "latitude_geographic_to_geocentric" => val(e.latitude_geographic_to_geocentric(f(0))),
        "latitude_geocentric_to_geographic" => val(e.latitude_geocentric_to_geographic(f(0))),
        "latitude_geographic_to_reduced" => val(e.latitude_geographic_to_reduced(f(0))),
        "latitude_reduced_to_geographic" => val(e.latitude_reduced_to_geographic(f(0))),
        "latitude_geographic_to_isometric" => val(e.latitude_geographic_to_isometric(f(0))),
        "latitude_isometric_to_geographic" => val(e.latitude_isometric_to_geographic(f(0))),
        "latitude_geographic_to_rectifying" => val(e.latitude_geographic_to_rectifying(f(0), &e.coefficients_for_rectifying_latitude_computations())),
        "latitude_rectifying_to_geographic" => val(e.latitude_rectifying_to_geographic(f(0), &e.coefficients_for_rectifying_latitude_computations())),
        "latitude_geographic_to_conformal" => val(e.latitude_geographic_to_conformal(f(0), &e.coefficients_for_conformal_latitude_computations())),
        "latitude_conformal_to_geographic" => val(e.latitude_conformal_to_geographic(f(0), &e.coefficients_for_conformal_latitude_computations())),
        "latitude_geographic_to_authalic" => val(e.latitude_geographic_to_authalic(f(0), &e.coefficients_for_authalic_latitude_computations())),
        "latitude_authalic_to_geographic" => val(e.latitude_authalic_to_geographic(f(0), &e.coefficients_for_authalic_latitude_computations())),
        "meridian_latitude_to_distance" => val(e.meridian_latitude_to_distance(f(0))),
        "meridian_distance_to_latitude" => val(e.meridian_distance_to_latitude(f(0))),
        "somigliana_gravity" => {
            // the benign value of the optional arguments stands for None
            let o = |i: usize| if arg(i) == "0.9" { None } else { Some(f(i)) };
            val(e.somigliana_gravity(f(0), o(1), o(2)))
        }
        "cassinis_gravity_1930" => val(e.cassinis_gravity_1930(f(0))),
        "jeffreys_gravity_1948" => val(e.jeffreys_gravity_1948(f(0))),
        "grs67_gravity" => val(e.grs67_gravity(f(0))),
        "grs80_gravity" => val(e.grs80_gravity(f(0))),
        "cassinis_height_correction" => val(e.cassinis_height_correction(f(0), f(1))),
        "grs67_height_correction" => val(e.grs67_height_correction(f(0), f(1))),
        "welmec" => val(e.welmec(f(0), f(1))),
        "cartesian" => valc(e.cartesian(&Coor4D::raw(f(0), f(1), f(2), 0.))),
        "geographic" => valc(e.geographic(&Coor4D::raw(f(0), f(1), f(2), 0.))),
        "geodesic_fwd" => valc(e.geodesic_fwd(&c2(0), f(2), f(3))),
        "geodesic_inv" => valc(e.geodesic_inv(&c2(0), &c2(2))),
        "distance" => val(e.distance(&c2(0), &c2(2))),
        _ => Outcome::Value("unknown function".to_string()),
    });
}

/// Faults injected on purpose, for `bin/check C09 --selftest` only: the supervision (panic capture, crash and
/// timeout attribution, resumption) must turn each of them into the matching event and carry on after it.
#[allow(unconditional_recursion)]
fn deep(n: u64) -> u64 {
    let pad = [n; 64];
    std::hint::black_box(&pad);
    deep(n + 1) + pad[3]
}
fn run_selftest(rec: &mut Rec, job: &Value) {
    let what = job["fn"].as_str().unwrap_or("").to_string();
    if !rec.todo(0) {
        return;
    }
    rec.call(0, &format!("selftest.{what}"), "token", json!({}), || match what.as_str() {
        "panic" => panic!("injected panic"),
        "abort" => std::process::abort(),
        "overflow" => Outcome::Value(format!("{}", deep(0))),
        "alloc" => {
            let v: Vec<u8> = vec![1; 64 << 30];
            Outcome::Value(format!("{}", v.len()))
        }
        "hang" => {
            let mut x = 0u64;
            loop {
                x = std::hint::black_box(x.wrapping_add(1));
            }
        }
        _ => Outcome::Value("nothing".to_string()),
    });
}

fn record(a: &[String]) -> i32 {
    install_hook();
    let jobs_path = std::path::absolute(&a[2]).unwrap();
    let sets_path = std::path::absolute(&a[3]).unwrap();
    let trace_path = std::path::absolute(&a[4]).unwrap();
    setup_scratch(&a[5]);
    let start_job: u64 = a[6].parse().unwrap_or(0);
    let skip_slot: i64 = a[7].parse().unwrap_or(-1);
    let next_id: u64 = a[8].parse().unwrap_or(0);
    let next_h: u64 = a[9].parse().unwrap_or(0);
    let seg_events: u64 = a[10].parse().unwrap_or(100_000);
    let setsv: Value = serde_json::from_str(&std::fs::read_to_string(sets_path).expect("sets")).expect("sets json");
    let mut sets = Sets(BTreeMap::new());
    for (k, v) in setsv.as_object().unwrap() {
        sets.0.insert(k.clone(), v.as_array().unwrap().iter().map(tuple_of).collect());
    }
    let file = std::fs::OpenOptions::new().create(true).append(true).open(trace_path).expect("trace");
    let mut rec = Rec {
        w: std::io::BufWriter::new(file),
        id: next_id,
        next_h,
        job: 0,
        events: 0,
        calls: 0,
        panics: 0,
        start_job,
        skip_slot,
    };
    let text = std::fs::read_to_string(jobs_path).expect("jobs");
    let mut seg_start = 0u64;
    rec.emit(json!({"ev":"reset","why":"start","j":start_job}), true);
    for (n, line) in text.lines().enumerate() {
        let n = n as u64;
        if n < start_job || line.trim().is_empty() {
            continue;
        }
        let job: Value = serde_json::from_str(line).expect("job json");
        rec.job = n;
        if rec.events - seg_start >= seg_events {
            rec.emit(json!({"ev":"reset","why":"segment","j":n}), false);
            seg_start = rec.events;
        }
        match job["kind"].as_str().unwrap_or("") {
            "def" => run_def(&mut rec, &job, &sets),
            "fn" => run_fn(&mut rec, &job),
            "selftest" => run_selftest(&mut rec, &job),
            _ => {}
        }
    }
    rec.w.flush().unwrap();
    println!("{}", json!({"summary":true,"calls":rec.calls,"events":rec.events,"panics":rec.panics,"last_id":rec.id,"last_h":rec.next_h}));
    0
}

/// Re-execute one call (as composed by the driver for a replay file). Prints the outcome;
/// exit 0: returned, 1: panicked. (A crash / hang shows as the death / timeout of this process.)
fn replay(path: &str, scratch: &str) -> i32 {
    install_hook();
    let call: Value = serde_json::from_str(&std::fs::read_to_string(std::path::absolute(path).unwrap()).expect("call file")).expect("call json");
    setup_scratch(scratch);
    let api = call["api"].as_str().unwrap_or("");
    let text = decode(call["def"].as_str().unwrap_or(""));
    let outcome: Result<String, String> = match api {
        "op" | "apply" | "steps" | "params" => {
            let mut ctx = AnyCtx::new(call["ctx"].as_str().unwrap_or("minimal"));
            if let Some(res) = call["resources"].as_array() {
                for p in res {
                    ctx.get_mut().register_resource(&decode(p[0].as_str().unwrap_or("")), &decode(p[1].as_str().unwrap_or("")));
                }
            }
            guarded(|| {
                let h = match ctx.get_mut().op(&text) {
                    Ok(h) => h,
                    Err(e) => return format!("op: Err({e:?})"),
                };
                match api {
                    "op" => "op: Ok".to_string(),
                    "steps" => format!("steps: {:?}", ctx.get().steps(h).map(|s| s.len())),
                    "params" => format!("params: {:?}", ctx.get().params(h, call["idx"].as_u64().unwrap_or(0) as usize).map(|p| p.name)),
                    _ => {
                        let set: Vec<Coor4D> = call["tuples"].as_array().map(|a| a.iter().map(tuple_of).collect()).unwrap_or_default();
                        let dir = if call["dir"].as_str() == Some("I") { Inv } else { Fwd };
                        match apply_through(ctx.get(), h, dir, call["cont"].as_str().unwrap_or("vec4"), &set) {
                            Outcome::Count(n) => format!("apply: count {n}"),
                            Outcome::Err(e) => format!("apply: Err({e})"),
                            _ => String::new(),
                        }
                    }
                }
            })
        }
        "parse_proj" => guarded(|| format!("{:?}", parse_proj(&text))),
        a if a.starts_with("token.") => guarded(|| match a {
            "token.split_into_steps" => format!("{:?}", text.split_into_steps()),
            "token.split_into_parameters" => format!("{:?}", text.split_into_parameters()),
            "token.normalize" => text.normalize(),
            "token.is_pipeline" => format!("{}", text.is_pipeline()),
            "token.is_resource_name" => format!("{}", text.is_resource_name()),
            _ => text.operator_name(),
        }),
        _ => {
            // a function job: run it through the recorder into a scratch trace
            let tmp = std::env::temp_dir().join(format!("gvh_robust_replay_{}.ndjson", std::process::id()));
            let file = std::fs::File::create(&tmp).expect("tmp trace");
            let mut rec = Rec { w: std::io::BufWriter::new(file), id: 0, next_h: 0, job: 0, events: 0, calls: 0, panics: 0, start_job: u64::MAX, skip_slot: -1 };
            run_fn(&mut rec, &call);
            rec.w.flush().unwrap();
            let out = std::fs::read_to_string(&tmp).unwrap_or_default();
            let _ = std::fs::remove_file(&tmp);
            let want = call["api"].as_str().unwrap_or("");
            let mut verdict = Ok("returned".to_string());
            let mut cur = String::new();
            for l in out.lines() {
                let e: Value = serde_json::from_str(l).unwrap_or(Value::Null);
                if e["ev"] == "call" {
                    cur = e["api"].as_str().unwrap_or("").to_string();
                }
                if e["ev"] == "panic" && (want.is_empty() || want == cur || call["fn"] == cur) {
                    verdict = Err(e["msg"].as_str().unwrap_or("panic").to_string());
                }
            }
            verdict
        }
    };
    match outcome {
        Ok(s) => {
            println!("{}", json!({"outcome":"returned","detail":s.chars().take(300).collect::<String>()}));
            0
        }
        Err(m) => {
            println!("{}", json!({"outcome":"panic","msg":m}));
            1
        }
    }
}

fn main() {
    let a: Vec<String> = std::env::args().collect();
    let code = match a.get(1).map(|s| s.as_str()) {
        Some("record") if a.len() >= 11 => record(&a),
        Some("replay") if a.len() >= 4 => replay(&a[2], &a[3]),
        Some("names") => {
            println!("{}", json!({"builtins": geodesy::verif::builtin_names(), "ellipsoids": geodesy::verif::ellipsoid_names()}));
            0
        }
        _ => {
            eprintln!("usage: gvh_robust record <jobs> <sets> <trace> <scratch> <start_job> <skip_slot> <next_id> <next_h> <seg_events> | replay <call.json> <scratch> | names");
            2
        }
    };
    std::process::exit(code);
}
