//! gvh_coord — C19: replays the cases derived by spec/Coord.tla and
//! spec/Angular.tla against the public coordinate / angular API.
//!
//!   gvh_coord replay <in.ndjson> <out.ndjson>
//!
//! Input lines carry "t": "set" | "tuple" | "arith" | "slots" | "ang"
//! (the TLC records SET, TUPLE, ARITH, TUP, ANG).  Output: one line per
//! disagreement and a final summary line.
//!
//! Value encoding (Coord.tla): integer n = n/4; "NaN", "PInf", "NInf",
//! "NZero" (-0.0), "Fine" (0.1), "Huge", "Tiny" — for 32 bit storage the
//! binary32 neighbours of the latter three, so that every generated input is
//! representable in the container under test.
//! Container storage is compared bit for bit (any NaN equals any NaN),
//! arithmetic exactly up to the sign of zero, angular encodings within 1e-9
//! degree.  Every library call runs under catch_unwind (util::guarded).
use geodesy::authoring::*;
use gvh::util::{bits_eq, guarded, model_eq, quiet_panics};
use serde_json::{json, Value};
use std::io::{BufRead, Write};

const TOL_DEG: f64 = 1e-9;

/// A problem of the harness or its input (never of the code under test): exit 2
fn tool_error(msg: String) -> ! {
    eprintln!("gvh_coord: {msg}");
    std::process::exit(2)
}

// ---------------------------------------------------------------------------
// values
// ---------------------------------------------------------------------------

fn val(v: &Value, f32store: bool) -> f64 {
    match v {
        Value::Number(n) => n.as_i64().map(|i| i as f64 / 4.0).unwrap_or(f64::NAN),
        Value::String(s) => match s.as_str() {
            "NaN" => f64::NAN,
            "PInf" => f64::INFINITY,
            "NInf" => f64::NEG_INFINITY,
            "NZero" => -0.0,
            "Fine" => {
                if f32store {
                    0.1f32 as f64
                } else {
                    0.1
                }
            }
            "Huge" => {
                if f32store {
                    f32::MAX as f64
                } else {
                    1e300
                }
            }
            "Tiny" => {
                if f32store {
                    f32::from_bits(1) as f64
                } else {
                    f64::from_bits(1)
                }
            }
            _ => tool_error(format!("unknown value token {s}")),
        },
        _ => tool_error(format!("unknown value {v}")),
    }
}

fn vals(v: &Value, f32store: bool) -> Vec<f64> {
    v.as_array().expect("array of values").iter().map(|x| val(x, f32store)).collect()
}

fn show(x: f64) -> Value {
    if x.is_nan() {
        json!("NaN")
    } else if x.is_infinite() {
        json!(if x > 0.0 { "inf" } else { "-inf" })
    } else if x == 0.0 && x.is_sign_negative() {
        json!("-0")
    } else {
        json!(x)
    }
}

fn shows(x: &[f64]) -> Value {
    Value::Array(x.iter().map(|v| show(*v)).collect())
}

fn all_bits_eq(e: &[f64], o: &[f64]) -> bool {
    e.len() == o.len() && e.iter().zip(o).all(|(a, b)| bits_eq(*a, *b))
}

// ---------------------------------------------------------------------------
// user types: only the required trait methods
// ---------------------------------------------------------------------------

/// A container of D-dimensional tuples implementing only len, dim, get_coord, set_coord
struct UserSet<const D: usize>(Vec<[f64; D]>);

impl<const D: usize> CoordinateSet for UserSet<D> {
    fn len(&self) -> usize {
        self.0.len()
    }
    fn dim(&self) -> usize {
        D
    }
    fn get_coord(&self, index: usize) -> Coor4D {
        let mut c = [0.0, 0.0, 0.0, f64::NAN];
        c[..D.min(4)].copy_from_slice(&self.0[index][..D.min(4)]);
        Coor4D(c)
    }
    fn set_coord(&mut self, index: usize, value: &Coor4D) {
        for e in 0..D.min(4) {
            self.0[index][e] = value[e];
        }
    }
}

/// A tuple of D elements implementing only new, nth_unchecked, set_nth_unchecked, dim
#[derive(Clone, Copy)]
struct UserTup<const D: usize>([f64; D]);

impl<const D: usize> CoordinateTuple for UserTup<D> {
    fn new(fill: f64) -> Self {
        UserTup([fill; D])
    }
    fn nth_unchecked(&self, n: usize) -> f64 {
        self.0[n]
    }
    fn set_nth_unchecked(&mut self, n: usize, value: f64) {
        self.0[n] = value;
    }
    fn dim(&self) -> usize {
        D
    }
}

// ---------------------------------------------------------------------------
// the runner
// ---------------------------------------------------------------------------

struct Runner {
    fails: Vec<Value>,
    nfails: usize,
    per_what: std::collections::BTreeMap<String, usize>,
    round_kept: std::collections::BTreeMap<String, usize>,
    /// encoder results whose minutes / seconds group reads 60 (same angle, unusual spelling)
    group60: usize,
    group60_samples: Vec<Value>,
    evals: usize,
    cases: usize,
    nontrivial: usize,
    per_kind: std::collections::BTreeMap<String, usize>,
    slots: Value,
    ctx: Minimal,
    op_dm: Option<OpHandle>,
    op_dms: Option<OpHandle>,
}

impl Runner {
    /// every disagreement is counted; at most 25 examples per kind of disagreement are kept
    fn fail(&mut self, v: Value) {
        self.nfails += 1;
        let key = format!(
            "{}|{}|{}",
            v["t"].as_str().unwrap_or(""),
            v["what"].as_str().unwrap_or(""),
            v["deviation"].as_str().unwrap_or("")
        );
        // ... plus a few on whole arc-minutes, which make the shortest reproductions
        let round = v["A"]["r"].as_i64().map(|r| r % 60_000 == 0).unwrap_or(false);
        let nr = *self.round_kept.get(&key).unwrap_or(&0);
        let n = self.per_what.entry(key.clone()).or_insert(0);
        *n += 1;
        if *n <= 25 {
            self.fails.push(v);
        } else if round && nr < 5 {
            self.fails.push(v);
            *self.round_kept.entry(key).or_insert(0) += 1;
        }
    }
    fn note_group60(&mut self, api: &str, angle: &str, code: f64) {
        self.group60 += 1;
        if self.group60_samples.len() < 8 {
            self.group60_samples.push(json!({"api": api, "angle": angle, "observed_code": code}));
        }
    }
    fn count(&mut self, kind: &str) {
        self.cases += 1;
        *self.per_kind.entry(kind.to_string()).or_insert(0) += 1;
    }
}

/// run one library call; a panic is an observation
macro_rules! call {
    ($r:expr, $ctx:expr, $what:expr, $e:expr) => {{
        $r.evals += 1;
        match guarded(|| $e) {
            Ok(v) => Some(v),
            Err(msg) => {
                let mut c = $ctx.clone();
                c["what"] = json!("panic");
                c["api"] = json!($what);
                c["msg"] = json!(msg);
                $r.fail(c);
                None
            }
        }
    }};
}

// ---- sets -------------------------------------------------------------------

fn read_set<S: CoordinateSet>(r: &mut Runner, s: &S, expect: &Value, f32s: bool, ctx: &Value, after: &str) -> bool {
    let rows = expect.as_array().unwrap();
    for (j, row) in rows.iter().enumerate() {
        let e = vals(row, f32s);
        let Some(g) = call!(r, ctx, "get_coord", s.get_coord(j)) else { return false };
        let Some(xy) = call!(r, ctx, "xy", s.xy(j)) else { return false };
        let Some(xyz) = call!(r, ctx, "xyz", s.xyz(j)) else { return false };
        let Some(xyzt) = call!(r, ctx, "xyzt", s.xyzt(j)) else { return false };
        let obs: [(&str, Vec<f64>, &[f64]); 4] = [
            ("get_coord", g.0.to_vec(), &e[..]),
            ("xy", vec![xy.0, xy.1], &e[..2]),
            ("xyz", vec![xyz.0, xyz.1, xyz.2], &e[..3]),
            ("xyzt", vec![xyzt.0, xyzt.1, xyzt.2, xyzt.3], &e[..]),
        ];
        for (name, o, ex) in obs.iter() {
            if !all_bits_eq(ex, o) {
                let mut c = ctx.clone();
                c["what"] = json!(format!("read:{name}"));
                c["after"] = json!(after);
                c["index"] = json!(j);
                c["expected"] = shows(ex);
                c["observed"] = shows(o);
                r.fail(c);
                return false;
            }
        }
    }
    true
}

fn run_set<S: CoordinateSet>(r: &mut Runner, s: &mut S, rec: &Value, f32s: bool) {
    let ctx = json!({"t": "set", "kind": rec["kind"], "calls": rec["calls"], "init": rec["init"]});
    let n = rec["n"].as_u64().unwrap() as usize;
    let dim = rec["dim"].as_u64().unwrap() as usize;
    if let Some(l) = call!(r, ctx, "len", (s.len(), s.is_empty(), s.dim())) {
        // dim() of an adapter is not compared (dim = 0 in the record): "native dimension" is ambiguous there
        if l.0 != n || l.1 || (dim > 0 && l.2 != dim) {
            let mut c = ctx.clone();
            c["what"] = json!("len/is_empty/dim");
            c["observed"] = json!([l.0, l.1, l.2]);
            r.fail(c);
            return;
        }
    }
    if !read_set(r, s, &rec["initreads"], f32s, &ctx, "init") {
        return;
    }
    for (ci, call) in rec["calls"].as_array().unwrap().iter().enumerate() {
        let op = &call["op"];
        let o = op["o"].as_str().unwrap();
        let i = (op["i"].as_u64().unwrap() as usize).wrapping_sub(1);
        let v = vals(&op["v"], f32s);
        let done = match o {
            "set_coord" => call!(r, ctx, o, s.set_coord(i, &Coor4D([v[0], v[1], v[2], v[3]]))),
            "set_xy" => call!(r, ctx, o, s.set_xy(i, v[0], v[1])),
            "set_xyz" => call!(r, ctx, o, s.set_xyz(i, v[0], v[1], v[2])),
            "set_xyzt" => call!(r, ctx, o, s.set_xyzt(i, v[0], v[1], v[2], v[3])),
            "stomp" => call!(r, ctx, o, s.stomp()),
            _ => tool_error(format!("unknown set call {o}")),
        };
        if done.is_none() {
            return;
        }
        if !read_set(r, s, &call["reads"], f32s, &ctx, &format!("call {} ({o})", ci + 1)) {
            return;
        }
    }
}

fn with_adapter<S: CoordinateSet>(r: &mut Runner, mut s: S, rec: &Value, f32s: bool) {
    let h = val(&rec["hfix"], false);
    let t = val(&rec["tfix"], false);
    match rec["kind"]["ad"].as_str().unwrap() {
        "none" => run_set(r, &mut s, rec, f32s),
        "ht" => run_set(r, &mut (s, h, t), rec, f32s),
        "t" => run_set(r, &mut (s, t), rec, f32s),
        a => tool_error(format!("unknown adapter {a}")),
    }
}

macro_rules! shapes {
    ($r:expr, $rec:expr, $f32s:expr, $shape:expr, $v:expr) => {{
        let mut v = $v;
        if v.len() != 2 {
            tool_error("N = 2 expected".to_string());
        }
        match $shape {
            "vec" => with_adapter($r, v, $rec, $f32s),
            "array" => with_adapter($r, [v[0], v[1]], $rec, $f32s),
            "slice" => with_adapter($r, &mut v[..], $rec, $f32s),
            s => tool_error(format!("unknown shape {s}")),
        }
    }};
}

fn set_case(r: &mut Runner, rec: &Value) {
    let el = rec["kind"]["el"].as_str().unwrap().to_string();
    let shape = rec["kind"]["shape"].as_str().unwrap().to_string();
    let f32s = el == "c32";
    r.count(&format!("set:{}:{}:{}", shape, el, rec["kind"]["ad"].as_str().unwrap()));
    let calls = rec["calls"].as_array().unwrap();
    if calls.last().map(|c| c["reads"] != rec["initreads"]).unwrap_or(false) {
        r.nontrivial += 1;
    }
    let init: Vec<Vec<f64>> = rec["init"].as_array().unwrap().iter().map(|t| vals(t, f32s)).collect();
    match el.as_str() {
        "c2" => shapes!(r, rec, f32s, shape.as_str(), init.iter().map(|t| Coor2D([t[0], t[1]])).collect::<Vec<_>>()),
        "c3" => shapes!(r, rec, f32s, shape.as_str(), init.iter().map(|t| Coor3D([t[0], t[1], t[2]])).collect::<Vec<_>>()),
        "c4" => shapes!(r, rec, f32s, shape.as_str(), init.iter().map(|t| Coor4D([t[0], t[1], t[2], t[3]])).collect::<Vec<_>>()),
        "c32" => shapes!(r, rec, f32s, shape.as_str(), init.iter().map(|t| Coor32([t[0] as f32, t[1] as f32])).collect::<Vec<_>>()),
        "u2" => with_adapter(r, UserSet::<2>(init.iter().map(|t| [t[0], t[1]]).collect()), rec, f32s),
        "u3" => with_adapter(r, UserSet::<3>(init.iter().map(|t| [t[0], t[1], t[2]]).collect()), rec, f32s),
        "u4" => with_adapter(r, UserSet::<4>(init.iter().map(|t| [t[0], t[1], t[2], t[3]]).collect()), rec, f32s),
        e => tool_error(format!("unknown element kind {e}")),
    }
}

// ---- tuples -----------------------------------------------------------------

fn read_tuple<T: CoordinateTuple>(r: &mut Runner, t: &T, expect: &Value, f32s: bool, ctx: &Value, after: &str) -> bool {
    let e = vals(expect, f32s); // nth(0..5)
    let Some(nth) = call!(r, ctx, "nth", (0..6).map(|n| t.nth(n)).collect::<Vec<f64>>()) else { return false };
    let Some(named) = call!(r, ctx, "x/y/z/t", vec![t.x(), t.y(), t.z(), t.t()]) else { return false };
    let Some(xy) = call!(r, ctx, "xy", t.xy()) else { return false };
    let Some(xyz) = call!(r, ctx, "xyz", t.xyz()) else { return false };
    let Some(xyzt) = call!(r, ctx, "xyzt", t.xyzt()) else { return false };
    let obs: [(&str, Vec<f64>, &[f64]); 5] = [
        ("nth", nth, &e[..]),
        ("x/y/z/t", named, &e[..4]),
        ("xy", vec![xy.0, xy.1], &e[..2]),
        ("xyz", vec![xyz.0, xyz.1, xyz.2], &e[..3]),
        ("xyzt", vec![xyzt.0, xyzt.1, xyzt.2, xyzt.3], &e[..4]),
    ];
    for (name, o, ex) in obs.iter() {
        if !all_bits_eq(ex, o) {
            let mut c = ctx.clone();
            c["what"] = json!(format!("read:{name}"));
            c["after"] = json!(after);
            c["expected"] = shows(ex);
            c["observed"] = shows(o);
            r.fail(c);
            return false;
        }
    }
    true
}

fn run_tuple<T: CoordinateTuple + Copy>(r: &mut Runner, mut t: T, rec: &Value, f32s: bool) {
    let ctx = json!({"t": "tuple", "kind": rec["kind"], "calls": rec["calls"], "init": rec["init"]});
    let dim = rec["dim"].as_u64().unwrap() as usize;
    if let Some(d) = call!(r, ctx, "dim", t.dim()) {
        if d != dim {
            let mut c = ctx.clone();
            c["what"] = json!("dim");
            c["observed"] = json!(d);
            r.fail(c);
            return;
        }
    }
    if !read_tuple(r, &t, &rec["initreads"], f32s, &ctx, "init") {
        return;
    }
    for (ci, call) in rec["calls"].as_array().unwrap().iter().enumerate() {
        let op = &call["op"];
        let o = op["o"].as_str().unwrap();
        let n = op["n"].as_u64().unwrap() as usize;
        let v = vals(&op["v"], f32s);
        let done = match o {
            "new" => call!(r, ctx, o, t = T::new(v[0])),
            "fill" => call!(r, ctx, o, t.fill(v[0])),
            "set_nth" => call!(r, ctx, o, t.set_nth(n, v[0])),
            "set_xy" => call!(r, ctx, o, t.set_xy(v[0], v[1])),
            "set_xyz" => call!(r, ctx, o, t.set_xyz(v[0], v[1], v[2])),
            "set_xyzt" => call!(r, ctx, o, t.set_xyzt(v[0], v[1], v[2], v[3])),
            "update" => call!(r, ctx, o, t.update(&v[..n])),
            _ => tool_error(format!("unknown tuple call {o}")),
        };
        if done.is_none() {
            return;
        }
        if !read_tuple(r, &t, &call["reads"], f32s, &ctx, &format!("call {} ({o})", ci + 1)) {
            return;
        }
    }
}

fn tuple_case(r: &mut Runner, rec: &Value) {
    let el = rec["kind"].as_str().unwrap().to_string();
    let f32s = el == "c32";
    r.count(&format!("tuple:{el}"));
    let calls = rec["calls"].as_array().unwrap();
    if calls.last().map(|c| c["reads"] != rec["initreads"]).unwrap_or(false) {
        r.nontrivial += 1;
    }
    let i = vals(&rec["init"], f32s);
    match el.as_str() {
        "c2" => run_tuple(r, Coor2D([i[0], i[1]]), rec, f32s),
        "c3" => run_tuple(r, Coor3D([i[0], i[1], i[2]]), rec, f32s),
        "c4" => run_tuple(r, Coor4D([i[0], i[1], i[2], i[3]]), rec, f32s),
        "c32" => run_tuple(r, Coor32([i[0] as f32, i[1] as f32]), rec, f32s),
        "pair" => run_tuple(r, (i[0], i[1]), rec, f32s),
        "u1" => run_tuple(r, UserTup::<1>([i[0]]), rec, f32s),
        "u2" => run_tuple(r, UserTup::<2>([i[0], i[1]]), rec, f32s),
        "u3" => run_tuple(r, UserTup::<3>([i[0], i[1], i[2]]), rec, f32s),
        "u4" => run_tuple(r, UserTup::<4>([i[0], i[1], i[2], i[3]]), rec, f32s),
        "u5" => run_tuple(r, UserTup::<5>([i[0], i[1], i[2], i[3], i[4]]), rec, f32s),
        e => tool_error(format!("unknown tuple kind {e}")),
    }
}

// ---- arithmetic ---------------------------------------------------------------

/// expected result: a special value, or the exact rational [n, d]; `single`:
/// the operation is carried out in binary32
fn expected_num(v: &Value, single: bool) -> f64 {
    match v {
        Value::Array(a) => {
            let n = a[0].as_i64().unwrap();
            let d = a[1].as_i64().unwrap();
            if single {
                (n as f32 / d as f32) as f64
            } else {
                n as f64 / d as f64
            }
        }
        other => val(other, false),
    }
}

fn arith_check(r: &mut Runner, ctx: &Value, route: &str, exp: &[f64], obs: Option<Vec<f64>>) {
    let Some(obs) = obs else { return };
    let ok = exp.len() == obs.len() && exp.iter().zip(&obs).all(|(e, o)| model_eq(*e, *o));
    if !ok {
        let mut c = ctx.clone();
        c["what"] = json!(format!("arith:{}", ctx["o"].as_str().unwrap_or("")));
        c["route"] = json!(route);
        c["expected"] = shows(exp);
        c["observed"] = shows(&obs);
        r.fail(c);
    }
}

macro_rules! binops {
    ($r:expr, $ctx:expr, $o:expr, $exp:expr, $a:expr, $b:expr) => {{
        let (a, b) = ($a, $b);
        let byval = match $o {
            "add" => call!($r, $ctx, "add", (a + b).0.iter().map(|x| *x as f64).collect::<Vec<f64>>()),
            "sub" => call!($r, $ctx, "sub", (a - b).0.iter().map(|x| *x as f64).collect::<Vec<f64>>()),
            "mul" => call!($r, $ctx, "mul", (a * b).0.iter().map(|x| *x as f64).collect::<Vec<f64>>()),
            _ => call!($r, $ctx, "div", (a / b).0.iter().map(|x| *x as f64).collect::<Vec<f64>>()),
        };
        arith_check($r, $ctx, "by value", $exp, byval);
        let byref = match $o {
            "add" => call!($r, $ctx, "add&", (a + &b).0.iter().map(|x| *x as f64).collect::<Vec<f64>>()),
            "sub" => call!($r, $ctx, "sub&", (a - &b).0.iter().map(|x| *x as f64).collect::<Vec<f64>>()),
            "mul" => call!($r, $ctx, "mul&", (a * &b).0.iter().map(|x| *x as f64).collect::<Vec<f64>>()),
            _ => call!($r, $ctx, "div&", (a / &b).0.iter().map(|x| *x as f64).collect::<Vec<f64>>()),
        };
        arith_check($r, $ctx, "by reference", $exp, byref);
    }};
}

fn trait_scale_dot<T: CoordinateTuple + Copy>(r: &mut Runner, ctx: &Value, o: &str, exp: &[f64], a: T, b: T, k: f64) {
    if o == "scale" {
        let got = call!(r, ctx, "CoordinateTuple::scale", {
            let s = CoordinateTuple::scale(&a, k);
            (0..s.dim()).map(|i| s.nth(i)).collect::<Vec<f64>>()
        });
        arith_check(r, ctx, "trait default", exp, got);
    } else {
        let got = call!(r, ctx, "CoordinateTuple::dot", vec![CoordinateTuple::dot(&a, b)]);
        arith_check(r, ctx, "trait default", exp, got);
    }
}

fn arith_case(r: &mut Runner, rec: &Value) {
    let el = rec["el"].as_str().unwrap();
    let o = rec["o"].as_str().unwrap();
    r.count(&format!("arith:{el}:{o}"));
    r.nontrivial += 1;
    let ctx = json!({"t": "arith", "el": el, "o": o, "x": rec["x"], "y": rec["y"], "k": rec["k"]});
    let x = vals(&rec["x"], false);
    let y = vals(&rec["y"], false);
    let k = val(&rec["k"], false);
    // binary32 arithmetic: Coor32 op Coor32 and Coor32::scale; dot always accumulates in binary64
    let single = el == "c32" && o != "dot";
    let exp: Vec<f64> = rec["res"].as_array().unwrap().iter().map(|v| expected_num(v, single)).collect();
    if o == "origin" || o == "ones" || o == "nan" {
        macro_rules! konst {
            ($T:ident, $name:literal) => {{
                let got = call!(r, ctx, $name, match o {
                    "origin" => $T::origin().0.iter().map(|v| *v as f64).collect::<Vec<f64>>(),
                    "ones" => $T::ones().0.iter().map(|v| *v as f64).collect::<Vec<f64>>(),
                    _ => $T::nan().0.iter().map(|v| *v as f64).collect::<Vec<f64>>(),
                });
                arith_check(r, &ctx, "constructor", &exp, got);
            }};
        }
        match el {
            "c2" => konst!(Coor2D, "Coor2D::const"),
            "c3" => konst!(Coor3D, "Coor3D::const"),
            "c4" => konst!(Coor4D, "Coor4D::const"),
            "c32" => konst!(Coor32, "Coor32::const"),
            e => tool_error(format!("unknown constant kind {e}")),
        }
        return;
    }
    if o == "scale" || o == "dot" {
        match el {
            "c2" => {
                let (a, b) = (Coor2D([x[0], x[1]]), Coor2D([y[0], y[1]]));
                let got = if o == "scale" { call!(r, ctx, "Coor2D::scale", a.scale(k).0.to_vec()) } else { call!(r, ctx, "Coor2D::dot", vec![a.dot(b)]) };
                arith_check(r, &ctx, "inherent", &exp, got);
                trait_scale_dot(r, &ctx, o, &exp, a, b, k);
            }
            "c3" => {
                let (a, b) = (Coor3D([x[0], x[1], x[2]]), Coor3D([y[0], y[1], y[2]]));
                let got = if o == "scale" { call!(r, ctx, "Coor3D::scale", a.scale(k).0.to_vec()) } else { call!(r, ctx, "Coor3D::dot", vec![a.dot(b)]) };
                arith_check(r, &ctx, "inherent", &exp, got);
                trait_scale_dot(r, &ctx, o, &exp, a, b, k);
            }
            "c4" => {
                let (a, b) = (Coor4D([x[0], x[1], x[2], x[3]]), Coor4D([y[0], y[1], y[2], y[3]]));
                let got = if o == "scale" { call!(r, ctx, "Coor4D::scale", a.scale(k).0.to_vec()) } else { call!(r, ctx, "Coor4D::dot", vec![a.dot(b)]) };
                arith_check(r, &ctx, "method", &exp, got);
                trait_scale_dot(r, &ctx, o, &exp, a, b, k);
            }
            "c32" => {
                let (a, b) = (Coor32([x[0] as f32, x[1] as f32]), Coor32([y[0] as f32, y[1] as f32]));
                let got = if o == "scale" {
                    call!(r, ctx, "Coor32::scale", a.scale(k).0.iter().map(|v| *v as f64).collect::<Vec<f64>>())
                } else {
                    call!(r, ctx, "Coor32::dot", vec![a.dot(b)])
                };
                arith_check(r, &ctx, "inherent", &exp, got);
                trait_scale_dot(r, &ctx, o, &exp, a, b, k);
            }
            "pair" => trait_scale_dot(r, &ctx, o, &exp, (x[0], x[1]), (y[0], y[1]), k),
            "u1" => trait_scale_dot(r, &ctx, o, &exp, UserTup::<1>([x[0]]), UserTup::<1>([y[0]]), k),
            "u3" => trait_scale_dot(r, &ctx, o, &exp, UserTup::<3>([x[0], x[1], x[2]]), UserTup::<3>([y[0], y[1], y[2]]), k),
            "u5" => trait_scale_dot(r, &ctx, o, &exp, UserTup::<5>([x[0], x[1], x[2], x[3], x[4]]), UserTup::<5>([y[0], y[1], y[2], y[3], y[4]]), k),
            e => tool_error(format!("unknown arithmetic kind {e}")),
        }
        return;
    }
    match el {
        "c2" => binops!(r, &ctx, o, &exp, Coor2D([x[0], x[1]]), Coor2D([y[0], y[1]])),
        "c3" => binops!(r, &ctx, o, &exp, Coor3D([x[0], x[1], x[2]]), Coor3D([y[0], y[1], y[2]])),
        "c4" => binops!(r, &ctx, o, &exp, Coor4D([x[0], x[1], x[2], x[3]]), Coor4D([y[0], y[1], y[2], y[3]])),
        "c32" => binops!(r, &ctx, o, &exp, Coor32([x[0] as f32, x[1] as f32]), Coor32([y[0] as f32, y[1] as f32])),
        "c2x32" => binops!(r, &ctx, o, &exp, Coor2D([x[0], x[1]]), Coor32([y[0] as f32, y[1] as f32])),
        e => tool_error(format!("unknown arithmetic kind {e}")),
    }
}

// ---- angles ---------------------------------------------------------------------

#[derive(Clone, Copy)]
struct Ang {
    sg: f64,
    d: i64,
    r: i64,
    dms: [i64; 3],
    dm: [i64; 2],
    i32ok: bool,
    idm: [i64; 2],
    idms: [i64; 2],
}

fn ints<const K: usize>(v: &Value) -> [i64; K] {
    let mut out = [0i64; K];
    for (i, x) in v.as_array().unwrap().iter().enumerate().take(K) {
        out[i] = x.as_i64().unwrap();
    }
    out
}

impl Ang {
    fn from(v: &Value) -> Ang {
        Ang {
            sg: v["sg"].as_i64().unwrap() as f64,
            d: v["d"].as_i64().unwrap(),
            r: v["r"].as_i64().unwrap(),
            dms: ints::<3>(&v["dms"]),
            dm: ints::<2>(&v["dm"]),
            i32ok: v["i32"].as_bool().unwrap(),
            idm: ints::<2>(&v["idm"]),
            idms: ints::<2>(&v["idms"]),
        }
    }
    /// decimal degrees
    fn dd(&self) -> f64 {
        self.sg * (self.d as f64 + self.r as f64 / 3_600_000.0)
    }
    /// seconds of arc
    fn arcsec(&self) -> f64 {
        self.sg * ((self.d * 3600) as f64 + self.r as f64 / 1000.0)
    }
    /// DDDMM.mmm
    fn iso_dm(&self) -> f64 {
        self.sg * (self.idm[0] as f64 + self.idm[1] as f64 / 60_000.0)
    }
    /// DDDMMSS.sss
    fn iso_dms(&self) -> f64 {
        self.sg * (self.idms[0] as f64 + self.idms[1] as f64 / 1000.0)
    }
    fn text(&self) -> String {
        format!("{}{}d {}' {}.{:03}\"", if self.sg < 0.0 { "-" } else { "" }, self.dms[0], self.dms[1], self.dms[2] / 1000, self.dms[2] % 1000)
    }
}

fn triple(v: &Value) -> f64 {
    let a = ints::<3>(v);
    a[0] as f64 * (a[1] as f64 + a[2] as f64 / 3_600_000.0)
}

/// 1e-9 degree expressed in the unit of an encoding
fn tol(unit: &str) -> f64 {
    match unit {
        "deg" | "rad" => TOL_DEG,
        "isodm" => TOL_DEG * 60.0,
        "isodms" | "arcsec" => TOL_DEG * 3600.0,
        _ => 0.0,
    }
}

/// The angle (degrees) an ISO-6709 number denotes, by the specification's decoder (digit groups
/// taken apart, 60 seconds = 1 minute, 60 minutes = 1 degree), and whether every group is < 60.
fn denoted(unit: &str, code: f64) -> (f64, bool) {
    let sign = if code.is_sign_negative() { -1.0 } else { 1.0 };
    let x = code.abs();
    if unit == "isodm" {
        let d = (x / 100.0).floor();
        let m = x - 100.0 * d;
        (sign * (d + m / 60.0), m < 60.0)
    } else {
        let d = (x / 10_000.0).floor();
        let rest = x - 10_000.0 * d;
        let m = (rest / 100.0).floor();
        let sec = rest - 100.0 * m;
        (sign * (d + (m + sec / 60.0) / 60.0), m < 60.0 && sec < 60.0)
    }
}

fn near(exp: f64, obs: f64, t: f64) -> bool {
    obs.is_finite() && (exp - obs).abs() <= t
}

struct AngCtx<'a> {
    r: &'a mut Runner,
    ctx: Value,
    dev0: bool,
    dd: f64,
}

impl AngCtx<'_> {
    fn cmp(&mut self, api: &str, input: Value, unit: &str, exp: f64, obs: Option<f64>) {
        let Some(obs) = obs else { return };
        let ok = if unit == "isodm" || unit == "isodms" {
            // an encoder's result is judged by the angle it denotes
            let (angle, wellformed) = denoted(unit, obs);
            let ok = obs.is_finite() && near(self.dd, angle, TOL_DEG);
            if ok && !wellformed {
                let a = self.ctx["angle"].as_str().unwrap_or("").to_string();
                self.r.note_group60(api, &a, obs);
            }
            ok
        } else {
            near(exp, obs, tol(unit))
        };
        if !ok {
            let mut c = self.ctx.clone();
            c["what"] = json!(api);
            c["input"] = input;
            c["expected"] = show(exp);
            c["observed"] = show(obs);
            // the observation equals the prediction of the deviation "a zero degree field gives zero"
            if self.dev0 && (api == "dms_to_dd" || api == "dm_to_dd") && obs == 0.0 {
                c["deviation"] = json!("DEV_zero_degree_field_gives_zero");
            }
            self.r.fail(c);
        }
    }
}

/// observed tuple against the slots derived by the specification
#[allow(clippy::too_many_arguments)]
fn check_slots(r: &mut Runner, ctx: &Value, api: &str, slots: &Value, a: &Ang, b: &Ang, h: f64, t: f64, obs: Option<Vec<f64>>, single: bool) {
    let Some(obs) = obs else { return };
    for (i, o) in obs.iter().enumerate() {
        let unit = slots[i][0].as_str().unwrap();
        let (ok, exp) = if unit == "pass" {
            let e = if slots[i][1].as_i64().unwrap() == 3 { h } else { t };
            (bits_eq(e, *o), e)
        } else {
            let w = if slots[i][1].as_str().unwrap() == "A" { a } else { b };
            let (e, o2) = match unit {
                "rad" => (w.dd(), o.to_degrees()),
                "deg" => (w.dd(), *o),
                "arcsec" => (w.arcsec(), *o),
                "isodm" => (w.iso_dm(), *o),
                "isodms" => (w.iso_dms(), *o),
                u => tool_error(format!("unknown unit {u}")),
            };
            if unit == "isodm" || unit == "isodms" {
                let (angle, wellformed) = denoted(unit, o2);
                let ok = o2.is_finite() && near(w.dd(), angle, TOL_DEG);
                if ok && !wellformed {
                    r.note_group60(api, &w.text(), o2);
                }
                (ok, e)
            } else {
                // binary32 storage: rounding of the stored radians is part of "rounding"
                let tt = tol(unit) + if single { e.abs() * 2.4e-7 + 1e-30 } else { 0.0 };
                (near(e, o2, tt), e)
            }
        };
        if !ok {
            let mut c = ctx.clone();
            c["what"] = json!(api);
            c["element"] = json!(i);
            c["slot"] = slots[i].clone();
            c["expected"] = show(exp);
            c["observed"] = shows(&obs);
            r.fail(c);
            return;
        }
    }
}

fn circular(a: f64, b: f64) -> f64 {
    let d = (a - b).rem_euclid(360.0);
    d.min(360.0 - d)
}

fn ang_case(r: &mut Runner, rec: &Value) {
    let a = Ang::from(&rec["A"]);
    let b = Ang::from(&rec["B"]);
    r.count("ang");
    if a.d != 0 || a.r != 0 {
        r.nontrivial += 1;
    }
    let base = json!({"t": "ang", "angle": a.text(), "A": rec["A"]});
    let dd = a.dd();
    {
        let mut c = AngCtx { r, ctx: base.clone(), dev0: rec["dev0"].as_bool().unwrap_or(false), dd };
        // --- degrees, minutes, seconds through the typed functions
        if a.i32ok {
            let d = (a.sg as i64 * a.dms[0]) as i32;
            let (m, s) = (a.dms[1] as u16, a.dms[2] as f64 / 1000.0);
            let o = call!(c.r, c.ctx, "dms_to_dd", angular::dms_to_dd(d, m, s));
            c.cmp("dms_to_dd", json!([d, m, s]), "deg", dd, o);
            let mm = a.dm[1] as f64 / 60_000.0;
            let o = call!(c.r, c.ctx, "dm_to_dd", angular::dm_to_dd(d, mm));
            c.cmp("dm_to_dd", json!([d, mm]), "deg", dd, o);
        }
        // --- ISO-6709
        let (idm, idms) = (a.iso_dm(), a.iso_dms());
        let o = call!(c.r, c.ctx, "iso_dm_to_dd", angular::iso_dm_to_dd(idm));
        c.cmp("iso_dm_to_dd", json!(idm), "deg", dd, o);
        let o = call!(c.r, c.ctx, "iso_dms_to_dd", angular::iso_dms_to_dd(idms));
        c.cmp("iso_dms_to_dd", json!(idms), "deg", dd, o);
        let e1 = call!(c.r, c.ctx, "dd_to_iso_dm", angular::dd_to_iso_dm(dd));
        c.cmp("dd_to_iso_dm", json!(dd), "isodm", idm, e1);
        let e2 = call!(c.r, c.ctx, "dd_to_iso_dms", angular::dd_to_iso_dms(dd));
        c.cmp("dd_to_iso_dms", json!(dd), "isodms", idms, e2);
        // there and back again
        if let Some(e1) = e1 {
            let o = call!(c.r, c.ctx, "iso_dm_to_dd", angular::iso_dm_to_dd(e1));
            c.cmp("iso_dm_to_dd(dd_to_iso_dm)", json!(dd), "deg", dd, o);
        }
        if let Some(e2) = e2 {
            let o = call!(c.r, c.ctx, "iso_dms_to_dd", angular::iso_dms_to_dd(e2));
            c.cmp("iso_dms_to_dd(dd_to_iso_dms)", json!(dd), "deg", dd, o);
        }
        // the literal a user would write
        for (key, f, api) in [("t1", angular::iso_dm_to_dd as fn(f64) -> f64, "iso_dm_to_dd(literal)"), ("t2", angular::iso_dms_to_dd as fn(f64) -> f64, "iso_dms_to_dd(literal)")] {
            let text = rec[key].as_str().unwrap_or("");
            if !text.is_empty() {
                let x: f64 = text.parse().expect("literal");
                let o = call!(c.r, c.ctx, api, f(x));
                c.cmp(api, json!(text), "deg", dd, o);
            }
        }
        // --- sexagesimal text
        for text in rec["sx"].as_array().unwrap() {
            let text = text.as_str().unwrap();
            let o = call!(c.r, c.ctx, "parse_sexagesimal", angular::parse_sexagesimal(text));
            c.cmp("parse_sexagesimal", json!(text), "deg", dd, o);
        }
        // --- normalisation: equivalent modulo a turn, and in the stated range
        for (key, api, lo, hi) in [("np", "normalize_positive", 0.0, 360.0), ("ns", "normalize_symmetric", -180.0, 180.0)] {
            let exp = triple(&rec[key]);
            let norm = if key == "np" { angular::normalize_positive as fn(f64) -> f64 } else { angular::normalize_symmetric as fn(f64) -> f64 };
            if let Some(o) = call!(c.r, c.ctx, api, norm(dd.to_radians())) {
                let od = o.to_degrees();
                let ok = od.is_finite() && circular(od, exp) <= TOL_DEG && circular(od, dd) <= TOL_DEG && od >= lo - TOL_DEG && od <= hi + TOL_DEG;
                if !ok {
                    let mut fl = c.ctx.clone();
                    fl["what"] = json!(api);
                    fl["input"] = json!(dd);
                    fl["expected"] = show(exp);
                    fl["observed"] = show(od);
                    c.r.fail(fl);
                }
            }
        }
    }
    // --- tuples: constructors, unit conversions, operators
    let (h, t) = (194.25, 2020.5);
    let ctx = json!({"t": "ang", "angle": a.text(), "A": rec["A"], "B": rec["B"]});
    let s = r.slots.clone();
    let (da, db) = (a.dd(), b.dd());
    let v4 = |c: Coor4D| c.0.to_vec();
    // geo(lat = A, lon = B), gis(lon = A, lat = B), arcsec(lon = A, lat = B)
    let o = call!(r, ctx, "Coor4D::geo", v4(Coor4D::geo(da, db, h, t)));
    check_slots(r, &ctx, "Coor4D::geo", &s["geo"], &a, &b, h, t, o, false);
    let o = call!(r, ctx, "Coor3D::geo", Coor3D::geo(da, db, h).0.to_vec());
    check_slots(r, &ctx, "Coor3D::geo", &s["geo"], &a, &b, h, t, o, false);
    let o = call!(r, ctx, "Coor2D::geo", Coor2D::geo(da, db).0.to_vec());
    check_slots(r, &ctx, "Coor2D::geo", &s["geo"], &a, &b, h, t, o, false);
    let o = call!(r, ctx, "Coor32::geo", Coor32::geo(da, db).0.iter().map(|x| *x as f64).collect::<Vec<f64>>());
    check_slots(r, &ctx, "Coor32::geo", &s["geo"], &a, &b, h, t, o, true);
    let o = call!(r, ctx, "Coor4D::gis", v4(Coor4D::gis(da, db, h, t)));
    check_slots(r, &ctx, "Coor4D::gis", &s["gis"], &a, &b, h, t, o, false);
    let o = call!(r, ctx, "Coor2D::gis", Coor2D::gis(da, db).0.to_vec());
    check_slots(r, &ctx, "Coor2D::gis", &s["gis"], &a, &b, h, t, o, false);
    let o = call!(r, ctx, "Coor4D::arcsec", v4(Coor4D::arcsec(a.arcsec(), b.arcsec(), h, t)));
    check_slots(r, &ctx, "Coor4D::arcsec", &s["arcsec"], &a, &b, h, t, o, false);
    let o = call!(r, ctx, "Coor3D::arcsec", Coor3D::arcsec(a.arcsec(), b.arcsec(), h).0.to_vec());
    check_slots(r, &ctx, "Coor3D::arcsec", &s["arcsec"], &a, &b, h, t, o, false);
    // AngularUnits and the converting accessors, on gis(A, B) / raw(A, B)
    let g = Coor4D::gis(da, db, h, t);
    let raw = Coor4D::raw(da, db, h, t);
    let o = call!(r, ctx, "to_degrees", v4(g.to_degrees()));
    check_slots(r, &ctx, "AngularUnits::to_degrees", &s["todeg"], &a, &b, h, t, o, false);
    let o = call!(r, ctx, "xyzt_to_degrees", { let q = g.xyzt_to_degrees(); vec![q.0, q.1, q.2, q.3] });
    check_slots(r, &ctx, "xyzt_to_degrees", &s["todeg"], &a, &b, h, t, o, false);
    let o = call!(r, ctx, "xyz_to_degrees", { let q = g.xyz_to_degrees(); vec![q.0, q.1, q.2] });
    check_slots(r, &ctx, "xyz_to_degrees", &s["todeg"], &a, &b, h, t, o, false);
    let o = call!(r, ctx, "xy_to_degrees", { let q = Coor2D::gis(da, db).xy_to_degrees(); vec![q.0, q.1] });
    check_slots(r, &ctx, "xy_to_degrees", &s["todeg"], &a, &b, h, t, o, false);
    let o = call!(r, ctx, "to_arcsec", v4(g.to_arcsec()));
    check_slots(r, &ctx, "AngularUnits::to_arcsec", &s["toarc"], &a, &b, h, t, o, false);
    let o = call!(r, ctx, "xyzt_to_arcsec", { let q = g.xyzt_to_arcsec(); vec![q.0, q.1, q.2, q.3] });
    check_slots(r, &ctx, "xyzt_to_arcsec", &s["toarc"], &a, &b, h, t, o, false);
    let o = call!(r, ctx, "xy_to_arcsec", { let q = Coor3D::gis(da, db, h).xy_to_arcsec(); vec![q.0, q.1] });
    check_slots(r, &ctx, "xy_to_arcsec", &s["toarc"], &a, &b, h, t, o, false);
    let o = call!(r, ctx, "to_geo", v4(g.to_geo()));
    check_slots(r, &ctx, "AngularUnits::to_geo", &s["togeo"], &a, &b, h, t, o, false);
    let o = call!(r, ctx, "to_radians", v4(raw.to_radians()));
    check_slots(r, &ctx, "AngularUnits::to_radians", &s["torad"], &a, &b, h, t, o, false);
    let o = call!(r, ctx, "xyzt_to_radians", { let q = raw.xyzt_to_radians(); vec![q.0, q.1, q.2, q.3] });
    check_slots(r, &ctx, "xyzt_to_radians", &s["torad"], &a, &b, h, t, o, false);
    let o = call!(r, ctx, "to_radians(3D)", Coor3D::raw(da, db, h).to_radians().0.to_vec());
    check_slots(r, &ctx, "AngularUnits::to_radians (Coor3D)", &s["torad"], &a, &b, h, t, o, false);
    // iso_dm / iso_dms constructors: (lat = A, lon = B) as codes
    let o = call!(r, ctx, "Coor4D::iso_dm", v4(Coor4D::iso_dm(a.iso_dm(), b.iso_dm(), h, t)));
    check_slots(r, &ctx, "Coor4D::iso_dm", &s["dmfwd"], &a, &b, h, t, o, false);
    let o = call!(r, ctx, "Coor4D::iso_dms", v4(Coor4D::iso_dms(a.iso_dms(), b.iso_dms(), h, t)));
    check_slots(r, &ctx, "Coor4D::iso_dms", &s["dmsfwd"], &a, &b, h, t, o, false);
    let o = call!(r, ctx, "Coor3D::iso_dm", Coor3D::iso_dm(a.iso_dm(), b.iso_dm(), h).0.to_vec());
    check_slots(r, &ctx, "Coor3D::iso_dm", &s["dmfwd"], &a, &b, h, t, o, false);
    let o = call!(r, ctx, "Coor2D::iso_dms", Coor2D::iso_dms(a.iso_dms(), b.iso_dms()).0.to_vec());
    check_slots(r, &ctx, "Coor2D::iso_dms", &s["dmsfwd"], &a, &b, h, t, o, false);
    let o = call!(r, ctx, "Coor32::iso_dm", Coor32::iso_dm(a.iso_dm(), b.iso_dm()).0.iter().map(|x| *x as f64).collect::<Vec<f64>>());
    check_slots(r, &ctx, "Coor32::iso_dm", &s["dmfwd"], &a, &b, h, t, o, true);
    // the dm / dms operators
    for (name, handle, fwd, inv, ca, cb) in [
        ("dm", r.op_dm, "dmfwd", "dminv", a.iso_dm(), b.iso_dm()),
        ("dms", r.op_dms, "dmsfwd", "dmsinv", a.iso_dms(), b.iso_dms()),
    ] {
        let Some(hd) = handle else { continue };
        // Coor4D operands: forward, then inverse of the result
        let mut d4 = [Coor4D::raw(ca, cb, h, t)];
        let ok = {
            let cx = &r.ctx;
            guarded(|| cx.apply(hd, Fwd, &mut d4).map_err(|e| format!("{e:?}")))
        };
        r.evals += 1;
        match ok {
            Ok(Ok(_)) => {
                check_slots(r, &ctx, &format!("{name} (Fwd, Coor4D)"), &s[fwd], &a, &b, h, t, Some(d4[0].0.to_vec()), false);
                let ok = {
                    let cx = &r.ctx;
                    guarded(|| cx.apply(hd, Inv, &mut d4).map_err(|e| format!("{e:?}")))
                };
                r.evals += 1;
                match ok {
                    Ok(Ok(_)) => check_slots(r, &ctx, &format!("{name} (Fwd then Inv, Coor4D)"), &s[inv], &a, &b, h, t, Some(d4[0].0.to_vec()), false),
                    other => op_trouble(r, &ctx, name, "Inv", other),
                }
            }
            other => op_trouble(r, &ctx, name, "Fwd", other),
        }
        // Coor2D operands: inverse from exact internal coordinates (lon = B, lat = A), then forward
        let mut d2 = vec![Coor2D::gis(db, da)];
        let ok = {
            let cx = &r.ctx;
            guarded(|| cx.apply(hd, Inv, &mut d2).map_err(|e| format!("{e:?}")))
        };
        r.evals += 1;
        match ok {
            Ok(Ok(_)) => {
                check_slots(r, &ctx, &format!("{name} (Inv, Coor2D)"), &s[inv], &a, &b, h, t, Some(d2[0].0.to_vec()), false);
                let ok = {
                    let cx = &r.ctx;
                    guarded(|| cx.apply(hd, Fwd, &mut d2).map_err(|e| format!("{e:?}")))
                };
                r.evals += 1;
                match ok {
                    Ok(Ok(_)) => check_slots(r, &ctx, &format!("{name} (Inv then Fwd, Coor2D)"), &s[fwd], &a, &b, h, t, Some(d2[0].0.to_vec()), false),
                    other => op_trouble(r, &ctx, name, "Fwd", other),
                }
            }
            other => op_trouble(r, &ctx, name, "Inv", other),
        }
    }
}

fn op_trouble(r: &mut Runner, ctx: &Value, name: &str, dir: &str, res: Result<Result<usize, String>, String>) {
    let mut c = ctx.clone();
    c["api"] = json!(format!("{name} ({dir})"));
    match res {
        Err(p) => {
            c["what"] = json!("panic");
            c["msg"] = json!(p);
        }
        Ok(Err(e)) => {
            c["what"] = json!(format!("{name}: apply failed"));
            c["msg"] = json!(e);
        }
        Ok(Ok(_)) => return,
    }
    r.fail(c);
}

// ---------------------------------------------------------------------------

fn replay(input: &str, output: &str) -> i32 {
    quiet_panics();
    let f = std::fs::File::open(input).expect("cannot open input");
    let mut w = std::io::BufWriter::new(std::fs::File::create(output).expect("cannot create output"));
    let mut ctx = Minimal::default();
    let op_dm = ctx.op("dm").ok();
    let op_dms = ctx.op("dms").ok();
    let mut r = Runner {
        fails: vec![],
        nfails: 0,
        evals: 0,
        cases: 0,
        nontrivial: 0,
        per_kind: Default::default(),
        per_what: Default::default(),
        round_kept: Default::default(),
        group60: 0,
        group60_samples: vec![],
        slots: Value::Null,
        ctx,
        op_dm,
        op_dms,
    };
    if r.op_dm.is_none() || r.op_dms.is_none() {
        r.fail(json!({"t": "ang", "what": "operator dm / dms cannot be instantiated"}));
    }
    for line in std::io::BufReader::new(f).lines() {
        let line = line.unwrap();
        if line.trim().is_empty() {
            continue;
        }
        let rec: Value = serde_json::from_str(&line).expect("bad json");
        match rec["t"].as_str().unwrap_or("") {
            "set" => set_case(&mut r, &rec),
            "tuple" => tuple_case(&mut r, &rec),
            "arith" => arith_case(&mut r, &rec),
            "slots" => r.slots = rec.clone(),
            "ang" => {
                if r.slots.is_null() {
                    tool_error("the slots record must come before the angles".to_string());
                }
                ang_case(&mut r, &rec)
            }
            other => tool_error(format!("unknown record type {other}")),
        }
    }
    for fl in &r.fails {
        writeln!(w, "{}", fl).unwrap();
    }
    writeln!(
        w,
        "{}",
        json!({"summary": true, "cases": r.cases, "evaluations": r.evals, "nontrivial": r.nontrivial,
               "mismatching": r.nfails, "per_kind": r.per_kind, "mismatches_per_what": r.per_what,
               "encoder_group_reads_60": r.group60, "encoder_group_reads_60_samples": r.group60_samples})
    )
    .unwrap();
    println!("coord: {} cases, {} evaluations, {} mismatches", r.cases, r.evals, r.nfails);
    if r.nfails == 0 {
        0
    } else {
        1
    }
}

fn main() {
    let args: Vec<String> = std::env::args().collect();
    let a: Vec<&str> = args.iter().map(|s| s.as_str()).collect();
    let code = match (a.get(1).copied(), a.len()) {
        (Some("replay"), 4) => replay(a[2], a[3]),
        _ => {
            eprintln!("usage: gvh_coord replay <in.ndjson> <out.ndjson>");
            2
        }
    };
    std::process::exit(code);
}
