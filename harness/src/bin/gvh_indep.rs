//! C02: records histories of applications of real operators for validation by
//! spec/Trace_C02.tla ("one function of (operator, direction, tuple) explains
//! every observation").
//!
//! Every application goes through a randomly chosen container; the recorder
//! writes, per application, the multiset of distinct (input tuple, output)
//! observations (ids interned by bit pattern) and the count.
use geodesy::authoring::*;
use gvh::util::*;
use rand::{Rng, SeedableRng};
use serde_json::{json, Value};
use std::collections::BTreeMap;
use std::io::Write;

struct OpSpec {
    def: &'static str,
    ctx: &'static str,
    elementary: bool,
    pool: &'static str,
}

const fn o(def: &'static str, ctx: &'static str, elementary: bool, pool: &'static str) -> OpSpec {
    OpSpec { def, ctx, elementary, pool }
}

#[rustfmt::skip]
const OPS: &[OpSpec] = &[
    o("addone", "minimal", true, "geo"),
    o("helmert x=-87 y=-96 z=-120", "minimal", true, "cart"),
    o("helmert x=1 y=2 z=3 dx=0.1 dy=0.2 dz=0.3 t_epoch=2010", "minimal", true, "cart"),
    o("helmert convention=position_vector x=0.06155 rx=-0.0394924 y=-0.01087 ry=-0.0327221 z=-0.04019 rz=-0.0328979 s=-0.009994 dx=-0.0001 drx=-0.0001 dy=0.0002 dry=0.0002 dz=0.0003 drz=-0.0003 ds=0.0001 t_epoch=2010", "minimal", true, "cart"),
    o("helmert x=1 y=2 z=3 dx=0.1 dy=0.2 dz=0.3 t_epoch=2010 t_obs=2015", "minimal", true, "cart"),
    o("helmert convention=coordinate_frame exact x=10 y=20 z=30 rx=1 ry=2 rz=3 s=1.5", "minimal", true, "cart"),
    o("utm zone=32", "minimal", true, "geo"),
    o("utm zone=32 south", "minimal", true, "geo"),
    o("tmerc lon_0=9 k_0=0.9996 x_0=500000", "minimal", true, "geo"),
    o("btmerc lon_0=9 k_0=0.9996 x_0=500000", "minimal", true, "geo"),
    o("butm zone=32", "minimal", true, "geo"),
    o("merc lat_ts=56", "minimal", true, "geo"),
    o("webmerc", "minimal", true, "geo"),
    o("lcc lat_1=33 lat_2=45 lon_0=10", "minimal", true, "geo"),
    o("laea lat_0=52 lon_0=10 x_0=4321000 y_0=3210000", "minimal", true, "geo"),
    o("omerc lonc=115 latc=4 alpha=53:18:56.9537 gamma_c=53:07:48.3685 k_0=0.99984 x_0=590476.87 y_0=442857.65 ellps=evrstSS", "minimal", true, "geo"),
    o("somerc lat_0=46.9524055555556 lon_0=7.43958333333333 k_0=1 x_0=2600000 y_0=1200000 ellps=bessel", "minimal", true, "geo"),
    o("cart ellps=intl", "minimal", true, "geo"),
    o("cart inv ellps=GRS80", "minimal", true, "cart"),
    o("molodensky ellps_0=intl ellps_1=GRS80 dx=-87 dy=-96 dz=-120", "minimal", true, "geo"),
    o("molodensky ellps_0=intl ellps_1=GRS80 dx=-87 dy=-96 dz=-120 abridged", "minimal", true, "geo"),
    o("latitude geocentric ellps=GRS80", "minimal", true, "geo"),
    o("latitude authalic ellps=GRS80", "minimal", true, "geo"),
    o("curvature prime ellps=GRS80", "minimal", true, "geo"),
    o("gravity grs80", "minimal", true, "geo"),
    o("permtide from=mean to=zero ellps=GRS80", "minimal", true, "geo"),
    o("geodesic reversible", "minimal", true, "deg"),
    o("longlat", "minimal", true, "geo"),
    o("latlon | lonlat | latlong", "minimal", false, "geo"),
    o("adapt from=neuf_deg", "minimal", true, "geo"),
    o("adapt from=wsdp to=enuf_gon", "minimal", true, "geo"),
    o("unitconvert xy_in=deg xy_out=rad z_in=ft", "minimal", true, "geo"),
    o("axisswap order=2,-1,3", "minimal", true, "geo"),
    o("dms", "minimal", true, "geo"),
    o("dm", "minimal", true, "geo"),
    o("noop", "minimal", true, "geo"),
    o("t_failodd", "minimal", true, "cart"),
    o("t_drift rate=3 t0=2000", "minimal", true, "cart"),
    // pipelines: stack, macros, directional steps
    o("stack push=1,2 | addone | stack pop=1,2", "minimal", false, "geo"),
    o("push v_1 v_2 | utm zone=32 | pop v_2", "minimal", false, "geo"),
    o("stack push=3 | cart ellps=intl | helmert x=-87 y=-96 z=-120 | cart inv | stack flip=3 | stack pop=4", "minimal", false, "geo"),
    o("geo:in | utm zone=32 | neu:out", "minimal", false, "deg"),
    o("cart ellps=intl | helmert x=1 y=2 z=3 dx=0.1 dy=0.2 dz=0.3 t_epoch=2010 | cart inv ellps=GRS80", "minimal", false, "geo"),
    o("addone > utm zone=32 < addone", "minimal", false, "geo"),
    o("stack pop=1 | addone", "minimal", false, "geo"),
    // grid based (Plain, grids written to the scratch directory)
    o("gridshift grids=g1.datum", "plain", true, "grid"),
    o("gridshift grids=@missing.datum,g1.datum,@null", "plain", true, "grid"),
    o("gridshift grids=g1sub.datum,g1.datum", "plain", true, "grid"),
    o("gridshift grids=g1.datum,g1sub.datum", "plain", true, "grid"),
    o("deformation grids=d1sub.deformation,d1.deformation dt=10", "plain", true, "gridcart"),
    o("gridshift grids=h1.geoid", "plain", true, "grid"),
    o("deformation grids=d1.deformation t_epoch=2000", "plain", true, "gridcart"),
    o("deformation grids=d1.deformation dt=10", "plain", true, "gridcart"),
    o("deflection grids=h1.geoid", "plain", true, "grid"),
    o("cart | deformation grids=d1.deformation t_epoch=2000 | cart inv", "plain", false, "grid"),
];

const DATUM: &str = "54 56 10 12 1 1\n 1 2  3 -2  5 2\n -1 2  1 7  1 2\n 1 -4  1 2  9 2\n";
const GEOID: &str = "54 56 10 12 1 1\n 31 32 33\n 34 36 38\n 39 42 45\n";
const DEFORMATION: &str = "54 56 10 12 1 1\n 1 2 3  4 5 6  7 8 9\n 9 7 5  3 1 -1  -3 -5 -7\n 2 4 8  16 32 64  1 3 9\n";

// a second, smaller, overlapping grid of each kind with different values: in a grid list it takes
// priority where it covers, whatever the neighbouring tuples were served by
const DATUM_SUB: &str = "54.5 55.5 10.5 11.5 0.5 0.5\n 11 12  13 -12  15 12\n -11 12  11 17  11 12\n 11 -14  11 12  19 12\n";
const DEFORMATION_SUB: &str = "54.5 55.5 10.5 11.5 0.5 0.5\n 10 20 30  40 50 60  70 80 90\n 90 70 50  30 10 -10  -30 -50 -70\n 20 40 80  160 320 640  10 30 90\n";

fn setup_scratch(dir: &str) {
    let d = std::path::Path::new(dir);
    for sub in ["datum", "geoid", "deformation"] {
        std::fs::create_dir_all(d.join("geodesy").join(sub)).unwrap();
    }
    std::fs::write(d.join("geodesy/datum/g1.datum"), DATUM).unwrap();
    std::fs::write(d.join("geodesy/geoid/h1.geoid"), GEOID).unwrap();
    std::fs::write(d.join("geodesy/deformation/d1.deformation"), DEFORMATION).unwrap();
    std::fs::write(d.join("geodesy/datum/g1sub.datum"), DATUM_SUB).unwrap();
    std::fs::write(d.join("geodesy/deformation/d1sub.deformation"), DEFORMATION_SUB).unwrap();
    std::env::set_current_dir(d).unwrap();
}

fn pool(kind: &str) -> Vec<Coor4D> {
    let mut p = vec![];
    match kind {
        "geo" | "deg" | "grid" => {
            let pts: &[(f64, f64)] = if kind == "grid" {
                &[(11., 55.), (10.5, 54.5), (10., 54.), (12., 56.), (11.25, 55.75), (13., 55.), (11., 57.), (10.2, 55.9),
                  (10.75, 55.25), (11.6, 55.), (11.8, 54.2), (10.3, 55.45)]
            } else {
                // (both poles and a projection centre: places where operators branch, and where a scratch value
                // left over from the neighbouring tuple would show)
                &[(12., 55.), (9., 0.), (-70., -33.), (179.5, 10.), (10., 89.), (8., 47.), (115., 4.), (30., -85.),
                  (12., 90.), (-70., -90.), (10., 52.)]
            };
            for (i, (lon, lat)) in pts.iter().enumerate() {
                let h = [0., 100., -5., 2500.][i % 4];
                let t = [2020., 2021.5, 2015.25, 2020.][i % 4];
                p.push(if kind == "deg" { Coor4D([*lat, *lon, h, t]) } else { Coor4D::geo(*lat, *lon, h, t) });
            }
            // same place, other epochs (time dependent operators must treat each on its own)
            let q = p[0];
            p.push(Coor4D([q[0], q[1], q[2], 2001.]));
            p.push(Coor4D([q[0], q[1], q[2], 2002.]));
            p.push(Coor4D([q[0], q[1], q[2], f64::NAN]));
            // invalid / out of domain members
            p.push(Coor4D([f64::NAN, q[1], q[2], q[3]]));
            p.push(Coor4D([q[0], f64::NAN, q[2], q[3]]));
            p.push(Coor4D([3.0, 1.7, 0., 2020.]));
            p.push(Coor4D([q[0], q[1], 0., f64::NAN])); // what a 2D container expands to
        }
        _ => {
            // cartesian-ish
            let e = Ellipsoid::default();
            let pts: &[(f64, f64, f64)] = if kind == "gridcart" {
                &[(11., 55., 0.), (10.5, 54.5, 100.), (10., 54., 0.), (12., 56., 50.), (13., 55., 0.), (11., 57., 0.),
                  (10.75, 55.25, 0.), (11.6, 55., 10.), (11.8, 54.2, 0.), (10.3, 55.45, 0.)]
            } else {
                &[(12., 55., 0.), (9., 0., 100.), (-70., -33., 2500.), (179.5, 10., 0.), (10., 89., 0.), (30., -85., 9.)]
            };
            for (i, (lon, lat, h)) in pts.iter().enumerate() {
                let c = e.cartesian(&Coor4D::geo(*lat, *lon, *h, 0.));
                let t = [2020., 2021.5, 2015.25][i % 3];
                p.push(Coor4D([c[0], c[1], c[2], t]));
            }
            let q = p[0];
            for t in [2001., 2002., 2003., f64::NAN] {
                p.push(Coor4D([q[0], q[1], q[2], t]));
            }
            p.push(Coor4D([f64::NAN, q[1], q[2], q[3]]));
            p.push(Coor4D([3., 4., 5., 2001.])); // odd first element: fails t_failodd
            p.push(Coor4D([4., 4., 5., 2002.]));
            p.push(Coor4D([0., 0., 0., 2020.]));
        }
    }
    p
}

struct Intern {
    tuples: BTreeMap<[u64; 4], i64>,
    elems: BTreeMap<u64, i64>,
}
impl Intern {
    fn new() -> Self {
        Intern { tuples: BTreeMap::new(), elems: BTreeMap::new() }
    }
    fn canon(x: f64) -> u64 {
        if x.is_nan() { f64::NAN.to_bits() } else { x.to_bits() }
    }
    fn tuple(&mut self, t: &Coor4D) -> i64 {
        let k = [Self::canon(t[0]), Self::canon(t[1]), Self::canon(t[2]), Self::canon(t[3])];
        let n = self.tuples.len() as i64 + 1;
        *self.tuples.entry(k).or_insert(n)
    }
    fn elem(&mut self, x: f64) -> i64 {
        let n = self.elems.len() as i64 + 1;
        *self.elems.entry(Self::canon(x)).or_insert(n)
    }
}

const CONTAINERS: [&str; 9] = ["vec4", "slice4", "arr4", "vec3", "vec3t", "vec2", "vec2ht", "slice2", "vec32"];

/// Applies `h` to fresh copies of `input` through the container `kind`.
/// Returns (expanded inputs as the operator sees them, stored outputs, stored dimension, count)
fn apply_through(ctx: &dyn Context, h: OpHandle, dir: Direction, kind: &str, input: &[Coor4D])
    -> Result<(Vec<Coor4D>, Vec<Vec<f64>>, usize, usize), String> {
    let n = input.len();
    macro_rules! run {
        ($c:expr, $dim:expr, $expand:expr, $read:expr) => {{
            let mut c = $c;
            let expanded: Vec<Coor4D> = (0..n).map(|i| $expand(&c, i)).collect();
            let cnt = guarded(|| ctx.apply(h, dir, &mut c))?.map_err(|e| format!("{e:?}"))?;
            let out: Vec<Vec<f64>> = (0..n).map(|i| $read(&c, i)).collect();
            Ok((expanded, out, $dim, cnt))
        }};
    }
    match kind {
        "vec4" => run!(input.to_vec(), 4, |c: &Vec<Coor4D>, i: usize| c[i], |c: &Vec<Coor4D>, i: usize| c[i].0.to_vec()),
        "slice4" => {
            let mut v = input.to_vec();
            let expanded = v.clone();
            let mut s: &mut [Coor4D] = &mut v[..];
            let cnt = guarded(|| ctx.apply(h, dir, &mut s))?.map_err(|e| format!("{e:?}"))?;
            let out = v.iter().map(|c| c.0.to_vec()).collect();
            Ok((expanded, out, 4, cnt))
        }
        "arr4" if n == 3 => {
            let mut a = [input[0], input[1], input[2]];
            let expanded = a.to_vec();
            let cnt = guarded(|| ctx.apply(h, dir, &mut a))?.map_err(|e| format!("{e:?}"))?;
            Ok((expanded, a.iter().map(|c| c.0.to_vec()).collect(), 4, cnt))
        }
        "vec3" => run!(input.iter().map(|t| Coor3D([t[0], t[1], t[2]])).collect::<Vec<_>>(), 3,
            |c: &Vec<Coor3D>, i: usize| c.get_coord(i), |c: &Vec<Coor3D>, i: usize| c[i].0.to_vec()),
        "vec3t" => {
            let v: Vec<Coor3D> = input.iter().map(|t| Coor3D([t[0], t[1], t[2]])).collect();
            run!((v, 2017.75), 3, |c: &(Vec<Coor3D>, f64), i: usize| c.get_coord(i), |c: &(Vec<Coor3D>, f64), i: usize| c.0[i].0.to_vec())
        }
        "vec2" => run!(input.iter().map(|t| Coor2D([t[0], t[1]])).collect::<Vec<_>>(), 2,
            |c: &Vec<Coor2D>, i: usize| c.get_coord(i), |c: &Vec<Coor2D>, i: usize| c[i].0.to_vec()),
        "vec2ht" => {
            let v: Vec<Coor2D> = input.iter().map(|t| Coor2D([t[0], t[1]])).collect();
            run!((v, 100., 2021.5), 2, |c: &(Vec<Coor2D>, f64, f64), i: usize| c.get_coord(i), |c: &(Vec<Coor2D>, f64, f64), i: usize| c.0[i].0.to_vec())
        }
        "slice2" => {
            let mut v: Vec<Coor2D> = input.iter().map(|t| Coor2D([t[0], t[1]])).collect();
            let expanded: Vec<Coor4D> = (0..n).map(|i| v.get_coord(i)).collect();
            let mut s: &mut [Coor2D] = &mut v[..];
            let cnt = guarded(|| ctx.apply(h, dir, &mut s))?.map_err(|e| format!("{e:?}"))?;
            Ok((expanded, v.iter().map(|c| c.0.to_vec()).collect(), 2, cnt))
        }
        "vec32" => run!(input.iter().map(|t| Coor32([t[0] as f32, t[1] as f32])).collect::<Vec<_>>(), 2,
            |c: &Vec<Coor32>, i: usize| c.get_coord(i), |c: &Vec<Coor32>, i: usize| vec![c[i][0] as f64, c[i][1] as f64]),
        _ => run!(input.to_vec(), 4, |c: &Vec<Coor4D>, i: usize| c[i], |c: &Vec<Coor4D>, i: usize| c[i].0.to_vec()),
    }
}

fn record(seed: u64, per_handle: usize, long_len: usize, output: &str, scratch: &str) -> i32 {
    quiet_panics();
    let out_path = std::path::absolute(output).unwrap();
    setup_scratch(scratch);
    let mut w = std::io::BufWriter::new(std::fs::File::create(out_path).expect("cannot create output"));
    let mut rng = rand::rngs::StdRng::seed_from_u64(seed);
    let mut used: Vec<String> = vec![];
    let mut events = 0usize;
    let mut observations = 0usize;
    let mut revisits = 0usize;
    for (k, spec) in OPS.iter().enumerate() {
        let mut ctx = Ctx::new(spec.ctx);
        let h = match guarded(|| ctx.get_mut().op(spec.def)) {
            Ok(Ok(h)) => h,
            other => {
                writeln!(w, "{}", json!({"ev":"opfail","h":k,"def":spec.def,"msg":format!("{other:?}")})).unwrap();
                continue;
            }
        };
        for step in spec.def.split(['|', '<', '>']) {
            if let Some(name) = step.split_whitespace().find(|t| !["inv", "omit_fwd", "omit_inv"].contains(t)) {
                used.push(name.to_string());
            }
        }
        writeln!(w, "{}", json!({"ev":"reset","h":k,"def":spec.def,"elem":spec.elementary})).unwrap();
        let p = pool(spec.pool);
        let mut it = Intern::new();
        let mut seen: std::collections::BTreeSet<(String, bool, i64)> = Default::default();
        let mut plan: Vec<(Vec<usize>, &str, &str)> = vec![];
        // first every tuple alone, in both directions (this is where per-tuple counts are learnt)
        for d in ["F", "I"] {
            for i in 0..p.len() {
                plan.push((vec![i], d, "vec4"));
            }
        }
        for e in 0..per_handle {
            let d = if rng.gen_bool(0.6) { "F" } else { "I" };
            let c = CONTAINERS[rng.gen_range(0..CONTAINERS.len())];
            let n = match rng.gen_range(0..10) {
                0 => 0,
                1 => 1,
                2 | 3 => 3,
                9 if e % 7 == 0 => long_len,
                _ => rng.gen_range(2..12),
            };
            let idx: Vec<usize> = (0..n).map(|_| rng.gen_range(0..p.len())).collect();
            plan.push((idx, d, c));
        }
        for (idx, d, c) in plan {
            let input: Vec<Coor4D> = idx.iter().map(|i| p[*i]).collect();
            let c = if c == "arr4" && input.len() != 3 { "slice4" } else { c };
            match apply_through(ctx.get(), h, dir_of(d), c, &input) {
                Err(msg) => {
                    writeln!(w, "{}", json!({"ev":"panic","h":k,"def":spec.def,"dir":d,"c":c,"msg":msg})).unwrap();
                }
                Ok((expanded, out, dim, cnt)) => {
                    let f32c = c == "vec32";
                    let mut groups: BTreeMap<(i64, Vec<i64>), i64> = BTreeMap::new();
                    for (x, o) in expanded.iter().zip(out.iter()) {
                        let tid = it.tuple(x);
                        let mut oe: Vec<i64> = o.iter().map(|v| it.elem(*v)).collect();
                        oe.resize(4, 0);
                        *groups.entry((tid, oe)).or_insert(0) += 1;
                        if !seen.insert((d.to_string(), f32c, tid)) {
                            revisits += 1;
                        }
                        observations += 1;
                    }
                    let g: Vec<Value> = groups.iter().map(|((t, oe), m)| json!({"in":t,"out":oe,"m":m})).collect();
                    writeln!(w, "{}", json!({"ev":"apply","h":k,"dir":d,"cls": if f32c {"f32"} else {"f64"},"c":c,
                        "dim":dim,"n":expanded.len(),"count":cnt,"elem":spec.elementary,"g":g})).unwrap();
                    events += 1;
                }
            }
        }
    }
    // catalogue drift: built-ins not exercised by this recorder are reported, not judged
    let uncovered: Vec<&str> = geodesy::verif::builtin_names().into_iter().filter(|n| !used.iter().any(|u| u == n)).collect();
    println!("{}", json!({"summary":true,"handles":OPS.len(),"events":events,"observations":observations,
        "revisits":revisits,"uncovered_builtins":uncovered}));
    0
}

fn main() {
    let a: Vec<String> = std::env::args().collect();
    let code = match a.get(1).map(|s| s.as_str()) {
        Some("record") => record(a[2].parse().unwrap_or(1), a[3].parse().unwrap_or(20), a[4].parse().unwrap_or(1000), &a[5], &a[6]),
        _ => {
            eprintln!("usage: gvh_indep record <seed> <events-per-handle> <long-set-length> <out> <scratchdir>");
            2
        }
    };
    std::process::exit(code);
}
