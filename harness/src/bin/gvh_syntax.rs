//! gvh_syntax — the Rust side of the C16 / C17 checks (definition syntax,
//! typed parameters, PROJ translation).
//!
//!   gvh_syntax layout  <in.ndjson> <out.ndjson>   relational: every rendering of one AST vs. its canonical rendering
//!   gvh_syntax observe <in.ndjson> <out.ndjson>   instantiate and report what the library made of a definition
//!   gvh_syntax proj    <in.ndjson> <out.ndjson>   relational: PROJ text vs. the reference Geodesy text
//!
//! The expectations (which texts belong together, which comparison applies,
//! exact typed values, refusals) are derived by the TLA+ specifications
//! spec/Syntax.tla, spec/Params.tla, spec/ProjSyntax.tla; this program only
//! executes and compares.  Every call into the library runs under
//! `guarded` (catch_unwind): a panic of the code under test is data.
use geodesy::authoring::*;
use gvh::util::*;
use serde_json::{json, Map, Value};
use std::io::{BufRead, Write};

// ---------------------------------------------------------------------------
// observations
// ---------------------------------------------------------------------------

fn f64_json(x: f64) -> Value {
    // exact: the bit pattern; readable: the shortest round-trip decimal
    json!({"bits": format!("{:016x}", x.to_bits()), "v": if x.is_finite() { json!(x) } else { json!(format!("{x}")) }})
}

fn params_json(p: &ParsedParameters) -> Value {
    let mut real = Map::new();
    for (k, v) in &p.real {
        real.insert(k.to_string(), f64_json(*v));
    }
    let mut series = Map::new();
    for (k, v) in &p.series {
        series.insert(k.to_string(), Value::Array(v.iter().map(|x| f64_json(*x)).collect()));
    }
    json!({
        "name": p.name,
        "boolean": p.boolean.iter().map(|s| s.to_string()).collect::<Vec<_>>(),
        "natural": p.natural.iter().map(|(k, v)| (k.to_string(), json!(v))).collect::<Map<_, _>>(),
        "integer": p.integer.iter().map(|(k, v)| (k.to_string(), json!(v))).collect::<Map<_, _>>(),
        "real": real,
        "series": series,
        "text": p.text.iter().map(|(k, v)| (k.to_string(), json!(v))).collect::<Map<_, _>>(),
        "texts": p.texts.iter().map(|(k, v)| (k.to_string(), json!(v))).collect::<Map<_, _>>(),
        "given": p.given.iter().map(|(k, v)| (k.clone(), json!(v))).collect::<Map<_, _>>(),
    })
}

fn err_json(e: &Error) -> Value {
    match e {
        Error::BadParam(k, v) => json!({"variant": "BadParam", "key": k, "value": v}),
        Error::MissingParam(k) => json!({"variant": "MissingParam", "key": k}),
        Error::Unsupported(s) => json!({"variant": "Unsupported", "text": s}),
        Error::NotFound(a, b) => json!({"variant": "NotFound", "key": a, "text": b}),
        Error::Syntax(s) => json!({"variant": "Syntax", "text": s}),
        other => json!({"variant": "other", "text": format!("{other:?}")}),
    }
}

fn maps_of(steps: &[String]) -> Result<Vec<BTreeMap<String, String>>, String> {
    guarded(|| steps.iter().map(|s| s.split_into_parameters()).collect())
}

struct Obs {
    /// "ok" / "err" / "panic"
    op: String,
    err: Value,
    steps: Vec<String>,
    params: Vec<Value>,
    /// per direction: (count, data) or the panic / error text
    apply: Vec<Result<(usize, Vec<Coor4D>), String>>,
    evaluations: usize,
}

fn observe(ctxkind: &str, resources: &Value, def: &str, data: &[Coor4D]) -> Obs {
    let mut o = Obs { op: String::new(), err: Value::Null, steps: vec![], params: vec![], apply: vec![], evaluations: 0 };
    let mut ctx = Ctx::new(ctxkind);
    if let Some(res) = resources.as_object() {
        for (k, v) in res {
            ctx.get_mut().register_resource(k, v.as_str().unwrap_or(""));
        }
    }
    o.evaluations += 1;
    let h = match guarded(|| ctx.get_mut().op(def)) {
        Err(p) => {
            o.op = "panic".into();
            o.err = json!({"variant": "panic", "text": p});
            return o;
        }
        Ok(Err(e)) => {
            o.op = "err".into();
            o.err = err_json(&e);
            return o;
        }
        Ok(Ok(h)) => h,
    };
    o.op = "ok".into();
    o.evaluations += 1;
    match guarded(|| ctx.get().steps(h).map(|s| s.clone()).map_err(|e| format!("{e:?}"))) {
        Ok(Ok(s)) => o.steps = s,
        Ok(Err(e)) => o.err = json!({"variant": "steps_error", "text": e}),
        Err(p) => o.err = json!({"variant": "steps_panic", "text": p}),
    }
    let n = o.steps.len().max(1);
    for i in 0..n {
        o.evaluations += 1;
        match guarded(|| ctx.get().params(h, i).map_err(|e| format!("{e:?}"))) {
            Ok(Ok(p)) => o.params.push(params_json(&p)),
            Ok(Err(e)) => o.params.push(json!({"error": e})),
            Err(p) => o.params.push(json!({"panic": p})),
        }
    }
    for dir in ["F", "I"] {
        let mut d = data.to_vec();
        o.evaluations += 1;
        let r = guarded(|| ctx.get().apply(h, dir_of(dir), &mut d).map_err(|e| format!("{e:?}")));
        o.apply.push(match r {
            Ok(Ok(n)) => Ok((n, d)),
            Ok(Err(e)) => Err(format!("error: {e}")),
            Err(p) => Err(format!("panic: {p}")),
        });
    }
    o
}

fn obs_json(o: &Obs) -> Value {
    json!({
        "op": o.op, "err": o.err, "steps": o.steps, "params": o.params,
        "apply": o.apply.iter().map(|a| match a {
            Ok((n, d)) => json!({"count": n, "data": hexdata(d)}),
            Err(e) => json!({"fail": e}),
        }).collect::<Vec<_>>(),
    })
}

/// Compare two step lists: same length, same parameter maps step by step;
/// literally identical if `literal`.
fn cmp_steps(what: &str, a: &[String], b: &[String], literal: bool, ignore: &[&str], fails: &mut Vec<Value>) {
    if a.len() != b.len() {
        fails.push(json!({"what": format!("{what}_len"), "canon": a, "variant": b}));
        return;
    }
    match (maps_of(a), maps_of(b)) {
        (Ok(mut ma), Ok(mut mb)) => {
            for m in ma.iter_mut().chain(mb.iter_mut()) {
                for k in ignore {
                    m.remove(*k);
                }
            }
            if ma != mb {
                fails.push(json!({"what": format!("{what}_params"), "canon": a, "variant": b}));
                return;
            }
        }
        _ => {
            fails.push(json!({"what": format!("{what}_panic"), "canon": a, "variant": b}));
            return;
        }
    }
    if literal && a != b {
        fails.push(json!({"what": format!("{what}_literal"), "canon": a, "variant": b}));
    }
}

/// The relational comparison of two instantiations
/// `ignore`: keys of `given` that are not compared (C17: the PROJ source keys a, rf, k, which the
/// translation replaces by ellps / k_0; whether overridden occurrences linger as unknown keys is not specified)
fn without(p: &Value, ignore: &[&str]) -> Value {
    let mut p = p.clone();
    if let Some(g) = p.get_mut("given").and_then(|g| g.as_object_mut()) {
        for k in ignore {
            g.remove(*k);
        }
    }
    p
}

fn cmp_obs(a: &Obs, b: &Obs, literal: bool, ignore: &[&str], fails: &mut Vec<Value>) {
    if a.op != b.op {
        fails.push(json!({"what": format!("op_{}_vs_{}", a.op, b.op), "canon_err": a.err, "variant_err": b.err}));
        return;
    }
    if a.op == "panic" {
        fails.push(json!({"what": "op_panic", "canon_err": a.err, "variant_err": b.err}));
        return;
    }
    if a.op != "ok" {
        return;
    }
    cmp_steps("steps", &a.steps, &b.steps, literal, ignore, fails);
    let ap: Vec<Value> = a.params.iter().map(|p| without(p, ignore)).collect();
    let bp: Vec<Value> = b.params.iter().map(|p| without(p, ignore)).collect();
    if ap != bp {
        // name the first differing field
        let mut detail = json!(null);
        for (i, (pa, pb)) in ap.iter().zip(bp.iter()).enumerate() {
            if pa != pb {
                let mut fields = vec![];
                if let (Some(oa), Some(ob)) = (pa.as_object(), pb.as_object()) {
                    for (k, va) in oa {
                        if ob.get(k) != Some(va) {
                            fields.push(json!({"field": k, "canon": va, "variant": ob.get(k)}));
                        }
                    }
                }
                detail = json!({"step": i, "fields": fields});
                break;
            }
        }
        fails.push(json!({"what": "params", "detail": detail, "canon_n": a.params.len(), "variant_n": b.params.len()}));
    }
    for (i, dir) in ["F", "I"].iter().enumerate() {
        match (&a.apply[i], &b.apply[i]) {
            (Ok((na, da)), Ok((nb, db))) => {
                if !data_bits_eq(da, db) {
                    fails.push(json!({"what": "apply_data", "dir": dir, "canon": hexdata(da), "variant": hexdata(db)}));
                } else if na != nb {
                    fails.push(json!({"what": "apply_count", "dir": dir, "canon": na, "variant": nb}));
                }
            }
            (Err(ea), Err(eb)) if ea.starts_with("error") && eb.starts_with("error") => {}
            (x, y) => {
                let show = |r: &Result<(usize, Vec<Coor4D>), String>| match r {
                    Ok((n, d)) => json!({"count": n, "data": hexdata(d)}),
                    Err(e) => json!(e),
                };
                fails.push(json!({"what": "apply_outcome", "dir": dir, "canon": show(x), "variant": show(y)}));
            }
        }
    }
}

fn idempotent(text: &str, fails: &mut Vec<Value>, evals: &mut usize) {
    *evals += 1;
    match guarded(|| {
        let once = text.normalize();
        let twice = once.normalize();
        (once, twice)
    }) {
        Ok((once, twice)) => {
            if once != twice {
                fails.push(json!({"what": "normalize_not_idempotent", "text": text, "once": once, "twice": twice}));
            }
        }
        Err(p) => fails.push(json!({"what": "normalize_panic", "text": text, "msg": p})),
    }
}

// ---------------------------------------------------------------------------
// suite: layout
// ---------------------------------------------------------------------------
// {"id":.., "ctx":.., "data":[[..]],
//  "subject": "def" | <resource name>      the text that is rendered in different layouts
//  "canon":   {"def":.., "resources":{..}},
//  "variants":[{"def":.., "resources":{..}, "literal":bool, "nocomment":bool, "choices":[..]}]}

fn subject_text<'a>(side: &'a Value, subject: &str) -> &'a str {
    if subject == "def" {
        side["def"].as_str().unwrap_or("")
    } else {
        side["resources"][subject].as_str().unwrap_or("")
    }
}

fn run_layout(b: &Value, w: &mut dyn Write, evals: &mut usize, cases: &mut usize) -> usize {
    let ctxkind = b["ctx"].as_str().unwrap_or("minimal");
    let data = data_from(&b["data"]);
    let subject = b["subject"].as_str().unwrap_or("def");
    let canon = &b["canon"];
    let ctext = subject_text(canon, subject).to_string();
    let csteps = guarded(|| ctext.split_into_steps());
    let cobs = observe(ctxkind, &canon["resources"], canon["def"].as_str().unwrap_or(""), &data);
    *evals += cobs.evaluations + 1;
    let mut bad = 0;
    let empty = vec![];
    // the canonical rendering itself must be digestible
    let mut cf = vec![];
    if let Err(p) = &csteps {
        cf.push(json!({"what": "split_into_steps_panic", "text": ctext, "msg": p}));
    }
    if cobs.op == "panic" {
        cf.push(json!({"what": "op_panic", "canon_err": cobs.err}));
    }
    if let Some(want) = b["ok"].as_bool() {
        if (cobs.op == "ok") != want && cobs.op != "panic" {
            cf.push(json!({"what": if want { "op_should_succeed" } else { "op_should_fail" }, "err": cobs.err}));
        }
    }
    if let Some(n) = b["nsteps"].as_u64() {
        if let Ok(cs) = &csteps {
            if cs.len() != n as usize {
                cf.push(json!({"what": "split_into_steps_len", "expected": n, "observed": cs}));
            }
        }
    }
    idempotent(&ctext, &mut cf, evals);
    if let Ok(cs) = &csteps {
        for s in cs {
            idempotent(s, &mut cf, evals);
        }
    }
    *cases += 1;
    if !cf.is_empty() {
        bad += 1;
        writeln!(w, "{}", json!({"id": b["id"], "variant": -1, "text": ctext, "canon": ctext, "subject": subject,
            "def": canon["def"], "resources": canon["resources"], "fails": cf})).unwrap();
    }
    for (vi, v) in b["variants"].as_array().unwrap_or(&empty).iter().enumerate() {
        *cases += 1;
        let mut fails = vec![];
        let literal = v["literal"].as_bool().unwrap_or(false);
        let vtext = subject_text(v, subject).to_string();
        *evals += 1;
        match (&csteps, guarded(|| vtext.split_into_steps())) {
            (Ok(cs), Ok(vs)) => {
                cmp_steps("split_into_steps", cs, &vs, literal, &[], &mut fails);
                for s in &vs {
                    idempotent(s, &mut fails, evals);
                }
            }
            (_, Err(p)) => fails.push(json!({"what": "split_into_steps_panic", "msg": p})),
            _ => {}
        }
        if v["nocomment"].as_bool().unwrap_or(false) {
            idempotent(&vtext, &mut fails, evals);
        }
        let vobs = observe(ctxkind, &v["resources"], v["def"].as_str().unwrap_or(""), &data);
        *evals += vobs.evaluations;
        cmp_obs(&cobs, &vobs, literal, &[], &mut fails);
        if !fails.is_empty() {
            bad += 1;
            writeln!(w, "{}", json!({"id": b["id"], "variant": vi, "text": vtext, "canon": ctext, "subject": subject,
                "choices": v["choices"], "def": v["def"], "resources": v["resources"],
                "canon_def": canon["def"], "canon_resources": canon["resources"], "ctx": ctxkind, "data": b["data"],
                "literal": literal, "fails": fails})).unwrap();
        }
    }
    bad
}

// ---------------------------------------------------------------------------
// suite: observe
// ---------------------------------------------------------------------------
// {"id":.., "ctx":.., "def":.., "resources":{..}} -> {"id":.., "obs":{..}}

fn run_observe(b: &Value, w: &mut dyn Write, evals: &mut usize, cases: &mut usize) -> usize {
    let data = if b["data"].is_null() { vec![Coor4D([1., 2., 3., 4.])] } else { data_from(&b["data"]) };
    let o = observe(b["ctx"].as_str().unwrap_or("minimal"), &b["resources"], b["def"].as_str().unwrap_or(""), &data);
    *evals += o.evaluations;
    *cases += 1;
    writeln!(w, "{}", json!({"id": b["id"], "obs": obs_json(&o)})).unwrap();
    0
}

// ---------------------------------------------------------------------------
// suite: proj
// ---------------------------------------------------------------------------
// {"id":.., "proj": PROJ text, "ref": reference Geodesy text | null, "refuse": bool,
//  "data":[[..]], "expect": {"F":{"count":n,"data":[[..]]}, "I":{..}} | null,
//  "passthrough": [texts that are not PROJ syntax]}

fn run_proj(b: &Value, w: &mut dyn Write, evals: &mut usize, cases: &mut usize) -> usize {
    let mut fails = vec![];
    let proj = b["proj"].as_str().unwrap_or("");
    let data = data_from(&b["data"]);
    let refuse = b["refuse"].as_bool().unwrap_or(false);
    *cases += 1;
    *evals += 1;
    let translated = guarded(|| parse_proj(proj));
    match &translated {
        Err(p) => fails.push(json!({"what": "parse_proj_panic", "msg": p})),
        Ok(Err(e)) => {
            if !refuse {
                fails.push(json!({"what": "parse_proj_refused", "err": err_json(e)}));
            }
        }
        Ok(Ok(t)) => {
            if refuse {
                fails.push(json!({"what": "parse_proj_should_refuse", "translated": t}));
            }
            // the translation is idempotent
            *evals += 1;
            match guarded(|| parse_proj(t)) {
                Ok(Ok(t2)) => {
                    if &t2 != t {
                        fails.push(json!({"what": "parse_proj_not_idempotent", "once": t, "twice": t2}));
                    }
                }
                Ok(Err(e)) => fails.push(json!({"what": "parse_proj_not_idempotent", "once": t, "twice_err": err_json(&e)})),
                Err(p) => fails.push(json!({"what": "parse_proj_panic", "on": t, "msg": p})),
            }
        }
    }
    let empty = vec![];
    for t in b["passthrough"].as_array().unwrap_or(&empty) {
        let t = t.as_str().unwrap_or("");
        *evals += 1;
        match guarded(|| parse_proj(t)) {
            Ok(Ok(t2)) => {
                if t2 != t {
                    fails.push(json!({"what": "passthrough_changed", "text": t, "became": t2}));
                }
            }
            Ok(Err(e)) => fails.push(json!({"what": "passthrough_refused", "text": t, "err": err_json(&e)})),
            Err(p) => fails.push(json!({"what": "parse_proj_panic", "on": t, "msg": p})),
        }
    }
    // behaviour in the Plain context
    let pobs = observe("plain", &b["resources"], proj, &data);
    *evals += pobs.evaluations;
    if refuse {
        if pobs.op != "err" {
            fails.push(json!({"what": format!("op_should_refuse_but_{}", pobs.op), "err": pobs.err}));
        }
    } else if let Some(reference) = b["ref"].as_str() {
        let robs = observe("plain", &b["resources"], reference, &data);
        *evals += robs.evaluations;
        cmp_obs(&robs, &pobs, false, &["a", "rf", "k"], &mut fails);
        if let Some(want) = b["ok"].as_bool() {
            if robs.op != "panic" && (robs.op == "ok") != want {
                fails.push(json!({"what": "reference_op_outcome", "expected_ok": want, "err": robs.err}));
            }
        }
        // exact expectations (probe operators only)
        if b["expect"].is_object() && pobs.op == "ok" {
            for (i, dir) in ["F", "I"].iter().enumerate() {
                let ex = &b["expect"][dir];
                if !ex.is_object() {
                    continue;
                }
                if let Ok((n, d)) = &pobs.apply[i] {
                    let want = data_from(&ex["data"]);
                    let same = want.len() == d.len()
                        && want.iter().zip(d.iter()).all(|(x, y)| (0..4).all(|k| model_eq(x[k], y[k])));
                    if !same {
                        fails.push(json!({"what": "data", "dir": dir, "expected": ex["data"], "observed": data_to_val(d)}));
                    } else if ex["count"].as_u64().is_some_and(|c| c as usize != *n) {
                        fails.push(json!({"what": "count", "dir": dir, "expected": ex["count"], "observed": n}));
                    }
                }
            }
        }
    }
    if fails.is_empty() {
        return 0;
    }
    let mut rec = b.clone();
    rec["translated"] = match &translated {
        Ok(Ok(t)) => json!(t),
        Ok(Err(e)) => err_json(e),
        Err(p) => json!({"panic": p}),
    };
    rec["fails"] = Value::Array(fails);
    rec["observed"] = obs_json(&pobs);
    writeln!(w, "{}", rec).unwrap();
    1
}

fn main() {
    let args: Vec<String> = std::env::args().collect();
    if args.len() < 4 {
        eprintln!("usage: gvh_syntax layout|observe|proj <in.ndjson> <out.ndjson>");
        std::process::exit(2);
    }
    quiet_panics();
    let f = std::fs::File::open(&args[2]).expect("cannot open input");
    let mut w = std::io::BufWriter::new(std::fs::File::create(&args[3]).expect("cannot create output"));
    let progress = std::env::var("GVH_PROGRESS").ok();
    let (mut cases, mut bad, mut evals, mut records) = (0usize, 0usize, 0usize, 0usize);
    for line in std::io::BufReader::new(f).lines() {
        let line = line.unwrap();
        if line.trim().is_empty() {
            continue;
        }
        let b: Value = serde_json::from_str(&line).expect("bad json");
        if let Some(p) = &progress {
            let _ = std::fs::write(p, b["id"].to_string());
        }
        records += 1;
        bad += match args[1].as_str() {
            "layout" => run_layout(&b, &mut w, &mut evals, &mut cases),
            "observe" => run_observe(&b, &mut w, &mut evals, &mut cases),
            "proj" => run_proj(&b, &mut w, &mut evals, &mut cases),
            other => {
                eprintln!("unknown suite {other}");
                std::process::exit(2);
            }
        };
    }
    writeln!(w, "{}", json!({"summary": true, "records": records, "cases": cases, "mismatching": bad, "evaluations": evals})).unwrap();
    w.flush().unwrap();
    drop(w);
    println!("{}: {records} records, {cases} cases, {bad} mismatching, {evals} evaluations", args[1]);
    std::process::exit(if bad > 0 { 1 } else { 0 });
}
