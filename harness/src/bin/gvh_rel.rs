//! gvh_rel — relational / approximate replayer for C07 (helmert) and C13
//! (projection parameter conventions).
//!
//! The specifications (spec/Helmert.tla, spec/ProjParams.tla) put definitions
//! into equivalence / affine-relation classes and derive integer linear forms;
//! this binary runs the real operators and checks the relation the
//! specification states.  All numbers in a case are JSON floats taken
//! literally (or "NaN").
//!
//! usage: gvh_rel replay <in.ndjson> <out.ndjson>
//!
//! Case kinds ("k"):
//!  rel     {"a":{"def","dir"}, "b":{"def","dir"}, "data":[[..]],
//!           "seed":{"def","dir"}            (optional: data := seed applied to data, tuples turning NaN are dropped)
//!           "data_b":[[..]]                 (optional: B's input; default: pre_b applied to A's input)
//!           "pre_b":{"sub","div","mul","add"}, "post_b":{...}   (optional, element-wise ((x-sub)/div)*mul+add)
//!           "cmp":{"modes":[m,m,m,m],"tol":t,"atol":t,"ulps":n,"mag":x,"count":bool}}
//!          modes: "bits" | "lin" | "ang" (difference taken modulo 2 pi) | "skip"
//!          lin:  |a-b| <= tol  + ulps * ulp(max(|a|,|b|,mag))
//!          ang:  |a-b| <= atol + ulps * ulp(pi)
//!          "rows":[k,..] restricts the comparison to those tuples (default: all)
//!  approx  {"def","dir","data","expect":[[..]],"cmp":{..},"count":n|null}
//!  params  {"def","series":{key:[alternatives: [..]]},"real":{key:[alternatives]},"flags":{key:bool},"rtol":r}
//!          keys the operator does not expose are tallied as unexposed, not judged
//!  op      {"def","ok":bool}
use geodesy::authoring::*;
use gvh::util::*;
use serde_json::{json, Value};
use std::collections::BTreeMap;
use std::io::{BufRead, Write};

fn lit(v: &Value) -> f64 {
    raw_to_f64(v)
}

fn tuples(v: &Value) -> Vec<Coor4D> {
    v.as_array()
        .map(|a| {
            a.iter()
                .map(|t| {
                    let mut c = [0.0, 0.0, 0.0, 0.0];
                    if let Some(e) = t.as_array() {
                        for (i, x) in e.iter().enumerate().take(4) {
                            c[i] = lit(x);
                        }
                    }
                    Coor4D(c)
                })
                .collect()
        })
        .unwrap_or_default()
}

fn show(d: &[Coor4D]) -> Value {
    hexdata(d)
}

fn ulp(x: f64) -> f64 {
    let x = x.abs();
    if !x.is_finite() {
        return f64::INFINITY;
    }
    if x < f64::MIN_POSITIVE {
        return f64::MIN_POSITIVE * f64::EPSILON;
    }
    let next = f64::from_bits(x.to_bits() + 1);
    next - x
}

struct Affine {
    sub: [f64; 4],
    div: [f64; 4],
    mul: [f64; 4],
    add: [f64; 4],
}

impl Affine {
    fn from(v: &Value) -> Option<Affine> {
        if !v.is_object() {
            return None;
        }
        let get = |k: &str, d: f64| {
            let mut r = [d; 4];
            if let Some(a) = v[k].as_array() {
                for (i, x) in a.iter().enumerate().take(4) {
                    r[i] = lit(x);
                }
            }
            r
        };
        Some(Affine { sub: get("sub", 0.0), div: get("div", 1.0), mul: get("mul", 1.0), add: get("add", 0.0) })
    }
    fn apply(&self, d: &mut [Coor4D]) {
        for t in d.iter_mut() {
            for i in 0..4 {
                // identity components are left bit for bit alone
                let mut x = t[i];
                if self.sub[i] != 0.0 {
                    x -= self.sub[i];
                }
                if self.div[i] != 1.0 {
                    x /= self.div[i];
                }
                if self.mul[i] != 1.0 {
                    x *= self.mul[i];
                }
                if self.add[i] != 0.0 {
                    x += self.add[i];
                }
                t[i] = x;
            }
        }
    }
}

struct Cmp {
    modes: [String; 4],
    tol: f64,
    atol: f64,
    ulps: f64,
    mag: f64,
    count: bool,
    rows: Option<Vec<usize>>,
}

impl Cmp {
    fn from(v: &Value) -> Cmp {
        let mut modes = ["bits".to_string(), "bits".to_string(), "bits".to_string(), "bits".to_string()];
        if let Some(a) = v["modes"].as_array() {
            for (i, m) in a.iter().enumerate().take(4) {
                modes[i] = m.as_str().unwrap_or("bits").to_string();
            }
        }
        Cmp {
            modes,
            tol: v["tol"].as_f64().unwrap_or(0.0),
            atol: v["atol"].as_f64().unwrap_or(0.0),
            ulps: v["ulps"].as_f64().unwrap_or(0.0),
            mag: v["mag"].as_f64().unwrap_or(0.0),
            count: v["count"].as_bool() != Some(false),
            rows: v["rows"].as_array().map(|a| a.iter().map(|x| x.as_u64().unwrap_or(0) as usize).collect()),
        }
    }

    /// None if a and b agree under mode i, else the discrepancy
    fn differ(&self, i: usize, a: f64, b: f64) -> Option<f64> {
        match self.modes[i].as_str() {
            "skip" => None,
            "bits" => {
                if bits_eq(a, b) {
                    None
                } else {
                    Some((a - b).abs())
                }
            }
            m => {
                if a.is_nan() && b.is_nan() {
                    return None;
                }
                if a.is_nan() || b.is_nan() {
                    return Some(f64::NAN);
                }
                if a == b {
                    return None;
                }
                let (d, lim) = if m == "ang" {
                    let two_pi = 2.0 * std::f64::consts::PI;
                    let mut d = (a - b) % two_pi;
                    if d > std::f64::consts::PI {
                        d -= two_pi;
                    }
                    if d < -std::f64::consts::PI {
                        d += two_pi;
                    }
                    (d.abs(), self.atol + self.ulps * ulp(std::f64::consts::PI))
                } else {
                    let mag = a.abs().max(b.abs()).max(self.mag);
                    ((a - b).abs(), self.tol + self.ulps * ulp(mag))
                };
                if d <= lim {
                    None
                } else {
                    Some(d)
                }
            }
        }
    }

    /// first disagreement between two sets
    fn sets(&self, a: &[Coor4D], b: &[Coor4D]) -> Option<Value> {
        if a.len() != b.len() {
            return Some(json!({"why":"length","a":a.len(),"b":b.len()}));
        }
        for k in 0..a.len() {
            if let Some(rows) = &self.rows {
                if !rows.contains(&k) {
                    continue;
                }
            }
            for i in 0..4 {
                if let Some(d) = self.differ(i, a[k][i], b[k][i]) {
                    return Some(json!({"tuple":k,"element":i,"a":if a[k][i].is_nan() {json!("NaN")} else {json!(a[k][i])},
                        "b":if b[k][i].is_nan() {json!("NaN")} else {json!(b[k][i])},
                        "difference": if d.is_nan() {json!("NaN")} else {json!(d)}}));
                }
            }
        }
        None
    }
}

struct Runner {
    ctx: Minimal,
    handles: BTreeMap<String, Result<OpHandle, String>>,
    evals: usize,
    cases: usize,
    fails: Vec<Value>,
    unexposed: BTreeMap<String, usize>,
    exposed: usize,
}

enum Applied {
    Ok(usize, Vec<Coor4D>),
    Rejected(String),
    Panic(String),
}

impl Runner {
    fn new() -> Runner {
        Runner { ctx: Minimal::default(), handles: BTreeMap::new(), evals: 0, cases: 0, fails: vec![], unexposed: BTreeMap::new(), exposed: 0 }
    }

    fn renew(&mut self) {
        self.ctx = Minimal::default();
        self.handles.clear();
    }

    /// Ok(handle) | Err("rejected: ..") | Err("panic: ..")
    fn op(&mut self, def: &str) -> Result<OpHandle, String> {
        if let Some(h) = self.handles.get(def) {
            return h.clone();
        }
        self.evals += 1;
        let ctx = &mut self.ctx;
        let r = match guarded(|| ctx.op(def).map_err(|e| format!("{e:?}"))) {
            Err(p) => Err(format!("panic: {p}")),
            Ok(Err(e)) => Err(format!("rejected: {e}")),
            Ok(Ok(h)) => Ok(h),
        };
        self.handles.insert(def.to_string(), r.clone());
        r
    }

    fn apply(&mut self, route: &Value, input: &[Coor4D]) -> Applied {
        let def = route["def"].as_str().unwrap_or("");
        let dir = dir_of(route["dir"].as_str().unwrap_or("F"));
        let h = match self.op(def) {
            Ok(h) => h,
            Err(e) if e.starts_with("panic") => return Applied::Panic(e),
            Err(e) => return Applied::Rejected(e),
        };
        let mut d = input.to_vec();
        self.evals += 1;
        let ctx = &self.ctx;
        match guarded(|| ctx.apply(h, dir, &mut d).map_err(|e| format!("{e:?}"))) {
            Err(p) => Applied::Panic(format!("panic: {p}")),
            Ok(Err(e)) => Applied::Rejected(format!("apply error: {e}")),
            Ok(Ok(n)) => Applied::Ok(n, d),
        }
    }

    fn fail(&mut self, case: &Value, what: &str, detail: Value) {
        if self.fails.len() < 5000 {
            self.fails.push(json!({"id": case["id"], "tag": case["tag"], "what": what, "detail": detail, "case": case}));
        } else {
            self.fails.push(json!({"what":"more"}));
        }
    }

    fn rel(&mut self, c: &Value) {
        let mut input = tuples(&c["data"]);
        if c["seed"].is_object() {
            match self.apply(&c["seed"], &input) {
                Applied::Ok(_, d) => {
                    input = d.into_iter().filter(|t| !t.0.iter().any(|x| x.is_nan())).collect();
                }
                Applied::Rejected(e) => return self.fail(c, "seed_rejected", json!(e)),
                Applied::Panic(e) => return self.fail(c, "panic", json!(e)),
            }
        }
        let cmp = Cmp::from(&c["cmp"]);
        let (na, a) = match self.apply(&c["a"], &input) {
            Applied::Ok(n, d) => (n, d),
            Applied::Rejected(e) => return self.fail(c, "a_rejected", json!(e)),
            Applied::Panic(e) => return self.fail(c, "panic", json!({"route":"a","msg":e})),
        };
        let mut input_b = if c["data_b"].is_array() { tuples(&c["data_b"]) } else { input.clone() };
        if let Some(pre) = Affine::from(&c["pre_b"]) {
            pre.apply(&mut input_b);
        }
        let (nb, mut b) = match self.apply(&c["b"], &input_b) {
            Applied::Ok(n, d) => (n, d),
            Applied::Rejected(e) => return self.fail(c, "b_rejected", json!(e)),
            Applied::Panic(e) => return self.fail(c, "panic", json!({"route":"b","msg":e})),
        };
        if let Some(post) = Affine::from(&c["post_b"]) {
            post.apply(&mut b);
        }
        if let Some(d) = cmp.sets(&a, &b) {
            return self.fail(c, "relation", json!({"first":d,"input":show(&input),"input_b":show(&input_b),"a_out":show(&a),"b_out_related":show(&b)}));
        }
        if cmp.count && na != nb {
            self.fail(c, "count", json!({"a":na,"b":nb}));
        }
    }

    fn approx(&mut self, c: &Value) {
        let input = tuples(&c["data"]);
        let want = tuples(&c["expect"]);
        let cmp = Cmp::from(&c["cmp"]);
        let route = json!({"def": c["def"], "dir": c["dir"]});
        let (n, got) = match self.apply(&route, &input) {
            Applied::Ok(n, d) => (n, d),
            Applied::Rejected(e) => return self.fail(c, "rejected", json!(e)),
            Applied::Panic(e) => return self.fail(c, "panic", json!(e)),
        };
        if let Some(d) = cmp.sets(&want, &got) {
            return self.fail(c, "value", json!({"first":d,"expected":show(&want),"observed":show(&got)}));
        }
        if let Some(k) = c["count"].as_u64() {
            if k as usize != n {
                self.fail(c, "count", json!({"expected":k,"observed":n}));
            }
        }
    }

    fn params(&mut self, c: &Value) {
        let def = c["def"].as_str().unwrap_or("");
        let h = match self.op(def) {
            Ok(h) => h,
            Err(e) => return self.fail(c, if e.starts_with("panic") { "panic" } else { "rejected" }, json!(e)),
        };
        self.evals += 1;
        let ctx = &self.ctx;
        let p = match guarded(|| ctx.params(h, 0).map_err(|e| format!("{e:?}"))) {
            Err(m) => return self.fail(c, "panic", json!({"api":"params","msg":m})),
            Ok(Err(e)) => return self.fail(c, "params_error", json!(e)),
            Ok(Ok(p)) => p,
        };
        let rtol = c["rtol"].as_f64().unwrap_or(0.0);
        let close = |w: f64, g: f64| w == g || (w - g).abs() <= rtol * w.abs().max(g.abs());
        let empty = serde_json::Map::new();
        for (key, alts) in c["series"].as_object().unwrap_or(&empty) {
            let Some(got) = p.series.get(key.as_str()) else {
                *self.unexposed.entry(format!("series {key}")).or_insert(0) += 1;
                continue;
            };
            self.exposed += 1;
            let ok = alts.as_array().map(|a| {
                a.iter().any(|alt| {
                    let w: Vec<f64> = alt.as_array().map(|x| x.iter().map(lit).collect()).unwrap_or_default();
                    w.len() == got.len() && w.iter().zip(got.iter()).all(|(x, y)| close(*x, *y))
                })
            });
            if ok != Some(true) {
                self.fail(c, "param", json!({"key":key,"expected_one_of":alts,"observed":got}));
            }
        }
        for (key, alts) in c["real"].as_object().unwrap_or(&empty) {
            let Some(got) = p.real.get(key.as_str()) else {
                *self.unexposed.entry(format!("real {key}")).or_insert(0) += 1;
                continue;
            };
            self.exposed += 1;
            let ok = alts.as_array().map(|a| a.iter().any(|w| close(lit(w), *got)));
            if ok != Some(true) {
                self.fail(c, "param", json!({"key":key,"expected_one_of":alts,"observed":got}));
            }
        }
        for (key, want) in c["flags"].as_object().unwrap_or(&empty) {
            let got = p.boolean.contains(key.as_str());
            self.exposed += 1;
            if Some(got) != want.as_bool() {
                self.fail(c, "param", json!({"key":key,"expected":want,"observed":got}));
            }
        }
    }

    fn opcase(&mut self, c: &Value) {
        let def = c["def"].as_str().unwrap_or("");
        let r = self.op(def);
        match (r, c["ok"].as_bool()) {
            (Err(e), _) if e.starts_with("panic") => self.fail(c, "panic", json!(e)),
            (Err(e), Some(true)) => self.fail(c, "op_should_succeed", json!(e)),
            (Ok(_), Some(false)) => self.fail(c, "op_should_fail", json!(def)),
            _ => {}
        }
    }
}

fn replay(input: &str, output: &str) -> i32 {
    quiet_panics();
    let f = std::fs::File::open(input).expect("cannot open input");
    let mut w = std::io::BufWriter::new(std::fs::File::create(output).expect("cannot create output"));
    let mut r = Runner::new();
    for line in std::io::BufReader::new(f).lines() {
        let line = line.unwrap();
        if line.trim().is_empty() {
            continue;
        }
        let c: Value = serde_json::from_str(&line).expect("bad case json");
        r.cases += 1;
        match c["k"].as_str().unwrap_or("") {
            "rel" => r.rel(&c),
            "approx" => r.approx(&c),
            "params" => r.params(&c),
            "op" => r.opcase(&c),
            other => {
                eprintln!("unknown case kind {other:?}");
                return 2;
            }
        }
        // keep the registry small
        if r.handles.len() > 400 {
            r.renew();
        }
    }
    for fl in &r.fails {
        writeln!(w, "{}", fl).unwrap();
    }
    writeln!(w, "{}", json!({"summary":true,"cases":r.cases,"evaluations":r.evals,"mismatching":r.fails.len(),
        "unexposed":r.unexposed,"params_compared":r.exposed})).unwrap();
    println!("rel: {} cases, {} evaluations, {} mismatches", r.cases, r.evals, r.fails.len());
    if r.fails.is_empty() { 0 } else { 1 }
}

fn main() {
    let args: Vec<String> = std::env::args().collect();
    let a: Vec<&str> = args.iter().map(|s| s.as_str()).collect();
    let code = match (a.get(1).copied(), a.len()) {
        (Some("replay"), 4) => replay(a[2], a[3]),
        _ => {
            eprintln!("usage: gvh_rel replay <in.ndjson> <out.ndjson>");
            2
        }
    };
    std::process::exit(code);
}
