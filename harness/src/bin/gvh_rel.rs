//! gvh_rel — relational / approximate replayer for C07 (helmert) and C13
//! (projection parameter conventions).
//!
//! The specifications (spec/Helmert.tla, spec/ProjParams.tla) put definitions
//! into equivalence / affine-relation classes and derive integer linear forms;
//! this binary runs the real operators and checks the relation the
//! specification states.  All numbers in a case are JSON floats taken
//! literally (or "NaN").
//!
//! usage: gvh_rel replay <in.ndjson> <out.ndjson>
//!
//! Case kinds ("k"):
//!  rel     {"a":{"def","dir"}, "b":{"def","dir"}, "data":[[..]],
//!           "seed":{"def","dir"}            (optional: data := seed applied to data, tuples turning NaN are dropped)
//!           "data_b":[[..]]                 (optional: B's input; default: pre_b applied to A's input)
//!           "pre_b":{"sub","div","mul","add"}, "post_b":{...}   (optional, element-wise ((x-sub)/div)*mul+add)
//!           "cmp":{"modes":[m,m,m,m],"tol":t,"atol":t,"ulps":n,"mag":x,"count":bool}}
//!          modes: "bits" | "lin" | "ang" (difference taken modulo 2 pi) | "skip"
//!          lin:  |a-b| <= tol  + ulps * ulp(max(|a|,|b|,mag))
//!          ang:  |a-b| <= atol + ulps * ulp(pi)
//!          "rows":[k,..] restricts the comparison to those tuples (default: all)
//!  approx  {"def","dir","data","expect":[[..]],"cmp":{..},"count":n|null}
//!  params  {"def","series":{key:[alternatives: [..]]},"real":{key:[alternatives]},"flags":{key:bool},"rtol":r}
//!          keys the operator does not expose are tallied as unexposed, not judged
//!  op      {"def","ok":bool}
//!  projdef {"def","points":[[lon,lat,0,0],..],"rows":["text|n|d|dlon|sax|say|sbx|sby|same|rel",..],"lin":{..},"ang":{..}}
//!          one definition A of spec/ProjParams.tla with its partners B: A(lon,lat) = sa + n/d*(B(lon - dlon deg, lat) - sb),
//!          expanded into one forward and one inverse `rel` case per row ("same": bit for bit, no transformation)
use geodesy::authoring::*;
use gvh::util::*;
use serde_json::{json, Value};
use std::collections::BTreeMap;
use std::io::{BufRead, Write};

fn lit(v: &Value) -> f64 {
    raw_to_f64(v)
}

fn tuples(v: &Value) -> Vec<Coor4D> {
    v.as_array()
        .map(|a| {
            a.iter()
                .map(|t| {
                    let mut c = [0.0, 0.0, 0.0, 0.0];
                    if let Some(e) = t.as_array() {
                        for (i, x) in e.iter().enumerate().take(4) {
                            c[i] = lit(x);
                        }
                    }
                    Coor4D(c)
                })
                .collect()
        })
        .unwrap_or_default()
}

fn show(d: &[Coor4D]) -> Value {
    hexdata(d)
}

fn ulp(x: f64) -> f64 {
    let x = x.abs();
    if !x.is_finite() {
        return f64::INFINITY;
    }
    if x < f64::MIN_POSITIVE {
        return f64::MIN_POSITIVE * f64::EPSILON;
    }
    let next = f64::from_bits(x.to_bits() + 1);
    next - x
}

struct Affine {
    sub: [f64; 4],
    div: [f64; 4],
    mul: [f64; 4],
    add: [f64; 4],
}

impl Affine {
    fn from(v: &Value) -> Option<Affine> {
        if !v.is_object() {
            return None;
        }
        let get = |k: &str, d: f64| {
            let mut r = [d; 4];
            if let Some(a) = v[k].as_array() {
                for (i, x) in a.iter().enumerate().take(4) {
                    r[i] = lit(x);
                }
            }
            r
        };
        Some(Affine { sub: get("sub", 0.0), div: get("div", 1.0), mul: get("mul", 1.0), add: get("add", 0.0) })
    }
    fn apply(&self, d: &mut [Coor4D]) {
        for t in d.iter_mut() {
            for i in 0..4 {
                // identity components are left bit for bit alone
                let mut x = t[i];
                if self.sub[i] != 0.0 {
                    x -= self.sub[i];
                }
                if self.div[i] != 1.0 {
                    x /= self.div[i];
                }
                if self.mul[i] != 1.0 {
                    x *= self.mul[i];
                }
                if self.add[i] != 0.0 {
                    x += self.add[i];
                }
                t[i] = x;
            }
        }
    }
}

struct Cmp {
    modes: [String; 4],
    tol: f64,
    atol: f64,
    ulps: f64,
    mag: f64,
    count: bool,
    rows: Option<Vec<usize>>,
}

impl Cmp {
    fn from(v: &Value) -> Cmp {
        let mut modes = ["bits".to_string(), "bits".to_string(), "bits".to_string(), "bits".to_string()];
        if let Some(a) = v["modes"].as_array() {
            for (i, m) in a.iter().enumerate().take(4) {
                modes[i] = m.as_str().unwrap_or("bits").to_string();
            }
        }
        Cmp {
            modes,
            tol: v["tol"].as_f64().unwrap_or(0.0),
            atol: v["atol"].as_f64().unwrap_or(0.0),
            ulps: v["ulps"].as_f64().unwrap_or(0.0),
            mag: v["mag"].as_f64().unwrap_or(0.0),
            count: v["count"].as_bool() != Some(false),
            rows: v["rows"].as_array().map(|a| a.iter().map(|x| x.as_u64().unwrap_or(0) as usize).collect()),
        }
    }

    /// None if a and b agree under mode i, else the discrepancy
    fn differ(&self, i: usize, a: f64, b: f64) -> Option<f64> {
        match self.modes[i].as_str() {
            "skip" => None,
            "bits" => {
                if bits_eq(a, b) {
                    None
                } else {
                    Some((a - b).abs())
                }
            }
            m => {
                if a.is_nan() && b.is_nan() {
                    return None;
                }
                if a.is_nan() || b.is_nan() {
                    return Some(f64::NAN);
                }
                if a == b {
                    return None;
                }
                let (d, lim) = if m == "ang" {
                    let two_pi = 2.0 * std::f64::consts::PI;
                    let mut d = (a - b) % two_pi;
                    if d > std::f64::consts::PI {
                        d -= two_pi;
                    }
                    if d < -std::f64::consts::PI {
                        d += two_pi;
                    }
                    (d.abs(), self.atol + self.ulps * ulp(std::f64::consts::PI))
                } else {
                    let mag = a.abs().max(b.abs()).max(self.mag);
                    ((a - b).abs(), self.tol + self.ulps * ulp(mag))
                };
                if d <= lim {
                    None
                } else {
                    Some(d)
                }
            }
        }
    }

    /// first disagreement between two sets
    fn sets(&self, a: &[Coor4D], b: &[Coor4D]) -> Option<Value> {
        if a.len() != b.len() {
            return Some(json!({"why":"length","a":a.len(),"b":b.len()}));
        }
        for k in 0..a.len() {
            if let Some(rows) = &self.rows {
                if !rows.contains(&k) {
                    continue;
                }
            }
            for i in 0..4 {
                if let Some(d) = self.differ(i, a[k][i], b[k][i]) {
                    return Some(json!({"tuple":k,"element":i,"a":if a[k][i].is_nan() {json!("NaN")} else {json!(a[k][i])},
                        "b":if b[k][i].is_nan() {json!("NaN")} else {json!(b[k][i])},
                        "difference": if d.is_nan() {json!("NaN")} else {json!(d)}}));
                }
            }
        }
        None
    }
}

struct Runner {
    ctx: Minimal,
    handles: BTreeMap<String, Result<OpHandle, String>>,
    evals: usize,
    cases: usize,
    fails: Vec<Value>,
    unexposed: BTreeMap<String, usize>,
    exposed: usize,
    per_class: BTreeMap<String, usize>,
    mismatching: usize,
}

enum Applied {
    Ok(usize, Vec<Coor4D>),
    Rejected(String),
    Panic(String),
}

impl Runner {
    fn new() -> Runner {
        Runner { ctx: Minimal::default(), handles: BTreeMap::new(), evals: 0, cases: 0, fails: vec![], unexposed: BTreeMap::new(), exposed: 0, per_class: BTreeMap::new(), mismatching: 0 }
    }

    fn renew(&mut self) {
        self.ctx = Minimal::default();
        self.handles.clear();
    }

    /// Ok(handle) | Err("rejected: ..") | Err("panic: ..")
    fn op(&mut self, def: &str) -> Result<OpHandle, String> {
        if let Some(h) = self.handles.get(def) {
            return h.clone();
        }
        self.evals += 1;
        let ctx = &mut self.ctx;
        let r = match guarded(|| ctx.op(def).map_err(|e| format!("{e:?}"))) {
            Err(p) => Err(format!("panic: {p}")),
            Ok(Err(e)) => Err(format!("rejected: {e}")),
            Ok(Ok(h)) => Ok(h),
        };
        self.handles.insert(def.to_string(), r.clone());
        r
    }

    fn apply(&mut self, route: &Value, input: &[Coor4D]) -> Applied {
        let def = route["def"].as_str().unwrap_or("");
        let dir = dir_of(route["dir"].as_str().unwrap_or("F"));
        let h = match self.op(def) {
            Ok(h) => h,
            Err(e) if e.starts_with("panic") => return Applied::Panic(e),
            Err(e) => return Applied::Rejected(e),
        };
        let mut d = input.to_vec();
        self.evals += 1;
        let ctx = &self.ctx;
        match guarded(|| ctx.apply(h, dir, &mut d).map_err(|e| format!("{e:?}"))) {
            Err(p) => Applied::Panic(format!("panic: {p}")),
            Ok(Err(e)) => Applied::Rejected(format!("apply error: {e}")),
            Ok(Ok(n)) => Applied::Ok(n, d),
        }
    }

    fn fail(&mut self, case: &Value, what: &str, detail: Value) {
        // at most 1500 recorded per class of case (tag, operators involved), so that one flood does not hide another class
        let first = |v: &Value| v.as_str().unwrap_or("").split_whitespace().next().unwrap_or("").to_string();
        let key = format!("{}|{}|{}|{}", case["tag"].as_str().unwrap_or(""), what,
            first(if case["a"].is_object() { &case["a"]["def"] } else { &case["def"] }), first(&case["b"]["def"]));
        let n = self.per_class.entry(key).or_insert(0);
        *n += 1;
        self.mismatching += 1;
        if *n <= 1500 {
            self.fails.push(json!({"id": case["id"], "tag": case["tag"], "what": what, "detail": detail, "case": case}));
        }
    }

    fn rel(&mut self, c: &Value) {
        let mut input = tuples(&c["data"]);
        if c["seed"].is_object() {
            match self.apply(&c["seed"], &input) {
                Applied::Ok(_, d) => {
                    input = d.into_iter().filter(|t| !t.0.iter().any(|x| x.is_nan())).collect();
                }
                Applied::Rejected(e) => return self.fail(c, "seed_rejected", json!(e)),
                Applied::Panic(e) => return self.fail(c, "panic", json!(e)),
            }
        }
        let cmp = Cmp::from(&c["cmp"]);
        let (na, a) = match self.apply(&c["a"], &input) {
            Applied::Ok(n, d) => (n, d),
            Applied::Rejected(e) => return self.fail(c, "a_rejected", json!(e)),
            Applied::Panic(e) => return self.fail(c, "panic", json!({"route":"a","msg":e})),
        };
        let mut input_b = if c["data_b"].is_array() { tuples(&c["data_b"]) } else { input.clone() };
        if let Some(pre) = Affine::from(&c["pre_b"]) {
            pre.apply(&mut input_b);
        }
        let (nb, mut b) = match self.apply(&c["b"], &input_b) {
            Applied::Ok(n, d) => (n, d),
            Applied::Rejected(e) => return self.fail(c, "b_rejected", json!(e)),
            Applied::Panic(e) => return self.fail(c, "panic", json!({"route":"b","msg":e})),
        };
        if let Some(post) = Affine::from(&c["post_b"]) {
            post.apply(&mut b);
        }
        if let Some(d) = cmp.sets(&a, &b) {
            return self.fail(c, "relation", json!({"first":d,"input":show(&input),"input_b":show(&input_b),"a_out":show(&a),"b_out_related":show(&b)}));
        }
        if cmp.count && na != nb {
            self.fail(c, "count", json!({"a":na,"b":nb}));
        }
    }

    fn approx(&mut self, c: &Value) {
        let input = tuples(&c["data"]);
        let want = tuples(&c["expect"]);
        let cmp = Cmp::from(&c["cmp"]);
        let route = json!({"def": c["def"], "dir": c["dir"]});
        let (n, got) = match self.apply(&route, &input) {
            Applied::Ok(n, d) => (n, d),
            Applied::Rejected(e) => return self.fail(c, "rejected", json!(e)),
            Applied::Panic(e) => return self.fail(c, "panic", json!(e)),
        };
        if let Some(d) = cmp.sets(&want, &got) {
            return self.fail(c, "value", json!({"first":d,"expected":show(&want),"observed":show(&got)}));
        }
        if let Some(k) = c["count"].as_u64() {
            if k as usize != n {
                self.fail(c, "count", json!({"expected":k,"observed":n}));
            }
        }
    }

    /// exact-mode Helmert: the linear part is `scale` times a proper rotation.  The images of
    /// origin + L*e1, + L*e2, + L*e3 minus the image of origin are the columns of the linear part.
    fn iso(&mut self, c: &Value) {
        let o = tuples(&json!([c["origin"]]))[0];
        let l = c["L"].as_f64().unwrap_or(1e6);
        let want = c["scale"].as_f64().unwrap_or(1.0);
        let tol = c["tol"].as_f64().unwrap_or(1e-12);
        let mut input = vec![o; 4];
        for i in 0..3 {
            input[i + 1][i] += l;
        }
        let route = json!({"def": c["def"], "dir": c["dir"]});
        let (n, out) = match self.apply(&route, &input) {
            Applied::Ok(n, d) => (n, d),
            Applied::Rejected(e) => return self.fail(c, "rejected", json!(e)),
            Applied::Panic(e) => return self.fail(c, "panic", json!(e)),
        };
        if n != 4 {
            return self.fail(c, "count", json!({"expected":4,"observed":n}));
        }
        let col = |i: usize| [(out[i + 1][0] - out[0][0]) / l, (out[i + 1][1] - out[0][1]) / l, (out[i + 1][2] - out[0][2]) / l];
        let m = [col(0), col(1), col(2)];
        let dot = |a: &[f64; 3], b: &[f64; 3]| a[0] * b[0] + a[1] * b[1] + a[2] * b[2];
        let mut worst = 0.0_f64;
        let mut what = String::new();
        for i in 0..3 {
            for j in i..3 {
                let g = dot(&m[i], &m[j]);
                let e = if i == j { (g.sqrt() - want).abs() / want } else { g.abs() / (want * want) };
                if !(e <= worst) {
                    worst = e;
                    what = if i == j { format!("length of the image of axis {}", i + 1) } else { format!("angle between the images of axes {} and {}", i + 1, j + 1) };
                }
            }
        }
        let det = m[0][0] * (m[1][1] * m[2][2] - m[1][2] * m[2][1]) - m[0][1] * (m[1][0] * m[2][2] - m[1][2] * m[2][0])
            + m[0][2] * (m[1][0] * m[2][1] - m[1][1] * m[2][0]);
        if !(worst <= tol) {
            return self.fail(c, "not a similarity", json!({"worst": what, "relative_error": if worst.is_nan() {json!("NaN")} else {json!(worst)},
                "scale_expected": want, "columns": m.iter().map(|c| c.to_vec()).collect::<Vec<_>>(), "output": show(&out)}));
        }
        if !(det > 0.0) {
            return self.fail(c, "orientation reversed", json!({"determinant": det}));
        }
        for k in 0..4 {
            if !bits_eq(out[k][3], input[k][3]) {
                return self.fail(c, "fourth element touched", json!({"tuple": k}));
            }
        }
    }

    /// small-angle Helmert: inverse after forward leaves at most |r|^2 |x| (plus rounding)
    fn second(&mut self, c: &Value) {
        let input = tuples(&c["data"]);
        let r2 = c["r2"].as_f64().unwrap_or(0.0);
        let fwd = match self.apply(&json!({"def": c["def"], "dir": "F"}), &input) {
            Applied::Ok(_, d) => d,
            Applied::Rejected(e) => return self.fail(c, "rejected", json!(e)),
            Applied::Panic(e) => return self.fail(c, "panic", json!(e)),
        };
        let back = match self.apply(&json!({"def": c["def"], "dir": "I"}), &fwd) {
            Applied::Ok(_, d) => d,
            Applied::Rejected(e) => return self.fail(c, "rejected", json!(e)),
            Applied::Panic(e) => return self.fail(c, "panic", json!(e)),
        };
        for k in 0..input.len() {
            let x = input[k];
            let norm = (x[0] * x[0] + x[1] * x[1] + x[2] * x[2]).sqrt();
            let res = ((back[k][0] - x[0]).powi(2) + (back[k][1] - x[1]).powi(2) + (back[k][2] - x[2]).powi(2)).sqrt();
            let lim = 1.001 * r2 * norm + 1e-8;
            if !(res <= lim) {
                return self.fail(c, "round trip beyond second order", json!({"tuple": k, "residual_m": if res.is_nan() {json!("NaN")} else {json!(res)},
                    "bound_m": lim, "input": show(&input), "forward": show(&fwd), "back": show(&back)}));
            }
            if !bits_eq(back[k][3], x[3]) {
                return self.fail(c, "fourth element touched", json!({"tuple": k}));
            }
        }
    }

    fn params(&mut self, c: &Value) {
        let def = c["def"].as_str().unwrap_or("");
        let h = match self.op(def) {
            Ok(h) => h,
            Err(e) => return self.fail(c, if e.starts_with("panic") { "panic" } else { "rejected" }, json!(e)),
        };
        self.evals += 1;
        let ctx = &self.ctx;
        let p = match guarded(|| ctx.params(h, 0).map_err(|e| format!("{e:?}"))) {
            Err(m) => return self.fail(c, "panic", json!({"api":"params","msg":m})),
            Ok(Err(e)) => return self.fail(c, "params_error", json!(e)),
            Ok(Ok(p)) => p,
        };
        let rtol = c["rtol"].as_f64().unwrap_or(0.0);
        let close = |w: f64, g: f64| w == g || (w - g).abs() <= rtol * w.abs().max(g.abs());
        let empty = serde_json::Map::new();
        for (key, alts) in c["series"].as_object().unwrap_or(&empty) {
            let Some(got) = p.series.get(key.as_str()) else {
                *self.unexposed.entry(format!("series {key}")).or_insert(0) += 1;
                continue;
            };
            self.exposed += 1;
            let ok = alts.as_array().map(|a| {
                a.iter().any(|alt| {
                    let w: Vec<f64> = alt.as_array().map(|x| x.iter().map(lit).collect()).unwrap_or_default();
                    w.len() == got.len() && w.iter().zip(got.iter()).all(|(x, y)| close(*x, *y))
                })
            });
            if ok != Some(true) {
                self.fail(c, "param", json!({"key":key,"expected_one_of":alts,"observed":got}));
            }
        }
        for (key, alts) in c["real"].as_object().unwrap_or(&empty) {
            let Some(got) = p.real.get(key.as_str()) else {
                *self.unexposed.entry(format!("real {key}")).or_insert(0) += 1;
                continue;
            };
            self.exposed += 1;
            let ok = alts.as_array().map(|a| a.iter().any(|w| close(lit(w), *got)));
            if ok != Some(true) {
                self.fail(c, "param", json!({"key":key,"expected_one_of":alts,"observed":got}));
            }
        }
        for (key, want) in c["flags"].as_object().unwrap_or(&empty) {
            let got = p.boolean.contains(key.as_str());
            self.exposed += 1;
            if Some(got) != want.as_bool() {
                self.fail(c, "param", json!({"key":key,"expected":want,"observed":got}));
            }
        }
    }

    fn projdef(&mut self, c: &Value) {
        let a = c["def"].as_str().unwrap_or("").to_string();
        let empty = vec![];
        for (ri, row) in c["rows"].as_array().unwrap_or(&empty).iter().enumerate() {
            let parts: Vec<&str> = row.as_str().unwrap_or("").split('|').collect();
            if parts.len() != 9 {
                self.fail(c, "bad_row", json!(row));
                continue;
            }
            let num = |i: usize| parts[i].parse::<f64>().unwrap_or(f64::NAN);
            let b = parts[0];
            let rho = num(1) / num(2);
            let dl = num(3).to_radians();
            let (sax, say, sbx, sby) = (num(4), num(5), num(6), num(7));
            let id = json!([c["id"], ri]);
            let (fwd, inv) = if parts[8] == "same" {
                let cmp = json!({"modes":["bits","bits","bits","bits"]});
                (json!({"id":id,"k":"rel","tag":"identical-fwd","a":{"def":a,"dir":"F"},"b":{"def":b,"dir":"F"},"data":c["points"],"cmp":cmp}),
                 json!({"id":id,"k":"rel","tag":"identical-inv","seed":{"def":a,"dir":"F"},"a":{"def":a,"dir":"I"},"b":{"def":b,"dir":"I"},
                        "data":c["points"],"cmp":cmp}))
            } else {
                let mut lin = c["lin"].clone();
                lin["modes"] = json!(["lin","lin","skip","skip"]);
                let origin = c["origin"].as_f64().unwrap_or(0.0) * rho.max(1.0);
                lin["mag"] = json!(sax.abs().max(say.abs()).max(sbx.abs()).max(sby.abs()).max(origin));
                if num(3) != 0.0 {
                    // lon - lon_0 is rounded at the magnitude of the longitudes: a few ulp(pi) radians on the ground
                    let extra = c["ground"].as_f64().unwrap_or(0.0) * c["lin"]["lon_ulps"].as_f64().unwrap_or(0.0) * ulp(std::f64::consts::PI);
                    lin["tol"] = json!(lin["tol"].as_f64().unwrap_or(0.0) + extra);
                }
                let mut ang = c["ang"].clone();
                ang["modes"] = json!(["ang","ang","skip","skip"]);
                {
                    // removing a false origin rounds at its magnitude; seen from the sphere that is ulp(shift) / (k_0 * a) radians
                    let shift = sax.abs().max(say.abs()).max(sbx.abs()).max(sby.abs()).max(origin);
                    let g = c["ground"].as_f64().unwrap_or(0.0);
                    let gmin = g.min(g / rho);
                    if shift > 0.0 && gmin > 0.0 {
                        let extra = ang["ulps"].as_f64().unwrap_or(0.0) * ulp(shift) / gmin;
                        ang["atol"] = json!(ang["atol"].as_f64().unwrap_or(0.0) + extra);
                    }
                }
                (json!({"id":id,"k":"rel","tag":"affine-fwd","a":{"def":a,"dir":"F"},"b":{"def":b,"dir":"F"},"data":c["points"],
                        "pre_b":{"sub":[dl,0.0,0.0,0.0]},
                        "post_b":{"sub":[sbx,sby,0.0,0.0],"mul":[rho,rho,1.0,1.0],"add":[sax,say,0.0,0.0]},"cmp":lin,
                        "relation":{"rho":[parts[1],parts[2]],"dlon_deg":parts[3],"sa":[sax,say],"sb":[sbx,sby]}}),
                 json!({"id":id,"k":"rel","tag":"affine-inv","seed":{"def":a,"dir":"F"},"a":{"def":a,"dir":"I"},"b":{"def":b,"dir":"I"},
                        "data":c["points"],
                        "pre_b":{"sub":[sax,say,0.0,0.0],"div":[rho,rho,1.0,1.0],"add":[sbx,sby,0.0,0.0]},
                        "post_b":{"add":[dl,0.0,0.0,0.0]},"cmp":ang,
                        "relation":{"rho":[parts[1],parts[2]],"dlon_deg":parts[3],"sa":[sax,say],"sb":[sbx,sby]}}))
            };
            self.cases += 2;
            self.rel(&fwd);
            self.rel(&inv);
        }
    }

    fn opcase(&mut self, c: &Value) {
        let def = c["def"].as_str().unwrap_or("");
        let r = self.op(def);
        match (r, c["ok"].as_bool()) {
            (Err(e), _) if e.starts_with("panic") => self.fail(c, "panic", json!(e)),
            (Err(e), Some(true)) => self.fail(c, "op_should_succeed", json!(e)),
            (Ok(_), Some(false)) => self.fail(c, "op_should_fail", json!(def)),
            _ => {}
        }
    }
}

fn replay(input: &str, output: &str) -> i32 {
    quiet_panics();
    let f = std::fs::File::open(input).expect("cannot open input");
    let mut w = std::io::BufWriter::new(std::fs::File::create(output).expect("cannot create output"));
    let mut r = Runner::new();
    for line in std::io::BufReader::new(f).lines() {
        let line = line.unwrap();
        if line.trim().is_empty() {
            continue;
        }
        let c: Value = serde_json::from_str(&line).expect("bad case json");
        r.cases += 1;
        match c["k"].as_str().unwrap_or("") {
            "rel" => r.rel(&c),
            "approx" => r.approx(&c),
            "iso" => r.iso(&c),
            "second" => r.second(&c),
            "params" => r.params(&c),
            "op" => r.opcase(&c),
            "projdef" => {
                r.cases -= 1;
                r.projdef(&c)
            }
            other => {
                eprintln!("unknown case kind {other:?}");
                return 2;
            }
        }
        // keep the registry small
        if r.handles.len() > 400 {
            r.renew();
        }
    }
    for fl in &r.fails {
        writeln!(w, "{}", fl).unwrap();
    }
    writeln!(w, "{}", json!({"summary":true,"cases":r.cases,"evaluations":r.evals,"mismatching":r.mismatching,"recorded":r.fails.len(),
        "mismatches_by_class":r.per_class,"unexposed":r.unexposed,"params_compared":r.exposed})).unwrap();
    println!("rel: {} cases, {} evaluations, {} mismatches", r.cases, r.evals, r.mismatching);
    if r.fails.is_empty() { 0 } else { 1 }
}

fn main() {
    let args: Vec<String> = std::env::args().collect();
    let a: Vec<&str> = args.iter().map(|s| s.as_str()).collect();
    let code = match (a.get(1).copied(), a.len()) {
        (Some("replay"), 4) => replay(a[2], a[3]),
        (Some("ellipsoids"), _) => {
            // the code's table of built-in ellipsoid names (verification hook)
            println!("{}", json!(geodesy::verif::ellipsoid_names()));
            0
        }
        _ => {
            eprintln!("usage: gvh_rel replay <in.ndjson> <out.ndjson> | gvh_rel ellipsoids");
            2
        }
    };
    std::process::exit(code);
}
