//! Probe operators: user-defined operators registered through the public
//! `register_op` API.  Their meaning is fixed here, by the harness, and cannot
//! drift with /repo; the TLA+ specification (spec/Values.tla, StackMachine.tla,
//! Pipeline.tla) gives their exact semantics on the 1/1024 lattice.
use geodesy::authoring::*;

fn elem(op: &Op) -> usize {
    op.params.natural("e").unwrap_or(1).clamp(1, 4) - 1
}

// t_add e=<1..4> c=<integer>: adds c to element e (inverse: subtracts)
fn add_fwd(op: &Op, _ctx: &dyn Context, operands: &mut dyn CoordinateSet) -> usize {
    let e = elem(op);
    let c = op.params.integer("c").unwrap_or(1) as f64;
    let n = operands.len();
    for i in 0..n {
        let mut t = operands.get_coord(i);
        t[e] += c;
        operands.set_coord(i, &t);
    }
    n
}
fn add_inv(op: &Op, _ctx: &dyn Context, operands: &mut dyn CoordinateSet) -> usize {
    let e = elem(op);
    let c = op.params.integer("c").unwrap_or(1) as f64;
    let n = operands.len();
    for i in 0..n {
        let mut t = operands.get_coord(i);
        t[e] -= c;
        operands.set_coord(i, &t);
    }
    n
}
#[rustfmt::skip]
const ADD_GAMUT: [OpParameter; 3] = [
    OpParameter::Flag { key: "inv" },
    OpParameter::Natural { key: "e", default: Some(1) },
    OpParameter::Integer { key: "c", default: Some(1) },
];
fn add_new(p: &RawParameters, ctx: &dyn Context) -> Result<Op, Error> {
    Op::plain(p, InnerOp(add_fwd), Some(InnerOp(add_inv)), &ADD_GAMUT, ctx)
}

// t_dbl e=<1..4>: doubles element e (inverse: halves)
fn dbl_fwd(op: &Op, _ctx: &dyn Context, operands: &mut dyn CoordinateSet) -> usize {
    let e = elem(op);
    let n = operands.len();
    for i in 0..n {
        let mut t = operands.get_coord(i);
        t[e] *= 2.0;
        operands.set_coord(i, &t);
    }
    n
}
fn dbl_inv(op: &Op, _ctx: &dyn Context, operands: &mut dyn CoordinateSet) -> usize {
    let e = elem(op);
    let n = operands.len();
    for i in 0..n {
        let mut t = operands.get_coord(i);
        t[e] *= 0.5;
        operands.set_coord(i, &t);
    }
    n
}
#[rustfmt::skip]
const DBL_GAMUT: [OpParameter; 2] = [
    OpParameter::Flag { key: "inv" },
    OpParameter::Natural { key: "e", default: Some(1) },
];
fn dbl_new(p: &RawParameters, ctx: &dyn Context) -> Result<Op, Error> {
    Op::plain(p, InnerOp(dbl_fwd), Some(InnerOp(dbl_inv)), &DBL_GAMUT, ctx)
}

// t_oneway e=<1..4>: adds 1 to element e; has no inverse
fn oneway_fwd(op: &Op, _ctx: &dyn Context, operands: &mut dyn CoordinateSet) -> usize {
    let e = elem(op);
    let n = operands.len();
    for i in 0..n {
        let mut t = operands.get_coord(i);
        t[e] += 1.0;
        operands.set_coord(i, &t);
    }
    n
}
#[rustfmt::skip]
const ONEWAY_GAMUT: [OpParameter; 2] = [
    OpParameter::Flag { key: "inv" },
    OpParameter::Natural { key: "e", default: Some(1) },
];
fn oneway_new(p: &RawParameters, ctx: &dyn Context) -> Result<Op, Error> {
    Op::plain(p, InnerOp(oneway_fwd), None, &ONEWAY_GAMUT, ctx)
}

// t_oneway2 e=<1..4>: the same one-way operator, declared the way the one-way built-ins (curvature,
// gravity, deflection) are: its own gamut does not list the `inv` flag.  `inv` is a modifier of the
// step, "valid for all operators" like omit_fwd / omit_inv: an operator author does not have to list
// it for `inv` on a one-way operator to be refused (rather than silently ignored)
#[rustfmt::skip]
const ONEWAY2_GAMUT: [OpParameter; 1] = [
    OpParameter::Natural { key: "e", default: Some(1) },
];
fn oneway2_new(p: &RawParameters, ctx: &dyn Context) -> Result<Op, Error> {
    Op::plain(p, InnerOp(oneway_fwd), None, &ONEWAY2_GAMUT, ctx)
}

// t_failodd: a tuple whose first element is an odd integer fails: it is
// overwritten with NaN and not counted; all others pass unchanged and are
// counted.  Same in both directions.
fn failodd(_op: &Op, _ctx: &dyn Context, operands: &mut dyn CoordinateSet) -> usize {
    let n = operands.len();
    let mut ok = 0;
    for i in 0..n {
        let t = operands.get_coord(i);
        let odd = t[0].is_finite() && t[0].fract() == 0.0 && (t[0].abs() % 2.0) == 1.0;
        if odd || t[0].is_nan() {
            operands.set_coord(i, &Coor4D::nan());
        } else {
            ok += 1;
        }
    }
    ok
}
#[rustfmt::skip]
const FAILODD_GAMUT: [OpParameter; 1] = [OpParameter::Flag { key: "inv" }];
fn failodd_new(p: &RawParameters, ctx: &dyn Context) -> Result<Op, Error> {
    Op::plain(p, InnerOp(failodd), Some(InnerOp(failodd)), &FAILODD_GAMUT, ctx)
}

// t_drift rate=<integer> t0=<integer>: adds rate*(t - t0) to element 1, with t
// the tuple's own fourth element (the shape of a time dependent Helmert)
fn drift_fwd(op: &Op, _ctx: &dyn Context, operands: &mut dyn CoordinateSet) -> usize {
    let r = op.params.integer("rate").unwrap_or(1) as f64;
    let t0 = op.params.integer("t0").unwrap_or(0) as f64;
    let n = operands.len();
    for i in 0..n {
        let mut t = operands.get_coord(i);
        t[0] += r * (t[3] - t0);
        operands.set_coord(i, &t);
    }
    n
}
fn drift_inv(op: &Op, _ctx: &dyn Context, operands: &mut dyn CoordinateSet) -> usize {
    let r = op.params.integer("rate").unwrap_or(1) as f64;
    let t0 = op.params.integer("t0").unwrap_or(0) as f64;
    let n = operands.len();
    for i in 0..n {
        let mut t = operands.get_coord(i);
        t[0] -= r * (t[3] - t0);
        operands.set_coord(i, &t);
    }
    n
}
#[rustfmt::skip]
const DRIFT_GAMUT: [OpParameter; 3] = [
    OpParameter::Flag { key: "inv" },
    OpParameter::Integer { key: "rate", default: Some(1) },
    OpParameter::Integer { key: "t0", default: Some(0) },
];
fn drift_new(p: &RawParameters, ctx: &dyn Context) -> Result<Op, Error> {
    Op::plain(p, InnerOp(drift_fwd), Some(InnerOp(drift_inv)), &DRIFT_GAMUT, ctx)
}

// t_gamut: one key of every parameter kind; does nothing.  Used to observe
// typed parameter extraction through the public `params()` API.
fn gamut_noop(_op: &Op, _ctx: &dyn Context, operands: &mut dyn CoordinateSet) -> usize {
    operands.len()
}
#[rustfmt::skip]
pub const GAMUT_GAMUT: [OpParameter; 13] = [
    OpParameter::Flag    { key: "inv" },
    OpParameter::Flag    { key: "flag" },
    OpParameter::Natural { key: "nat",   default: Some(7) },
    OpParameter::Natural { key: "rnat",  default: None },
    OpParameter::Integer { key: "int",   default: Some(-3) },
    OpParameter::Real    { key: "real",  default: Some(1.25) },
    OpParameter::Real    { key: "rreal", default: None },
    OpParameter::Series  { key: "ser",   default: Some("1,2,3") },
    OpParameter::Series  { key: "eser",  default: Some("") },
    OpParameter::Text    { key: "text",  default: Some("dflt") },
    OpParameter::Texts   { key: "texts", default: Some("a,b") },
    OpParameter::Real    { key: "x_0",   default: Some(0.) },
    OpParameter::Real    { key: "k_0",   default: Some(1.) },
];
fn gamut_new(p: &RawParameters, ctx: &dyn Context) -> Result<Op, Error> {
    Op::plain(p, InnerOp(gamut_noop), Some(InnerOp(gamut_noop)), &GAMUT_GAMUT, ctx)
}

pub fn register_all(ctx: &mut dyn Context) {
    ctx.register_op("t_add", OpConstructor(add_new));
    ctx.register_op("t_dbl", OpConstructor(dbl_new));
    ctx.register_op("t_oneway", OpConstructor(oneway_new));
    ctx.register_op("t_oneway2", OpConstructor(oneway2_new));
    ctx.register_op("t_failodd", OpConstructor(failodd_new));
    ctx.register_op("t_drift", OpConstructor(drift_new));
    ctx.register_op("t_gamut", OpConstructor(gamut_new));
}
