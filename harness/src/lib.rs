//! gvh — the Rust side of the /verif machinery (library part): probe
//! operators, value encodings, the generic behaviour replayer and the table
//! replayer.  One binary per family of suites lives in src/bin/.
pub mod probes;
pub mod script;
pub mod tables;
pub mod util;
