//! C11: full-table replay of adapt / axisswap / unitconvert against the
//! mappings derived by spec/Adapt.tla.
//!
//! A mapping text is 4 entries of 4 chars: j (1..4), sign (+/-), deg+1, gon+1:
//!    out[i] = sign * (pi/180)^deg * (pi/200)^gon * in[j]
use crate::util::*;
use geodesy::authoring::*;
use serde_json::{json, Value};
use std::io::{BufRead, Write};

const PROBE: [f64; 4] = [0.7321, 1.9157, 523.25, 2019.375];

#[derive(Clone, Copy, Debug)]
struct Entry {
    j: usize,
    s: f64,
    deg: i32,
    gon: i32,
}

fn parse_map(t: &str) -> Option<[Entry; 4]> {
    let b = t.as_bytes();
    if b.len() != 16 {
        return None;
    }
    let mut m = [Entry { j: 0, s: 1.0, deg: 0, gon: 0 }; 4];
    for i in 0..4 {
        let e = &b[4 * i..4 * i + 4];
        m[i] = Entry {
            j: (e[0] - b'1') as usize,
            s: if e[1] == b'+' { 1.0 } else { -1.0 },
            deg: (e[2] - b'0') as i32 - 1,
            gon: (e[3] - b'0') as i32 - 1,
        };
    }
    Some(m)
}

fn factor(e: &Entry) -> f64 {
    let d = std::f64::consts::PI / 180.0;
    let g = std::f64::consts::PI / 200.0;
    let mut f = 1.0;
    match e.deg {
        1 => f *= d,
        -1 => f /= d,
        _ => {}
    }
    match e.gon {
        1 => f *= g,
        -1 => f /= g,
        _ => {}
    }
    f
}

fn close(expected: f64, observed: f64, ulps: f64) -> bool {
    if expected == observed {
        return true;
    }
    (expected - observed).abs() <= ulps * f64::EPSILON * expected.abs()
}

/// Every ratio of two of the declared angular unit factors
fn ratio_set() -> Vec<f64> {
    let u = [1.0, std::f64::consts::PI / 180.0, std::f64::consts::PI / 200.0];
    let mut r = vec![];
    for a in u {
        for b in u {
            r.push(a / b);
        }
    }
    r
}

/// strict: the unit factor is compared; otherwise only source element and sign,
/// the magnitude being *some* ratio of declared unit factors
fn check_map(input: &[f64; 4], out: &Coor4D, m: &[Entry; 4], strict: bool) -> Option<String> {
    for i in 0..4 {
        let e = &m[i];
        let base = e.s * input[e.j];
        if strict {
            let want = base * factor(e);
            let tol = if e.deg == 0 && e.gon == 0 { 0.0 } else { 4.0 };
            if !close(want, out[i], tol) {
                return Some(format!("element {}: expected {:e} (= {} * in[{}] * unit), observed {:e}", i + 1, want, e.s, e.j + 1, out[i]));
            }
        } else {
            let ok = ratio_set().iter().any(|r| close(base * r, out[i], 8.0));
            if !ok {
                return Some(format!("element {}: expected +-unit-ratio * {:e} (sign {} source element {}), observed {:e}", i + 1, input[e.j], e.s, e.j + 1, out[i]));
            }
        }
    }
    None
}

struct Runner {
    ctx: Minimal,
    fails: Vec<Value>,
    evals: usize,
    cases: usize,
    nontrivial: usize,
}

impl Runner {
    fn op(&mut self, def: &str) -> Result<Result<OpHandle, String>, String> {
        self.evals += 1;
        let ctx = &mut self.ctx;
        guarded(|| ctx.op(def).map_err(|e| format!("{e:?}")))
    }
    fn apply(&mut self, h: OpHandle, dir: Direction, t: [f64; 4]) -> Result<(usize, Coor4D), String> {
        self.evals += 1;
        let mut d = [Coor4D(t)];
        let ctx = &self.ctx;
        let n = guarded(|| ctx.apply(h, dir, &mut d))?.map_err(|e| format!("{e:?}"))?;
        Ok((n, d[0]))
    }
    fn fail(&mut self, v: Value) {
        if self.fails.len() < 2000 {
            self.fails.push(v);
        } else {
            self.fails.push(json!({"what":"more"}));
        }
    }

    fn mapping_case(&mut self, def: &str, fwd: &[Entry; 4], inv: &[Entry; 4], strict: bool, suite: &str) {
        self.cases += 1;
        if fwd.iter().enumerate().any(|(i, e)| e.j != i || e.s != 1.0 || e.deg != 0 || e.gon != 0) {
            self.nontrivial += 1;
        }
        let h = match self.op(def) {
            Err(p) => return self.fail(json!({"suite":suite,"def":def,"what":"panic","msg":p})),
            Ok(Err(e)) => return self.fail(json!({"suite":suite,"def":def,"what":"rejected","err":e})),
            Ok(Ok(h)) => h,
        };
        for (dir, m, dn) in [(Fwd, fwd, "F"), (Inv, inv, "I")] {
            match self.apply(h, dir, PROBE) {
                Err(p) => self.fail(json!({"suite":suite,"def":def,"dir":dn,"what":"panic","msg":p})),
                Ok((n, out)) => {
                    if n != 1 {
                        self.fail(json!({"suite":suite,"def":def,"dir":dn,"what":"count","observed":n}));
                    }
                    if let Some(msg) = check_map(&PROBE, &out, m, strict) {
                        self.fail(json!({"suite":suite,"def":def,"dir":dn,"what":"mapping","msg":msg,
                            "input":PROBE,"observed":out.0, "strict":strict}));
                    }
                }
            }
        }
    }

    fn expect_reject(&mut self, def: &str, suite: &str) {
        self.cases += 1;
        self.nontrivial += 1;
        match self.op(def) {
            Err(p) => self.fail(json!({"suite":suite,"def":def,"what":"panic","msg":p})),
            Ok(Ok(_)) => self.fail(json!({"suite":suite,"def":def,"what":"should_be_rejected"})),
            Ok(Err(_)) => {}
        }
    }

    /// two definitions must map the probe to bit-identical results in both directions
    fn same(&mut self, a: &str, b: &str, suite: &str) {
        self.same_dirs(a, b, suite, &["F", "I"])
    }

    fn same_dirs(&mut self, a: &str, b: &str, suite: &str, dirs: &[&str]) {
        self.cases += 1;
        let (Ok(Ok(ha)), Ok(Ok(hb))) = (self.op(a), self.op(b)) else {
            return self.fail(json!({"suite":suite,"a":a,"b":b,"what":"rejected"}));
        };
        for dn in dirs.iter().copied() {
            let ra = self.apply(ha, dir_of(dn), PROBE);
            let rb = self.apply(hb, dir_of(dn), PROBE);
            match (ra, rb) {
                (Ok((_, x)), Ok((_, y))) => {
                    if !(0..4).all(|i| bits_eq(x[i], y[i])) {
                        self.fail(json!({"suite":suite,"a":a,"b":b,"dir":dn,"what":"differ","a_out":x.0,"b_out":y.0}));
                    }
                }
                _ => self.fail(json!({"suite":suite,"a":a,"b":b,"dir":dn,"what":"panic"})),
            }
        }
    }
}

pub fn replay(input: &str, output: &str) -> i32 {
    quiet_panics();
    let f = std::fs::File::open(input).expect("cannot open input");
    let mut w = std::io::BufWriter::new(std::fs::File::create(output).expect("cannot create output"));
    let mut r = Runner { ctx: Minimal::default(), fails: vec![], evals: 0, cases: 0, nontrivial: 0 };
    let mut uncovered: Vec<String> = vec![];
    let mut spec_units: Vec<String> = vec![];
    for line in std::io::BufReader::new(f).lines() {
        let line = line.unwrap();
        if line.trim().is_empty() {
            continue;
        }
        let v: Value = serde_json::from_str(&line).expect("bad json");
        match v["t"].as_str().unwrap_or("") {
            "adapt" => {
                let from = v["from"].as_str().unwrap();
                let fu = v["fu"].as_bool().unwrap_or(false);
                for row in v["rows"].as_array().unwrap() {
                    let parts: Vec<&str> = row.as_str().unwrap().split(':').collect();
                    let (to, fm, im, u) = (parts[0], parts[1], parts[2], parts[3]);
                    let fwd = parse_map(fm).unwrap();
                    let inv = parse_map(im).unwrap();
                    let strict = fu && u == "u";
                    let def = format!("adapt from={from} to={to}");
                    r.mapping_case(&def, &fwd, &inv, strict, "adapt");
                    if from == "enuf" {
                        // adapt to=X equals adapt inv from=X
                        r.same(&format!("adapt to={to}"), &format!("adapt inv from={to}"), "adapt-to-inv-from");
                    }
                }
                // do not let the registry grow without bound
                r.ctx = Minimal::default();
            }
            "swap" => {
                let def = format!("axisswap order={}", v["order"].as_str().unwrap());
                if v["valid"].as_bool().unwrap() {
                    let fwd = parse_map(v["fwd"].as_str().unwrap()).unwrap();
                    let inv = parse_map(v["inv"].as_str().unwrap()).unwrap();
                    r.mapping_case(&def, &fwd, &inv, true, "axisswap");
                    // the mappings axisswap shares with adapt: exactly the same result
                    let d = v["descr"].as_str().unwrap_or("");
                    if !d.is_empty() {
                        r.same(&def, &format!("adapt to={d}"), "axisswap-adapt");
                    }
                } else {
                    r.expect_reject(&def, "axisswap");
                }
                if r.cases % 2000 == 0 {
                    r.ctx = Minimal::default();
                }
            }
            "same" => {
                // "fwd": only the forward mappings are shared (two operators' inverses of a
                // scaling need not round identically); default: both directions
                if v["dirs"] == "F" {
                    r.same_dirs(v["a"].as_str().unwrap(), v["b"].as_str().unwrap(), "shared-mapping", &["F"]);
                } else {
                    r.same(v["a"].as_str().unwrap(), v["b"].as_str().unwrap(), "shared-mapping");
                }
            }
            "word" => {
                let wv = v["valid"].as_bool().unwrap();
                let wtext = v["w"].as_str().unwrap();
                for s in v["good"].as_array().unwrap() {
                    let def = format!("adapt from={}{}", wtext, s.as_str().unwrap());
                    if wv {
                        r.cases += 1;
                        match r.op(&def) {
                            Ok(Ok(_)) => {}
                            Ok(Err(e)) => r.fail(json!({"suite":"adapt-accept","def":def,"what":"rejected","err":e})),
                            Err(p) => r.fail(json!({"suite":"adapt-accept","def":def,"what":"panic","msg":p})),
                        }
                    } else {
                        r.expect_reject(&def, "adapt-accept");
                    }
                }
                for s in v["bad"].as_array().unwrap() {
                    let def = format!("adapt to={}{}", wtext, s.as_str().unwrap());
                    r.expect_reject(&def, "adapt-accept");
                }
                r.ctx = Minimal::default();
            }
            "unit" => {
                let a = v["a"].as_str().unwrap();
                let b = v["b"].as_str().unwrap();
                spec_units.push(a.to_string());
                let fa = &v["fa"];
                let fb = &v["fb"];
                let ratio = if v["kind"] == "ang" {
                    let f = |x: &Value| {
                        if x[1].as_f64().unwrap() == 0.0 { 1.0 } else { std::f64::consts::PI * x[0].as_f64().unwrap() / x[1].as_f64().unwrap() }
                    };
                    f(fa) / f(fb)
                } else {
                    (fa[0].as_f64().unwrap() / fa[1].as_f64().unwrap()) / (fb[0].as_f64().unwrap() / fb[1].as_f64().unwrap())
                };
                r.cases += 1;
                if a != b {
                    r.nontrivial += 1;
                }
                for (def, which) in [(format!("unitconvert xy_in={a} xy_out={b}"), 0usize), (format!("unitconvert z_in={a} z_out={b}"), 2usize)] {
                    if v["kind"] == "ang" && which == 2 {
                        continue;
                    }
                    let h = match r.op(&def) {
                        Ok(Ok(h)) => h,
                        Ok(Err(e)) => { r.fail(json!({"suite":"unitconvert","def":def,"what":"rejected","err":e})); continue }
                        Err(p) => { r.fail(json!({"suite":"unitconvert","def":def,"what":"panic","msg":p})); continue }
                    };
                    for (dir, rr, dn) in [(Fwd, ratio, "F"), (Inv, 1.0 / ratio, "I")] {
                        match r.apply(h, dir, PROBE) {
                            Err(p) => r.fail(json!({"suite":"unitconvert","def":def,"what":"panic","msg":p})),
                            Ok((cnt, out)) => {
                                if cnt != 1 {
                                    r.fail(json!({"suite":"unitconvert","def":def,"dir":dn,"what":"count","observed":cnt}));
                                }
                                let mut want = PROBE;
                                if which == 0 { want[0] *= rr; want[1] *= rr; } else { want[2] *= rr; }
                                let ok = (0..4).all(|i| close(want[i], out[i], 8.0));
                                if !ok {
                                    r.fail(json!({"suite":"unitconvert","def":def,"dir":dn,"what":"factor","expected":want,"observed":out.0}));
                                }
                            }
                        }
                    }
                }
            }
            _ => {}
        }
    }
    // drift between the specification's unit table and the code's (hook): reported, not judged
    spec_units.sort();
    spec_units.dedup();
    let mut code_names: Vec<String> = vec![];
    for (name, _) in geodesy::verif::unit_table() {
        code_names.push(name.to_string());
        if !spec_units.iter().any(|s| s == name) {
            uncovered.push(name.to_string());
        }
    }
    let mut dup = code_names.clone();
    dup.sort();
    let n0 = dup.len();
    dup.dedup();
    let duplicates = n0 - dup.len();
    for fl in &r.fails {
        writeln!(w, "{}", fl).unwrap();
    }
    writeln!(w, "{}", json!({"summary":true,"cases":r.cases,"evaluations":r.evals,"nontrivial":r.nontrivial,
        "mismatching":r.fails.len(),"uncovered_units":uncovered,"duplicate_unit_names_in_code":duplicates})).unwrap();
    println!("tables: {} cases, {} evaluations, {} mismatches", r.cases, r.evals, r.fails.len());
    if r.fails.is_empty() { 0 } else { 1 }
}
