//! Shared helpers: value encodings, context factory, panic capture.
use geodesy::authoring::*;
use serde_json::{json, Value};
use std::panic::{catch_unwind, AssertUnwindSafe};

pub const UNIT: f64 = 1024.0;

/// Model value (integer in units of 1/1024, or "NaN", or {"x": hex bits}, or a JSON float) -> f64
pub fn val_to_f64(v: &Value) -> f64 {
    match v {
        Value::String(s) if s == "NaN" => f64::NAN,
        Value::String(s) if s == "inf" => f64::INFINITY,
        Value::String(s) if s == "-inf" => f64::NEG_INFINITY,
        Value::String(s) if s.starts_with("0x") => {
            f64::from_bits(u64::from_str_radix(&s[2..], 16).unwrap_or(0))
        }
        Value::Number(n) => {
            if let Some(i) = n.as_i64() {
                i as f64 / UNIT
            } else {
                n.as_f64().unwrap_or(f64::NAN)
            }
        }
        _ => f64::NAN,
    }
}

/// Raw JSON number/“NaN” -> f64 without the 1/1024 scaling
pub fn raw_to_f64(v: &Value) -> f64 {
    match v {
        Value::String(s) if s == "NaN" => f64::NAN,
        Value::String(s) if s == "inf" => f64::INFINITY,
        Value::String(s) if s == "-inf" => f64::NEG_INFINITY,
        Value::String(s) if s.starts_with("0x") => {
            f64::from_bits(u64::from_str_radix(&s[2..], 16).unwrap_or(0))
        }
        Value::String(s) => s.parse::<f64>().unwrap_or(f64::NAN),
        Value::Number(n) => n.as_f64().unwrap_or(f64::NAN),
        _ => f64::NAN,
    }
}

pub fn tuple_from(v: &Value) -> Coor4D {
    let a = v.as_array().cloned().unwrap_or_default();
    let mut t = [0.0, 0.0, 0.0, f64::NAN];
    for (i, x) in a.iter().enumerate().take(4) {
        t[i] = val_to_f64(x);
    }
    Coor4D(t)
}

pub fn data_from(v: &Value) -> Vec<Coor4D> {
    v.as_array()
        .map(|a| a.iter().map(tuple_from).collect())
        .unwrap_or_default()
}

pub fn f64_to_val(x: f64) -> Value {
    if x.is_nan() {
        return json!("NaN");
    }
    let s = x * UNIT;
    if s.fract() == 0.0 && s.abs() < 9e15 {
        json!(s as i64)
    } else {
        json!(format!("0x{:016x}", x.to_bits()))
    }
}

pub fn data_to_val(d: &[Coor4D]) -> Value {
    Value::Array(
        d.iter()
            .map(|t| Value::Array(t.0.iter().map(|x| f64_to_val(*x)).collect()))
            .collect(),
    )
}

/// Strict: same bit pattern (any NaN equals any NaN: payload bits are not specified)
pub fn bits_eq(a: f64, b: f64) -> bool {
    (a.is_nan() && b.is_nan()) || a.to_bits() == b.to_bits()
}

/// Against a model value: the model's 0 does not carry a sign
pub fn model_eq(expected: f64, observed: f64) -> bool {
    bits_eq(expected, observed) || (expected == 0.0 && observed == 0.0)
}

pub fn data_bits_eq(a: &[Coor4D], b: &[Coor4D]) -> bool {
    a.len() == b.len()
        && a.iter()
            .zip(b.iter())
            .all(|(x, y)| (0..4).all(|i| bits_eq(x[i], y[i])))
}

pub fn hexdata(d: &[Coor4D]) -> Value {
    Value::Array(
        d.iter()
            .map(|t| {
                Value::Array(
                    t.0.iter()
                        .map(|x| {
                            if x.is_nan() {
                                json!("NaN")
                            } else {
                                json!(x)
                            }
                        })
                        .collect(),
                )
            })
            .collect(),
    )
}

/// Run `f`, turning a panic into Err(message)
pub fn guarded<T>(f: impl FnOnce() -> T) -> Result<T, String> {
    match catch_unwind(AssertUnwindSafe(f)) {
        Ok(v) => Ok(v),
        Err(e) => {
            let msg = if let Some(s) = e.downcast_ref::<&str>() {
                s.to_string()
            } else if let Some(s) = e.downcast_ref::<String>() {
                s.clone()
            } else {
                "panic".to_string()
            };
            Err(msg)
        }
    }
}

pub fn quiet_panics() {
    std::panic::set_hook(Box::new(|_| {}));
}

pub enum Ctx {
    Minimal(Minimal),
    Plain(Plain),
}

impl Ctx {
    pub fn new(kind: &str) -> Ctx {
        let mut c = match kind {
            "plain" => Ctx::Plain(Plain::new()),
            "plain_default" => Ctx::Plain(Plain::default()),
            "minimal_default" => Ctx::Minimal(Minimal::default()),
            _ => Ctx::Minimal(Minimal::new()),
        };
        crate::probes::register_all(c.get_mut());
        c
    }
    pub fn get(&self) -> &dyn Context {
        match self {
            Ctx::Minimal(m) => m,
            Ctx::Plain(p) => p,
        }
    }
    pub fn get_mut(&mut self) -> &mut dyn Context {
        match self {
            Ctx::Minimal(m) => m,
            Ctx::Plain(p) => p,
        }
    }
}

pub fn dir_of(s: &str) -> Direction {
    if s == "I" || s == "inv" {
        Inv
    } else {
        Fwd
    }
}
