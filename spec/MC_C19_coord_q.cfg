SPECIFICATION Spec
CONSTANTS
  NaN = NaN
  PInf = PInf
  NInf = NInf
  NZero = NZero
  Fine = Fine
  Huge = Huge
  Tiny = Tiny
  Modes <- ModesAll
  SetKinds <- KindsAll
  TupKinds <- TKindsAll
  N = 2
  MaxOps = 2
  SetValues <- SetVals3
  TupValues <- TupVals2
  ArithCases <- ArithQ
INVARIANTS TypeOK SetRefInv SetRoundTripInv SetMissingInv SetFrameInv StompInv TupRefInv TupRangeInv TupRoundTripInv ArithInv Emit
CHECK_DEADLOCK FALSE
