SPECIFICATION Spec
CONSTANTS
  N = 2
  MaxOmit = 0
  PipeIds <- PipeIdsAll
INVARIANTS SaneInv Emit
CHECK_DEADLOCK FALSE
