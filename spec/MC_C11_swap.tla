----------------------------- MODULE MC_C11_swap -----------------------------
(* axisswap orders, adapt descriptor acceptance, unit pairs: one state per case *)
EXTENDS Adapt
CONSTANTS MaxLen, Hi
Lo == 0 - Hi
NoSuffixS == {D \in Descriptors : D.suf = ""}
VARIABLES kind, c
Words == [1..4 -> {"e", "n", "u", "f", "w", "s", "d", "p"}]
WordValid(w) == {AxisOf(w[i]) : i \in 1..4} = 1..4
GoodSuf == {"", "_rad", "_deg", "_gon", "_any"}
BadSuf == {"_pap", "_", "_degx", "_DEG", "deg", "_rad_deg"}
LinNames == DOMAIN LinearUnits
AngNames == DOMAIN AngularUnits

InitS == /\ A = Internal /\ B = None
         /\ \/ kind = "swap" /\ c \in OrderLists(MaxLen, Lo, Hi)
            \/ kind = "word" /\ c \in Words
            \/ kind = "lin"  /\ c \in LinNames \X LinNames
            \/ kind = "ang"  /\ c \in AngNames \X AngNames
            \/ kind = "share" /\ c \in {"_deg", "_gon"} \X {"from", "to"}
NextS == UNCHANGED <<kind, c, A, B>>
SpecS == InitS /\ [][NextS]_<<kind, c, A, B>>

SwapInv == (kind = "swap" /\ ValidOrder(c)) =>
              /\ {SwapMap(c)[i].j : i \in 1..4} = 1..4
              /\ Compose(SwapMap(c), Inverse(SwapMap(c))) = Identity
\* axisswap and adapt share the mappings that are full signed permutations
SharedInv == (kind = "swap" /\ ValidOrder(c) /\ Len(c) = 4) =>
              \E D \in {X \in Descriptors : X.suf = ""} : Map(Internal, D) = SwapMap(c)
\* 442 valid orders in all (checked by the driver from the emitted records)
WordText(w) == w[1] \o w[2] \o w[3] \o w[4]
RECURSIVE OrdText(_)
OrdText(o) == IF Len(o) = 1 THEN ToString(o[1]) ELSE ToString(o[1]) \o "," \o OrdText(Tail(o))
EmitS ==
    CASE kind = "swap" -> PrintT(<<"SWAP", ToJson([order |-> OrdText(c), valid |-> ValidOrder(c),
                              fwd |-> IF ValidOrder(c) THEN MapText(SwapMap(c)) ELSE "",
                              inv |-> IF ValidOrder(c) THEN MapText(Inverse(SwapMap(c))) ELSE "",
                              descr |-> IF ValidOrder(c) /\ Len(c) = 4
                                        THEN DText(CHOOSE D \in {X \in Descriptors : X.suf = ""} : Map(Internal, D) = SwapMap(c))
                                        ELSE ""])>>)
      [] kind = "word" -> PrintT(<<"WORD", ToJson([w |-> WordText(c), valid |-> WordValid(c),
                              good |-> GoodSuf, bad |-> BadSuf])>>)
      [] kind = "lin"  -> PrintT(<<"UNIT", ToJson([kind |-> "lin", a |-> UnitText(c[1]), b |-> UnitText(c[2]),
                              fa |-> LinearUnits[c[1]], fb |-> LinearUnits[c[2]]])>>)
      \* the mappings adapt and unitconvert share: a pure angular unit change of the
      \* horizontal coordinates, Map(enuf_u, enuf) resp. its inverse
      [] kind = "share" -> LET D == [ax |-> <<1, 2, 3, 4>>, sg |-> <<1, 1, 1, 1>>, suf |-> c[1]]
                               u == IF c[1] = "_deg" THEN "deg" ELSE "grad"
                               M == IF c[2] = "from" THEN Map(D, Internal) ELSE Map(Internal, D)
                           IN PrintT(<<"SHARE", ToJson([a |-> "adapt " \o c[2] \o "=" \o DText(D),
                                  b |-> IF c[2] = "from" THEN "unitconvert xy_in=" \o u \o " xy_out=rad"
                                        ELSE "unitconvert xy_in=rad xy_out=" \o u,
                                  map |-> MapText(M)])>>)
      [] kind = "ang"  -> PrintT(<<"UNIT", ToJson([kind |-> "ang", a |-> c[1], b |-> c[2],
                              fa |-> AngularUnits[c[1]], fb |-> AngularUnits[c[2]]])>>)
=============================================================================
