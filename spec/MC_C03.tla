------------------------------- MODULE MC_C03 -------------------------------
EXTENDS Pipeline

L(k, v) == [k |-> k, v |-> [f |-> "lit", v |-> v]]
S(n, a) == [name |-> n, args |-> a, inv |-> FALSE, of |-> FALSE, oi |-> FALSE]
Mod(s, i, f, o) == [s EXCEPT !.inv = i, !.of = f, !.oi = o]

A  == S("t_add", <<L("e", 1), L("c", 1)>>)
A5 == S("t_add", <<L("e", 1), L("c", 5)>>)
B  == S("t_dbl", <<L("e", 1)>>)
C  == S("t_add", <<L("e", 2), L("c", 3)>>)
W  == S("t_oneway", <<L("e", 3)>>)
W2 == S("t_oneway2", <<L("e", 3)>>)                \* one-way, gamut without the inv flag
Z  == S("t_failodd", <<>>)
M(n) == S(n, <<>>)

Res == [n \in {"m:s", "m:p", "m:d", "m:i", "m:n", "m:w", "m:o", "m:ol", "m:xl", "m:n3", "m:n4"} |->
          CASE n = "m:s" -> <<A5>>
            [] n = "m:p" -> <<A, B>>
            [] n = "m:d" -> <<A, Mod(B, FALSE, TRUE, FALSE)>>                     \* ends in a directional step
            [] n = "m:i" -> <<Mod(B, TRUE, FALSE, FALSE), Mod(C, FALSE, FALSE, TRUE), A>>
            [] n = "m:n" -> <<Mod(M("m:p"), TRUE, FALSE, FALSE), C>>              \* nested, inverted inside
            [] n = "m:o" -> <<Mod(A5, FALSE, FALSE, TRUE)>>                       \* a one-step pipeline: a single directional step
            \* the same kind of body written without a separator (LoneSet): `t_add e=1 c=5 omit_fwd`, `m:p omit_inv`
            [] n = "m:ol" -> <<Mod(A5, FALSE, TRUE, FALSE)>>
            [] n = "m:xl" -> <<Mod(M("m:p"), FALSE, FALSE, TRUE)>>
            \* four levels of nesting (m:n4 > m:n3 > m:n > m:p) with modifiers at every level
            [] n = "m:n3" -> <<Mod(M("m:n"), TRUE, FALSE, TRUE), B>>
            [] n = "m:n4" -> <<C, Mod(M("m:n3"), TRUE, TRUE, FALSE), Mod(A5, FALSE, FALSE, TRUE)>>
            [] n = "m:w" -> <<W, A>>]                                             \* contains a one-way step
LoneSet == {"m:ol", "m:xl"}

\* (the macros of the corner instance, ProgsCorner below, are not part of the general base)
Base == {A, B, C, W, Z} \cup {M(n) : n \in {"m:s", "m:p", "m:d", "m:i", "m:n", "m:w", "m:o"}}
Mods3 == {<<i, f, o>> : i \in BOOLEAN, f \in BOOLEAN, o \in BOOLEAN}
Mods  == {m \in Mods3 : ~(m[2] /\ m[3])}           \* quick: not both omissions at once
Steps1   == {Mod(b, m[1], m[2], m[3]) : b \in Base, m \in Mods}
StepsAll == {Mod(b, m[1], m[2], m[3]) : b \in Base, m \in Mods3}
TopLevel == Steps1      \* a lone step with an omission is a pipeline of one step

Progs2 == {<<s>> : s \in TopLevel} \cup [1..2 -> Steps1]
\* thorough: three steps; the middle one carries every modifier combination
\* thorough: three steps over a mixed base of elementary steps and macros (one-way, failing, nested,
\* directional bodies), all modifier combinations incl. both omissions at once on the middle step
Base3 == {A, B, Z, W, M("m:i"), M("m:d"), M("m:n"), M("m:o")}
Steps3 == {Mod(b, m[1], m[2], m[3]) : b \in Base3, m \in Mods}
Progs3 == [1..3 -> Steps3]
\* quick: every three-step pipeline over three elementary steps and one macro, all modifier combinations
Small == {Mod(b, m[1], m[2], m[3]) : b \in {A, B, C, M("m:i")}, m \in Mods}
Progs3s == [1..3 -> Small]
\* simulation: long pipelines
LongSteps == {A, Mod(B, TRUE, FALSE, FALSE), Mod(C, FALSE, TRUE, FALSE), M("m:i"), Mod(M("m:n"), TRUE, FALSE, FALSE), Mod(Z, FALSE, FALSE, TRUE)}
ProgsLong == [1..5 -> LongSteps]

\* corners (every layout, and `inv` given twice): the one-way operator whose gamut lacks the inv flag, macro
\* bodies of one directional step written without a separator, four levels of nesting, each with every
\* modifier combination, alone (where that is decided) and next to / between partner steps; both
\* omissions on one step; inverted steps for the "twice" layout
Partner   == {A, Mod(B, TRUE, FALSE, FALSE), Mod(C, FALSE, TRUE, FALSE), Mod(M("m:i"), TRUE, FALSE, FALSE)}
NewSteps  == {Mod(b, m[1], m[2], m[3]) : b \in {W2, M("m:ol"), M("m:xl"), M("m:n4")}, m \in Mods}
BothSteps == {Mod(b, i, TRUE, TRUE) : b \in {A, W, M("m:i"), M("m:o"), M("m:ol")}, i \in BOOLEAN}
InvSteps  == {Mod(b, TRUE, m[2], m[3]) : b \in {A, B, M("m:i"), M("m:p")}, m \in Mods}
Around(X) == {<<x>> : x \in X} \cup {<<x, p>> : x \in X, p \in Partner} \cup {<<p, x>> : x \in X, p \in Partner}
ProgsCorner == {d \in Around(NewSteps) \cup {<<p, x, q>> : p \in Partner, x \in NewSteps, q \in Partner}
                      \cup Around(BothSteps) \cup {<<x>> : x \in InvSteps} \cup [1..2 -> InvSteps] : ~Undecided(d)}

\* tuple 1 passes t_failodd, tuple 2 (odd first element) fails it
D2 == << <<2 * Unit, 12 * Unit, 13 * Unit, 14 * Unit>>, <<21 * Unit, 22 * Unit, 23 * Unit, 24 * Unit>> >>
NoGlobals == <<>>
StylesAll == {"suffix", "prefix", "eqtrue", "mid", "sugar"}
\* the layouts are the subject of the general instance; the corners are written in three of them
StylesCorner == {"suffix", "sugar", "twice"}
Styles2 == {"prefix", "sugar"}
Styles1 == {"suffix"}
=============================================================================
