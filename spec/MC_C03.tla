------------------------------- MODULE MC_C03 -------------------------------
EXTENDS Pipeline

L(k, v) == [k |-> k, v |-> [f |-> "lit", v |-> v]]
S(n, a) == [name |-> n, args |-> a, inv |-> FALSE, of |-> FALSE, oi |-> FALSE]
Mod(s, i, f, o) == [s EXCEPT !.inv = i, !.of = f, !.oi = o]

A  == S("t_add", <<L("e", 1), L("c", 1)>>)
A5 == S("t_add", <<L("e", 1), L("c", 5)>>)
B  == S("t_dbl", <<L("e", 1)>>)
C  == S("t_add", <<L("e", 2), L("c", 3)>>)
W  == S("t_oneway", <<L("e", 3)>>)
Z  == S("t_failodd", <<>>)
M(n) == S(n, <<>>)

Res == [n \in {"m:s", "m:p", "m:d", "m:i", "m:n", "m:w", "m:o"} |->
          CASE n = "m:s" -> <<A5>>
            [] n = "m:p" -> <<A, B>>
            [] n = "m:d" -> <<A, Mod(B, FALSE, TRUE, FALSE)>>                     \* ends in a directional step
            [] n = "m:i" -> <<Mod(B, TRUE, FALSE, FALSE), Mod(C, FALSE, FALSE, TRUE), A>>
            [] n = "m:n" -> <<Mod(M("m:p"), TRUE, FALSE, FALSE), C>>              \* nested, inverted inside
            [] n = "m:o" -> <<Mod(A5, FALSE, FALSE, TRUE)>>                       \* a one-step pipeline: a single directional step
            [] n = "m:w" -> <<W, A>>]                                             \* contains a one-way step

Base == {A, B, C, W, Z} \cup {M(n) : n \in DOMAIN Res}
Mods3 == {<<i, f, o>> : i \in BOOLEAN, f \in BOOLEAN, o \in BOOLEAN}
Mods  == {m \in Mods3 : ~(m[2] /\ m[3])}           \* quick: not both omissions at once
Steps1   == {Mod(b, m[1], m[2], m[3]) : b \in Base, m \in Mods}
StepsAll == {Mod(b, m[1], m[2], m[3]) : b \in Base, m \in Mods3}
TopLevel == Steps1      \* a lone step with an omission is a pipeline of one step

Progs2 == {<<s>> : s \in TopLevel} \cup [1..2 -> Steps1]
\* thorough: three steps; the middle one carries every modifier combination
\* thorough: three steps over a mixed base of elementary steps and macros (one-way, failing, nested,
\* directional bodies), all modifier combinations incl. both omissions at once on the middle step
Base3 == {A, B, Z, W, M("m:i"), M("m:d"), M("m:n"), M("m:o")}
Steps3 == {Mod(b, m[1], m[2], m[3]) : b \in Base3, m \in Mods}
Progs3 == [1..3 -> Steps3]
\* quick: every three-step pipeline over three elementary steps and one macro, all modifier combinations
Small == {Mod(b, m[1], m[2], m[3]) : b \in {A, B, C, M("m:i")}, m \in Mods}
Progs3s == [1..3 -> Small]
\* simulation: long pipelines
LongSteps == {A, Mod(B, TRUE, FALSE, FALSE), Mod(C, FALSE, TRUE, FALSE), M("m:i"), Mod(M("m:n"), TRUE, FALSE, FALSE), Mod(Z, FALSE, FALSE, TRUE)}
ProgsLong == [1..5 -> LongSteps]

\* tuple 1 passes t_failodd, tuple 2 (odd first element) fails it
D2 == << <<2 * Unit, 12 * Unit, 13 * Unit, 14 * Unit>>, <<21 * Unit, 22 * Unit, 23 * Unit, 24 * Unit>> >>
NoGlobals == <<>>
StylesAll == {"suffix", "prefix", "eqtrue", "mid", "sugar"}
Styles2 == {"prefix", "sugar"}
Styles1 == {"suffix"}
=============================================================================
