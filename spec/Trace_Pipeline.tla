--------------------------- MODULE Trace_Pipeline ---------------------------
(***************************************************************************)
(* Trace validation of the application machine of Pipeline.tla (C03, C10). *)
(*                                                                         *)
(* The real pipeline operator emits, behind the verification guard, one    *)
(* `step` event per step of every pipeline level: skipped or not, the      *)
(* count the step returned, the depth of the stack after it.  A trace is   *)
(* a sequence of applications                                              *)
(*      start(prog, dir)  step*  ret(count, data)                          *)
(* and is accepted iff it is a behaviour of the small-step machine of      *)
(* Pipeline.tla for that definition: StepSkip / StepLeaf / Return match    *)
(* the step events one to one (name, skipped, count), StepEnter is silent  *)
(* (entering a nested pipeline emits nothing), and the final Return        *)
(* matches the count and operands the API call returned.  This binds what  *)
(* the API does not show: the per-step counts at every nesting level and   *)
(* which steps were passed over.                                           *)
(*                                                                         *)
(* A macro whose body is a single operator (not a pipeline) is, in the     *)
(* code, that operator itself: the frame the model opens for it emits      *)
(* nothing of its own; such trivial frames are collapsed (Trivial).        *)
(***************************************************************************)
EXTENDS MC_C03, IOUtils

Rec == ndJsonDeserialize(IOEnv.TRACE)

VARIABLE l
tvars == <<vars, l>>

E == Rec[l]
\* on the wire a NaN is the integer -2147483647
Wire(d) == [k \in 1..Len(d) |-> [j \in 1..4 |-> IF d[k][j] = -2147483647 THEN NaN ELSE d[k][j]]]
Is(e) == l <= Len(Rec) /\ Rec[l].ev = e /\ l' = l + 1

\* a level the code does not have: a macro body that is one elementary operator without
\* directional omission (the code then instantiates the operator itself, not a pipeline)
Trivial(node) == node.kind = "pipe" /\ Len(node.steps) = 1 /\ ~(node.steps[1].of \/ node.steps[1].oi)
                 /\ node.steps[1].kind = "leaf"

TInit == /\ l = 1 /\ TLCSet(1, 1)
         /\ prog = <<>> /\ style = "suffix" /\ tree = [ok |-> FALSE, why |-> "none"]
         /\ dir = "F" /\ frames = <<>> /\ data = DataC /\ result = <<>> /\ phase = "idle"

\* Context::apply(handle, dir, fresh operands)
TStart == /\ Is("start") /\ phase \in {"idle", "applied"}
          /\ prog' = E.prog /\ style' = style
          /\ tree' = Instantiate(E.prog) /\ tree'.ok
          /\ dir' = E.dir /\ result' = <<>> /\ data' = DataC
          /\ LET op == tree'.v
                 e == Eff(E.dir, op.inv)
             IN IF op.kind = "leaf" \/ Trivial(op)
                THEN /\ frames' = <<>> /\ phase' = "leaf"
                ELSE /\ frames' = << [steps |-> op.steps, d |-> e, i |-> 1, cnt |-> -1] >> /\ phase' = "run"

\* a top-level operator that is not a pipeline: no step events, just the result
TLeafRet == /\ Is("ret") /\ phase = "leaf"
            /\ LET r == BigApply(tree.v, dir, DataC)
               IN E.count = r.cnt /\ Wire(E.data) = r.data
            /\ phase' = "applied"
            /\ UNCHANGED <<prog, style, tree, dir, frames, data, result>>

TSkip == /\ Is("step") /\ E.skipped
         /\ phase = "run" /\ Top.i <= Len(Top.steps) /\ Skipped(CurStep, Top.d)
         /\ frames' = SetTop([Top EXCEPT !.i = @ + 1])
         /\ UNCHANGED <<prog, style, tree, dir, data, result, phase>>

\* an elementary step (or a macro that is one elementary operator) is applied
EffLeaf(s) == IF s.kind = "leaf" THEN [op |-> s, d |-> Eff(Top.d, s.inv)]
              ELSE [op |-> s.steps[1], d |-> Eff(Eff(Top.d, s.inv), s.steps[1].inv)]
TLeaf == /\ Is("step") /\ ~E.skipped
         /\ phase = "run" /\ Top.i <= Len(Top.steps) /\ ~Skipped(CurStep, Top.d)
         /\ (CurStep.kind = "leaf" \/ Trivial(CurStep))
         /\ LET x == EffLeaf(CurStep)
                r == Leaf(x.op, x.d, data)
            IN /\ E.name = x.op.name /\ E.count = r.cnt /\ E.depth = 0
               /\ data' = r.data
               /\ frames' = SetTop([Top EXCEPT !.i = @ + 1, !.cnt = Acc(@, r.cnt)])
         /\ UNCHANGED <<prog, style, tree, dir, result, phase>>

\* entering a nested pipeline is silent
TEnter == /\ phase = "run" /\ Top.i <= Len(Top.steps) /\ ~Skipped(CurStep, Top.d)
          /\ CurStep.kind = "pipe" /\ ~Trivial(CurStep)
          /\ frames' = Append(frames, [steps |-> CurStep.steps, d |-> Eff(Top.d, CurStep.inv), i |-> 1, cnt |-> -1])
          /\ UNCHANGED <<prog, style, tree, dir, data, result, phase, l>>

\* a nested pipeline is finished: the enclosing level logs it as one step
TReturnInner == /\ Is("step") /\ ~E.skipped
                /\ phase = "run" /\ Len(frames) > 1 /\ Top.i > Len(Top.steps)
                /\ LET c == IF Top.cnt = -1 THEN Len(data) ELSE Top.cnt
                       below == frames[Len(frames) - 1]
                   IN /\ E.count = c /\ E.name = "pipeline"
                      /\ frames' = SubSeq(frames, 1, Len(frames) - 2) \o << [below EXCEPT !.i = @ + 1, !.cnt = Acc(@, c)] >>
                /\ UNCHANGED <<prog, style, tree, dir, data, result, phase>>

\* the outermost pipeline is finished: the API call returns
TReturnTop == /\ Is("ret") /\ phase = "run" /\ Len(frames) = 1 /\ Top.i > Len(Top.steps)
              /\ LET c == IF Top.cnt = -1 THEN Len(data) ELSE Top.cnt
                 IN E.count = c /\ Wire(E.data) = data
              /\ frames' = <<>> /\ phase' = "applied"
              /\ UNCHANGED <<prog, style, tree, dir, data, result>>

TNext == TStart \/ TLeafRet \/ TSkip \/ TLeaf \/ TEnter \/ TReturnInner \/ TReturnTop
TraceSpec == TInit /\ [][TNext]_tvars

\* silent steps make the diameter useless as a measure: remember the furthest position reached
Progress == TLCSet(1, IF l > TLCGet(1) THEN l ELSE TLCGet(1))
Accepted == IF TLCGet(1) = Len(Rec) + 1 THEN TRUE
            ELSE Print(<<"REJECTED", ToJson([matched |-> TLCGet(1) - 1, total |-> Len(Rec),
                         next |-> IF TLCGet(1) <= Len(Rec) THEN Rec[TLCGet(1)] ELSE [ev |-> "none"]])>>, FALSE)
=============================================================================
