---------------------------- MODULE MC_C19_coord ----------------------------
(* Bounded instances of Coord: container kinds, value pools, call counts. *)
EXTENDS Coord

K(s, e, a) == [shape |-> s, el |-> e, ad |-> a]
Shapes == {"array", "slice", "vec"}
\* arrays, slices and vectors of the four tuple types
Plain(sh)  == {K(s, e, "none") : s \in sh, e \in {"c2", "c3", "c4", "c32"}}
\* (T, h, t) over the 2D sets it is documented for; (T, t) over 3D sets, and over
\* 2D sets (height missing: 0, epoch supplied)
HT(sh)     == {K(s, e, "ht") : s \in sh, e \in {"c2", "c32"}}
TT(sh)     == {K(s, e, "t") : s \in sh, e \in {"c3", "c2", "c32"}}
\* user containers implementing only len, dim, get_coord, set_coord
User       == {K("user", e, "none") : e \in {"u2", "u3", "u4"}} \cup {K("user", "u2", "ht"), K("user", "u3", "t")}
KindsAll   == Plain(Shapes) \cup HT(Shapes) \cup TT(Shapes) \cup User
KindsVec   == Plain({"vec"}) \cup HT({"vec"}) \cup TT({"vec"}) \cup User

TKindsAll  == {"c2", "c3", "c4", "c32", "pair", "u1", "u2", "u3", "u4", "u5"}

SV1 == <<11, 12, 13, 14>>
SV2 == <<NaN, PInf, NZero, Fine>>
SV3 == <<Fine, Huge, NInf, NaN>>
SV4 == <<21, 22, 23, 24>>
SV5 == <<Tiny, NZero, Huge, PInf>>
SetVals2 == {SV1, SV2}
SetVals3 == {SV1, SV2, SV3}
SetVals5 == {SV1, SV2, SV3, SV4, SV5}

TV1 == <<31, 32, 33, 34, 35>>
TV2 == <<NaN, PInf, NZero, Fine, NInf>>
TV3 == <<Huge, Tiny, NaN, 44, NZero>>
TupVals1 == {TV1}
TupVals2 == {TV1, TV2}
TupVals3 == {TV1, TV2, TV3}

\* numeric tuples (quarters): 1.5 -2.5 .75 0 2, ...
P1 == <<6, -10, 3, 0, 8>>
P2 == <<-4, 12, 0, 20, -2>>
P3 == <<NaN, PInf, NInf, 5, 0>>
P4 == <<PInf, NInf, 7, NaN, PInf>>
P5 == <<0, 0, PInf, NInf, 1>>
P6 == <<9, 1, -7, 4, 3>>
Nums == {P1, P2, P3, P4, P5, P6}
Zero5 == <<0, 0, 0, 0, 0>>
OpEls    == {"c2", "c3", "c4", "c32", "c2x32"}
TraitEls == {"c2", "c3", "c4", "c32", "pair", "u1", "u3", "u5"}
Arith == {[el |-> e, o |-> o, x |-> x, y |-> y, k |-> 0] :
               e \in OpEls, o \in {"add", "sub", "mul", "div"}, x \in Nums, y \in Nums}
         \cup {[el |-> e, o |-> "scale", x |-> x, y |-> Zero5, k |-> k] :
               e \in TraitEls, x \in Nums, k \in {0, 6, -2, NaN, PInf}}
         \cup {[el |-> e, o |-> "dot", x |-> x, y |-> y, k |-> 0] : e \in TraitEls, x \in Nums, y \in Nums}
         \cup {[el |-> e, o |-> o, x |-> P6, y |-> Zero5, k |-> 0] : e \in {"c2", "c3", "c4", "c32"}, o \in {"origin", "ones", "nan"}}
ArithQ == {c \in Arith : (c.x \in {P1, P3, P5} /\ c.y \in {P2, P4, P5, Zero5}) \/ c.o \in {"origin", "ones", "nan"}}
ModesAll == {"set", "tup", "arith"}
ModesST  == {"set", "tup"}
NoArith  == {}
=============================================================================
