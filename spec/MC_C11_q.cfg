SPECIFICATION Spec
CONSTANTS
  FromSet <- FromQ
  ToSet <- ToQ
INVARIANTS InverseInv ToIsInvFromInv ThroughInternalInv PermInv EmitAdapt
CHECK_DEADLOCK FALSE
