SPECIFICATION Spec
CONSTANTS
  FromSet <- FromQ
  ToSet <- SufQ
INVARIANTS InverseInv ToIsInvFromInv ThroughInternalInv PermInv EmitAdapt
CHECK_DEADLOCK FALSE
