SPECIFICATION Spec
CONSTANTS
  None = None
  Defs <- DefsT
  PairAll = TRUE
INVARIANTS ThroughCanonInv InverseInv R1Inv R2Inv R3Inv R4Inv UtmInv SphereInv LccInv NoopInv AcceptInv EmitDef
CHECK_DEADLOCK FALSE
