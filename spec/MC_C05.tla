------------------------------ MODULE MC_C05 ------------------------------
(* C05: every projection family of spec/Geometry.tla *)
EXTENDS Geometry
AllFams == Families
=============================================================================
