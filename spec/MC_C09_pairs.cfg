SPECIFICATION Spec
CONSTANTS
  Mode = "defs"
  MaxEdits = 2
  Wraps <- AllWraps
  OpFilter <- NoFilter
  ClassStride = 1
  CoordArity = 2
  FnVary = 1
  Commit = FALSE
INVARIANTS Emit
CHECK_DEADLOCK FALSE
