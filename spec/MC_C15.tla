------------------------------- MODULE MC_C15 -------------------------------
(***************************************************************************)
(* C15: bounded instances of GridFile.tla.  One state per file (layout     *)
(* relation: Decode(Encode(g, layout)) = g, independence of the layout and *)
(* of the sub-grid order) and one state per (file, fault): whatever the    *)
(* damaged file looks like to a reader, the documented decode rule yields  *)
(* an error or a grid that can be queried safely.  The enumerated faults   *)
(* are exported and applied to the real bytes by the harness.              *)
(***************************************************************************)
EXTENDS GridFile, Json

CONSTANTS Files        \* sequence of file descriptors
FilesC == TLCEval(Files)

VARIABLES fi, ft
vars == <<fi, ft>>

\* ---- catalogue ------------------------------------------------------------
SubM(id, name, parent, n, w, dy, dx, rows, cols, bands) ==
    [id |-> id, name |-> name, parent |-> parent, n |-> n, w |-> w, dy |-> dy, dx |-> dx,
     rows |-> rows, cols |-> cols, bands |-> bands, mode |-> "v", nodes |-> <<>>]

\* a descriptor: generated files carry their abstract content, shipped files only their size
\* spell: the spelling of the header of each sub-grid (Grid.tla: Spellings); at most one is not "asc"
GenS(fmt, kind, frame, subs, order, endian, layout, faults, spell) ==
    [fmt |-> fmt, kind |-> kind, frame |-> frame,
     scale |-> IF kind = "projected" THEN 1 ELSE 4096, subs |-> WithNodes(subs), order |-> order, endian |-> endian,
     layout |-> layout, faults |-> faults, shipped |-> "", len |-> 0, hdr |-> {}, spell |-> spell]
GenF(fmt, kind, frame, subs, order, endian, layout, faults) ==
    GenS(fmt, kind, frame, subs, order, endian, layout, faults, [i \in 1..Len(subs) |-> "asc"])
Gen(fmt, kind, subs, order, endian, layout, faults) ==
    GenF(fmt, kind, IF kind = "projected" THEN "projected" ELSE "angular", subs, order, endian, layout, faults)
Shipped(fmt, name, len, hdr) ==
    [fmt |-> fmt, kind |-> "", frame |-> "", scale |-> 1, subs |-> <<>>, order |-> <<>>, endian |-> "", layout |-> 0,
     faults |-> TRUE, shipped |-> name, len |-> len, hdr |-> hdr, spell |-> <<>>]

G1(rows, cols, bands) == << SubM(1, "G", "NONE", (rows - 1) * 8, 0, 8, 8, rows, cols, bands) >>
KindOf(b, projected) == IF projected THEN "projected" ELSE CASE b = 1 -> "geoid" [] b = 2 -> "datum" [] b = 3 -> "deformation"

SetToSeq(S) == LET RECURSIVE F(_) F(T) == IF T = {} THEN <<>> ELSE LET a == CHOOSE a \in T : TRUE IN <<a>> \o F(T \ {a}) IN F(S)

\* every band count, three geometries, every layout: the layout relation; faults on a spread of them
GravAll(faultsOn) ==
    SetToSeq({Gen("gravsoft", KindOf(x[1], x[4]), G1(x[2][1], x[2][2], x[1]), <<1>>, "le", x[3], <<x[1], x[2], x[3], x[4]>> \in faultsOn)
              : x \in {y \in (1..3) \X {<<2, 2>>, <<2, 3>>, <<3, 2>>} \X Layouts \X BOOLEAN : y[4] => y[1] = 1}})
\* projected grids with one pair of boundaries (or, negative, one of each pair) within [-720, 720]
ProjFrames == {"projected_w0", "projected_s0", "projected_neg"}
GravProj == SetToSeq({GenF("gravsoft", "projected", x[1], G1(x[2][1], x[2][2], 1), <<1>>, "le", x[3], FALSE)
                      : x \in ProjFrames \X {<<2, 2>>, <<2, 3>>, <<3, 2>>} \X {0, 2}})
GravFaultsQ == {<<2, <<2, 2>>, 0, FALSE>>, <<1, <<2, 3>>, 1, FALSE>>, <<3, <<2, 2>>, 2, FALSE>>, <<1, <<3, 2>>, 3, TRUE>>}
GravFaultsT == {y \in (1..3) \X {<<2, 2>>, <<2, 3>>, <<3, 2>>} \X Layouts \X BOOLEAN : y[4] => y[1] = 1}

NR == SubM(1, "R", "NONE", 16, 0, 16, 16, 2, 3, 2)
NK == SubM(2, "K", "R", 16, 0, 8, 8, 3, 3, 2)
NG == SubM(3, "G", "K", 8, 8, 8, 8, 2, 2, 2)      \* (cell as fine as K's: NTv2 does not forbid it)
N1 == SubM(1, "R", "NONE", 8, 0, 8, 8, 2, 2, 2)
Perms(n) == {q \in [1..n -> 1..n] : \A i, j \in 1..n : i # j => q[i] # q[j]}
NtAll(faultsOn) ==
    SetToSeq({Gen("ntv2", "datum", x[1], x[2], x[3], 0, <<Len(x[1]), x[2], x[3]>> \in faultsOn)
              : x \in ({<<N1>>} \X Perms(1) \X {"le", "be"}) \cup ({<<NR, NK>>} \X Perms(2) \X {"le", "be"})
                      \cup ({<<NR, NK, NG>>} \X Perms(3) \X {"le", "be"})})
\* headers with exchanged bounds: every spelling, every band count and layout class, both formats and byte
\* orders, the root of a one-grid file, the child and the root of a two-grid file
OtherSpellings == Spellings \ {"asc"}
GravSpelled(LS) ==
    SetToSeq({GenS("gravsoft", KindOf(x[1], x[4]), IF x[4] THEN "projected" ELSE "angular", G1(x[2][1], x[2][2], x[1]), <<1>>, "le", x[3], FALSE, <<x[5]>>)
              : x \in {y \in (1..3) \X {<<2, 3>>, <<3, 2>>, <<3, 3>>} \X LS \X BOOLEAN \X OtherSpellings : y[4] => y[1] = 1}})
NtSpelled(EN) ==
    SetToSeq({GenS("ntv2", "datum", "angular", <<SubM(1, "R", "NONE", 16, 0, 8, 8, 3, 4, 2)>>, <<1>>, x[1], 0, FALSE, <<x[2]>>) : x \in EN \X OtherSpellings})
    \o SetToSeq({GenS("ntv2", "datum", "angular", <<NR, NK>>, x[1][1], x[1][2], 0, FALSE, IF x[3] = 1 THEN <<x[2], "asc">> ELSE <<"asc", x[2]>>)
                 : x \in {<<<<2, 1>>, "be">>, <<<<1, 2>>, "le">>} \X OtherSpellings \X {1, 2}})
NtFaultsQ == {<<1, <<1>>, "le">>, <<2, <<2, 1>>, "be">>}
NtFaultsT == {<<1, <<1>>, "le">>, <<1, <<1>>, "be">>, <<2, <<2, 1>>, "be">>, <<2, <<1, 2>>, "le">>, <<3, <<3, 1, 2>>, "le">>}

\* the shipped files (sizes and header spans are verified against /repo by the driver)
ShipSmall == << Shipped("ntv2", "gsb/5458.gsb", 1088, 0..351),
                Shipped("ntv2", "gsb/5458_with_subgrid.gsb", 1504, (0..351) \cup (1072..1247)),
                Shipped("gravsoft", "datum/test.datum", 498, 0..23),
                Shipped("gravsoft", "datum/test_subset.datum", 349, 0..193),
                Shipped("gravsoft", "geoid/test.geoid", 363, 0..23),
                Shipped("gravsoft", "deformation/test.deformation", 671, 0..23),
                Shipped("gravsoft", "deformation/another_test.deformation", 742, 0..94) >>
ShipLarge == << Shipped("ntv2", "gsb/100800401.gsb", 25824, 0..351) >>

FilesQ == GravAll(GravFaultsQ) \o GravProj \o NtAll(NtFaultsQ) \o ShipSmall \o GravSpelled({0, 2}) \o NtSpelled({"le", "be"})
FilesT == GravAll(GravFaultsT) \o GravProj \o NtAll(NtFaultsT) \o ShipSmall \o ShipLarge \o GravSpelled(Layouts) \o NtSpelled({"le", "be"})

\* ---- behaviour ----------------------------------------------------------------
F == FilesC[fi]
Lines(f, layout) == GravsoftLinesSp(f.subs[1], f.frame, f.scale, layout, f.spell[1])
Recs(f, order) == EncodeNtv2Sp(f.subs, order, f.spell)

FaultsOf(f) ==
    IF f.shipped # "" THEN {Intact} \cup {Trunc(n) : n \in 0..(f.len - 1)} \cup {Flip(off, bit) : off \in f.hdr, bit \in 0..7}
    ELSE IF ~f.faults THEN {}
    ELSE IF f.fmt = "gravsoft" THEN FaultsGravsoft(Lines(f, f.layout), f.layout)
    ELSE FaultsNtv2(f.subs, f.order)

Init == fi = 0 /\ ft = NoFault
ChooseFile == fi = 0 /\ fi' \in 1..Len(FilesC) /\ UNCHANGED ft
PickFault == fi # 0 /\ ft = NoFault /\ (\E x \in FaultsOf(F) : ft' = x) /\ UNCHANGED fi
Next == ChooseFile \/ PickFault
Spec == Init /\ [][Next]_vars

AtFile  == fi # 0 /\ ft = NoFault
AtFault == fi # 0 /\ ft # NoFault
Generated == F.shipped = ""
IsSpelled(f) == \E i \in 1..Len(f.spell) : f.spell[i] # "asc"
SpelledSub(f) == CHOOSE i \in 1..Len(f.spell) : f.spell[i] # "asc"
Plain == ~IsSpelled(F)

\* ---- the property ---------------------------------------------------------------
GeomSet(subs) == {Geometry(subs[i]) : i \in 1..Len(subs)}
\* Decode(Encode(g, layout)) = g
RoundTripInv == (AtFile /\ Generated /\ Plain) =>
    IF F.fmt = "gravsoft"
    THEN LET d == DecodeGravsoft(Lines(F, F.layout)) IN
         d.ok /\ [Geometry(d.subs[1]) EXCEPT !.name = F.subs[1].name] = Geometry(F.subs[1])
    ELSE LET d == DecodeNtv2(Recs(F, F.order)) IN
         d.ok /\ GeomSet(d.subs) = GeomSet(F.subs) /\ Queryable(d)
\* the generated files are told apart by the reader's rule exactly as they were meant, and the model
\* contains projected grids on which `any boundary` and `all boundaries` differ
FrameRuleInv == (AtFile /\ Generated /\ F.fmt = "gravsoft") =>
    (ProjectedByRule(F.subs[1], F.frame) <=> F.frame # "angular")
FrameRuleWitness == \E i \in 1..Len(FilesC) : LET f == FilesC[i] IN
    f.shipped = "" /\ f.fmt = "gravsoft" /\ ProjectedByRule(f.subs[1], f.frame) /\ ~AllBoundsLarge(f.subs[1], f.frame)
\* the decoded grid does not depend on the layout / on the order of the sub-grids
LayoutInv == (AtFile /\ Generated /\ Plain) =>
    IF F.fmt = "gravsoft"
    THEN \A l \in Layouts : DecodeGravsoft(Lines(F, l)) = DecodeGravsoft(Lines(F, F.layout))
    ELSE \A q \in Perms(Len(F.subs)) : LET d == DecodeNtv2(Recs(F, q)) IN d.ok /\ GeomSet(d.subs) = GeomSet(F.subs)
\* the spec's own length bookkeeping is consistent
LengthInv == (AtFile /\ Generated) =>
    IF F.fmt = "gravsoft"
    THEN TextLen(Lines(F, F.layout), F.layout) > HeaderSpan(Lines(F, F.layout), F.layout)
    ELSE ByteLen(Recs(F, F.order)) = 176 + 16 + SumSeq([i \in 1..Len(F.subs) |-> 176 + 16 * F.subs[i].rows * F.subs[i].cols])
\* whatever a damaged file looks like to the reader: an error, or a grid that can be queried safely
TotalityInv == (AtFault /\ Generated) =>
    IF F.fmt = "gravsoft"
    THEN \A a \in EffectsGravsoft(Lines(F, F.layout), ft) : Queryable(DecodeGravsoft(a))
    ELSE \A a \in EffectsNtv2(Recs(F, F.order), ft) : Queryable(DecodeNtv2(a))
\* a truncated NTv2 file that lost node or header records cannot decode to a grid
TruncInv == (AtFault /\ Generated /\ F.fmt = "ntv2" /\ ft.t = "trunc" /\ ft.a < ByteLen(Recs(F, F.order)) - 16) =>
    \A a \in EffectsNtv2(Recs(F, F.order), ft) : ~DecodeNtv2(a).ok

\* a header with exchanged bounds: the admissible outcomes are an error and, per reading, the grid the file
\* means under it; every such grid has the extent of the header, holds the node values of the file and
\* reproduces them at its nodes; the outcomes do not depend on the text layout / the byte order
ExpectedSubs(f, rd) == [i \in 1..Len(f.subs) |-> IF f.spell[i] = "asc" THEN Geometry(f.subs[i]) ELSE Geometry(Under(f.subs[i], rd))]
Renamed(d, f) == IF f.fmt = "gravsoft" THEN [d EXCEPT !.subs[1].name = f.subs[1].name] ELSE d
SpelledInv == (AtFile /\ Generated /\ IsSpelled(F)) =>
    LET k  == SpelledSub(F)  sp == F.spell[k]
        A  == IF F.fmt = "gravsoft" THEN AdmissibleGravsoft(Lines(F, F.layout)) ELSE AdmissibleNtv2(Recs(F, F.order))
        OK == A \ {Err}
    IN /\ Cardinality({i \in 1..Len(F.spell) : F.spell[i] # "asc"}) = 1
       /\ Err \in A /\ Cardinality(OK) = Cardinality(Readings(sp))
       /\ ~(IF F.fmt = "gravsoft" THEN DecodeGravsoft(Lines(F, F.layout)) ELSE DecodeNtv2(Recs(F, F.order))).ok   \* the strict rule refuses
       /\ {GeomSet(Renamed(d, F).subs) : d \in OK} = {{ExpectedSubs(F, rd)[i] : i \in 1..Len(F.subs)} : rd \in Readings(sp)}
       /\ \A d \in OK : /\ Queryable(d)
                         /\ \A i \in 1..Len(d.subs) : LET h == d.subs[i] IN
                               \A r \in 0..(h.rows - 1), c \in 0..(h.cols - 1) :
                                   LET a == AtSub(d.subs, i, [x |-> h.w + c * h.dx, y |-> h.n - r * h.dy], 0) IN
                                   a.ok /\ \A b \in 1..h.bands : a.num[b] = Den(h) * h.nodes[r + 1][c + 1][b]
       /\ F.fmt = "gravsoft" => \A l \in Layouts : AdmissibleGravsoft(Lines(F, l)) = A
\* the catalogue holds every spelling for both formats
SpelledWitness == (AtFile /\ fi = 1) =>
    \A fmt \in {"gravsoft", "ntv2"}, sp \in OtherSpellings :
        \E i \in 1..Len(FilesC) : FilesC[i].fmt = fmt /\ FilesC[i].shipped = "" /\ \E j \in 1..Len(FilesC[i].spell) : FilesC[i].spell[j] = sp

\* the queries: every margin class is decided for every point (totality), a larger margin admits more
\* points, NaN admits none, an infinite one all
MarginOf(name) == LET i == CHOOSE i \in 1..Len(MarginClasses) : MarginClasses[i].name = name IN MarginClasses[i]
QueryTotalInv == (AtFault /\ Generated /\ ft.t = "intact") =>
    \A i \in 1..Len(F.subs) : LET g == F.subs[i] IN
        \A q \in [x : {g.w - 17, g.w - 3, g.w, g.w + 5, East(g), East(g) + 3, East(g) + 17}, y : {South(g) - 17, South(g) - 3, South(g), South(g) + 5, g.n, g.n + 3, g.n + 17}] :
            /\ \A j \in 1..Len(MarginClasses) : ContainsM(g, q, MarginClasses[j]) \in BOOLEAN
            /\ ContainsM(g, q, MarginOf("-2")) => ContainsM(g, q, MarginOf("-0.5"))
            /\ ContainsM(g, q, MarginOf("-0.5")) => ContainsM(g, q, MarginOf("0"))
            /\ ContainsM(g, q, MarginOf("0")) => ContainsM(g, q, MarginOf("0.5"))
            /\ ContainsM(g, q, MarginOf("0.5")) => ContainsM(g, q, MarginOf("inf"))
            /\ ~ContainsM(g, q, MarginOf("NaN"))

\* BaseGrid::plain: a call is consistent exactly if every node is read inside the vector; the enumeration
\* holds consistent calls with and without an offset and inconsistent ones of every kind
PlainInv == (AtFile /\ Generated /\ Plain /\ F.fmt = "gravsoft") =>
    LET g == F.subs[1]  el == g.rows * g.cols * g.bands IN
    /\ \A c \in PlainCalls(el) :
          /\ PlainLen(c, el) >= 0
          /\ c.off # -2 =>
                (PlainConsistent(g, c) <=> \A r \in 0..(g.rows - 1), cc \in 0..(g.cols - 1), b \in 1..g.bands :
                                              NodeIndex(g, c, r, cc, b) < PlainLen(c, el))
          /\ PlainReads(g, c) => \A r \in 0..(g.rows - 1), cc \in 0..(g.cols - 1), b \in 1..g.bands :
                                    NodeIndex(g, c, r, cc, b) - c.pad = g.bands * (g.cols * r + cc) + b - 1
    /\ \E c \in PlainCalls(el) : PlainReads(g, c) /\ c.pad > 0
    /\ \E c \in PlainCalls(el) : ~PlainConsistent(g, c) /\ PlainLen(c, el) = 0 /\ c.off > 0
    /\ \E c \in PlainCalls(el) : ~PlainConsistent(g, c) /\ PlainLen(c, el) = el /\ c.off > 0

\* ---- export -------------------------------------------------------------------------
FaultRow(x) == <<x.t, x.a, x.b, x.c, x.fs, x.cl>>
RecJson(r) == <<r.key, r.t, r.i, r.s, IF r.a.k = "fin" THEN r.a.v ELSE 0, IF r.b.k = "fin" THEN r.b.v ELSE 0>>
EmitFile == AtFile =>
    PrintT(<<"FILE", ToJson([
        id |-> fi, fmt |-> F.fmt, kind |-> F.kind, frame |-> F.frame, scale |-> F.scale, shipped |-> F.shipped, len |-> F.len,
        hdr |-> F.hdr,
        file |-> [subs |-> [i \in 1..Len(F.subs) |-> Geometry(F.subs[i])], order |-> F.order, endian |-> F.endian, text |-> F.layout,
                  spell |-> F.spell],
        spelled |-> (Generated /\ IsSpelled(F)),
        \* a spelled header: refused, or the sub-grids of ONE of these readings
        alts |-> IF Generated /\ IsSpelled(F)
                 THEN LET RS == ReadingSeq(F.spell[SpelledSub(F)]) IN [k \in 1..Len(RS) |-> [reading |-> RS[k], subs |-> ExpectedSubs(F, RS[k])]]
                 ELSE <<>>,
        margins |-> [j \in 1..Len(MarginClasses) |-> MarginClasses[j].name],
        \* BaseGrid::plain calls <<pad, cut, off, consistent, reads>>
        plain |-> IF Generated /\ Plain /\ F.fmt = "gravsoft"
                  THEN LET g == F.subs[1] IN {<<c.pad, c.cut, c.off, PlainConsistent(g, c), PlainReads(g, c)>> : c \in PlainCalls(g.rows * g.cols * g.bands)}
                  ELSE {},
        dec |-> IF Generated THEN Dec(F.kind, F.fmt) ELSE <<>>,
        unit |-> IF Generated THEN UnitFactor(Conv(F.kind, F.fmt).unit) ELSE <<>>,
        lines |-> IF Generated /\ F.fmt = "gravsoft" THEN TextOf(Lines(F, F.layout)) ELSE <<>>,
        eol |-> Eol(F.layout), final_eol |-> FinalEol(F.layout),
        speclen |-> IF ~Generated THEN F.len ELSE IF F.fmt = "gravsoft" THEN TextLen(Lines(F, F.layout), F.layout) ELSE ByteLen(Recs(F, F.order)),
        records |-> IF Generated /\ F.fmt = "ntv2" THEN [i \in 1..Len(Recs(F, F.order)) |-> RecJson(Recs(F, F.order)[i])] ELSE <<>>,
        faults |-> {FaultRow(x) : x \in FaultsOf(F)}
    ])>>)
=============================================================================
