SPECIFICATION Spec
CONSTANTS
  Graphs <- AllGraphs
  L = 5
INVARIANTS DepthInv OutcomeInv Emit
PROPERTY Termination
CHECK_DEADLOCK FALSE
