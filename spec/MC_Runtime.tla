----------------------------- MODULE MC_Runtime -----------------------------
(***************************************************************************)
(* Exhaustive exploration of Runtime.tla over a small universe: an outer   *)
(* pipeline P of one or two steps, one of which may be an inner pipeline Q *)
(* of zero to two steps; every step an ordinary operator, a one-way        *)
(* operator or a stack step, plain or inverted, with or without a          *)
(* directional omission; applied forward and inverse to 0 or N tuples;     *)
(* every elementary operator returning any count.                          *)
(*                                                                         *)
(* The driver offers, in every state, exactly the moves the implementation *)
(* makes; the guards of Runtime's actions must accept them all (deadlock   *)
(* checking is ON: an over-strict guard would strand the run), and the     *)
(* invariants of Runtime.tla plus the end-to-end properties below must     *)
(* hold in every state.                                                    *)
(***************************************************************************)
EXTENDS Runtime

CONSTANTS Kinds,     \* subset of {"op", "opinv", "oneway", "stack"}
          Omits,     \* subset of {"none", "of", "oi"}
          Ns,        \* numbers of tuples
          QLens      \* lengths of the inner pipeline

VARIABLES phase,     \* "buildQ", "buildP", "idle", "run", "done"
          applied,   \* every elementary application so far: [id, eff, count, oneway]
          result,    \* what the outermost call returned (-1: nothing yet)
          reqd       \* the direction the outermost call was asked for
mvars == <<rvars, phase, applied, result, reqd>>

Leaf(id, kind, omit) ==
    [id |-> id, name |-> IF kind = "stack" THEN "stack" ELSE "op", inverted |-> kind = "opinv",
     invertible |-> kind # "oneway", of |-> omit = "of", oi |-> omit = "oi"]
LeafVariants(id) == {Leaf(id, k, o) : k \in Kinds, o \in Omits}
QStepVariants == {[id |-> "Q", name |-> "pipeline", inverted |-> i, invertible |-> TRUE, of |-> o = "of", oi |-> o = "oi"]
                  : i \in BOOLEAN, o \in Omits}

QShapes == UNION {CASE n = 0 -> {<<>>}
                    [] n = 1 -> {<<x>> : x \in LeafVariants("a")}
                    [] n = 2 -> {<<x, y>> : x \in LeafVariants("a"), y \in LeafVariants("b")} : n \in QLens}
PShapes == {<<x>> : x \in LeafVariants("c") \cup QStepVariants}
           \cup {<<x, y>> : x \in LeafVariants("c") \cup QStepVariants, y \in LeafVariants("d")}
           \cup {<<x, y>> : x \in LeafVariants("c"), y \in QStepVariants}

Init == RInit /\ phase = "buildQ" /\ applied = <<>> /\ result = -1 /\ reqd = "F"

BuildQ == phase = "buildQ" /\ (\E s \in QShapes : Build("Q", s)) /\ phase' = "buildP" /\ UNCHANGED <<applied, result, reqd>>
BuildP == phase = "buildP" /\ (\E s \in PShapes : Build("P", s)) /\ phase' = "idle" /\ UNCHANGED <<applied, result, reqd>>
\* Context::apply
Start == /\ phase = "idle"
         /\ \E req \in {"F", "I"}, n \in Ns : Call("P", req, FALSE, TRUE, n) /\ reqd' = req
         /\ phase' = "run" /\ UNCHANGED <<applied, result>>

Running == phase = "run" /\ Len(frames) > 0
\* what the pipeline code does with its current step
DoSkip == Running /\ More /\ Skipped(Cur, Top.eff) /\ Skip(Cur.id) /\ UNCHANGED <<phase, applied, result, reqd>>
DoStack == /\ Running /\ More /\ ~Skipped(Cur, Top.eff) /\ Cur.name \in StackNames
           /\ \E c \in {0, Top.n}, d \in 0..1 : StepDone(Cur.id, Top.eff, c, IF c = 0 /\ Top.n > 0 THEN 0 ELSE d)
           /\ UNCHANGED <<phase, applied, result, reqd>>
DoCall == /\ Running /\ More /\ ~Skipped(Cur, Top.eff) /\ Cur.name \notin StackNames /\ last = None
          /\ Call(Cur.id, Top.eff, Cur.inverted, Cur.invertible, Top.n)
          /\ UNCHANGED <<phase, applied, result, reqd>>
DoLog == /\ Running /\ last # None
         /\ StepDone(last.id, Top.eff, last.count, IF last.id \in DOMAIN built THEN last.depth ELSE Top.depth)
         /\ UNCHANGED <<phase, applied, result, reqd>>
\* an elementary operator returns whatever it returns; a missing inverse returns zero
LeafRet == /\ Running /\ ~Top.pipe
           /\ \E c \in 0..Top.n :
                /\ (~Top.invertible /\ Top.eff = "I") => c = 0
                /\ Ret(Top.id, c, Top.eff)
                /\ applied' = Append(applied, [id |-> Top.id, eff |-> Top.eff, count |-> c, oneway |-> ~Top.invertible])
           /\ UNCHANGED <<phase, result, reqd>>
PipeRet == /\ Running /\ Top.pipe /\ Top.k = NSteps(Top) /\ last = None
           /\ LET c == IF Top.cnt = -1 THEN Top.n ELSE Top.cnt IN
              /\ Ret(Top.id, c, Top.eff)
              /\ IF Len(frames) = 1 THEN phase' = "done" /\ result' = c ELSE UNCHANGED <<phase, result>>
           /\ UNCHANGED <<applied, reqd>>
Finished == phase = "done" /\ UNCHANGED mvars

Next == BuildQ \/ BuildP \/ Start \/ DoSkip \/ DoStack \/ DoCall \/ DoLog \/ LeafRet \/ PipeRet \/ Finished
Spec == Init /\ [][Next]_mvars

----------------------------------------------------------------------------
\* end to end: the outermost count is no larger than any count an operator anywhere below returned,
\* and zero as soon as a missing inverse was asked for
EndInv == phase = "done" =>
    /\ \A q \in 1..Len(applied) : result <= applied[q].count
    /\ (\E q \in 1..Len(applied) : applied[q].oneway /\ applied[q].eff = "I") => result = 0
\* the direction every elementary operator of the outer pipeline worked in: the requested one, flipped once per
\* `inv` on the way down (here: positions c, d directly in P; a, b through Q)
DirInv == \A q \in 1..Len(applied) :
    LET r == applied[q]
        viaQ == r.id \in {"a", "b"}
        qstep == CHOOSE s \in {built["P"][j] : j \in 1..Len(built["P"])} : s.id = "Q"
        own == IF viaQ THEN CHOOSE s \in {built["Q"][j] : j \in 1..Len(built["Q"])} : s.id = r.id
               ELSE CHOOSE s \in {built["P"][j] : j \in 1..Len(built["P"])} : s.id = r.id
    IN r.eff = Xor(IF viaQ THEN Xor(reqd, qstep.inverted) ELSE reqd, own.inverted)
\* order: what has been applied so far, projected on the ids, is a prefix of the plan
RECURSIVE PlanOf(_, _)
PlanOf(id, eff) ==
    LET s == built[id]
        ord == [k \in 1..Len(s) |-> IF eff = "F" THEN s[k] ELSE s[Len(s) + 1 - k]]
        RECURSIVE Go(_)
        Go(k) == IF k > Len(ord) THEN <<>>
                 ELSE (IF Skipped(ord[k], eff) \/ ord[k].name \in StackNames THEN <<>>
                       ELSE IF ord[k].id \in DOMAIN built THEN PlanOf(ord[k].id, Xor(eff, ord[k].inverted))
                       ELSE <<ord[k].id>>) \o Go(k + 1)
    IN Go(1)
IsPrefix(a, b) == Len(a) <= Len(b) /\ SubSeq(b, 1, Len(a)) = a
PlanInv == phase \in {"run", "done"} =>
              LET ids == [q \in 1..Len(applied) |-> applied[q].id] IN
              /\ IsPrefix(ids, PlanOf("P", reqd))
              /\ phase = "done" => ids = PlanOf("P", reqd)
=============================================================================
