------------------------------- MODULE Coord -------------------------------
(***************************************************************************)
(* C19, container part.  Three small machines, selected by `mode`:         *)
(*                                                                         *)
(*  "set"   a CoordinateSet: container kind x stored dimension x adapter.  *)
(*          State: what the container stores (N tuples of `dim` elements). *)
(*          One action per writing call (set_coord, set_xy, set_xyz,       *)
(*          set_xyzt, stomp); after every call all tuples are read back    *)
(*          (get_coord; xy / xyz / xyzt are its projections).              *)
(*  "tup"   a CoordinateTuple of 1..5 stored elements: new, set_nth,       *)
(*          set_xy, set_xyz, set_xyzt, fill, update; after every call      *)
(*          nth(0..5) is read (x, y, z, t, xy, xyz, xyzt are projections). *)
(*  "arith" +, -, *, / of two tuples, scale, dot: element-wise over the    *)
(*          extended numbers (integers in units of 1/4, NaN, +-infinity).  *)
(*                                                                         *)
(* Values: integers count quarters (n/4 is exact in binary32 and binary64  *)
(* for the small n used); NaN, PInf, NInf, NZero (-0.0), Fine (a value     *)
(* with a full mantissa), Huge, Tiny are model values standing for special *)
(* floating point numbers: the containers only move them around.           *)
(*                                                                         *)
(* Documented behaviour modelled (src/coordinate/set.rs, tuple.rs docs):   *)
(*  - a 2D set reads (x, y, 0, NaN), a 3D set (x, y, z, NaN);              *)
(*  - (T, h, t) reads (x, y, h, t): "user defined values for third and     *)
(*    fourth coordinate dimension", (T, t) reads (x, y, z, t);             *)
(*  - nth(n) with n >= dim is NaN; set_nth(n, ..) with n >= dim, set_xy on *)
(*    dim < 2, set_xyz on dim < 3, set_xyzt on dim < 4 fill the tuple with *)
(*    NaN; update writes the first min(len, dim) elements.                 *)
(***************************************************************************)
EXTENDS Integers, Sequences, FiniteSets, TLC, Json

CONSTANTS NaN, PInf, NInf, NZero, Fine, Huge, Tiny      \* model values

CONSTANTS Modes,        \* subset of {"set", "tup", "arith"}
          SetKinds,     \* set of [shape, el, ad]
          TupKinds,     \* set of element kinds
          N,            \* tuples per container
          MaxOps,       \* calls per behaviour
          SetValues,    \* 4-tuples written into sets
          TupValues,    \* 5-tuples written into tuples
          ArithCases    \* set of [el, o, x, y, k]

ModesC  == TLCEval(Modes)
SetKC   == TLCEval(SetKinds)
TupKC   == TLCEval(TupKinds)
SetVC   == TLCEval(SetValues)
TupVC   == TLCEval(TupValues)
ArithC  == TLCEval(ArithCases)

\* stored dimension of an element kind: Coor2D, Coor32, Coor3D, Coor4D, the
\* (f64, f64) pair, and user types implementing only the required methods
Dim(el) == CASE el \in {"c2", "c32", "pair", "u2"} -> 2
             [] el \in {"c3", "u3"} -> 3
             [] el \in {"c4", "u4"} -> 4
             [] el = "u1" -> 1
             [] el = "u5" -> 5

Max(S) == CHOOSE m \in S : \A q \in S : q <= m
Last(s) == s[Len(s)]

\* fixed height and epoch supplied by the adapters (quarters: 194.25, 2020.5)
HFix == 777
TFix == 8082

VARIABLES mode, kind, store, hist
vars == <<mode, kind, store, hist>>

----------------------------------------------------------------------------
\* ---- sets -----------------------------------------------------------------

\* what get_coord(j) returns for stored tuple s
GetCoord(kd, s) == [e \in 1..4 |->
    IF e = 3 /\ kd.ad = "ht" THEN HFix
    ELSE IF e = 4 /\ kd.ad \in {"ht", "t"} THEN TFix
    ELSE IF e <= Dim(kd.el) THEN s[e]
    ELSE IF e = 3 THEN 0 ELSE NaN]
\* bulk accessors are projections of get_coord
XY(g)   == <<g[1], g[2]>>
XYZ(g)  == <<g[1], g[2], g[3]>>
XYZT(g) == g

SetInit(kd) == [j \in 1..N |-> [e \in 1..Dim(kd.el) |-> 100 * j + e]]
ReadAll(kd, st) == [j \in 1..N |-> GetCoord(kd, st[j])]

\* how many leading elements a writing call carries
Upto(o) == CASE o \in {"set_coord", "set_xyzt"} -> 4 [] o = "set_xyz" -> 3 [] o = "set_xy" -> 2 [] o = "stomp" -> 4

ApplySet(kd, st, op) ==
    LET dim == Dim(kd.el) IN
    IF op.o = "stomp" THEN [j \in 1..N |-> [e \in 1..dim |-> NaN]]
    ELSE [st EXCEPT ![op.i] = [e \in 1..dim |-> IF e <= Upto(op.o) THEN op.v[e] ELSE st[op.i][e]]]

DoSet(o) == /\ mode = "set" /\ Len(hist) < MaxOps
            /\ \E i \in 1..N, v \in SetVC :
                  LET op == [o |-> o, i |-> i, v |-> v]
                      st == ApplySet(kind, store, op)
                  IN /\ store' = st
                     /\ hist' = Append(hist, [op |-> op, reads |-> ReadAll(kind, st)])
            /\ UNCHANGED <<mode, kind>>

SetCoord == DoSet("set_coord")
SetXY    == DoSet("set_xy")
SetXYZ   == DoSet("set_xyz")
SetXYZT  == DoSet("set_xyzt")
Stomp == /\ mode = "set" /\ Len(hist) < MaxOps
         /\ LET op == [o |-> "stomp", i |-> 0, v |-> <<NaN, NaN, NaN, NaN>>]
                st == ApplySet(kind, store, op)
            IN /\ store' = st
               /\ hist' = Append(hist, [op |-> op, reads |-> ReadAll(kind, st)])
         /\ UNCHANGED <<mode, kind>>

\* ---- tuples ---------------------------------------------------------------

TupInit(el) == [e \in 1..Dim(el) |-> 500 + e]
AllOf(el, v) == [e \in 1..Dim(el) |-> v]
\* nth(0), .., nth(5)
ReadTup(el, s) == [n \in 1..6 |-> IF n <= Dim(el) THEN s[n] ELSE NaN]

\* op = [o, n, v]: n = index of set_nth / length of the slice given to update; v a 5-tuple
ApplyTup(el, s, op) ==
    LET dim == Dim(el) IN
    CASE op.o \in {"new", "fill"} -> AllOf(el, op.v[1])
      [] op.o = "set_nth"  -> IF op.n < dim THEN [s EXCEPT ![op.n + 1] = op.v[1]] ELSE AllOf(el, NaN)
      [] op.o = "set_xy"   -> IF dim > 1 THEN [e \in 1..dim |-> IF e <= 2 THEN op.v[e] ELSE s[e]] ELSE AllOf(el, NaN)
      [] op.o = "set_xyz"  -> IF dim > 2 THEN [e \in 1..dim |-> IF e <= 3 THEN op.v[e] ELSE s[e]] ELSE AllOf(el, NaN)
      [] op.o = "set_xyzt" -> IF dim > 3 THEN [e \in 1..dim |-> IF e <= 4 THEN op.v[e] ELSE s[e]] ELSE AllOf(el, NaN)
      [] op.o = "update"   -> [e \in 1..dim |-> IF e <= op.n THEN op.v[e] ELSE s[e]]

DoTup(o, ns) == /\ mode = "tup" /\ Len(hist) < MaxOps
                /\ \E n \in ns, v \in TupVC :
                      LET op == [o |-> o, n |-> n, v |-> v]
                          st == ApplyTup(kind, store, op)
                      IN /\ store' = st
                         /\ hist' = Append(hist, [op |-> op, reads |-> ReadTup(kind, st)])
                /\ UNCHANGED <<mode, kind>>

TNew     == DoTup("new", {0})
TSetNth  == DoTup("set_nth", 0..5)
TSetXY   == DoTup("set_xy", {0})
TSetXYZ  == DoTup("set_xyz", {0})
TSetXYZT == DoTup("set_xyzt", {0})
TFill    == DoTup("fill", {0})
TUpdate  == DoTup("update", 0..5)

\* ---- arithmetic over the extended numbers -----------------------------------
IsInf(v)  == v = PInf \/ v = NInf
SignOf(v) == IF v = PInf THEN 1 ELSE IF v = NInf THEN -1 ELSE IF v > 0 THEN 1 ELSE IF v < 0 THEN -1 ELSE 0
InfOf(sg) == IF sg > 0 THEN PInf ELSE NInf

\* raw: integer results in the unit of the operands (sum) or its square (product)
AddRaw(p, q) == IF p = NaN \/ q = NaN THEN NaN
                ELSE IF IsInf(p) THEN (IF IsInf(q) /\ p # q THEN NaN ELSE p)
                ELSE IF IsInf(q) THEN q ELSE p + q
NegRaw(p)    == IF p = NaN THEN NaN ELSE IF p = PInf THEN NInf ELSE IF p = NInf THEN PInf ELSE 0 - p
MulRaw(p, q) == IF p = NaN \/ q = NaN THEN NaN
                ELSE IF IsInf(p) \/ IsInf(q)
                     THEN (IF SignOf(p) * SignOf(q) = 0 THEN NaN ELSE InfOf(SignOf(p) * SignOf(q)))
                ELSE p * q
\* results: a special value, or the exact rational <<numerator, denominator>>
Wrap(r, unit) == IF r = NaN \/ IsInf(r) THEN r ELSE <<r, unit>>
AddV(p, q) == Wrap(AddRaw(p, q), 4)
SubV(p, q) == Wrap(AddRaw(p, NegRaw(q)), 4)
MulV(p, q) == Wrap(MulRaw(p, q), 16)
\* the zero divisor of the pool is +0
DivV(p, q) == IF p = NaN \/ q = NaN THEN NaN
              ELSE IF IsInf(p) THEN (IF IsInf(q) THEN NaN ELSE InfOf(SignOf(p) * (IF SignOf(q) < 0 THEN -1 ELSE 1)))
              ELSE IF IsInf(q) THEN <<0, 1>>
              ELSE IF q = 0 THEN (IF p = 0 THEN NaN ELSE InfOf(SignOf(p)))
              ELSE <<p, q>>
OpV(o, p, q) == CASE o = "add" -> AddV(p, q) [] o = "sub" -> SubV(p, q) [] o = "mul" -> MulV(p, q) [] o = "div" -> DivV(p, q)

ADim(el) == IF el = "c2x32" THEN 2 ELSE Dim(el)
Cut(el, x) == [e \in 1..ADim(el) |-> x[e]]
RECURSIVE SumRaw(_, _)
SumRaw(s, acc) == IF Len(s) = 0 THEN acc ELSE SumRaw(Tail(s), AddRaw(acc, Head(s)))

ArithResult(c) ==
    LET x == Cut(c.el, c.x)
        y == Cut(c.el, c.y)
        d == ADim(c.el)
    IN CASE c.o \in {"add", "sub", "mul", "div"} -> [e \in 1..d |-> OpV(c.o, x[e], y[e])]
         [] c.o = "scale" -> [e \in 1..d |-> MulV(x[e], c.k)]
         [] c.o = "dot"   -> <<Wrap(SumRaw([e \in 1..d |-> MulRaw(x[e], y[e])], 0), 16)>>
         \* the constant constructors: neutral elements of + and *, and the all-NaN tuple
         [] c.o = "origin" -> [e \in 1..d |-> <<0, 1>>]
         [] c.o = "ones"   -> [e \in 1..d |-> <<1, 1>>]
         [] c.o = "nan"    -> [e \in 1..d |-> NaN]

Compute == /\ mode = "arith" /\ hist = <<>>
           /\ hist' = <<[op |-> kind, reads |-> ArithResult(kind)]>>
           /\ UNCHANGED <<mode, kind, store>>

----------------------------------------------------------------------------
Init == /\ mode \in ModesC
        /\ hist = <<>>
        /\ \/ mode = "set" /\ kind \in SetKC /\ store = SetInit(kind)
           \/ mode = "tup" /\ kind \in TupKC /\ store = TupInit(kind)
           \/ mode = "arith" /\ kind \in ArithC /\ store = <<>>

Next == SetCoord \/ SetXY \/ SetXYZ \/ SetXYZT \/ Stomp
        \/ TNew \/ TSetNth \/ TSetXY \/ TSetXYZ \/ TSetXYZT \/ TFill \/ TUpdate
        \/ Compute
Spec == Init /\ [][Next]_vars

----------------------------------------------------------------------------
\* Properties

Ops == [q \in 1..Len(hist) |-> hist[q].op]

\* -- sets: "last writer wins" reference.  Element e of stored tuple j holds the
\* value of the latest call that carried that element, else the initial value.
SetCovers(op, j, e) == op.o = "stomp" \/ (op.i = j /\ e <= Upto(op.o))
SetRef(kd, ops, j, e) ==
    LET idx == {q \in 1..Len(ops) : SetCovers(ops[q], j, e)}
    IN IF idx = {} THEN SetInit(kd)[j][e]
       ELSE LET op == ops[Max(idx)] IN IF op.o = "stomp" THEN NaN ELSE op.v[e]
SetRefInv == mode = "set" =>
    \A j \in 1..N, e \in 1..Dim(kind.el) : store[j][e] = SetRef(kind, Ops, j, e)

\* is element e of what get_coord returns a stored element?
Stored(kd, e) == e <= Dim(kd.el) /\ ~(e = 3 /\ kd.ad = "ht") /\ ~(e = 4 /\ kd.ad \in {"ht", "t"})
MissingValue(kd, e) == IF e = 3 THEN (IF kd.ad = "ht" THEN HFix ELSE 0)
                       ELSE (IF kd.ad \in {"ht", "t"} THEN TFix ELSE NaN)

\* writing a tuple and reading it back returns the stored dimensions unchanged,
\* the missing ones as height 0 / epoch NaN or the adapter's values
SetRoundTripInv == (mode = "set" /\ hist # <<>> /\ Last(hist).op.o \in {"set_coord", "set_xyzt"}) =>
    LET h == Last(hist) IN
    \A e \in 1..4 : h.reads[h.op.i][e] = (IF Stored(kind, e) THEN h.op.v[e] ELSE MissingValue(kind, e))
\* elements 3 and 4 of a set that does not store them never change
SetMissingInv == mode = "set" =>
    \A q \in 1..Len(hist), j \in 1..N, e \in 3..4 :
        ~Stored(kind, e) => hist[q].reads[j][e] = MissingValue(kind, e)
\* a call on tuple i leaves every other tuple alone; set_xy leaves z and t alone, set_xyz leaves t alone
SetFrameInv == (mode = "set" /\ hist # <<>> /\ Last(hist).op.o # "stomp") =>
    LET h == Last(hist)
        before == IF Len(hist) = 1 THEN ReadAll(kind, SetInit(kind)) ELSE hist[Len(hist) - 1].reads
    IN /\ \A j \in 1..N : j # h.op.i => h.reads[j] = before[j]
       /\ \A e \in 1..4 : e > Upto(h.op.o) => h.reads[h.op.i][e] = before[h.op.i][e]
       /\ \A e \in 1..2 : h.reads[h.op.i][e] = h.op.v[e]
StompInv == (mode = "set" /\ hist # <<>> /\ Last(hist).op.o = "stomp") =>
    \A j \in 1..N, e \in 1..4 : Stored(kind, e) => Last(hist).reads[j][e] = NaN

\* -- tuples
TupWrite(el, op, e) ==    \* <<written?, value>> for stored element e
    LET dim == Dim(el) IN
    CASE op.o \in {"new", "fill"} -> <<TRUE, op.v[1]>>
      [] op.o = "set_nth"  -> IF op.n >= dim THEN <<TRUE, NaN>> ELSE IF e = op.n + 1 THEN <<TRUE, op.v[1]>> ELSE <<FALSE, 0>>
      [] op.o = "set_xy"   -> IF dim < 2 THEN <<TRUE, NaN>> ELSE IF e <= 2 THEN <<TRUE, op.v[e]>> ELSE <<FALSE, 0>>
      [] op.o = "set_xyz"  -> IF dim < 3 THEN <<TRUE, NaN>> ELSE IF e <= 3 THEN <<TRUE, op.v[e]>> ELSE <<FALSE, 0>>
      [] op.o = "set_xyzt" -> IF dim < 4 THEN <<TRUE, NaN>> ELSE IF e <= 4 THEN <<TRUE, op.v[e]>> ELSE <<FALSE, 0>>
      [] op.o = "update"   -> IF e <= op.n THEN <<TRUE, op.v[e]>> ELSE <<FALSE, 0>>
TupRef(el, ops, e) ==
    LET idx == {q \in 1..Len(ops) : TupWrite(el, ops[q], e)[1]}
    IN IF idx = {} THEN TupInit(el)[e] ELSE TupWrite(el, ops[Max(idx)], e)[2]
TupRefInv == mode = "tup" => \A e \in 1..Dim(kind) : store[e] = TupRef(kind, Ops, e)
\* out-of-range element access yields NaN
TupRangeInv == mode = "tup" =>
    \A q \in 1..Len(hist), n \in 1..6 : n > Dim(kind) => hist[q].reads[n] = NaN
\* set_nth then nth returns the value
TupRoundTripInv == (mode = "tup" /\ hist # <<>> /\ Last(hist).op.o = "set_nth" /\ Last(hist).op.n < Dim(kind)) =>
    Last(hist).reads[Last(hist).op.n + 1] = Last(hist).op.v[1]

\* -- arithmetic: algebra TLC can check on the element-wise definitions
Finite(v) == ~(v = NaN \/ IsInf(v))
ArithInv == (mode = "arith" /\ hist # <<>>) =>
    LET c == kind
        x == Cut(c.el, c.x)
        y == Cut(c.el, c.y)
        r == hist[1].reads
    IN /\ c.o \in {"add", "mul"} => r = ArithResult([c EXCEPT !.x = c.y, !.y = c.x])      \* commutative
       /\ c.o = "dot" => r = ArithResult([c EXCEPT !.x = c.y, !.y = c.x])
       /\ c.o = "sub" => \A e \in 1..Len(x) : r[e] = AddV(x[e], NegRaw(y[e]))
       /\ c.o = "sub" => \A e \in 1..Len(x) :
               (Finite(x[e]) /\ Finite(y[e])) => AddRaw(r[e][1], y[e]) = x[e]               \* (x - y) + y = x
       /\ c.o = "div" => \A e \in 1..Len(x) :
               (Finite(x[e]) /\ Finite(y[e]) /\ y[e] # 0) => r[e][1] * y[e] = x[e] * r[e][2]  \* (x / y) * y = x
       /\ c.o = "scale" => r = ArithResult([c EXCEPT !.o = "mul", !.y = [e \in 1..5 |-> c.k]])
       /\ c.o = "origin" => \A e \in 1..Len(x) : Finite(x[e]) => AddRaw(x[e], r[e][1]) = x[e]   \* x + origin = x
       /\ c.o = "ones" => \A e \in 1..Len(x) : Finite(x[e]) => MulRaw(x[e], r[e][1]) = x[e] * r[e][2]  \* x * ones = x
       /\ c.o = "nan" => \A e \in 1..Len(x) : AddRaw(x[e], r[e]) = NaN /\ MulRaw(x[e], r[e]) = NaN
       /\ \A e \in 1..Len(r) : (r[e] = NaN) \/ IsInf(r[e]) \/ (r[e][2] # 0)

TypeOK == /\ mode \in {"set", "tup", "arith"}
          /\ Len(hist) <= MaxOps

----------------------------------------------------------------------------
\* Behaviour export (complete behaviours only: every prefix is read back on the way)
Emit ==
    /\ (mode = "set" /\ Len(hist) = MaxOps) =>
          PrintT(<<"SET", ToJson([kind |-> kind, n |-> N, hfix |-> HFix, tfix |-> TFix,
                                  dim |-> IF kind.ad = "none" THEN Dim(kind.el) ELSE 0,
                                  init |-> SetInit(kind), initreads |-> ReadAll(kind, SetInit(kind)),
                                  calls |-> hist])>>)
    /\ (mode = "tup" /\ Len(hist) = MaxOps) =>
          PrintT(<<"TUPLE", ToJson([kind |-> kind, dim |-> Dim(kind), init |-> TupInit(kind),
                                    initreads |-> ReadTup(kind, TupInit(kind)), calls |-> hist])>>)
    /\ (mode = "arith" /\ hist # <<>>) =>
          PrintT(<<"ARITH", ToJson([el |-> kind.el, o |-> kind.o, x |-> Cut(kind.el, kind.x),
                                    y |-> Cut(kind.el, kind.y), k |-> kind.k, res |-> hist[1].reads])>>)
=============================================================================
