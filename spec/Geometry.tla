------------------------------ MODULE Geometry ------------------------------
(***************************************************************************)
(* C05 (partial claim): "each map projection has the geometry that defines *)
(* it".                                                                     *)
(*                                                                         *)
(* The differential identities themselves (conformality, equal area, true  *)
(* scale) are statements about real functions and are EVALUATED by the     *)
(* harness (gvh_geom: 4th-order finite differences of Context::apply(Fwd), *)
(* normalised by meridian and parallel radii computed from (a, f)).  What  *)
(* is discrete, and therefore stated and checked HERE, is the catalogue:   *)
(*                                                                         *)
(*   Character(f)    conformal / conformal within a strip (Bowring) /      *)
(*                   equal-area / Mercator of the sphere of radius a        *)
(*   Shapes(f)       the parameterisations to cover: centre, false origin,  *)
(*                   k_0, lat_ts, standard parallels in both hemispheres,   *)
(*                   azimuth and rectified-grid angle, variants A/B, all    *)
(*                   aspects of laea                                        *)
(*   Loci            the lines / points of true scale of every shape and    *)
(*                   the scale expected there (k_0 or 1)                    *)
(*   Origin, Arc     the origin conventions: the false origin is the image  *)
(*                   of the projection centre; tmerc northing on the        *)
(*                   central meridian = k_0 * meridian arc from lat_0       *)
(*   InDomain        the domain as stated in the property                   *)
(*   Ellipsoids      the built-in table + synthetic "a,rf" with f <= 1/150  *)
(*                                                                         *)
(* TLC enumerates family x shape x ellipsoid x obligation, checks the      *)
(* catalogue invariants below and exports every configuration with its     *)
(* obligations (Emit).  Angles are integers in tenths of a degree.         *)
(*                                                                         *)
(* Kinds of obligation  <<kind, lon, lat, arg, exact>>                     *)
(*   conf    conformal at the point: h = k, meridian _|_ parallel, det > 0 *)
(*   confr   the same at a seeded random point of the 1x1 degree cell whose *)
(*           south-west corner is (lon, lat)                               *)
(*   area    equal-area: determinant of the normalised Jacobian = 1        *)
(*   arear   ... at a seeded random point of the cell                      *)
(*   scale   the scale factor at the point is arg ("k0" or "one")          *)
(*   origin  the point (the projection centre) maps to (x_0, y_0)          *)
(*   arc     on the central meridian: E = x_0, N = y_0 + k_0 (M(lat)-M(lat_0)) *)
(*   sph     the image is that of the spherical Mercator of radius a       *)
(*   fac     the library's Jacobian::new(..).factors() h, k, s agree with  *)
(*           the finite-difference quantities                              *)
(* exact = TRUE: the point is the shape's centre, written with its own     *)
(* decimals (clon, clat) instead of tenths.                                *)
(***************************************************************************)
EXTENDS Integers, Sequences, FiniteSets, TLC, Json

CONSTANTS Tier,          \* "q" (quick) or "t" (thorough)
          Fams           \* the families explored by this instance
Q == Tier = "q"
FamsC == TLCEval(Fams)

Abs(x) == IF x < 0 THEN 0 - x ELSE x
S(i) == ToString(i)
\* tenths of a degree as decimal text
T(i) == (IF i < 0 THEN "-" ELSE "") \o S(Abs(i) \div 10) \o (IF Abs(i) % 10 = 0 THEN "" ELSE "." \o S(Abs(i) % 10))

(***************************************************************************)
(* Catalogue: families and their geometric character                        *)
(***************************************************************************)
Families == {"merc", "webmerc", "tmerc", "utm", "btmerc", "butm", "lcc", "omerc", "somerc", "laea"}
Characters == {"conformal", "bowring", "sphmerc", "equalarea"}
Character(f) ==
    CASE f \in {"merc", "tmerc", "utm", "lcc", "omerc", "somerc"} -> "conformal"
      [] f \in {"btmerc", "butm"} -> "bowring"       \* conformal "within its working strip": a class of its own
      [] f = "webmerc" -> "sphmerc"                  \* the Mercator projection of the sphere of radius a
      [] f = "laea" -> "equalarea"

\* Tolerances.  Relative ones in parts per 10^9 (ppb), absolute ones in nanometres on an ellipsoid of the
\* size of the Earth (the harness scales them with a and adds 8 ulp of the false origin / expected value).
\* The finite-difference instrument is good to a few ppb (error budget in gvh_geom.rs); 100 ppb = 1e-7.
\* Measured worst cases on the unchanged tree (thorough tier, 7.9e6 obligations, three seeds), each at least 100 times
\* below its tolerance:
\*   conformal, sphmerc  h = k and meridian _|_ parallel 1e-7      measured 3.2e-10 (lcc at -89 degrees), 1.2e-10
\*   bowring             1e-6: Bowring's series is conformal only approximately   measured 9.4e-10 (3 degrees from the
\*                       central meridian on the equator, f = 1/150)
\*   true scale          1e-7                                      measured 7e-11
\*   equalarea           1e-5: near the poles laea loses digits (cancellation in rho of the polar aspects; qs() on
\*                       nearly spherical ellipsoids in proportion to 1/e, amplified by asin near +-1), which the
\*                       differences amplify by 1/h                measured 1.8e-8 (0.2 degrees from a pole, rf ~ 1e5)
\*   factors()           1e-6 (its own stencil is of 2nd order)    measured 1.9e-9
\*   origin, arc         1e-5 m                                    measured 2.8e-9 m, 1.1e-8 m
\*   webmerc closed form 1e-4 m (|y| reaches 7 a at 89.8 degrees)  measured 0 (closed form), 2.9e-7 m (against merc)
Tol(chr) ==
    CASE chr = "bowring"   -> [conf |-> 1000, area |-> 0,    scale |-> 100, fac |-> 1000, origin |-> 10000, arc |-> 0,     sph |-> 0]
      [] chr = "equalarea" -> [conf |-> 0,    area |-> 10000, scale |-> 0,   fac |-> 1000, origin |-> 10000, arc |-> 0,     sph |-> 0]
      [] chr = "sphmerc"   -> [conf |-> 100,  area |-> 0,    scale |-> 100, fac |-> 1000, origin |-> 0,     arc |-> 0,     sph |-> 100000]
      [] chr = "conformal" -> [conf |-> 100,  area |-> 0,    scale |-> 100, fac |-> 1000, origin |-> 10000, arc |-> 10000, sph |-> 0]

(***************************************************************************)
(* Ellipsoids                                                               *)
(***************************************************************************)
AllEllps == {"MERIT", "SGS85", "GRS80", "IAU76", "airy", "APL4.9", "NWL9D", "mod_airy", "andrae", "danish", "aust_SA", "GRS67",
    "GSK2011", "bessel", "bess_nam", "clrk66", "clrk80", "clrk80ign", "CPM", "delmbr", "engelis", "evrst30", "evrst48", "evrst56",
    "evrst69", "evrstSS", "fschr60", "fschr60m", "fschr68", "helmert", "hough", "intl", "krass", "kaula", "lerch", "mprts",
    "new_intl", "plessis", "PZ90", "SEasia", "walbeck", "WGS60", "WGS66", "WGS72", "WGS84", "sphere", "unitsphere"}
QuickEllps == {"GRS80", "WGS84", "intl", "bessel", "krass", "mprts", "sphere", "unitsphere"}
Spheres == {"sphere", "unitsphere"}
\* an ellipsoid: a built-in name, or semimajor axis and reciprocal flattening as text.  "{A}" and "{RF:lo:hi}" are
\* replaced by the driver with seeded random values: a in [6.3e6, 6.4e6] m, rf in [lo, hi]  (f in [0, 1/150])
Named(n) == [name |-> n, a |-> "", rf |-> ""]
Arf(a, rf) == [name |-> "", a |-> a, rf |-> rf]
SynQ == {Arf("6378137", "150"), Arf("{A}", "{RF:150:400}")}
SynT == {Arf("6378137", "150"), Arf("6400000", "175.5"), Arf("6356000", "1000"), Arf("6378137", "100000"),
         Arf("{A}", "{RF:150:200}"), Arf("{A}", "{RF:200:300}"), Arf("{A}", "{RF:300:1000}"), Arf("{A}", "{RF:1000:100000}")}
Ellipsoids == {Named(n) : n \in (IF Q THEN QuickEllps ELSE AllEllps)} \cup (IF Q THEN SynQ ELSE SynT)
EText(e) == IF e.name # "" THEN e.name ELSE e.a \o "," \o e.rf

(***************************************************************************)
(* Shapes (parameterisations)                                               *)
(*   text      the definition without its ellipsoid                         *)
(*   lon0,lat0 centre in tenths of a degree (central meridian / projection  *)
(*             centre / latitude of origin), the lattice is laid around it  *)
(*   clon,clat the same point with the decimals of the definition           *)
(*   k         k_0 as written ("1" when absent; "" when the scale is given  *)
(*             by lat_ts)                                                   *)
(*   x0, y0    false origin as written ("0" when absent)                    *)
(*   hemi      "N" / "S": hemisphere of the parameter the property wants in *)
(*             both (standard parallels, lat_ts, lat_0, south), "0" neither *)
(*   par       parallels of true scale: set of <<lat, "k0" | "one">>        *)
(*   origin    the origin convention is stated for this shape               *)
(*   tag       what else distinguishes the shape (aspect, variant, 1SP/2SP) *)
(***************************************************************************)
Sh(text, lon0, lat0) ==
    [text |-> text, lon0 |-> lon0, lat0 |-> lat0, clon |-> T(lon0), clat |-> T(lat0), k |-> "1", x0 |-> "0", y0 |-> "0",
     hemi |-> "0", par |-> {}, origin |-> TRUE, tag |-> ""]
FO(s, k, x0, y0) == [s EXCEPT !.text = @ \o (IF k = "1" THEN "" ELSE " k_0=" \o k) \o " x_0=" \o x0 \o " y_0=" \o y0, !.k = k, !.x0 = x0, !.y0 = y0]
HasFalseOrigin(s) == s.x0 # "0" \/ s.y0 # "0"
Hemi(lat) == IF lat > 0 THEN "N" ELSE IF lat < 0 THEN "S" ELSE "0"

\* merc: true scale k_0 on the equator, or 1 at lat_ts.  lat_0 is documented as "latitude of the projection center"
\* (Rumination 002, with the example `merc lon_0=9 lat_0=54 lat_ts=56`): the centre (lon_0, lat_0) maps to the false
\* origin, and the projection stays the conformal Mercator with its true scale on the equator (at first never written
\* here; the corner hunt showed that the code shifted the latitude instead: not conformal, wrong origin)
MercAt(lon0, lat0) == [Sh("merc lat_0=" \o T(lat0) \o (IF lon0 = 0 THEN "" ELSE " lon_0=" \o T(lon0)), lon0, lat0)
                         EXCEPT !.par = {<<0, "k0">>}, !.hemi = Hemi(lat0), !.tag = "lat_0"]
Merc(lon0) == [Sh("merc" \o (IF lon0 = 0 THEN "" ELSE " lon_0=" \o T(lon0)), lon0, 0) EXCEPT !.par = {<<0, "k0">>}]
MercTs(lon0, ts) == [Sh("merc lat_ts=" \o T(ts) \o (IF lon0 = 0 THEN "" ELSE " lon_0=" \o T(lon0)), lon0, 0)
                       EXCEPT !.k = "", !.par = {<<ts, "one">>}, !.hemi = Hemi(ts), !.tag = "lat_ts"]
MercShapes ==
    {Merc(0), FO(Merc(90), "0.9996", "500000", "-100000"), MercTs(0, 560), MercTs(-1000, -300),
     MercAt(90, 540), FO(MercAt(-1000, -250), "0.9996", "500000", "-100000")}
    \cup (IF Q THEN {} ELSE {FO(Merc(-1000), "2", "0", "10000000"), MercTs(90, 800), [FO(MercTs(0, -725), "1", "500000", "0") EXCEPT !.k = ""]})

WebmercShapes == {[Sh("webmerc", 0, 0) EXCEPT !.par = {<<0, "one">>}]}

\* tmerc / btmerc: true scale k_0 along the central meridian (a locus of its own, see ScaleObl); origin at (lon_0, lat_0)
Tm(name, lon0, lat0) == [Sh(name \o " lon_0=" \o T(lon0) \o (IF lat0 = 0 THEN "" ELSE " lat_0=" \o T(lat0)), lon0, lat0) EXCEPT !.hemi = Hemi(lat0)]
TmShapes(name) ==
    {Tm(name, 90, 0), FO(Tm(name, 90, 490), "0.9996", "500000", "-100000"), FO(Tm(name, -1770, -360), "1.0001", "0", "10000000")}
    \cup (IF Q THEN {} ELSE {FO(Tm(name, 90, 0), "0.9996", "500000", "0"), Tm(name, 1230, 600), FO(Tm(name, 0, -725), "0.9", "200000", "300000")})
Utm(name, z, south) ==
    [Sh(name \o " zone=" \o S(z) \o (IF south THEN " south" ELSE ""), 10 * (6 * z - 183), 0)
        EXCEPT !.k = "0.9996", !.x0 = "500000", !.y0 = IF south THEN "10000000" ELSE "0", !.hemi = IF south THEN "S" ELSE "N"]
UtmShapes(name) == {Utm(name, 32, FALSE), Utm(name, 1, TRUE)} \cup (IF Q THEN {} ELSE {Utm(name, 60, FALSE), Utm(name, 32, TRUE), Utm(name, 17, FALSE)})

\* lcc: true scale k_0 on the standard parallel(s); the origin convention is stated where lat_0 is written
Lcc(l1, l2, lon0) ==
    [Sh("lcc lat_1=" \o T(l1) \o (IF l2 = l1 THEN "" ELSE " lat_2=" \o T(l2)) \o " lon_0=" \o T(lon0), lon0, 0)
        EXCEPT !.par = {<<l1, "k0">>, <<l2, "k0">>}, !.hemi = Hemi(l1), !.origin = FALSE, !.tag = IF l1 = l2 THEN "1SP" ELSE "2SP"]
LccAt(l1, l2, lon0, lat0) ==
    [Lcc(l1, l2, lon0) EXCEPT !.text = @ \o " lat_0=" \o T(lat0), !.lat0 = lat0, !.clat = T(lat0), !.origin = TRUE]
LccShapes ==
    {Lcc(570, 570, 100), Lcc(-330, -330, 100), Lcc(330, 450, 100), Lcc(-330, -450, 100),
     FO(LccAt(400, 600, 100, 500), "0.9996", "500000", "-100000"), FO(LccAt(-200, -500, -600, -350), "1.0002", "1000000", "2000000")}
    \cup (IF Q THEN {} ELSE {LccAt(570, 570, 100, 570), Lcc(100, 800, -1200), [Lcc(450, 450, 100) EXCEPT !.text = "lcc lat_1=45 lat_2=45 lon_0=10"],
                             \* latitude of origin at a pole (apex of the cone)
                             [LccAt(750, 850, 100, 900) EXCEPT !.tag = "2SP polar origin"], [LccAt(-700, -800, 100, -900) EXCEPT !.tag = "2SP polar origin"]})

\* omerc: true scale k_0 at the centre; the false origin is the image of the centre in variant B only
\* (variant A puts it at the natural origin: not compared).  The Laborde case (gamma_c absent) is not documented: not written.
\* Azimuths are written in [-90, 90] degrees: the documentation says nothing about |alpha| > 90 (the same line as alpha -+ 180).
Omerc(lonc, latc, alpha, gamma, variant, k) ==
    [Sh("omerc latc=" \o T(latc) \o " lonc=" \o T(lonc) \o " alpha=" \o alpha \o " gamma_c=" \o gamma \o (IF k = "1" THEN "" ELSE " k_0=" \o k)
        \o (IF variant THEN " variant" ELSE ""), lonc, latc)
        EXCEPT !.k = k, !.hemi = Hemi(latc), !.origin = variant, !.tag = (IF variant THEN "B" ELSE "A") \o (IF alpha = "90" THEN " alpha=90" ELSE "")]
OmB(s, x0, y0) == [s EXCEPT !.text = @ \o " x_0=" \o x0 \o " y_0=" \o y0, !.x0 = x0, !.y0 = y0]
OmercShapes ==
    {Omerc(1150, 40, "53.3158204722", "53.1301023611", FALSE, "0.99984"),
     OmB(Omerc(1150, 40, "53.3158204722", "53.1301023611", TRUE, "0.99984"), "590476.87", "442857.65"),
     OmB(Omerc(-700, -360, "30", "20", TRUE, "0.9999"), "1000", "2000"),
     Omerc(200, 400, "90", "90", FALSE, "1"), Omerc(200, 400, "90", "90", TRUE, "1"),
     \* ... and next to it: the closed form for lambda_0 must not lose its digits where asin is ill-conditioned
     Omerc(200, 400, "-90", "-90", TRUE, "1"), Omerc(200, -400, "89.999999", "89.999999", TRUE, "1")}
    \cup (IF Q THEN {} ELSE {Omerc(-700, -360, "30", "30", FALSE, "0.9999"), Omerc(200, 400, "-40", "-40", TRUE, "1"), Omerc(200, 400, "-75", "-75", FALSE, "1"),
                             Omerc(200, 400, "53", "0", TRUE, "1"), Omerc(200, 0, "45", "45", TRUE, "1"), Omerc(200, 400, "5", "5", FALSE, "0.9996")})

\* somerc: true scale k_0 at the centre
Somerc(lon0, lat0, k) == [Sh("somerc lat_0=" \o T(lat0) \o " lon_0=" \o T(lon0) \o (IF k = "1" THEN "" ELSE " k_0=" \o k), lon0, lat0) EXCEPT !.k = k, !.hemi = Hemi(lat0)]
SomercShapes ==
    {[Sh("somerc lat_0=46.9524055555556 lon_0=7.43958333333333 k_0=1 x_0=2600000 y_0=1200000", 74, 470)
         EXCEPT !.clon = "7.43958333333333", !.clat = "46.9524055555556", !.x0 = "2600000", !.y0 = "1200000", !.hemi = "N"],
     Somerc(80, 470, "1"), OmB(Somerc(1730, -410, "0.9996"), "1000", "2000")}
    \cup (IF Q THEN {} ELSE {Somerc(80, 0, "0.9996"), Somerc(-1000, 700, "1")})

\* laea: every aspect
Aspect(lat0) == IF lat0 = 900 THEN "north polar" ELSE IF lat0 = -900 THEN "south polar" ELSE IF lat0 = 0 THEN "equatorial" ELSE "oblique"
Laea(lat0, lon0) == [Sh("laea lat_0=" \o T(lat0) \o " lon_0=" \o T(lon0), lon0, lat0) EXCEPT !.hemi = Hemi(lat0), !.tag = Aspect(lat0)]
LaeaShapes ==
    {Laea(900, 100), Laea(-900, 100), Laea(0, 100), Laea(520, 100), Laea(-350, 100), OmB(Laea(520, 100), "4321000", "3210000")}
    \cup (IF Q THEN {} ELSE {OmB(Laea(900, -1000), "2000000", "2000000"), OmB(Laea(-900, 0), "2000000", "2000000"), OmB(Laea(0, -1000), "1000", "2000"), Laea(10, 100), Laea(850, 100)})

Shapes(f) ==
    CASE f = "merc" -> MercShapes
      [] f = "webmerc" -> WebmercShapes
      [] f = "tmerc" -> TmShapes("tmerc")
      [] f = "btmerc" -> TmShapes("btmerc")
      [] f = "utm" -> UtmShapes("utm")
      [] f = "butm" -> UtmShapes("butm")
      [] f = "lcc" -> LccShapes
      [] f = "omerc" -> OmercShapes
      [] f = "somerc" -> SomercShapes
      [] f = "laea" -> LaeaShapes

\* families whose parameterisations the property wants in both hemispheres
BothHemispheres == {"merc", "tmerc", "btmerc", "utm", "butm", "lcc", "omerc", "somerc", "laea"}
\* families for which a pole is a singular point of the map itself (the finite-difference step in latitude shrinks with
\* the distance to it); for the others only the graticule is singular there
PoleSingular(f) == f \in {"merc", "webmerc", "lcc"}
\* families whose lattice is laid around the centre only (no documented domain: a neighbourhood of the centre)
Local == {"omerc", "somerc"}

\* the unit sphere (a = 1 m) only where no false origin is written: a false origin of 10^5..10^7 m on a sphere of
\* 1 m leaves no digits for finite differences
EllpsFor(f, s) == IF HasFalseOrigin(s) THEN {e \in Ellipsoids : e.name # "unitsphere"} ELSE Ellipsoids

(***************************************************************************)
(* Lattices (tenths of a degree) and the domain as stated in the property   *)
(***************************************************************************)
Step(lo, hi, st) == {lo + st * i : i \in 0..((hi - lo) \div st)}
PolarLats == {850, 870, 880, 890, 895, 898}
Lats == IF Q THEN {-898, -850, -600, -300, -5, 0, 5, 300, 450, 600, 850, 898}
        ELSE Step(-825, 825, 25) \cup PolarLats \cup {0 - la : la \in PolarLats} \cup {-10, -1, 1, 10}
DLonMerc == IF Q THEN {-1790, 0, 1234} ELSE {-1790, -900, -1, 0, 300, 1234, 1790}
DLonCone == IF Q THEN {-1700, -600, 0, 300, 1700} ELSE Step(-1700, 1700, 100) \cup {-1, 1, 50}
DLon60 == IF Q THEN {-600, -300, -30, 0, 100, 600} ELSE Step(-600, 600, 50) \cup {-575, -30, -10, -1, 1, 10, 30, 575}
DLon3 == IF Q THEN {-30, 0, 15, 30} ELSE Step(-30, 30, 5) \cup {-1, 1}
DLonAz == IF Q THEN {-1400, -600, 0, 300, 1000} ELSE Step(-1400, 1400, 100) \cup {-10, 10}
Near3 == IF Q THEN {-30, -10, 0, 15, 30} ELSE Step(-30, 30, 5) \cup {-1, 1}
Near6 == IF Q THEN {-60, -20, 0, 30, 60} ELSE Step(-60, 60, 10) \cup {-1, 1}
\* south-west corners of the 1 x 1 degree cells for the random points
CellLats == IF Q THEN {-890, -610, -10, 0, 440, 880} ELSE Step(-890, 860, 70) \cup {-880, -10, 0, 870, 880}
CellDLon(f) ==
    CASE f \in {"tmerc", "utm"} -> IF Q THEN {-600, -10, 590} ELSE Step(-600, 590, 70) \cup {-10, 0, 590}
      [] f \in {"btmerc", "butm"} -> IF Q THEN {-30, 20} ELSE {-30, -20, -10, 0, 10, 20}
      [] OTHER -> IF Q THEN {-1700, -10, 1100} ELSE Step(-1700, 1690, 170) \cup {-10, 0, 1690}

\* the domain of the property: |lat| < 89.9; within 60 degrees of the central meridian for tmerc, 3 degrees for btmerc;
\* laea away from the antipode (|dlat| + |dlon| bounds the spherical distance from the centre from above: <= 150 degrees);
\* omerc / somerc have no documented domain: +-6 x +-3 / +-3 x +-3 degrees around the centre (as in C01)
InDomain(f, s, lon, lat) ==
    /\ Abs(lat) <= 898
    /\ CASE f \in {"tmerc", "utm"}   -> Abs(lon - s.lon0) <= 600
         [] f \in {"btmerc", "butm"} -> Abs(lon - s.lon0) <= 30
         [] f \in {"merc", "webmerc", "lcc"} -> Abs(lon - s.lon0) <= 1800
         [] f = "laea"   -> Abs(lat - s.lat0) + Abs(lon - s.lon0) <= 1500
         [] f = "somerc" -> Abs(lon - s.lon0) <= 30 /\ Abs(lat - s.lat0) <= 30
         [] f = "omerc"  -> Abs(lon - s.lon0) <= 60 /\ Abs(lat - s.lat0) <= 30
CellInDomain(f, s, lon, lat) == \A c \in {<<lon, lat>>, <<lon + 10, lat>>, <<lon, lat + 10>>, <<lon + 10, lat + 10>>} : InDomain(f, s, c[1], c[2])

Pts(f, s) ==
    CASE f \in {"merc", "webmerc"} -> {<<s.lon0 + d, la>> : d \in DLonMerc, la \in Lats}
      [] f = "lcc"                 -> {<<s.lon0 + d, la>> : d \in DLonCone, la \in Lats}
      [] f \in {"tmerc", "utm"}    -> {<<s.lon0 + d, la>> : d \in DLon60, la \in Lats}
      [] f \in {"btmerc", "butm"}  -> {<<s.lon0 + d, la>> : d \in DLon3, la \in Lats}
      [] f = "laea"                -> {p \in {<<s.lon0 + d, la>> : d \in DLonAz, la \in Lats} : InDomain(f, s, p[1], p[2])}
      [] f = "somerc"              -> {<<s.lon0 + a, s.lat0 + b>> : a \in Near3, b \in Near3}
      [] f = "omerc"               -> {<<s.lon0 + a, s.lat0 + b>> : a \in Near6, b \in Near3}
\* what the lattice of a family is the product of (CountInv)
PtsProduct(f) ==
    CASE f \in {"merc", "webmerc"} -> Cardinality(DLonMerc) * Cardinality(Lats)
      [] f = "lcc"                 -> Cardinality(DLonCone) * Cardinality(Lats)
      [] f \in {"tmerc", "utm"}    -> Cardinality(DLon60) * Cardinality(Lats)
      [] f \in {"btmerc", "butm"}  -> Cardinality(DLon3) * Cardinality(Lats)
      [] f = "laea"                -> 0                                   \* a filtered product: counted as it is
      [] f = "somerc"              -> Cardinality(Near3) * Cardinality(Near3)
      [] f = "omerc"               -> Cardinality(Near6) * Cardinality(Near3)
Cells(f, s) ==
    IF f \in Local THEN {<<s.lon0 + a, s.lat0 + b>> : a \in {-30, 0, 20}, b \in {-30, 0, 20}}
    ELSE {c \in {<<s.lon0 + d, la>> : d \in CellDLon(f), la \in CellLats} : CellInDomain(f, s, c[1], c[2])}

(***************************************************************************)
(* Obligations                                                              *)
(***************************************************************************)
Ob(kind, p, arg) == <<kind, p[1], p[2], arg, FALSE>>
AtCentre(kind, s, arg) == <<kind, s.lon0, s.lat0, arg, TRUE>>

\* geometric character, at every lattice point and at a random point of every cell
CharObl(f, s) ==
    IF Character(f) = "equalarea"
    THEN {Ob("area", p, "") : p \in Pts(f, s)} \cup {Ob("arear", c, "") : c \in Cells(f, s)}
    ELSE {Ob("conf", p, "") : p \in Pts(f, s)} \cup {Ob("confr", c, "") : c \in Cells(f, s)}

\* lines and points of true scale
LociLons(f, s) == {s.lon0 + d : d \in (IF f = "lcc" THEN DLonCone ELSE DLonMerc)}
ScaleObl(f, s) ==
    CASE f \in {"merc", "webmerc", "lcc"} -> {Ob("scale", <<lo, pa[1]>>, pa[2]) : lo \in LociLons(f, s), pa \in s.par}     \* parallels
      [] f \in {"tmerc", "utm", "btmerc", "butm"} -> {Ob("scale", <<s.lon0, la>>, "k0") : la \in Lats}                     \* the central meridian
      [] f \in {"omerc", "somerc"} -> {AtCentre("scale", s, "k0")}                                                         \* the centre
      [] f = "laea" -> {}          \* its scale is pinned by the areal scale 1 everywhere
\* which obligation pins the scale of a family absolutely
PinKinds(f) == IF f = "laea" THEN {"area", "arear"} ELSE {"scale"}

\* origin conventions
OriginObl(f, s) == IF s.origin /\ f # "webmerc" THEN {AtCentre("origin", s, "")} ELSE {}
\* (the statement makes the meridian-arc clause for tmerc; btmerc's northing on the central meridian is the library's
\* series for the meridian arc - a matter of C06 - and is not compared)
ArcObl(f, s) == IF f \in {"tmerc", "utm"} THEN {Ob("arc", <<s.lon0, la>>, "") : la \in Lats} ELSE {}
\* webmerc: the spherical Mercator of radius a, at every lattice point and at the origin
SphObl(f, s) == IF f = "webmerc" THEN {Ob("sph", p, "") : p \in Pts(f, s) \cup {<<0, 0>>}} ELSE {}

\* the library's own Jacobian / Factors: a 2nd-order stencil with a fixed step, compared away from the poles
FacLats == {-600, -300, 0, 300, 450, 600}
FacObl(f, s) == {Ob("fac", p, "") : p \in {q \in Pts(f, s) : q[2] \in FacLats \/ f \in Local}}

Obl(f, s) == CharObl(f, s) \cup ScaleObl(f, s) \cup OriginObl(f, s) \cup ArcObl(f, s) \cup SphObl(f, s) \cup FacObl(f, s)
Kinds == {"conf", "confr", "area", "arear", "scale", "origin", "arc", "sph", "fac"}

\* text of an obligation for the harness: kind, lon, lat (decimal degrees), arg
ObText(s, o) == <<o[1], IF o[5] THEN s.clon ELSE T(o[2]), IF o[5] THEN s.clat ELSE T(o[3]), o[4]>>
\* merc on the sphere of radius a, for the relational comparison with webmerc: on the built-in spheres, and on "a,rf"
\* ellipsoids as "a,1e30" (f = 1e-30 is 0 in binary64 arithmetic)
Partner(f, e) == IF f # "webmerc" THEN "" ELSE IF e.name \in Spheres THEN "merc ellps=" \o e.name
                 ELSE IF e.name = "" THEN "merc ellps=" \o e.a \o ",1e30" ELSE ""

(***************************************************************************)
(* Enumeration                                                              *)
(***************************************************************************)
VARIABLES fam, shp, el, ob
vars == <<fam, shp, el, ob>>
None == <<>>

Init == /\ fam \in FamsC /\ shp \in Shapes(fam) /\ el \in EllpsFor(fam, shp) /\ ob = None
Pick == /\ ob = None
        /\ ob' \in Obl(fam, shp)
        /\ UNCHANGED <<fam, shp, el>>
Next == Pick
Spec == Init /\ [][Next]_vars

\* the obligations of a configuration do not depend on its ellipsoid: the per-shape invariants and the export are
\* evaluated on one representative state per (family, shape); the state space is the full product all the same
Rep(f, s) == CHOOSE e \in EllpsFor(f, s) : TRUE
RepState == ob = None /\ el = Rep(fam, shp)

(***************************************************************************)
(* Invariants on the catalogue                                              *)
(***************************************************************************)
\* the character table is total and every class has its tolerances
ASSUME \A f \in Families : Character(f) \in Characters /\ DOMAIN Tol(Character(f)) = {"conf", "area", "scale", "fac", "origin", "arc", "sph"}
ASSUME FamsC \subseteq Families
CharInv == /\ fam \in Families /\ Character(fam) \in Characters
           /\ (Character(fam) = "equalarea") <=> (fam = "laea")
           /\ ob # None => ob[1] \in Kinds
           /\ (ob # None /\ ob[1] \in {"area", "arear"}) => Character(fam) = "equalarea"
           /\ (ob # None /\ ob[1] \in {"conf", "confr"}) => Character(fam) # "equalarea"
           /\ (ob # None /\ ob[1] = "sph") => Character(fam) = "sphmerc"

\* every enumerated point (every corner of a cell) lies inside the stated domain; an origin is the shape's own centre
DomainInv == ob # None =>
    CASE ob[1] \in {"confr", "arear"} -> CellInDomain(fam, shp, ob[2], ob[3])
      [] ob[1] = "origin"             -> ob[2] = shp.lon0 /\ ob[3] = shp.lat0 /\ Abs(ob[3]) <= 900
      [] ob[1] = "sph"                -> InDomain(fam, shp, ob[2], ob[3])
      [] OTHER                        -> InDomain(fam, shp, ob[2], ob[3])

\* every true-scale obligation lies on a locus the catalogue declares for the shape, with the scale declared there
LociInv == (ob # None /\ ob[1] = "scale") =>
    CASE fam \in {"merc", "webmerc", "lcc"} -> <<ob[3], ob[4]>> \in shp.par
      [] fam \in {"tmerc", "utm", "btmerc", "butm"} -> ob[2] = shp.lon0 /\ ob[4] = "k0"
      [] OTHER -> ob[5] /\ ob[4] = "k0"
\* ... "k0" only where the shape has one, "one" only where the scale is given by lat_ts (or on the sphere of webmerc)
ScaleArgInv == (ob # None /\ ob[1] = "scale") => (ob[4] = "k0" /\ shp.k # "") \/ (ob[4] = "one" /\ (shp.k = "" \/ fam = "webmerc"))

\* per (family, shape) (checked on its representative state without an obligation):
\*  - at least one obligation pins the scale absolutely; the character is examined at lattice points and random cells
\*  - where the property wants both hemispheres: the shapes cover both, and the lattice of every non-local shape has
\*    points on both sides of the equator
\*  - laea: all aspects; omerc: variants A and B, and the special azimuth 90; lcc: 1SP and 2SP; merc: k_0 and lat_ts
CoverInv == RepState =>
    /\ \E o \in Obl(fam, shp) : o[1] \in PinKinds(fam)
    /\ \E o \in Obl(fam, shp) : o[1] \in {"conf", "area"}
    /\ \E o \in Obl(fam, shp) : o[1] \in {"confr", "arear"}
    /\ fam \in BothHemispheres => (\E s \in Shapes(fam) : s.hemi = "N") /\ (\E s \in Shapes(fam) : s.hemi = "S")
    /\ fam \notin Local => (\E p \in Pts(fam, shp) : p[2] > 0) /\ (\E p \in Pts(fam, shp) : p[2] < 0)
    /\ fam = "laea" => {s.tag : s \in Shapes(fam)} = {"north polar", "south polar", "equatorial", "oblique"}
    /\ fam = "omerc" => {"A", "B", "A alpha=90", "B alpha=90"} \subseteq {s.tag : s \in Shapes(fam)}
    /\ fam = "lcc" => {"1SP", "2SP"} \subseteq {s.tag : s \in Shapes(fam)}
    /\ fam = "merc" => (\E s \in Shapes(fam) : s.tag = "lat_ts") /\ (\E s \in Shapes(fam) : s.k \notin {"", "1"})
    /\ fam \in {"tmerc", "utm"} => \E o \in Obl(fam, shp) : o[1] = "arc"
    /\ (shp.origin /\ fam # "webmerc") => \E o \in Obl(fam, shp) : o[1] = "origin"

\* the number of obligations of a configuration is what the products say: no two kinds collide, no lattice point is lost
Card(X) == Cardinality(X)
CountInv == RepState =>
    /\ Card(Obl(fam, shp)) = Card(CharObl(fam, shp)) + Card(ScaleObl(fam, shp)) + Card(OriginObl(fam, shp))
                             + Card(ArcObl(fam, shp)) + Card(SphObl(fam, shp)) + Card(FacObl(fam, shp))
    /\ Card(CharObl(fam, shp)) = Card(Pts(fam, shp)) + Card(Cells(fam, shp))
    /\ fam # "laea" => Card(Pts(fam, shp)) = PtsProduct(fam)
    /\ fam \in {"merc", "webmerc", "lcc"} => Card(ScaleObl(fam, shp)) = Card(LociLons(fam, shp)) * Card(shp.par)
    /\ fam \in {"tmerc", "utm", "btmerc", "butm"} => Card(ScaleObl(fam, shp)) = Card(Lats)
    /\ fam \in {"tmerc", "utm"} => Card(ArcObl(fam, shp)) = Card(Lats)
    /\ Cells(fam, shp) # {}

(***************************************************************************)
(* Export: one record per (family, shape) with all its obligations and the  *)
(* ellipsoids it is enumerated on; the configurations are their product     *)
(***************************************************************************)
Emit == RepState =>
    PrintT(<<"GEO", ToJson([fam |-> fam, shape |-> shp.text, chr |-> Character(fam), tag |-> shp.tag, hemi |-> shp.hemi,
                             k0 |-> shp.k, x0 |-> shp.x0, y0 |-> shp.y0, lat0 |-> shp.clat, polesing |-> PoleSingular(fam),
                             ells |-> {<<EText(e), Partner(fam, e)>> : e \in EllpsFor(fam, shp)},
                             tol |-> Tol(Character(fam)), nobs |-> Cardinality(Obl(fam, shp)),
                             obs |-> {ObText(shp, o) : o \in Obl(fam, shp)}])>>)
=============================================================================
