------------------------------ MODULE Angular ------------------------------
(***************************************************************************)
(* C19, angular part.  Angles and their sexagesimal / ISO-6709 encodings   *)
(* in integer fixed point.                                                 *)
(*                                                                         *)
(* Unit: the milli-arc-second (mas).  1 deg = 3 600 000 mas, 1 arc-minute  *)
(* = 60 000 mas, 0.001 arc-minute = 60 mas.  +-720 deg does not fit TLC's  *)
(* 32 bit integers in mas, and the sign of an angle below one degree must  *)
(* not be lost in a zero degree field, so an angle is kept as              *)
(*        [sg : 1 | -1,  d : whole degrees >= 0,  r : 0 .. DEG-1 mas]      *)
(* (sign and magnitude; "-0 deg 30 min" is sg = -1, d = 0, r = 1 800 000). *)
(*                                                                         *)
(* Encodings (all carry the sign separately):                              *)
(*   DMS      [sg, d, m, s]      m : 0..59, s : 0..59999 (mas)             *)
(*            dms_to_dd(d, m, s/1000) and the text d:m:s.sss               *)
(*   DM       [sg, d, mm]        mm : 0..3599999 (1/60000 minute)          *)
(*            dm_to_dd(d, mm/60000)                                        *)
(*   ISO DM   [sg, whole, frac]  DDDMM.mmm : whole = DDDMM as digits,      *)
(*            frac in 1/60000 minute (three decimals iff frac % 60 = 0)    *)
(*   ISO DMS  [sg, whole, frac]  DDDMMSS.sss : whole = DDDMMSS as digits,  *)
(*            frac in mas                                                  *)
(* Decoding takes the digit groups apart with \div and %.                  *)
(*                                                                         *)
(* The exploration walks lattice segments: a start angle, then Tick adds a *)
(* fixed number of mas to the magnitude.  Next to the angle the machine    *)
(* keeps a degree/minute/second odometer that is advanced digit group by   *)
(* digit group with explicit carries; the invariants tie the odometer, the *)
(* encoders (one division of the remainder) and the decoders together.     *)
(***************************************************************************)
EXTENDS Integers, Sequences, FiniteSets, TLC, Json

DEG == 3600000
MIN == 60000
SEC == 1000

\* TLC's % is the mathematical modulus (never negative): relied upon below
ASSUME (0 - 1) % 360 = 359 /\ (0 - 361) % 360 = 359 /\ (0 - 360) % 360 = 0

IsAngle(a) == a.sg \in {1, -1} /\ a.d \in Nat /\ a.r \in 0..(DEG - 1)
Angle(sg, d, r) == [sg |-> sg, d |-> d, r |-> r]
IsZero(a) == a.d = 0 /\ a.r = 0
Below1(a) == a.d = 0 /\ a.r > 0          \* 0 < |angle| < 1 degree

\* magnitude + k mas
AddMas(a, k) == [a EXCEPT !.d = a.d + ((a.r + k) \div DEG), !.r = (a.r + k) % DEG]

\* ---- encoders / decoders --------------------------------------------------

EncDMS(a)   == [sg |-> a.sg, d |-> a.d, m |-> a.r \div MIN, s |-> a.r % MIN]
ValidDMS(c) == c.sg \in {1, -1} /\ c.d \in Nat /\ c.m \in 0..59 /\ c.s \in 0..(MIN - 1)
DecDMS(c)   == Angle(c.sg, c.d, c.m * MIN + c.s)

EncDM(a)    == [sg |-> a.sg, d |-> a.d, mm |-> a.r]
ValidDM(c)  == c.sg \in {1, -1} /\ c.d \in Nat /\ c.mm \in 0..(DEG - 1)
DecDM(c)    == Angle(c.sg, c.d, c.mm)

\* DDDMM.mmm
EncIsoDM(a)   == [sg |-> a.sg, whole |-> 100 * a.d + (a.r \div MIN), frac |-> a.r % MIN]
ValidIsoDM(c) == c.sg \in {1, -1} /\ c.whole \in Nat /\ (c.whole % 100) < 60 /\ c.frac \in 0..(MIN - 1)
DecIsoDM(c)   == Angle(c.sg, c.whole \div 100, (c.whole % 100) * MIN + c.frac)

\* DDDMMSS.sss
EncIsoDMS(a)   == LET m == a.r \div MIN
                      s == a.r % MIN
                  IN [sg |-> a.sg, whole |-> 10000 * a.d + 100 * m + (s \div SEC), frac |-> s % SEC]
ValidIsoDMS(c) == /\ c.sg \in {1, -1} /\ c.whole \in Nat /\ c.frac \in 0..(SEC - 1)
                  /\ ((c.whole % 10000) \div 100) < 60 /\ (c.whole % 100) < 60
DecIsoDMS(c)   == LET ms == c.whole % 10000
                  IN Angle(c.sg, c.whole \div 10000, (ms \div 100) * MIN + (ms % 100) * SEC + c.frac)

\* the value of an ISO code as a number: compared lexicographically
CodeLess(c1, c2) == c1.whole < c2.whole \/ (c1.whole = c2.whole /\ c1.frac < c2.frac)

\* What the signature dms_to_dd(d: i32, m: u16, s: f64) / dm_to_dd(d: i32, m: f64)
\* can express: the sign travels in the degree field, so a negative angle
\* needs a non-zero degree field.  (A positive one does not.)
InI32Signature(a) == a.sg = 1 \/ a.d > 0

\* ---- normalisation ---------------------------------------------------------
\* floor form: angle = f + r/DEG degrees with f any integer, 0 <= r < DEG
ToFloor(a) == IF a.sg = 1 THEN [f |-> a.d, r |-> a.r]
              ELSE IF a.r = 0 THEN [f |-> 0 - a.d, r |-> 0]
              ELSE [f |-> 0 - a.d - 1, r |-> DEG - a.r]
FromFloor(x) == IF x.f >= 0 THEN Angle(1, x.f, x.r)
                ELSE IF x.r = 0 THEN Angle(-1, 0 - x.f, 0)
                ELSE Angle(-1, 0 - x.f - 1, DEG - x.r)
\* [0, 360)
NormPositive(a)  == LET x == ToFloor(a) IN FromFloor([f |-> x.f % 360, r |-> x.r])
\* [-180, 180)
NormSymmetric(a) == LET x == ToFloor(a) IN FromFloor([f |-> ((x.f + 180) % 360) - 180, r |-> x.r])
\* a and b differ by a whole number of turns
Equivalent(a, b) == LET x == ToFloor(a) y == ToFloor(b) IN x.r = y.r /\ (x.f - y.f) % 360 = 0
\* on the range boundary (odd multiple of 180 deg): the f64 input of the real
\* function is then not the exact angle, either end of the range is admissible
OnSymBoundary(a) == a.r = 0 /\ a.d % 360 = 180
OnPosBoundary(a) == a.r = 0 /\ a.d % 360 = 0

\* ---- tuples: constructors, unit conversions, the dm / dms operators --------
\* A slot is what one element of a coordinate tuple holds, symbolically:
\* <<unit, which>>, which \in {"A", "B"} naming one of two angles, or a
\* pass-through element <<"pass", 3 | 4>>.
Pass3 == <<"pass", 3>>
Pass4 == <<"pass", 4>>
U(unit, t) == IF t[1] = "pass" THEN t ELSE <<unit, t[2]>>
\* Coor4D::geo(latitude, longitude, h, t): degrees in, internal order (lon, lat) in radians
CtorGeo(lat, lon) == <<U("rad", lon), U("rad", lat), Pass3, Pass4>>
\* Coor4D::gis(longitude, latitude, h, t)
CtorGis(lon, lat) == <<U("rad", lon), U("rad", lat), Pass3, Pass4>>
\* Coor4D::arcsec(longitude, latitude, ..): seconds of arc in
CtorArcsec(lon, lat) == <<U("rad", lon), U("rad", lat), Pass3, Pass4>>
\* AngularUnits: first two elements converted, the others untouched
ToDegrees(t) == <<U("deg", t[1]), U("deg", t[2]), t[3], t[4]>>
ToArcsec(t)  == <<U("arcsec", t[1]), U("arcsec", t[2]), t[3], t[4]>>
ToRadians(t) == <<U("rad", t[1]), U("rad", t[2]), t[3], t[4]>>
ToGeo(t)     == <<U("deg", t[2]), U("deg", t[1]), t[3], t[4]>>
\* dm / dms operator: (lat, lon) codes in, internal (lon, lat) radians out; inverse the reverse
OpFwd(t)       == <<U("rad", t[2]), U("rad", t[1]), t[3], t[4]>>
OpInv(code, t) == <<U(code, t[2]), U(code, t[1]), t[3], t[4]>>
LatLon(code)   == <<<<code, "A">>, <<code, "B">>, Pass3, Pass4>>

ASSUME ToGeo(CtorGeo(<<"deg", "A">>, <<"deg", "B">>)) = <<<<"deg", "A">>, <<"deg", "B">>, Pass3, Pass4>>
ASSUME CtorGeo(<<"deg", "A">>, <<"deg", "B">>) = CtorGis(<<"deg", "B">>, <<"deg", "A">>)
ASSUME \A c \in {"isodm", "isodms"} : OpInv(c, OpFwd(LatLon(c))) = LatLon(c)
ASSUME ToDegrees(ToRadians(ToDegrees(OpFwd(LatLon("isodm"))))) = ToDegrees(OpFwd(LatLon("isodm")))

\* ---- text (parse_sexagesimal) ----------------------------------------------
Pad3(n) == IF n < 10 THEN "00" \o ToString(n) ELSE IF n < 100 THEN "0" \o ToString(n) ELSE ToString(n)
Pad2(n) == IF n < 10 THEN "0" \o ToString(n) ELSE ToString(n)
\* shortest documented form: D, D:M or D:M:S[.sss]
DmsBody(c) == LET sec == ToString(c.s \div SEC) \o (IF c.s % SEC = 0 THEN "" ELSE "." \o Pad3(c.s % SEC))
              IN IF c.m = 0 /\ c.s = 0 THEN ToString(c.d)
                 ELSE IF c.s = 0 THEN ToString(c.d) \o ":" \o ToString(c.m)
                 ELSE ToString(c.d) \o ":" \o ToString(c.m) \o ":" \o sec
DmsFull(c) == ToString(c.d) \o ":" \o Pad2(c.m) \o ":" \o Pad2(c.s \div SEC) \o "." \o Pad3(c.s % SEC)
\* either a minus sign or a hemisphere letter, never both
SexaTexts(c) == << (IF c.sg = 1 THEN "" ELSE "-") \o DmsBody(c),
                   (IF c.sg = 1 THEN "" ELSE "-") \o DmsFull(c),
                   DmsBody(c) \o (IF c.sg = 1 THEN "N" ELSE "S"),
                   DmsFull(c) \o (IF c.sg = 1 THEN "E" ELSE "W") >>
\* the literal DDDMM.mmm / DDDMMSS.sss when three decimals suffice
IsoDMText(c)  == IF c.frac % 60 # 0 THEN ""
                 ELSE (IF c.sg = 1 THEN "" ELSE "-") \o ToString(c.whole) \o "." \o Pad3(c.frac \div 60)
IsoDMSText(c) == (IF c.sg = 1 THEN "" ELSE "-") \o ToString(c.whole) \o "." \o Pad3(c.frac)

(***************************************************************************)
(* Exploration                                                             *)
(***************************************************************************)
CONSTANT Segments    \* set of [sg, d, r, k, n, x]: start angle, step (mas), number of ticks,
                     \* x = 0: lattice walk; x > 0: pseudo-random walk started from x
SegC == TLCEval(Segments)

VARIABLES a,      \* the angle
          odo,    \* degree / minute / second odometer
          k,      \* step of this segment
          left,   \* ticks left
          rng     \* 0, or the state of the linear congruential generator
vars == <<a, odo, k, left, rng>>

Init == \E s \in SegC :
           /\ a = Angle(s.sg, s.d, s.r)
           /\ odo = [sg |-> s.sg, d |-> s.d, m |-> s.r \div MIN, s |-> s.r % MIN]
           /\ k = s.k /\ left = s.n /\ rng = s.x

\* the odometer: seconds, carry into minutes, carry into degrees
OdoAdd(o, n) == LET s1 == o.s + n
                    m1 == o.m + (s1 \div MIN)
                IN [sg |-> o.sg, d |-> o.d + (m1 \div 60), m |-> m1 % 60, s |-> s1 % MIN]

\* one step along a lattice segment
Tick == /\ left > 0 /\ rng = 0
        /\ a' = AddMas(a, k)
        /\ odo' = OdoAdd(odo, k)
        /\ left' = left - 1
        /\ UNCHANGED <<k, rng>>

\* "at random": jump to an angle in (-720, 720) degrees drawn from a linear
\* congruential sequence (x -> 75 x mod 65537); the odometer is wound from d 0'0"
Nx(x) == (75 * x) % 65537
Jump == /\ left > 0 /\ rng > 0
        /\ LET x1 == Nx(rng)
               x2 == Nx(x1)
               x3 == Nx(x2)
               x4 == Nx(x3)
               sg == IF x1 % 2 = 0 THEN 1 ELSE -1
               d  == x2 % 720
               r  == (x3 % 60) * MIN + (x4 % MIN)
           IN /\ a' = AddMas(Angle(sg, d, 0), r)
              /\ odo' = OdoAdd([sg |-> sg, d |-> d, m |-> 0, s |-> 0], r)
              /\ rng' = x4
        /\ left' = left - 1
        /\ UNCHANGED k

Next == Tick \/ Jump
Spec == Init /\ [][Next]_vars

----------------------------------------------------------------------------
TypeOK == IsAngle(a) /\ ValidDMS(odo) /\ left \in Nat /\ rng \in 0..65536

\* digit-wise carrying and one division of the remainder agree
OdoInv == odo = EncDMS(a)

\* every encoder produces a well-formed code (no 60 in a minutes / seconds group:
\* the carry at 59'59.999" went into the next group) and is undone by its decoder
RoundTripInv ==
    /\ ValidDMS(EncDMS(a))       /\ DecDMS(EncDMS(a)) = a
    /\ ValidDM(EncDM(a))         /\ DecDM(EncDM(a)) = a
    /\ ValidIsoDM(EncIsoDM(a))   /\ DecIsoDM(EncIsoDM(a)) = a
    /\ ValidIsoDMS(EncIsoDMS(a)) /\ DecIsoDMS(EncIsoDMS(a)) = a
\* ... and every decoder by its encoder (codes = the well-formed ones: the odometer is one)
CodeRoundTripInv ==
    /\ EncDMS(DecDMS(odo)) = odo
    /\ EncIsoDM(DecIsoDM(EncIsoDM(a))) = EncIsoDM(a)
    /\ EncIsoDMS(DecIsoDMS(EncIsoDMS(a))) = EncIsoDMS(a)
\* the two ISO forms and the DMS fields name the same digit groups
DigitsInv == /\ EncIsoDM(a).whole = 100 * odo.d + odo.m
             /\ EncIsoDMS(a).whole = 10000 * odo.d + 100 * odo.m + (odo.s \div SEC)
             /\ EncIsoDMS(a).frac = odo.s % SEC

\* the sign survives every encoding, in particular with a zero degree field
SignInv == /\ EncDMS(a).sg = a.sg /\ EncDM(a).sg = a.sg
           /\ EncIsoDM(a).sg = a.sg /\ EncIsoDMS(a).sg = a.sg
           /\ Below1(a) => /\ EncDMS(a).d = 0 /\ EncIsoDM(a).whole < 100 /\ EncIsoDMS(a).whole < 10000
                           /\ DecDMS(EncDMS(a)).sg = a.sg
                           /\ DecIsoDM(EncIsoDM(a)).sg = a.sg
                           /\ DecIsoDMS(EncIsoDMS(a)).sg = a.sg

NormInv == LET p == NormPositive(a)
               s == NormSymmetric(a)
           IN /\ IsAngle(p) /\ IsAngle(s)
              /\ Equivalent(p, a) /\ Equivalent(s, a)
              /\ ToFloor(p).f \in 0..359
              /\ ToFloor(s).f \in (0 - 180)..179
              /\ NormPositive(p) = p /\ NormSymmetric(s) = s          \* idempotent
              /\ FromFloor(ToFloor(a)) = (IF IsZero(a) THEN Angle(1, 0, 0) ELSE a)

\* a greater magnitude has a greater code: encodings are strictly monotone
\* along a walk (an uncarried 60 or a lost carry would break this)
MonotoneProp == [][ rng = 0 => /\ CodeLess(EncIsoDM(a), EncIsoDM(a'))
                               /\ CodeLess(EncIsoDMS(a), EncIsoDMS(a')) ]_vars

----------------------------------------------------------------------------
\* Behaviour export: one case per angle.  B is a second angle derived from
\* the first, to fill the other horizontal slot of a tuple.
Partner(x) == Angle(0 - x.sg, (7 * x.d + 13) % 180, (7 * x.r + 1234560) % DEG)

Fields(x) == [sg |-> x.sg, d |-> x.d, r |-> x.r,
              dms   |-> <<EncDMS(x).d, EncDMS(x).m, EncDMS(x).s>>,
              dm    |-> <<EncDM(x).d, EncDM(x).mm>>,
              i32   |-> InI32Signature(x),
              idm   |-> <<EncIsoDM(x).whole, EncIsoDM(x).frac>>,
              idms  |-> <<EncIsoDMS(x).whole, EncIsoDMS(x).frac>>]

Emit == PrintT(<<"ANG", ToJson([
            A  |-> Fields(a),
            B  |-> Fields(Partner(a)),
            sx |-> SexaTexts(EncDMS(a)),
            t1 |-> IsoDMText(EncIsoDM(a)),
            t2 |-> IsoDMSText(EncIsoDMS(a)),
            np |-> LET p == NormPositive(a) IN <<p.sg, p.d, p.r>>,
            ns |-> LET s == NormSymmetric(a) IN <<s.sg, s.d, s.r>>,
            pb |-> OnPosBoundary(a), sb |-> OnSymBoundary(a),
            \* deviation DEV_zero_degree_field_gives_zero: the value predicted for
            \* dms_to_dd / dm_to_dd if the sign were taken from signum(degrees)
            dev0 |-> (a.sg = 1 /\ Below1(a))
        ])>>)

\* the tuple-level expectations (slot = <<unit, which>>), printed once at start-up
ASSUME PrintT(<<"TUP", ToJson([
        geo     |-> CtorGeo(<<"deg", "A">>, <<"deg", "B">>),
        gis     |-> CtorGis(<<"deg", "A">>, <<"deg", "B">>),
        arcsec  |-> CtorArcsec(<<"arcsec", "A">>, <<"arcsec", "B">>),
        todeg   |-> ToDegrees(CtorGis(<<"deg", "A">>, <<"deg", "B">>)),
        toarc   |-> ToArcsec(CtorGis(<<"deg", "A">>, <<"deg", "B">>)),
        torad   |-> ToRadians(<<<<"deg", "A">>, <<"deg", "B">>, Pass3, Pass4>>),
        togeo   |-> ToGeo(CtorGis(<<"deg", "A">>, <<"deg", "B">>)),
        dmfwd   |-> OpFwd(LatLon("isodm")),
        dminv   |-> OpInv("isodm", OpFwd(LatLon("isodm"))),
        dmsfwd  |-> OpFwd(LatLon("isodms")),
        dmsinv  |-> OpInv("isodms", OpFwd(LatLon("isodms")))
    ])>>)
=============================================================================
