SPECIFICATION SxSpec
CONSTANTS
  NaN = NaN
  Cases <- DeepCases
  SxResources <- Res
  MaxChoices = 4
  MacroPairs <- Pairs
  IndexedKeys <- Indexed
INVARIANTS TypeOK RoundTrip LexSafe EmitSx
CHECK_DEADLOCK FALSE
