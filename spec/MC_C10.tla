------------------------------- MODULE MC_C10 -------------------------------
(***************************************************************************)
(* C10, single operators: every row x direction x domain class x point x   *)
(* NaN mask (all 16 subsets of the four elements), and per (row, direction)*)
(* the set of all these tuples in one call.  The classes: inside / far     *)
(* outside / at a declared limit / outside coverage with a null grid, and  *)
(* the classes of the VALUE space: corners (finite numbers where the       *)
(* formulas degenerate), +-inf in an element that is read (directions with *)
(* a declared limit), +-inf and -0.0 in an element that is not worked on.  *)
(***************************************************************************)
EXTENDS Catalogue

VARIABLES row, dir, cs
vars == <<row, dir, cs>>
None == [cls |-> "-", pi |-> 0, M |-> {}]

Init == row \in SingleRows /\ dir \in {"F", "I"} /\ cs = None
PickCase == cs = None /\ \E c \in CasesOf(Rows[row], dir) : cs' = c /\ UNCHANGED <<row, dir>>
Next == PickCase
Spec == Init /\ [][Next]_vars

R == Rows[row]
\* the sanity of the abstract semantics, for every case
SaneInv == cs # None => OutcomeSane(R, dir, cs.cls, cs.M)
\* honest counts for the whole set in one call
CountInv == cs = None => LET S == CasesOf(R, dir) IN
               /\ 0 <= SetLo(R, dir, S) /\ SetLo(R, dir, S) <= SetHi(R, dir, S) /\ SetHi(R, dir, S) <= Cardinality(S)
               /\ ~Supported(R, dir) => SetHi(R, dir, S) = 0
\* a deviation never coincides with the reference (it would classify nothing)
DevInv == cs # None => LET dev == Deviation(R, dir, cs.cls, cs.pi, cs.M) IN
             dev # "" => DevOutcomes(dev, R, dir, cs.M) \cap Outcomes(R, dir, cs.cls, cs.M) = {}

OutJson(O) == {[c |-> o.c, el |-> o.el, sn |-> o.sn, mv |-> o.mv] : o \in O}
Emit ==
    IF cs # None
    THEN LET dev == Deviation(R, dir, cs.cls, cs.pi, cs.M) IN
         PrintT(<<"CASE", ToJson([row |-> R.id, def |-> R.def, ctx |-> R.ctx, dir |-> dir, cls |-> cs.cls, pi |-> cs.pi,
                      mask |-> cs.M, pt |-> PointOf(R, dir, cs), sup |-> Supported(R, dir),
                      outs |-> OutJson(Outcomes(R, dir, cs.cls, cs.M)),
                      dev |-> dev, douts |-> OutJson(IF dev = "" THEN {} ELSE DevOutcomes(dev, R, dir, cs.M))])>>)
    ELSE LET S == CasesOf(R, dir)  devs == SetDevs(R, dir, S) IN
         PrintT(<<"SET", ToJson([row |-> R.id, def |-> R.def, ctx |-> R.ctx, dir |-> dir,
                      lo |-> SetLo(R, dir, S), hi |-> SetHi(R, dir, S),
                      \* the bounds with every non-empty subset of the applicable deviation switches on
                      variants |-> {[on |-> DV, lo |-> DSetLo(DV, R, dir, S), hi |-> DSetHi(DV, R, dir, S)] : DV \in (SUBSET devs) \ {{}}},
                      members |-> {[cls |-> c.cls, mask |-> c.M, pt |-> PointOf(R, dir, c),
                                    outs |-> OutJson(Outcomes(R, dir, c.cls, c.M)),
                                    dev |-> Deviation(R, dir, c.cls, c.pi, c.M),
                                    douts |-> OutJson(DOutcomes(R, dir, c.cls, c.pi, c.M))] : c \in S}])>>)
=============================================================================
