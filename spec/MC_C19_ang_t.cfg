SPECIFICATION Spec
CONSTANTS
  Segments <- SegThorough
INVARIANTS TypeOK OdoInv RoundTripInv CodeRoundTripInv DigitsInv SignInv NormInv Emit
PROPERTIES MonotoneProp
CHECK_DEADLOCK FALSE
