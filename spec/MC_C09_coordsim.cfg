SPECIFICATION Spec
CONSTANTS
  Mode = "coord"
  MaxEdits = 1
  Wraps <- OnlyAlone
  OpFilter <- NoFilter
  ClassStride = 1
  CoordArity = 4
  FnVary = 1
  Commit = TRUE
INVARIANTS Emit
CHECK_DEADLOCK FALSE
