SPECIFICATION Spec
CONSTANTS
  Mode = "fn"
  MaxEdits = 1
  Wraps <- OnlyAlone
  OpFilter <- NoFilter
  ClassStride = 2
  CoordArity = 2
  FnVary = 1
  Commit = FALSE
INVARIANTS Emit
CHECK_DEADLOCK FALSE
