------------------------------- MODULE Syntax -------------------------------
(***************************************************************************)
(* The definition language as text (C16).                                  *)
(*                                                                         *)
(* A definition is the AST of module Pipeline: a sequence of steps         *)
(*   [name, args, inv, of, oi],  args: sequence of [k |-> key, v |-> value]*)
(* with the value forms of Pipeline                                        *)
(*   [f |-> "lit", v |-> Int]  [f |-> "ref", n]  [f |-> "refd", n, d]      *)
(*   [f |-> "dflt", d]                                                     *)
(* extended by                                                             *)
(*   [f |-> "txt",  s |-> word]              key=word                      *)
(*   [f |-> "list", s |-> <<word, ...>>]     key=w1,w2,w3                  *)
(*   [f |-> "flag"]                          key          (a bare flag)    *)
(*                                                                         *)
(* This module gives                                                       *)
(*  (1) the rendering relation  AST x layout -> text.  A text is a         *)
(*      sequence of lexemes (words, one-character separators, blanks, line *)
(*      ends); the characters of the text are the lexemes joined.  A       *)
(*      layout is a function from the layout dimensions (Fields) to the    *)
(*      chosen alternative; Default is the canonical one-line form.        *)
(*  (2) the reference reading of a text (Parse): comments end at the line  *)
(*      end, a line whose first character after optional indentation is   *)
(*      ':' continues the previous line (Rumination 009: pipelines are     *)
(*      free format, lines are trimmed), line ends are blanks,             *)
(*      blanks separate; '|' '<' '>' separate steps, '<' / '>'             *)
(*      mark the following step omit_fwd / omit_inv, empty steps vanish;   *)
(*      in a step the modifiers may stand anywhere, bare or as =true, the  *)
(*      first other bare word is the name, the rest are key=value pairs    *)
(*      and flags; x + subscript digit is the key x_digit.                 *)
(*  (3) the state machine that enumerates, per case, every layout with at  *)
(*      most MaxChoices non-default choices (one action per choice), and   *)
(*      the invariants                                                     *)
(*        RoundTrip  Parse(Render(ast, layout)) = ast  -- every rendering  *)
(*                   denotes its AST, hence no two different ASTs share a  *)
(*                   text (the renderer is injective on ASTs);             *)
(*        LexSafe    no two words touch (joining the lexemes cannot merge  *)
(*                   them), so the lexeme reading is the character reading.*)
(* The property C16 itself is about the code: all texts of one AST must be *)
(* equivalent.  Emit hands every (case, text) to the harness, which checks *)
(* the equivalences relationally against the canonical text.               *)
(*                                                                         *)
(* TLC prints ASCII only: a character outside ASCII is written {uXXXX} and *)
(* decoded by the driver (bin/suites/C16.py: decode()).                    *)
(***************************************************************************)
EXTENDS Values, Json

CONSTANTS
    Cases,        \* sequence of cases [subject, as, invoke, ok], see Init
    SxResources,  \* function: macro name -> definition AST (registered in canonical form)
    MaxChoices,   \* bound on the number of non-default layout choices
    MacroPairs,   \* set of <<ns, id>>: the macro names that occur, split at the sigil
    IndexedKeys   \* set of <<key, stem, digit>>, e.g. <<"x_0", "x", "0">>

CasesC == TLCEval(Cases)
SxResC == TLCEval(SxResources)
PairsC == TLCEval(MacroPairs)
IdxC   == TLCEval(IndexedKeys)

ModNames == {"inv", "omit_fwd", "omit_inv"}
SxSugarable(s) == s.of # s.oi
SxOneStepPipeline(def) == Len(def) = 1 /\ (def[1].of \/ def[1].oi)

(***************************************************************************)
(* Layout                                                                  *)
(***************************************************************************)
Fields == {"bar", "eq", "com", "col", "dol", "gap", "lines", "eol", "cont", "cpos", "ctext",
           "empty", "mods", "sugar", "sub", "outer"}

Default == [f \in Fields |->
    CASE f = "bar"   -> "sp"       \* " | "
      [] f = "eq"    -> "no"       \* "="
      [] f = "com"   -> "no"       \* ","
      [] f = "col"   -> "no"       \* ":" of a macro name
      [] f = "dol"   -> "no"       \* "$name"
      [] f = "gap"   -> "sp"       \* one blank between the elements of a step
      [] f = "lines" -> "one"      \* everything on one line
      [] f = "eol"   -> "lf"
      [] f = "cont"  -> "none"     \* no continuation lines
      [] f = "cpos"  -> "none"     \* no comment
      [] f = "ctext" -> "1"
      [] f = "empty" -> "none"     \* no empty steps
      [] f = "mods"  -> "suffix"   \* name args modifiers
      [] f = "sugar" -> "no"       \* omit_fwd / omit_inv spelled out
      [] f = "sub"   -> "no"       \* x_0
      [] f = "outer" -> "none"]    \* nothing around the text

Alts(f) ==
    CASE f = "bar"   -> {"no", "wide", "tab", "left", "right"}      \* "|"  "  |  "  TAB|TAB  " |"  "| "
      [] f = "eq"    -> {"both", "right", "left"}                   \* " = "  "= "  " ="
      [] f = "com"   -> {"both", "right", "left"}
      [] f = "col"   -> {"both", "right", "left"}
      [] f = "dol"   -> {"sp"}                                      \* "$ name"
      [] f = "gap"   -> {"tab", "wide"}                             \* a TAB / two blanks between the elements of a step
      [] f = "lines" -> {"lead", "leadind", "trail"}                \* delimiter starts the line (indented or not) / ends it
      [] f = "eol"   -> {"cr", "crlf"}
      [] f = "cont"  -> {"sp", "nosp", "ind", "indtab"}             \* arguments on a continuation line ":   args" / ":args" /
                                                                    \* the colon indented: "  :   args" / TAB ":args"
      [] f = "cpos"  -> {"top", "mid", "end", "trail1", "traillast"}\* own line: before / after step 1 / at the end; trailing a line
      [] f = "ctext" -> {"2", "3"}                                  \* what the comment says
      [] f = "empty" -> {"lead", "trail", "dbl", "dblsp"}           \* "| a"  "a |"  "a || b"  "a | | b"
      [] f = "mods"  -> {"prefix", "mid", "between", "suffix_eq", "mid_eq"}
      [] f = "sugar" -> {"yes"}                                     \* "<" / ">"
      [] f = "sub"   -> {"yes"}                                     \* x + subscript zero
      [] f = "outer" -> {"lead", "trail", "both"}

NonDefault(lay) == {f \in Fields : lay[f] # Default[f]}

\* ---- which choices make a difference for a given definition ---------------
HasMod(s, lay) == s.inv \/ ((s.of \/ s.oi) /\ ~(lay["sugar"] = "yes" /\ SxSugarable(s)))
Rest(s) == Len(s.args) > 0      \* something follows the name
ArgsOf(def) == UNION {{def[i].args[j] : j \in 1..Len(def[i].args)} : i \in 1..Len(def)}
IsMacroName(nm) == \E p \in PairsC : p[1] \o ":" \o p[2] = nm
IsIndexed(k) == \E t \in IdxC : t[1] = k

HasEol(def, lay) ==
    \/ lay["lines"] # "one"
    \/ (lay["cont"] # "none" /\ \E i \in 1..Len(def) : Rest(def[i]))
    \/ lay["cpos"] \in {"top", "mid", "end", "trail1"}
    \/ lay["outer"] \in {"trail", "both"}

Applicable(def, lay) ==
    LET n == Len(def)
        A == ArgsOf(def)
        D == NonDefault(lay)
    IN /\ "bar" \in D   => (n >= 2 /\ lay["lines"] = "one")
       /\ "eq" \in D    => (\/ \E a \in A : a.v.f # "flag"
                            \/ (lay["mods"] \in {"suffix_eq", "mid_eq"} /\ \E i \in 1..n : HasMod(def[i], lay)))
       /\ "com" \in D   => \E a \in A : a.v.f = "list"
       /\ "col" \in D   => \E i \in 1..n : IsMacroName(def[i].name)
       /\ "dol" \in D   => \E a \in A : a.v.f \in {"ref", "refd"}
       /\ "gap" \in D   => \E i \in 1..n : Rest(def[i]) \/ HasMod(def[i], lay)
       /\ "lines" \in D => n >= 2
       /\ "eol" \in D   => HasEol(def, lay)
       /\ "cont" \in D  => \E i \in 1..n : Rest(def[i])
       /\ lay["cpos"] \in {"mid", "trail1"} => n >= 2
       /\ "ctext" \in D => lay["cpos"] # "none"
       /\ lay["empty"] \in {"dbl", "dblsp"} => n >= 2
       /\ lay["empty"] \in {"lead", "trail"} =>
             /\ ~SxOneStepPipeline(def)                    \* there the bar is not optional
             /\ ~(n = 1 /\ IsMacroName(def[1].name))      \* "m:x" lists the steps of its body, "m:x |" is a pipeline of one step
       /\ "mods" \in D  => \E i \in 1..n :
                              /\ HasMod(def[i], lay)
                              /\ lay["mods"] \in {"mid", "mid_eq"} => Len(def[i].args) >= 1
                              /\ lay["mods"] = "between" => Len(def[i].args) >= 2
       /\ "sugar" \in D => \E i \in 1..n : SxSugarable(def[i])
       /\ "sub" \in D   => \E a \in A : IsIndexed(a.k)

(***************************************************************************)
(* Rendering                                                               *)
(***************************************************************************)
RECURSIVE Flat(_)
Flat(ss) == IF Len(ss) = 0 THEN <<>> ELSE Head(ss) \o Flat(Tail(ss))

\* sequences of lexeme sequences joined by one blank; empty members vanish
RECURSIVE Spaced(_)
Spaced(ss) == IF Len(ss) = 0 THEN <<>>
              ELSE IF Head(ss) = <<>> THEN Spaced(Tail(ss))
              ELSE LET r == Spaced(Tail(ss)) IN IF r = <<>> THEN Head(ss) ELSE Head(ss) \o <<" ">> \o r
\* the same with the gap of the layout
RECURSIVE SpacedBy(_, _)
SpacedBy(ss, b) == IF Len(ss) = 0 THEN <<>>
                   ELSE IF Head(ss) = <<>> THEN SpacedBy(Tail(ss), b)
                   ELSE LET r == SpacedBy(Tail(ss), b) IN IF r = <<>> THEN Head(ss) ELSE Head(ss) \o <<b>> \o r
Gap(lay) == CASE lay["gap"] = "sp" -> " " [] lay["gap"] = "tab" -> "\t" [] lay["gap"] = "wide" -> "  "

Around(tok, style) == (IF style \in {"both", "left"} THEN <<" ">> ELSE <<>>) \o <<tok>>
                      \o (IF style \in {"both", "right"} THEN <<" ">> ELSE <<>>)

BarL(style) == CASE style = "sp" -> <<" ">> [] style = "wide" -> <<"  ">> [] style = "tab" -> <<"\t">>
                 [] style = "left" -> <<" ">> [] OTHER -> <<>>
BarR(style) == CASE style = "sp" -> <<" ">> [] style = "wide" -> <<"  ">> [] style = "tab" -> <<"\t">>
                 [] style = "right" -> <<" ">> [] OTHER -> <<>>

Eol(lay) == CASE lay["eol"] = "lf" -> "\n" [] lay["eol"] = "cr" -> "\r" [] lay["eol"] = "crlf" -> "\r\n"

SubDigit(d) == CASE d = "0" -> "{u2080}" [] d = "1" -> "{u2081}" [] d = "2" -> "{u2082}" [] d = "3" -> "{u2083}"
                 [] d = "4" -> "{u2084}" [] d = "5" -> "{u2085}" [] d = "6" -> "{u2086}" [] d = "7" -> "{u2087}"
                 [] d = "8" -> "{u2088}" [] d = "9" -> "{u2089}"

KeyLex(k, lay) == IF lay["sub"] = "yes" /\ IsIndexed(k)
                  THEN LET t == CHOOSE t \in IdxC : t[1] = k IN <<t[2] \o SubDigit(t[3])>>
                  ELSE <<k>>

RECURSIVE ListLex(_, _)
ListLex(ws, style) == IF Len(ws) = 1 THEN <<ws[1]>> ELSE <<ws[1]>> \o Around(",", style) \o ListLex(Tail(ws), style)

Dollar(lay) == IF lay["dol"] = "sp" THEN <<"$", " ">> ELSE <<"$">>

SxValLex(v, lay) ==
    CASE v.f = "lit"  -> <<ToString(v.v)>>
      [] v.f = "txt"  -> <<v.s>>
      [] v.f = "list" -> ListLex(v.s, lay["com"])
      [] v.f = "ref"  -> Dollar(lay) \o <<v.n>>
      [] v.f = "refd" -> Dollar(lay) \o <<v.n, "(", ToString(v.d), ")">>
      [] v.f = "dflt" -> <<"(", ToString(v.d), ")">>

ArgLex(a, lay) == IF a.v.f = "flag" THEN KeyLex(a.k, lay)
                  ELSE KeyLex(a.k, lay) \o Around("=", lay["eq"]) \o SxValLex(a.v, lay)

NameLex(nm, lay) == IF IsMacroName(nm)
                    THEN LET p == CHOOSE p \in PairsC : p[1] \o ":" \o p[2] = nm IN <<p[1]>> \o Around(":", lay["col"]) \o <<p[2]>>
                    ELSE <<nm>>

ModLex(m, lay) == IF lay["mods"] \in {"suffix_eq", "mid_eq"} THEN <<m>> \o Around("=", lay["eq"]) \o <<"true">> ELSE <<m>>

\* the modifiers of step s that are written as words (sug: the omission is in the separator)
ModsLex(s, lay, sug) ==
    SpacedBy(<< IF s.inv THEN ModLex("inv", lay) ELSE <<>>,
                IF s.of /\ ~sug THEN ModLex("omit_fwd", lay) ELSE <<>>,
                IF s.oi /\ ~sug THEN ModLex("omit_inv", lay) ELSE <<>> >>, Gap(lay))

\* one step: <<what stands on the first line, what may go to a continuation line>>
StepParts(s, lay, sug) ==
    LET nm == NameLex(s.name, lay)
        ar == [j \in 1..Len(s.args) |-> ArgLex(s.args[j], lay)]
        md == ModsLex(s, lay, sug)
        st == lay["mods"]
        g == Gap(lay)
    IN CASE st \in {"suffix", "suffix_eq"} -> <<nm, SpacedBy(ar \o <<md>>, g)>>
         [] st = "prefix"                  -> <<SpacedBy(<<md, nm>>, g), SpacedBy(ar, g)>>
         [] st \in {"mid", "mid_eq"}       -> <<nm, SpacedBy(<<md>> \o ar, g)>>
         [] st = "between"                 -> IF Len(ar) = 0 THEN <<nm, md>>
                                              ELSE <<nm, SpacedBy(<<ar[1], md>> \o Tail(ar), g)>>

StepLex(s, lay, sug) ==
    LET p == StepParts(s, lay, sug) IN
    IF lay["cont"] = "none" \/ p[2] = <<>> THEN SpacedBy(p, Gap(lay))
    ELSE p[1] \o <<Eol(lay)>>
         \o (CASE lay["cont"] = "ind" -> <<"  ">> [] lay["cont"] = "indtab" -> <<"\t">> [] OTHER -> <<>>)
         \o <<":">> \o (IF lay["cont"] \in {"sp", "ind"} THEN <<"   ">> ELSE <<>>) \o p[2]

CommentLex(lay) == CASE lay["ctext"] = "1" -> <<"#", " ", "c">>
                     [] lay["ctext"] = "2" -> <<"#", " ", "|", " ", "noop">>           \* a commented-out step
                     [] lay["ctext"] = "3" -> <<"#", "k", "=", "1", " ", ">", " ", "x">>
                     \* (not among Alts: chosen by module ProjSyntax, whose subject is the word "proj")
                     [] lay["ctext"] = "p" -> <<"#", " ", "reprojected">>

Render(def, lay) ==
    LET n == Len(def)
        e == Eol(lay)
        sugar(i) == lay["sugar"] = "yes" /\ SxSugarable(def[i])
        septok(i) == IF sugar(i) THEN (IF def[i].of THEN "<" ELSE ">") ELSE "|"
        anysugar == \E i \in 1..n : sugar(i)
        \* the extra bar of an empty step in front of step i
        dbl(i) == IF i = 2 /\ lay["empty"] = "dbl" THEN <<"|">>
                  ELSE IF i = 2 /\ lay["empty"] = "dblsp" THEN <<"|", " ">> ELSE <<>>
        first == (IF lay["empty"] = "lead" THEN <<"|", " ">> ELSE <<>>)
                 \o (IF sugar(1) THEN <<septok(1), " ">> ELSE <<>>)
        pre(i) == IF i = 1 THEN first
                  ELSE CASE lay["lines"] = "one"     -> BarL(lay["bar"]) \o dbl(i) \o <<septok(i)>> \o BarR(lay["bar"])
                         [] lay["lines"] = "lead"    -> dbl(i) \o <<septok(i), " ">>
                         [] lay["lines"] = "leadind" -> <<"  ">> \o dbl(i) \o <<septok(i), " ">>
                         [] lay["lines"] = "trail"   -> <<>>
        post(i) == IF lay["lines"] = "trail" /\ i < n THEN <<" ">> \o dbl(i + 1) \o <<septok(i + 1)>> ELSE <<>>
        piece(i) == pre(i) \o StepLex(def[i], lay, sugar(i)) \o post(i)
        brk(i) == lay["lines"] # "one" \/ (i = 1 /\ lay["cpos"] \in {"trail1", "mid"})
        after(i) == (IF i = 1 /\ lay["cpos"] = "trail1" THEN <<" ">> \o CommentLex(lay) ELSE <<>>)
                    \o (IF i = 1 /\ lay["cpos"] = "mid" THEN <<e>> \o CommentLex(lay) ELSE <<>>)
                    \o (IF brk(i) THEN <<e>> ELSE <<>>)
        body == Flat([i \in 1..n |-> piece(i) \o (IF i < n THEN after(i) ELSE <<>>)])
        \* a lone directional step is a pipeline of one step: it needs a separator
        needbar == SxOneStepPipeline(def) /\ ~anysugar
        tail == (IF lay["empty"] = "trail" \/ needbar THEN <<" ", "|">> ELSE <<>>)
                \o (IF lay["cpos"] = "traillast" THEN <<" ">> \o CommentLex(lay) ELSE <<>>)
                \o (IF lay["cpos"] = "end" THEN <<e>> \o CommentLex(lay) ELSE <<>>)
        top == IF lay["cpos"] = "top" THEN CommentLex(lay) \o <<e>> ELSE <<>>
        lead == CASE lay["outer"] = "lead" -> <<"  ">> [] lay["outer"] = "both" -> <<e, "  ">> [] OTHER -> <<>>
        trail == CASE lay["outer"] = "trail" -> <<" ", e>> [] lay["outer"] = "both" -> <<"  ", e>> [] OTHER -> <<>>
    IN lead \o top \o body \o tail \o trail

SxText(lex) == JoinStr(lex, "")
CanonText(def) == SxText(Render(def, Default))

(***************************************************************************)
(* The reference reading of a text                                         *)
(***************************************************************************)
IsEol(x) == x \in {"\n", "\r", "\r\n"}
IsBlank(x) == x \in {" ", "  ", "   ", "\t"}
IsSepChar(x) == x \in {"|", "<", ">", "=", ",", ":", "$", "#", "(", ")"}
IsWord(x) == ~(IsEol(x) \/ IsBlank(x) \/ IsSepChar(x))

\* 1. a comment runs from '#' to the end of the line
RECURSIVE StripComments(_, _)
StripComments(lex, inC) ==
    IF Len(lex) = 0 THEN <<>>
    ELSE LET h == Head(lex) IN
         IF inC THEN (IF IsEol(h) THEN <<h>> \o StripComments(Tail(lex), FALSE) ELSE StripComments(Tail(lex), TRUE))
         ELSE IF h = "#" THEN StripComments(Tail(lex), TRUE)
         ELSE <<h>> \o StripComments(Tail(lex), FALSE)

\* 2. a line that starts with ':', indented or not, continues the previous one; any line end is a blank
RECURSIVE JoinLines(_)
JoinLines(lex) ==
    IF Len(lex) = 0 THEN <<>>
    ELSE IF IsEol(lex[1])
         THEN IF Len(lex) >= 2 /\ lex[2] = ":" THEN <<" ">> \o JoinLines(SubSeq(lex, 3, Len(lex)))
              ELSE IF Len(lex) >= 3 /\ IsBlank(lex[2]) /\ lex[3] = ":" THEN <<" ">> \o JoinLines(SubSeq(lex, 4, Len(lex)))
              ELSE <<" ">> \o JoinLines(Tail(lex))
         ELSE <<lex[1]>> \o JoinLines(Tail(lex))

\* 3. blanks only separate
Tokens(lex) == SelectSeq(JoinLines(StripComments(lex, FALSE)), LAMBDA x : ~IsBlank(x))

\* 4. steps
RECURSIVE Groups(_, _, _)
Groups(t, sep, cur) ==
    IF Len(t) = 0 THEN << [sep |-> sep, toks |-> cur] >>
    ELSE IF Head(t) \in {"|", "<", ">"} THEN << [sep |-> sep, toks |-> cur] >> \o Groups(Tail(t), Head(t), <<>>)
    ELSE Groups(Tail(t), sep, Append(cur, Head(t)))

Unsub(w) == IF \E t \in IdxC : t[2] \o SubDigit(t[3]) = w
            THEN (CHOOSE t \in IdxC : t[2] \o SubDigit(t[3]) = w)[1] ELSE w

NoVal == [err |-> TRUE, v |-> [f |-> "flag"], next |-> 0]
RECURSIVE PList(_, _, _)
PList(t, i, acc) ==
    IF i + 1 <= Len(t) /\ t[i] = "," /\ IsWord(t[i + 1]) THEN PList(t, i + 2, Append(acc, t[i + 1]))
    ELSE [err |-> FALSE, v |-> IF Len(acc) = 1 THEN [f |-> "txt", s |-> acc[1]] ELSE [f |-> "list", s |-> acc], next |-> i]

PValue(t, i) ==
    IF i > Len(t) THEN NoVal
    ELSE IF t[i] = "$" THEN
         IF i + 1 > Len(t) \/ ~IsWord(t[i + 1]) THEN NoVal
         ELSE IF i + 4 <= Len(t) /\ t[i + 2] = "(" /\ t[i + 4] = ")"
              THEN [err |-> FALSE, v |-> [f |-> "refd", n |-> t[i + 1], d |-> t[i + 3]], next |-> i + 5]
              ELSE [err |-> FALSE, v |-> [f |-> "ref", n |-> t[i + 1]], next |-> i + 2]
    ELSE IF t[i] = "(" THEN
         IF i + 2 <= Len(t) /\ t[i + 2] = ")" THEN [err |-> FALSE, v |-> [f |-> "dflt", d |-> t[i + 1]], next |-> i + 3]
         ELSE NoVal
    ELSE IF IsWord(t[i]) THEN PList(t, i + 1, <<t[i]>>)
    ELSE NoVal

SetMod(acc, m) == CASE m = "inv" -> [acc EXCEPT !.inv = TRUE]
                    [] m = "omit_fwd" -> [acc EXCEPT !.of = TRUE]
                    [] m = "omit_inv" -> [acc EXCEPT !.oi = TRUE]

RECURSIVE PStep(_, _, _)
PStep(t, i, acc) ==
    IF i > Len(t) \/ acc.err THEN acc
    ELSE LET w == t[i]
             nx == IF i < Len(t) THEN t[i + 1] ELSE ""
         IN IF ~IsWord(w) THEN [acc EXCEPT !.err = TRUE]
            ELSE IF w \in ModNames /\ nx # "=" THEN PStep(t, i + 1, SetMod(acc, w))
            ELSE IF w \in ModNames /\ i + 2 <= Len(t) /\ t[i + 2] = "true" THEN PStep(t, i + 3, SetMod(acc, w))
            ELSE IF nx = "=" THEN
                 \* ordinary parameters come after the name
                 IF acc.name = "" THEN [acc EXCEPT !.err = TRUE]
                 ELSE LET r == PValue(t, i + 2) IN
                      IF r.err THEN [acc EXCEPT !.err = TRUE]
                      ELSE PStep(t, r.next, [acc EXCEPT !.args = Append(@, [k |-> Unsub(w), v |-> r.v])])
            ELSE IF nx = ":" /\ acc.name = "" /\ i + 2 <= Len(t) /\ IsWord(t[i + 2])
                 THEN PStep(t, i + 3, [acc EXCEPT !.name = w \o ":" \o t[i + 2]])
            ELSE IF acc.name = "" THEN PStep(t, i + 1, [acc EXCEPT !.name = w])
            ELSE PStep(t, i + 1, [acc EXCEPT !.args = Append(@, [k |-> Unsub(w), v |-> [f |-> "flag"]])])

Blank0 == [name |-> "", args |-> <<>>, inv |-> FALSE, of |-> FALSE, oi |-> FALSE, err |-> FALSE]

ParseStep(g) ==
    LET a == PStep(g.toks, 1, Blank0)
    IN [name |-> a.name, args |-> a.args, inv |-> a.inv,
        of |-> a.of \/ g.sep = "<", oi |-> a.oi \/ g.sep = ">", err |-> a.err \/ a.name = ""]

Parse(lex) ==
    LET gs == Groups(Tokens(lex), "|", <<>>)
        ne == SelectSeq(gs, LAMBDA g : Len(g.toks) > 0)
        ps == [i \in 1..Len(ne) |-> ParseStep(ne[i])]
        bad == \/ \E i \in 1..Len(gs) : Len(gs[i].toks) = 0 /\ gs[i].sep \in {"<", ">"}   \* nothing to omit
               \/ \E i \in 1..Len(ps) : ps[i].err
    IN [ok |-> ~bad,
        def |-> [i \in 1..Len(ps) |-> [name |-> ps[i].name, args |-> ps[i].args, inv |-> ps[i].inv,
                                         of |-> ps[i].of, oi |-> ps[i].oi]]]

\* a text carries words, not numbers
NormVal(v) == CASE v.f = "lit"  -> [f |-> "txt", s |-> ToString(v.v)]
                [] v.f = "refd" -> [f |-> "refd", n |-> v.n, d |-> ToString(v.d)]
                [] v.f = "dflt" -> [f |-> "dflt", d |-> ToString(v.d)]
                [] v.f = "list" -> IF Len(v.s) = 1 THEN [f |-> "txt", s |-> v.s[1]] ELSE v
                [] OTHER -> v
NormDef(def) == [i \in 1..Len(def) |->
                   [def[i] EXCEPT !.args = [j \in 1..Len(def[i].args) |-> [k |-> def[i].args[j].k, v |-> NormVal(def[i].args[j].v)]]]]

(***************************************************************************)
(* The enumeration                                                         *)
(***************************************************************************)
VARIABLES ci,    \* index of the case
          lay    \* the layout chosen so far
sxvars == <<ci, lay>>

Subject == CasesC[ci].subject

SxInit == ci \in 1..Len(CasesC) /\ lay = Default

\* one more layout choice
Choose == /\ Cardinality(NonDefault(lay)) < MaxChoices
          /\ \E f \in Fields : /\ lay[f] = Default[f]
                               /\ \E a \in Alts(f) : /\ lay' = [lay EXCEPT ![f] = a]
                                                     /\ Applicable(Subject, lay')
          /\ UNCHANGED ci

SxNext == Choose
SxSpec == SxInit /\ [][SxNext]_sxvars

\* ---- invariants ------------------------------------------------------------
TypeOK == /\ ci \in 1..Len(CasesC)
          /\ \A f \in Fields : lay[f] = Default[f] \/ lay[f] \in Alts(f)
          /\ Cardinality(NonDefault(lay)) <= MaxChoices
          /\ Applicable(Subject, lay)

RoundTrip == LET p == Parse(Render(Subject, lay)) IN p.ok /\ p.def = NormDef(Subject)

LexSafe == LET lex == Render(Subject, lay) IN
           /\ \A i \in 1..(Len(lex) - 1) : ~(IsWord(lex[i]) /\ IsWord(lex[i + 1]))
           /\ \A i \in 1..(Len(lex) - 1) : ~(IsBlank(lex[i]) /\ IsBlank(lex[i + 1]))   \* (tidy: one blank lexeme per gap)

\* (that the canonical rendering is Pipeline!DefText(def, "suffix") wherever Pipeline can write the
\* values is checked in module ProjSyntax, which instantiates both: CanonAgrees)

\* ---- what the harness is told ---------------------------------------------
\* lexical: only blanks, line ends, comments, empty steps, subscripts differ ->
\* the lists of step texts must be literally identical; otherwise the steps
\* must agree as parameter maps (modifiers move / are respelled).
Lexical(l) == l["mods"] = "suffix" /\ l["sugar"] = "no"
FieldOrder == <<"bar", "eq", "com", "col", "dol", "gap", "lines", "eol", "cont", "cpos", "ctext",
                "empty", "mods", "sugar", "sub", "outer">>
ChoiceText(l) == LET s == SelectSeq(FieldOrder, LAMBDA f : l[f] # Default[f])
                 IN JoinStr([i \in 1..Len(s) |-> s[i] \o "=" \o l[s[i]]], ",")

EmitSx ==
    IF lay = Default
    THEN PrintT(<<"CASE", ToJson([
            id |-> ci,
            canon |-> CanonText(Subject),
            as |-> CasesC[ci].as,
            invoke |-> IF CasesC[ci].as = "def" THEN "" ELSE CanonText(CasesC[ci].invoke),
            ok |-> CasesC[ci].ok,
            nsteps |-> Len(Subject),
            resources |-> [n \in DOMAIN SxResC |-> CanonText(SxResC[n])]])>>)
    ELSE PrintT(<<"TEXT", ToJson([
            c |-> ci,
            t |-> SxText(Render(Subject, lay)),
            lit |-> Lexical(lay),
            noc |-> lay["cpos"] = "none",
            ch |-> ChoiceText(lay)])>>)
=============================================================================
