---------------------------- MODULE MC_C07_molo ----------------------------
(***************************************************************************)
(* The last clause of C07: "molodensky agrees with the cartesian           *)
(* three-parameter Helmert path it approximates to within its published    *)
(* accuracy".                                                              *)
(*                                                                         *)
(* The two routes from geographic coordinates on ellipsoid e0 to cartesian *)
(* coordinates in the frame of e1 (forward), and back (inverse):           *)
(*    A:  molodensky ellps_0=e0 ellps_1=e1 dx dy dz [abridged] | cart e1   *)
(*    B:  cart e0 | helmert x=dx y=dy z=dz                                 *)
(* Molodensky's formulae are the first-order expansion of route B in the   *)
(* size of the datum change; the abridged form additionally neglects the   *)
(* height.  The documentation publishes no figure: the classes below were  *)
(* measured once on the repaired tree over this catalogue (worst cases     *)
(* 26 mm full, 0.70 m abridged, at 70 degrees and 8 848 m) and doubled;    *)
(* they hold for datum changes of the catalogued size only, which is what  *)
(* SizeInv pins.  What the specification contributes: the catalogue of     *)
(* route pairs with their definition texts, the lattice (both hemispheres, *)
(* heights up to 8 848 m - the two forms differ exactly in how they treat  *)
(* the height), the classes, and the enumeration.                          *)
(***************************************************************************)
EXTENDS Integers, Sequences, FiniteSets, TLC, Json

Pairs == << [e0 |-> "intl",   e1 |-> "GRS80", d |-> <<-87, -96, -120>>,  da |-> 251],
            [e0 |-> "WGS84",  e1 |-> "intl",  d |-> <<85, 96, 117>>,     da |-> 251],
            [e0 |-> "intl",   e1 |-> "WGS84", d |-> <<-148, 136, 90>>,   da |-> 251],
            [e0 |-> "clrk66", e1 |-> "GRS80", d |-> <<-8, 160, 176>>,    da |-> 70],
            [e0 |-> "GRS80",  e1 |-> "GRS80", d |-> <<100, -50, 70>>,    da |-> 0] >>
Forms == {"full", "abridged"}
Dirs == {"F", "I"}
Lats == {-70, -45, -10, 0, 30, 55, 70}
Lons == {-120, 0, 12, 90, 179}
Hs == {-100, 0, 100, 2500, 5000, 8848}
\* accuracy class, millimetres in space
ClassMm(form) == IF form = "full" THEN 50 ELSE 1400

VARIABLES cfg, pt
vars == <<cfg, pt>>
None == <<>>

S(i) == ToString(i)
Abs(x) == IF x < 0 THEN -x ELSE x
Shift(p) == " dx=" \o S(p.d[1]) \o " dy=" \o S(p.d[2]) \o " dz=" \o S(p.d[3])
Helm(p) == "helmert x=" \o S(p.d[1]) \o " y=" \o S(p.d[2]) \o " z=" \o S(p.d[3])
\* how the two ellipsoids are written: both indexed; the source as plain `ellps`; the source left at its default
\* (only where the source IS the default ellipsoid, GRS80)
Spellings(p) == {"e0e1", "ellps"} \cup (IF p.e0 = "GRS80" THEN {"e1"} ELSE {})
EllArgs(p, sp) == CASE sp = "e0e1"  -> " ellps_0=" \o p.e0 \o " ellps_1=" \o p.e1
                    [] sp = "ellps" -> " ellps=" \o p.e0 \o " ellps_1=" \o p.e1
                    [] sp = "e1"    -> " ellps_1=" \o p.e1
Abr(form) == IF form = "abridged" THEN " abridged" ELSE ""
MoloSp(p, form, sp) == "molodensky" \o EllArgs(p, sp) \o Shift(p) \o Abr(form)
Molo(p, form) == MoloSp(p, form, "e0e1")
\* the same operator as a macro: the body carries the shift, the caller gives the ellipsoids (C04: an invocation means
\* its expansion; the expansion is MoloSp(p, form, sp) up to the order of the arguments)
MacroBody(p, form) == "molodensky" \o Shift(p) \o Abr(form)
MacroCall(p, sp) == "m:molo" \o EllArgs(p, sp)
\* forward: from geographic on e0 to cartesian in the frame of e1; inverse: from geographic on e1 to cartesian in the frame of e0
RouteA(p, form, dir) == IF dir = "F" THEN Molo(p, form) \o " | cart ellps=" \o p.e1
                        ELSE "inv " \o Molo(p, form) \o " | cart ellps=" \o p.e0
RouteB(p, dir) == IF dir = "F" THEN "cart ellps=" \o p.e0 \o " | " \o Helm(p)
                  ELSE "cart ellps=" \o p.e1 \o " | inv " \o Helm(p)

Init == cfg = None /\ pt = None
PickCfg == /\ cfg = None
           /\ \E i \in 1..Len(Pairs), f \in Forms, d \in Dirs : cfg' = [i |-> i, form |-> f, dir |-> d]
           /\ UNCHANGED pt
PickPt == /\ cfg # None /\ pt = None
          /\ \E lo \in Lons, la \in Lats, h \in Hs : pt' = <<lo, la, h>>
          /\ UNCHANGED cfg
Next == PickCfg \/ PickPt
Spec == Init /\ [][Next]_vars

\* the classes were measured for datum changes of this size and this part of the globe
SizeInv == \A i \in 1..Len(Pairs) : /\ \A k \in 1..3 : Abs(Pairs[i].d[k]) <= 250
                                     /\ Pairs[i].da <= 260
DomainInv == pt # None => Abs(pt[2]) <= 70 /\ pt[3] >= -100 /\ pt[3] <= 8848
\* both hemispheres, the equator, and heights at which the abridged form (which ignores the height) differs from the full one
CoverInv == /\ \E la \in Lats : la < 0
            /\ \E la \in Lats : la > 0
            /\ 0 \in Lats
            /\ \E h \in Hs : h >= 5000
            /\ 0 \in Hs
            /\ \E i \in 1..Len(Pairs) : Pairs[i].e0 # "GRS80" /\ Pairs[i].e1 # "GRS80"     \* neither side the default ellipsoid
            /\ \E i \in 1..Len(Pairs) : Pairs[i].da = 0                                   \* a pure shift
ClassInv == ClassMm("full") = 50 /\ ClassMm("abridged") = 1400 /\ ClassMm("full") < ClassMm("abridged")
SpellInv == \A i \in 1..Len(Pairs) : "e0e1" \in Spellings(Pairs[i]) /\ "ellps" \in Spellings(Pairs[i])
CountInv == Cardinality(Lons \X Lats \X Hs) = Cardinality(Lons) * Cardinality(Lats) * Cardinality(Hs)

Emit == (cfg # None /\ pt = None) =>
    PrintT(<<"MOLO", ToJson([a |-> RouteA(Pairs[cfg.i], cfg.form, cfg.dir), b |-> RouteB(Pairs[cfg.i], cfg.dir),
                             \* every spelling of the operator itself, and the macro with each way of passing the ellipsoids: all
                             \* the same operator as the first spelling (bit for bit)
                             spellings |-> {MoloSp(Pairs[cfg.i], cfg.form, sp) : sp \in Spellings(Pairs[cfg.i])},
                             macro |-> [body |-> MacroBody(Pairs[cfg.i], cfg.form),
                                        calls |-> {MacroCall(Pairs[cfg.i], sp) : sp \in Spellings(Pairs[cfg.i])}],
                             form |-> cfg.form, dir |-> cfg.dir, pair |-> cfg.i, class_mm |-> ClassMm(cfg.form),
                             pts |-> {<<lo, la, h>> : lo \in Lons, la \in Lats, h \in Hs}])>>)
=============================================================================
