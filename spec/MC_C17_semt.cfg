SPECIFICATION PjSpec
CONSTANTS
  NaN = NaN
  PjCases <- SemCasesT
  PjMaxChoices = 0
  PjData <- D2
INVARIANTS PjTypeOK InvIsInverse LocalsWin OrderKept OmitMeaning EmitPj
CHECK_DEADLOCK FALSE
