SPECIFICATION PjSpec
CONSTANTS
  NaN = NaN
  PjCases <- SemCasesT
  PjMaxChoices = 0
  PjData <- D2
INVARIANTS PjTypeOK InvIsInverse LocalsWin OrderKept OmitMeaning CanonAgrees EmitPj
CHECK_DEADLOCK FALSE
