SPECIFICATION Spec
CONSTANTS
  NaN = NaN
  Alphabet <- AlphaReduced
  MaxLen = 3
  AppPatterns <- AppsAll
  Data0 <- D2
  MinLen = 2
INVARIANTS TypeOK CountInv UnderflowInv RefInv FreshStackInv Emit
CHECK_DEADLOCK FALSE
