------------------------------- MODULE MC_C09 -------------------------------
(* Bounded instances of the C09 generators (Gamut.tla); see the cfg files.   *)
EXTENDS Gamut
AllWraps == {"alone", "step", "macro_body", "macro_arg", "proj", "projpipe"}
\* quick tier, Mutate: the definitions with sugar plus a few operators of different shape
NoFilter == {}
OnlyAlone == {"alone"}
MutQuick == {"special", "cart", "stack", "gridshift"}
=============================================================================
