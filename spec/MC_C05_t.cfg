SPECIFICATION Spec
CONSTANTS
  Tier = "t"
  Fams <- AllFams
INVARIANTS CharInv DomainInv LociInv ScaleArgInv CoverInv CountInv Emit
CHECK_DEADLOCK FALSE
