SPECIFICATION Spec
CONSTANTS
  NaN = NaN
  Progs <- ProgsQ
  Resources <- Res
  Globals <- NoGlobals
  Data0 <- D2
  Styles <- Styles3
INVARIANTS RefInv ReversalInv CountInv ExpansionInv Emit
CHECK_DEADLOCK FALSE
