----------------------------- MODULE MacroGuard -----------------------------
(***************************************************************************)
(* C04, second half: macro resolution always terminates.                   *)
(*                                                                         *)
(* Instantiation is a depth-first walk over the resource graph.  Every     *)
(* descent into a macro body raises the nesting level of that path; a      *)
(* guard refuses a path whose level exceeds a bound L.  Only the existence *)
(* of the bound is specified, not its value (it is a constant here).  An   *)
(* error unwinds the whole walk at once.                                   *)
(*                                                                         *)
(* Graph: each macro name maps to a body, a sequence of steps; a step is   *)
(* a macro name or "leaf" (an elementary operator).                        *)
(***************************************************************************)
EXTENDS Integers, Sequences, FiniteSets, TLC, Json

CONSTANTS Graphs,   \* set of resource graphs: functions name -> sequence of steps
          L         \* the guard: deepest admitted nesting

GraphsC == TLCEval(Graphs)

VARIABLES graph, start, frames, result, work
vars == <<graph, start, frames, result, work>>
\* frames: the path being walked, a sequence of [name, i] (next step index)
\* work: number of elementary operators instantiated so far (observation only)

Init == /\ graph \in GraphsC
        /\ start \in DOMAIN graph
        /\ frames = << [name |-> start, i |-> 1] >>
        /\ result = "pending" /\ work = 0

Top == frames[Len(frames)]
Body == graph[Top.name]
Cur == Body[Top.i]

\* the next step of the current body is an elementary operator
StepLeaf == /\ result = "pending" /\ Len(frames) > 0 /\ Top.i <= Len(Body) /\ Cur = "leaf"
            /\ frames' = [frames EXCEPT ![Len(frames)].i = @ + 1]
            /\ work' = work + 1
            /\ UNCHANGED <<graph, start, result>>

\* ... is a macro: descend, unless the guard refuses
Descend == /\ result = "pending" /\ Len(frames) > 0 /\ Top.i <= Len(Body) /\ Cur # "leaf"
           /\ Len(frames) < L
           /\ frames' = Append(frames, [name |-> Cur, i |-> 1])
           /\ UNCHANGED <<graph, start, result, work>>

Refuse == /\ result = "pending" /\ Len(frames) > 0 /\ Top.i <= Len(Body) /\ Cur # "leaf"
          /\ Len(frames) >= L
          /\ result' = "err" /\ frames' = <<>>          \* the error unwinds everything
          /\ UNCHANGED <<graph, start, work>>

\* a body is finished: back to the caller, or done
Return == /\ result = "pending" /\ Len(frames) > 0 /\ Top.i > Len(Body)
          /\ IF Len(frames) = 1
             THEN result' = "ok" /\ frames' = <<>>
             ELSE /\ frames' = [SubSeq(frames, 1, Len(frames) - 1) EXCEPT ![Len(frames) - 1].i = @ + 1]
                  /\ UNCHANGED result
          /\ UNCHANGED <<graph, start, work>>

Next == StepLeaf \/ Descend \/ Refuse \/ Return
Spec == Init /\ [][Next]_vars /\ WF_vars(Next)

\* ---- properties -----------------------------------------------------------
\* the walk never goes deeper than the guard allows (bounded native stack)
DepthInv == Len(frames) <= L
\* resolution terminates, for every graph, cyclic or not
Termination == <>(result # "pending")

\* names reachable from n
ReachFrom(n, g) ==
    LET RECURSIVE R(_)
        R(S) == LET T == S \cup UNION {{g[m][i] : i \in 1..Len(g[m])} \ {"leaf"} : m \in S}
                IN IF T = S THEN S ELSE R(T)
    IN R({n})
Cyclic(n, g) == \E m \in ReachFrom(n, g) : m \in UNION {{g[k][i] : i \in 1..Len(g[k])} : k \in ReachFrom(m, g) }

\* with a guard deeper than the longest acyclic chain, the outcome is an
\* error exactly when a cycle is reachable from the invocation
OutcomeInv == (result # "pending" /\ L > Cardinality(DOMAIN graph)) =>
                 (result = "err") = Cyclic(start, graph)

Emit == result # "pending" =>
    PrintT(<<"REPLAY", ToJson([graph |-> graph, start |-> start, result |-> result, work |-> work,
                                cyclic |-> Cyclic(start, graph), L |-> L])>>)
=============================================================================
