------------------------------- MODULE MC_C17 -------------------------------
EXTENDS ProjSyntax
SX == INSTANCE SequencesExt

L(k, v) == [k |-> k, v |-> [f |-> "lit", v |-> v]]
T(k, s) == [k |-> k, v |-> [f |-> "txt", s |-> s]]
Li(k, s) == [k |-> k, v |-> [f |-> "list", s |-> s]]
S(n, a) == [name |-> n, args |-> a, inv |-> FALSE, of |-> FALSE, oi |-> FALSE]
Mod(s, i, f, o) == [s EXCEPT !.inv = i, !.of = f, !.oi = o]
Inv(s) == Mod(s, TRUE, FALSE, FALSE)
Of(s) == Mod(s, FALSE, TRUE, FALSE)
Oi(s) == Mod(s, FALSE, FALSE, TRUE)

Pipe(ginv, globals, steps) == [pipe |-> TRUE, ginv |-> ginv, globals |-> globals, steps |-> steps]
Single(s) == [pipe |-> FALSE, ginv |-> FALSE, globals |-> <<>>, steps |-> <<s>>]
Probe(p) == [p |-> p, fam |-> "probe", refuse |-> ""]
Shared(p) == [p |-> p, fam |-> "shared", refuse |-> ""]
Refuse(p, why) == [p |-> p, fam |-> "shared", refuse |-> why]

\* ---- the probe basis (exact expectations) ----------------------------------
A  == S("t_add", <<L("e", 1), L("c", 1)>>)
A0 == S("t_add", <<L("e", 1)>>)                 \* c comes from the globals, or is the default
B  == S("t_dbl", <<L("e", 1)>>)
B0 == S("t_dbl", <<>>)
C  == S("t_add", <<L("e", 2), L("c", 3)>>)
N  == S("noop", <<>>)
Z  == S("t_failodd", <<>>)

GlobalSets == {<<>>, <<L("c", 7)>>, <<L("c", 7), L("e", 2)>>}
ModsQ == {<<FALSE, FALSE, FALSE>>, <<TRUE, FALSE, FALSE>>, <<FALSE, TRUE, FALSE>>, <<FALSE, FALSE, TRUE>>, <<TRUE, TRUE, FALSE>>}
Mods3 == {<<i, f, o>> : i \in BOOLEAN, f \in BOOLEAN, o \in BOOLEAN}
StepsQ == {Mod(b, m[1], m[2], m[3]) : b \in {A, A0, B, C}, m \in ModsQ}
StepsT == {Mod(b, m[1], m[2], m[3]) : b \in {A, A0, B0, C, Z}, m \in Mods3}

\* every pipeline of up to two (quick) / three (thorough) steps, with and without pipeline-level inv, x globals
SemQ == {Probe(Pipe(gi, g, st)) : gi \in BOOLEAN, g \in GlobalSets, st \in {<<s>> : s \in StepsQ} \cup [1..2 -> StepsQ]}
        \cup {Probe(Single(Mod(b, i, FALSE, FALSE))) : b \in {A, B, N}, i \in BOOLEAN}
SemT == {Probe(Pipe(gi, g, st)) : gi \in BOOLEAN, g \in {<<>>, <<L("c", 7), L("e", 2)>>},
                                  st \in [1..2 -> StepsT] \cup [1..3 -> {Mod(b, m[1], m[2], m[3]) : b \in {A0, B, C}, m \in ModsQ}]}

\* ---- operators both systems share (relational only) -----------------------
Cart(e) == S("cart", <<T("ellps", e)>>)
Helm == S("helmert", <<L("x", -87), L("y", -96), L("z", -120)>>)
Utm(z) == S("utm", <<L("zone", z)>>)
Tmerc == S("tmerc", <<L("lon_0", 9), T("k_0", "0.9996"), L("x_0", 500000)>>)
TmercK == S("tmerc", <<L("lon_0", 9), T("k", "0.9996"), L("x_0", 500000)>>)
Merc == S("merc", <<L("lat_ts", 56), T("ellps", "bessel")>>)
Lcc == S("lcc", <<L("lat_1", 33), L("lat_2", 45), L("lon_0", 10)>>)
Laea == S("laea", <<L("lon_0", 10), L("lat_0", 52), L("x_0", 4321000), L("y_0", 3210000)>>)
Swap == S("axisswap", <<Li("order", <<"2", "1">>)>>)
UnitC == S("unitconvert", <<T("xy_in", "deg"), T("xy_out", "rad")>>)
CartArf == S("cart", <<T("a", "6378388"), T("rf", "297")>>)
TmercArf == S("tmerc", <<T("rf", "299.1528128"), L("lon_0", 9), T("a", "6377397.155"), T("k", "0.9996")>>)
Noop == S("noop", <<>>)

\* ---- clashes on the rewritten keys: a, rf, k at pipeline level AND in a step (the step's own win) -----------
GA == T("a", "6378137")      GRf == T("rf", "298.257222101")   GK == T("k", "0.9996")
LA == T("a", "6377397.155")  LRf == T("rf", "299.1528128")     LK == T("k", "0.9999")
ClashGlobals == {<<GA, GRf>>, <<GK>>, <<GRf, GK, GA>>}
ClashLocals == {<<>>, <<LA>>, <<LRf>>, <<LA, LRf>>, <<LRf, LA>>, <<LK>>, <<LK, LA, LRf>>, <<LK, T("k", "0.5")>>}
ClashBases == {S("utm", <<L("zone", 32)>>), S("tmerc", <<L("lon_0", 9)>>), S("t_gamut", <<L("rnat", 1), L("rreal", 1)>>)}
WithLocals(b, l, front) == [b EXCEPT !.args = IF front THEN l \o @ ELSE @ \o l]
ClashSet == {Shared(Pipe(gi, g, <<WithLocals(b, l, fr)>>)) : gi \in BOOLEAN, g \in ClashGlobals, l \in ClashLocals, b \in ClashBases, fr \in BOOLEAN}
       \cup {Shared(Pipe(FALSE, g, <<WithLocals(S("tmerc", <<L("lon_0", 9)>>), l, FALSE), Inv(S("utm", <<L("zone", 32)>>))>>)) :
                 g \in ClashGlobals, l \in ClashLocals}
       \cup {Shared(Single(WithLocals(b, l, FALSE))) : b \in ClashBases, l \in ClashLocals \ {<<>>}}
\* (k together with k_0 for the same step is not generated: "k is replaced by k_0 wherever it is encountered" would make
\*  the later one win, PROJ itself prefers k_0 whatever the order; the documentation does not decide)

\* ---- an ellps at pipeline level AND a step that gives a and rf itself: the step's own ellipsoid wins ("pipeline globals
\*      reach every step without overriding step-local values", "a and rf become the equivalent ellipsoid"; PROJ itself
\*      lets a and rf override ellps).  Not generated, because neither the statement nor the documentation of parse_proj
\*      decides them: ellps with only one of a / rf, ellps AND a / rf in the same step, a / rf at pipeline level against
\*      a step's own ellps, +R, +b, +f, +es
GE == T("ellps", "intl")
OwnEllps == {<<LA, LRf>>, <<LRf, LA>>, <<LK, LA, LRf>>}
EllpsClashSet == {Shared(Pipe(gi, g, <<WithLocals(b, l, fr)>>)) : gi \in BOOLEAN, g \in {<<GE>>, <<GK, GE>>}, l \in OwnEllps,
                      b \in {S("utm", <<L("zone", 32)>>), S("tmerc", <<L("lon_0", 9)>>)}, fr \in BOOLEAN}
       \cup {Shared(Pipe(gi, <<GE>>, <<WithLocals(S("tmerc", <<L("lon_0", 9)>>), l, FALSE), Inv(S("utm", <<L("zone", 32)>>))>>)) :
                 gi \in BOOLEAN, l \in OwnEllps}

SemCasesQ == SX!SetToSeq(SemQ \cup ClashSet \cup EllpsClashSet)
SemCasesT == SX!SetToSeq(SemT \cup ClashSet \cup EllpsClashSet)

\* ---- text that is not PROJ syntax: Geodesy definitions that merely contain the word "proj" -- in the comment (every
\*      case, ProjSyntax!PassBase), in a macro name, in a value; one step (several steps without '|': written with < >)
Pass(def) == [p |-> [pipe |-> FALSE, ginv |-> FALSE, globals |-> <<>>, steps |-> def], fam |-> "pass", refuse |-> ""]
Res == [n \in {"myproj:foo"} |-> <<S("t_add", <<L("e", 1), [k |-> "c", v |-> [f |-> "ref", n |-> "c"]]>>)>>]
PassCases == <<
    Pass(<<A>>), Pass(<<Inv(C)>>), Pass(<<S("helmert", <<L("x", 1), L("y", 2)>>)>>),
    Pass(<<S("myproj:foo", <<L("c", 3)>>)>>), Pass(<<Inv(S("myproj:foo", <<L("c", 3)>>))>>),
    Pass(<<S("t_gamut", <<L("rnat", 1), L("rreal", 1), T("text", "reproj")>>)>>),
    Pass(<<A, Oi(B)>>), Pass(<<Of(S("myproj:foo", <<L("c", 3)>>)), Oi(C)>>)
>>

\* layout cases: few definitions, many layouts
LayCases == <<
    Probe(Single(A)), Probe(Single(Inv(C))),
    Probe(Pipe(FALSE, <<>>, <<A, Inv(B)>>)), Probe(Pipe(TRUE, <<>>, <<A, Inv(B)>>)),
    Probe(Pipe(FALSE, <<L("c", 7)>>, <<A0, Of(B), Oi(C)>>)), Probe(Pipe(TRUE, <<L("c", 7), L("e", 2)>>, <<Of(A0), B0, Mod(C, TRUE, FALSE, TRUE)>>)),
    Probe(Pipe(FALSE, <<>>, <<Of(A), Oi(B)>>)), Probe(Pipe(TRUE, <<>>, <<Mod(A, TRUE, TRUE, FALSE), Oi(B)>>)),
    Shared(Single(Utm(32))), Shared(Single(Inv(Utm(32)))), Shared(Single(TmercK)), Shared(Single(CartArf)), Shared(Single(TmercArf)),
    Shared(Single(Merc)), Shared(Single(Lcc)), Shared(Single(Laea)), Shared(Single(Swap)), Shared(Single(UnitC)), Shared(Single(Noop)),
    Shared(Pipe(FALSE, <<>>, <<Cart("intl"), Helm, Inv(Cart("GRS80"))>>)),
    Shared(Pipe(TRUE, <<>>, <<Cart("intl"), Helm, Inv(Cart("GRS80"))>>)),
    Shared(Pipe(FALSE, <<T("ellps", "intl")>>, <<S("cart", <<>>), Helm, Inv(Cart("GRS80"))>>)),
    Shared(Pipe(TRUE, <<T("ellps", "intl"), T("ugly", "syntax")>>, <<Inv(Utm(32)), Utm(33)>>)),
    Shared(Pipe(FALSE, <<>>, <<Of(Inv(Utm(33))), Cart("intl"), Helm, Inv(Cart("GRS80")), Oi(Inv(Utm(32)))>>)),
    Shared(Pipe(TRUE, <<>>, <<Of(UnitC), Tmerc, Oi(Swap)>>)),
    Shared(Pipe(FALSE, <<T("a", "6378388"), T("rf", "297")>>, <<S("cart", <<>>), Helm, Inv(S("cart", <<>>))>>)),
    Shared(Pipe(FALSE, <<T("k", "0.9996")>>, <<S("tmerc", <<L("lon_0", 9)>>), Inv(Utm(32))>>)),
    Shared(Pipe(FALSE, <<>>, <<UnitC, Lcc, Inv(Laea), Merc>>)),
    Shared(Pipe(FALSE, <<GA, GRf>>, <<S("utm", <<L("zone", 32), LA, LRf>>), Inv(Utm(33))>>)),
    Shared(Pipe(TRUE, <<GK, GA, GRf>>, <<S("tmerc", <<LK, L("lon_0", 9), LRf>>), S("t_gamut", <<L("rnat", 1), L("rreal", 1), LK>>)>>)),
    Shared(Pipe(FALSE, <<GE>>, <<S("tmerc", <<L("lon_0", 9), GA, GRf>>), Inv(Utm(33))>>)),
    Refuse(Pipe(FALSE, <<>>, <<Cart("intl"), S("pipeline", <<>>), Helm>>), "nested"),
    Refuse(Pipe(FALSE, <<>>, <<S("pipeline", <<>>)>>), "nested"),
    Refuse(Pipe(FALSE, <<>>, <<S("noop", <<T("init", "another_pipeline")>>), Utm(32)>>), "init"),
    Refuse(Pipe(TRUE, <<T("init", "epsg:4326")>>, <<Utm(32)>>), "init"),
    Refuse(Single(S("utm", <<T("init", "epsg:25832"), L("zone", 32)>>)), "init")
>> \o PassCases

\* tuple 1 passes t_failodd, tuple 2 (odd first element) fails it
D2 == << <<2 * 1024, 12 * 1024, 13 * 1024, 14 * 1024>>, <<21 * 1024, 22 * 1024, 23 * 1024, 24 * 1024>> >>
=============================================================================
