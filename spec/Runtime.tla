------------------------------- MODULE Runtime -------------------------------
(***************************************************************************)
(* The application protocol of operators, without data.                    *)
(*                                                                         *)
(* This is the control skeleton of the small-step machine of Pipeline.tla  *)
(* (StepSkip / StepLeaf / StepEnter / Return), with everything that needs  *)
(* to know what an operator computes taken out: the count an elementary    *)
(* operator returns is any number up to the number of tuples, the          *)
(* structure of a pipeline (its steps in order, with their inversion and   *)
(* omission flags) is whatever was built.  What remains is what C03 and    *)
(* C10 say about EVERY pipeline, whatever its operators:                   *)
(*                                                                         *)
(*   - forward, the steps are applied in the order of the definition,      *)
(*     inverse in the reverse order; every step is handed the direction    *)
(*     the pipeline itself works in; a step's own `inv` flips it for that  *)
(*     step only;                                                          *)
(*   - a step marked omit_fwd (omit_inv) is passed over when the pipeline  *)
(*     works forward (inverse) and applied otherwise;                      *)
(*   - the stack starts empty for every OUTERMOST application and is        *)
(*     touched by stack steps only; a step that is itself a pipeline (a    *)
(*     macro with a pipeline body) works on the stack of its caller: it    *)
(*     starts at the caller's depth and hands its depth back (a macro      *)
(*     means its expansion - at first every pipeline level had a private   *)
(*     stack here, as in the code; C04/C12 decided otherwise);             *)
(*   - no operator reports more successes than there are tuples, a         *)
(*     pipeline reports the minimum over the steps it applied (all tuples  *)
(*     if it applied none), the missing inverse of a one-way operator      *)
(*     reports zero.                                                       *)
(*                                                                         *)
(* One action per hook of the implementation (behind --cfg geodesy_verif): *)
(*   Build    pipeline constructor returns         event `built`           *)
(*   Call     Op::apply entered                    event `dispatch`        *)
(*   Ret      Op::apply returns                    event `applied`         *)
(*   Skip     pipeline passes over a step          event `step` (skipped)  *)
(*   StepDone pipeline finished applying a step    event `step`            *)
(* Stack steps (push, pop, stack) are executed by the pipeline itself and  *)
(* never go through Op::apply: StepDone without Call/Ret.                  *)
(*                                                                         *)
(* The module is used in two ways: MC_Runtime explores it exhaustively     *)
(* over a small universe of pipelines (sanity of the protocol, and the     *)
(* properties above as invariants over a history of what was applied);     *)
(* Trace_Runtime accepts or rejects recorded executions of the real code - *)
(* the repository's own test suite and the harness' pipelines.             *)
(***************************************************************************)
EXTENDS Integers, Sequences, FiniteSets, TLC

VARIABLES built,    \* id -> sequence of [id, name, inverted, invertible, of, oi]
          frames,   \* the call stack: sequence of frames, innermost last
          last,     \* result of the call that just returned, until the enclosing pipeline logs it
          hist      \* per frame (parallel to frames): sequence of [id, count] actually applied

rvars == <<built, frames, last, hist>>

None == [id |-> "-", count |-> 0, depth |-> 0]
StackNames == {"push", "pop", "stack"}

Xor(req, inverted) == IF inverted THEN (IF req = "F" THEN "I" ELSE "F") ELSE req
Top == frames[Len(frames)]
\* the k-th step a pipeline frame works on, by its effective direction
StepAt(f, k) == LET s == built[f.id] IN IF f.eff = "F" THEN s[k] ELSE s[Len(s) + 1 - k]
NSteps(f) == Len(built[f.id])
Cur == StepAt(Top, Top.k + 1)
More == Len(frames) > 0 /\ Top.pipe /\ Top.k < NSteps(Top)
Skipped(s, eff) == IF eff = "F" THEN s.of ELSE s.oi
Acc(cnt, c) == IF cnt = -1 THEN c ELSE IF c < cnt THEN c ELSE cnt
Min(S) == CHOOSE m \in S : \A x \in S : m <= x
SetTop(f) == [frames EXCEPT ![Len(frames)] = f]

RInit == built = <<>> /\ frames = <<>> /\ last = None /\ hist = <<>>

\* a pipeline has been instantiated
Build(id, steps) ==
    /\ id \notin DOMAIN built
    /\ built' = [x \in DOMAIN built \cup {id} |-> IF x = id THEN steps ELSE built[x]]
    /\ UNCHANGED <<frames, last, hist>>

\* Op::apply is entered: from outside (no frame, or an elementary operator using other
\* operators), or by a pipeline applying its current step
Call(id, req, inverted, invertible, n) ==
    /\ last = None
    /\ (Len(frames) > 0 /\ Top.pipe) =>
          /\ More /\ ~Skipped(Cur, Top.eff) /\ Cur.name \notin StackNames
          /\ Cur.id = id /\ Cur.inverted = inverted /\ Cur.invertible = invertible
          /\ req = Top.eff /\ n = Top.n
    /\ frames' = Append(frames, [id |-> id, eff |-> Xor(req, inverted), n |-> n, pipe |-> id \in DOMAIN built,
                                 k |-> 0, cnt |-> -1, invertible |-> invertible,
                                 \* a pipeline applied as a step of a pipeline continues on its caller's stack
                                 depth |-> IF Len(frames) > 0 /\ Top.pipe /\ id \in DOMAIN built THEN Top.depth ELSE 0])
    /\ hist' = Append(hist, <<>>)
    /\ UNCHANGED <<built, last>>

\* Op::apply returns; `ran` names the function of the operator that did the work: its forward function
\* iff the operator was to work forward after taking its own `inv` into account
Ret(id, count, ran) ==
    /\ Len(frames) > 0 /\ Top.id = id /\ last = None
    /\ ran = Top.eff
    /\ count <= Top.n
    /\ IF Top.pipe
       THEN /\ Top.k = NSteps(Top)
            /\ count = IF Top.cnt = -1 THEN Top.n ELSE Top.cnt
       ELSE (~Top.invertible /\ Top.eff = "I") => count = 0
    /\ frames' = SubSeq(frames, 1, Len(frames) - 1)
    /\ hist' = SubSeq(hist, 1, Len(hist) - 1)
    /\ last' = IF Len(frames) > 1 /\ frames[Len(frames) - 1].pipe THEN [id |-> id, count |-> count, depth |-> Top.depth] ELSE None
    /\ UNCHANGED built

\* the pipeline passes over its current step
Skip(id) ==
    /\ More /\ last = None
    /\ Cur.id = id /\ Skipped(Cur, Top.eff)
    /\ frames' = SetTop([Top EXCEPT !.k = @ + 1])
    /\ UNCHANGED <<built, last, hist>>

\* the pipeline has applied its current step
StepDone(id, dir, count, depth) ==
    /\ More
    /\ Cur.id = id /\ ~Skipped(Cur, Top.eff) /\ dir = Top.eff
    /\ count <= Top.n
    /\ IF Cur.name \in StackNames
       THEN /\ last = None
            \* a failing `stack` step leaves nothing behind that a later step could pick up
            /\ (Cur.name = "stack" /\ count = 0 /\ Top.n > 0) => depth = 0
       ELSE /\ last.id = id /\ last.count = count
            \* an elementary step leaves the stack alone; a pipeline step hands back the depth it ended with
            /\ depth = IF id \in DOMAIN built THEN last.depth ELSE Top.depth
    /\ frames' = SetTop([Top EXCEPT !.k = @ + 1, !.cnt = Acc(@, count), !.depth = depth])
    /\ hist' = [hist EXCEPT ![Len(hist)] = Append(@, [id |-> id, count |-> count])]
    /\ last' = None
    /\ UNCHANGED built

----------------------------------------------------------------------------
\* ---- the properties, over the history of what a pipeline frame has applied ----
Ids(h) == [j \in 1..Len(h) |-> h[j].id]
\* the steps of f's pipeline that are not passed over, in working order, up to position k
RECURSIVE Due(_, _)
Due(f, k) == IF k = 0 THEN <<>>
             ELSE Due(f, k - 1) \o (IF Skipped(StepAt(f, k), f.eff) THEN <<>> ELSE <<StepAt(f, k).id>>)

\* order and omission: what has been applied is exactly what was due, in that order
OrderInv == \A j \in 1..Len(frames) : frames[j].pipe => Ids(hist[j]) = Due(frames[j], frames[j].k)
\* the running count is the minimum of what the steps applied so far returned
CountInv == \A j \in 1..Len(frames) : frames[j].pipe =>
               frames[j].cnt = IF Len(hist[j]) = 0 THEN -1 ELSE Min({hist[j][q].count : q \in 1..Len(hist[j])})
HonestInv == \A j \in 1..Len(frames) : frames[j].cnt <= frames[j].n /\ \A q \in 1..Len(hist[j]) : hist[j][q].count <= frames[j].n
\* nesting: every pipeline frame below the top is waiting for the step the frame above it applies,
\* and that frame works in the direction the pipeline works in, flipped by the step's own `inv`
NestInv == \A j \in 1..(Len(frames) - 1) : frames[j].pipe =>
               LET s == StepAt(frames[j], frames[j].k + 1) IN
               /\ frames[j].k < NSteps(frames[j])
               /\ s.id = frames[j + 1].id
               /\ frames[j + 1].eff = Xor(frames[j].eff, s.inverted)
               /\ frames[j + 1].n = frames[j].n
RTypeOK == /\ Len(hist) = Len(frames)
           /\ \A j \in 1..Len(frames) : frames[j].pipe => (frames[j].id \in DOMAIN built /\ frames[j].k <= NSteps(frames[j]))
           /\ last # None => (Len(frames) > 0 /\ Top.pipe)
=============================================================================
