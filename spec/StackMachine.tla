---------------------------- MODULE StackMachine ----------------------------
(***************************************************************************)
(* C12.  A pipeline of stack instructions and value-changing probe steps,  *)
(* executed step by step the way the pipeline operator does: one action    *)
(* per step, a per-application stack, the count being the minimum over the *)
(* executed steps.  A behaviour: build a program (Extend), then run a      *)
(* list of applications (directions) on one operator handle, the operands  *)
(* being carried from one application to the next, the stack not.          *)
(*                                                                         *)
(* Program elements.  A program is a sequence of elements; an element is   *)
(*   - an instruction of Stack.tla or a probe step (as written), or        *)
(*   - a wrapper [a |-> "wrap", body, inv, omit, via, sty]:                *)
(*       via = "step"  : body = <<x>>, the modifiers are written on the    *)
(*                       step itself (`stack push=1 inv`, `omit_fwd pop..`)*)
(*       via = "macro" : the body (one step: an alias; several: a pipeline)*)
(*                       is registered as a macro and the modifiers are    *)
(*                       written on the invocation (`inv s:m1`)            *)
(*     inv: the element works with the two directions exchanged (C03, C04: *)
(*     "an inverted invocation is the inverse of the expansion"); omit =   *)
(*     "fwd"/"inv": passed over when the enclosing pipeline works forward/ *)
(*     inverse; sty: where the modifiers are written (suf / pre / eq).     *)
(* A macro means its expansion (C04): the stack instructions of a macro    *)
(* body act on the stack of the application they are expanded into.        *)
(* The step machine runs the PLAN of the program (the elementary steps in  *)
(* working order, each with its effective direction); the big-step         *)
(* reference runs the literal EXPANSION (RefInv: the two agree).           *)
(***************************************************************************)
EXTENDS Stack, Json

CONSTANTS Alphabet,      \* set of instructions / probe steps to build programs from
          MaxLen,        \* longest program
          AppPatterns,   \* set of sequences of directions, e.g. {<<"F","I">>}
          Data0,         \* initial operand set
          MinLen         \* shortest program (1: a pipeline of one step, written `step |`)

AlphaC == TLCEval(Alphabet)
AppsC  == TLCEval(AppPatterns)

VARIABLES prog, apps, ai, pc, st, data, cnt, uf, lu, phase, log, plan

vars == <<prog, apps, ai, pc, st, data, cnt, uf, lu, phase, log, plan>>
\* plan: the elementary steps of the running application in working order (a function of prog and the
\* direction, kept in the state only so that it is computed once per application)
\* lu: a *legacy* pop underflowed in this application (it marks only the element it
\* could not serve, see known finding KF-legacy-pop-underflow-masked)

\* Probe steps: [a |-> "add", e |-> 1..4, c |-> Int] and [a |-> "dbl", e |-> 1..4]
IsProbe(ins) == ins.a \in {"add", "dbl", "noop"}
ProbeText(ins) ==
    CASE ins.a = "add"  -> "t_add e=" \o ToString(ins.e) \o " c=" \o ToString(ins.c)
      [] ins.a = "dbl"  -> "t_dbl e=" \o ToString(ins.e)
      [] ins.a = "noop" -> "noop"
StepText(ins) == IF IsProbe(ins) THEN ProbeText(ins) ELSE InsText(ins)

\* ---- wrappers: modifiers and macros ---------------------------------------
IsWrap(x) == x.a = "wrap"
Opp(d) == IF d = "F" THEN "I" ELSE "F"

\* The plan: an elementary step contributes itself with the direction it is handed; an element with
\* omit_fwd (omit_inv) contributes nothing when the pipeline it is a step of works forward (inverse);
\* `inv` exchanges the directions for that element only; a pipeline (the program, a macro body) works
\* through its steps first to last forward, last to first inverse.
RECURSIVE PlanOf(_, _)
RECURSIVE PlanSeq(_, _, _)
PlanOf(x, dir) ==
    IF ~IsWrap(x) THEN << [ins |-> x, dir |-> dir] >>
    ELSE IF (x.omit = "fwd" /\ dir = "F") \/ (x.omit = "inv" /\ dir = "I") THEN << >>
    ELSE PlanSeq(x.body, IF x.inv THEN Opp(dir) ELSE dir, 1)
PlanSeq(p, dir, k) ==
    IF k > Len(p) THEN << >>
    ELSE PlanOf(p[IF dir = "F" THEN k ELSE Len(p) + 1 - k], dir) \o PlanSeq(p, dir, k + 1)
Plan(p, dir) == PlanSeq(p, dir, 1)

\* `inv` written on a stack step itself.  Rumination 002: "`stack` does not support the `inv` modifier.
\* Instead use these substitutions" (the table of inverse instructions); C03: a step carrying `inv`
\* behaves as that step with the two directions exchanged.  Two behaviours are admissible: the step is
\* refused at instantiation, or it is the inverse instruction of the documented table.  (Accepting the
\* modifier and ignoring it is neither.)  On a macro invocation `inv` is the inverse of the expansion (C04).
RECURSIVE InvOnStackStep(_)
InvOnStackStep(p) == \E k \in 1..Len(p) : IsWrap(p[k]) /\
                        ((p[k].via = "step" /\ p[k].inv /\ ~IsProbe(p[k].body[1])) \/ InvOnStackStep(p[k].body))

\* ---- text ------------------------------------------------------------------
ModWords(x) == (IF x.inv THEN <<"inv">> ELSE << >>)
               \o (IF x.omit = "fwd" THEN <<"omit_fwd">> ELSE IF x.omit = "inv" THEN <<"omit_inv">> ELSE << >>)
WithMods(t, x) ==
    LET w == ModWords(x) IN
    IF Len(w) = 0 THEN t
    ELSE CASE x.sty = "pre" -> JoinStr(w, " ") \o " " \o t
           [] x.sty = "eq"  -> t \o " " \o JoinStr([i \in 1..Len(w) |-> w[i] \o "=true"], " ")
           [] OTHER         -> t \o " " \o JoinStr(w, " ")
\* macros are named after their position: s:m<k> for the k-th step of the program, s:m<k>_<j> inside its body
RECURSIVE ElemText(_, _)
RECURSIVE SeqText(_, _, _)
ElemText(x, nm) == IF ~IsWrap(x) THEN StepText(x)
                   ELSE IF x.via = "macro" THEN WithMods(nm, x)
                   ELSE WithMods(StepText(x.body[1]), x)
SeqText(p, pre, k) == IF k > Len(p) THEN ""
                      ELSE ElemText(p[k], pre \o ToString(k)) \o (IF k < Len(p) THEN " | " ELSE "") \o SeqText(p, pre, k + 1)
\* a pipeline of one step is written with a trailing bar
ProgText(p) == SeqText(p, "s:m", 1) \o (IF Len(p) = 1 THEN " |" ELSE "")
\* the macros a program needs: sequence of [name, def]
RECURSIVE ElemRes(_, _)
RECURSIVE SeqRes(_, _, _)
ElemRes(x, nm) == IF ~IsWrap(x) THEN << >>
                  ELSE (IF x.via = "macro" THEN << [name |-> nm, def |-> SeqText(x.body, nm \o "_", 1)] >> ELSE << >>)
                       \o SeqRes(x.body, nm \o "_", 1)
SeqRes(p, pre, k) == IF k > Len(p) THEN << >> ELSE ElemRes(p[k], pre \o ToString(k)) \o SeqRes(p, pre, k + 1)
Resources(p) == SeqRes(p, "s:m", 1)

ProbeApply(ins, dir, d) ==
    CASE ins.a = "noop" -> d
      [] ins.a = "add"  -> SetCol(d, ins.e, [k \in 1..Len(d) |->
                              IF dir = "F" THEN Add(d[k][ins.e], ins.c * Unit) ELSE Sub(d[k][ins.e], ins.c * Unit)])
      [] ins.a = "dbl"  -> SetCol(d, ins.e, [k \in 1..Len(d) |->
                              IF dir = "F" THEN Dbl(d[k][ins.e]) ELSE Half(d[k][ins.e])])

Dir == apps[ai]
\* the elementary step at hand and the direction it works in (in the inverse direction the program
\* runs backwards: see Plan)
Cur  == plan[pc].ins
CDir == plan[pc].dir

Init == /\ prog = <<>> /\ apps = <<>> /\ ai = 0 /\ pc = 0 /\ st = <<>>
        /\ data = Data0 /\ cnt = -1 /\ uf = FALSE /\ lu = FALSE /\ phase = "build" /\ log = <<>> /\ plan = <<>>

Extend == /\ phase = "build" /\ Len(prog) < MaxLen
          /\ \E ins \in AlphaC : prog' = Append(prog, ins)
          /\ UNCHANGED <<apps, ai, pc, st, data, cnt, uf, lu, phase, log, plan>>

Start == /\ phase = "build" /\ Len(prog) >= MinLen
         /\ \E a \in AppsC : apps' = a /\ plan' = Plan(prog, a[1])
         /\ ai' = 1 /\ pc' = 1 /\ st' = <<>> /\ cnt' = -1 /\ phase' = "run"
         /\ UNCHANGED <<prog, data, uf, lu, log>>

\* Instantiation may refuse a program with `inv` written on a stack step (see InvOnStackStep)
Refuse == /\ phase = "build" /\ Len(prog) >= MinLen /\ InvOnStackStep(prog)
          /\ phase' = "refused"
          /\ UNCHANGED <<prog, apps, ai, pc, st, data, cnt, uf, lu, log, plan>>

EffKind == IF IsProbe(Cur) THEN "probe" ELSE IF CDir = "F" THEN Cur.a ELSE InverseIns(Cur).a
Account(r) == /\ st' = r.st /\ data' = r.data
              /\ lu' = (lu \/ (r.uf /\ EffKind = "lpop"))
              /\ cnt' = IF cnt = -1 THEN r.cnt ELSE Min(cnt, r.cnt)
              /\ uf' = (uf \/ r.uf)
              /\ pc' = pc + 1
              /\ UNCHANGED <<prog, apps, ai, phase, log, plan>>

Running == phase = "run" /\ pc <= Len(plan)
Unspecified == ~IsProbe(Cur) /\ (Cur.a = "drop" \/ (Cur.a = "swap" /\ ~SwapDefined(st)))

StepProbe == /\ Running /\ IsProbe(Cur)
             /\ Account(Res(st, ProbeApply(Cur, CDir, data), Len(data), FALSE))

StepStack(kind) ==
    /\ Running /\ ~IsProbe(Cur) /\ Cur.a = kind
    /\ ~Unspecified
    /\ Account(IF CDir = "F" THEN StackFwd(Cur, st, data) ELSE StackInv(Cur, st, data))

\* An instruction whose behaviour the documentation leaves open: swap with fewer than two
\* elements on the stack, and the undocumented `drop`.  The application is not predicted any
\* further; what remains required of it is only what holds for EVERY application (C10): it
\* reports no more successes than tuples, and every tuple it does not count carries NaN.
StepUnspec == /\ Running /\ Unspecified
              /\ log' = Append(log, [dir |-> Dir, cnt |-> -2, data |-> data, uf |-> TRUE, lu |-> FALSE, depth |-> Len(st), unspec |-> TRUE])
              /\ phase' = "done"
              /\ UNCHANGED <<prog, apps, ai, pc, st, data, cnt, uf, lu, plan>>

StepPush   == StepStack("push")
StepPop    == StepStack("pop")
StepFlip   == StepStack("flip")
StepRoll   == StepStack("roll")
StepUnroll == StepStack("unroll")
StepSwap   == StepStack("swap")
StepLPush  == StepStack("lpush")
StepLPop   == StepStack("lpop")

\* End of one application: report, then either start the next one (with an
\* empty stack: nothing leaks from one application into the next) or stop.
\* (the count is the minimum over the executed steps, the set size if none was executed)
EndApply ==
    /\ phase = "run" /\ pc > Len(plan)
    /\ log' = Append(log, [dir |-> Dir, cnt |-> IF cnt = -1 THEN Len(data) ELSE cnt, data |-> data, uf |-> uf, lu |-> lu, depth |-> Len(st), unspec |-> FALSE])
    /\ IF ai < Len(apps) /\ ~uf     \* after an underflow the operands are only known to carry NaN: stop
       THEN /\ ai' = ai + 1 /\ pc' = 1 /\ st' = <<>> /\ cnt' = -1
            /\ plan' = Plan(prog, apps[ai + 1])
            /\ UNCHANGED <<prog, apps, data, phase, uf, lu>>
       ELSE /\ phase' = "done"
            /\ UNCHANGED <<prog, apps, ai, pc, st, data, cnt, uf, lu, plan>>

Next == Extend \/ Start \/ Refuse \/ StepUnspec \/ StepProbe \/ StepPush \/ StepPop \/ StepFlip \/ StepRoll
        \/ StepUnroll \/ StepSwap \/ StepLPush \/ StepLPop \/ EndApply

Spec == Init /\ [][Next]_vars

----------------------------------------------------------------------------
\* Properties

\* Net stack effect of an instruction
Delta(ins) == CASE IsProbe(ins) -> 0
                [] ins.a = "push" -> Len(ins.args)   [] ins.a = "pop"  -> -Len(ins.args)
                [] ins.a = "lpush" -> Cardinality(ins.flags) [] ins.a = "lpop" -> -Cardinality(ins.flags)
                [] OTHER -> 0

TypeOK == /\ phase \in {"build", "run", "done", "refused"}
          /\ cnt \in -1..Len(Data0)
          /\ Len(data) = Len(Data0)

\* Counts are honest, underflow is visible
CountInv == (phase = "run" /\ cnt # -1) => /\ cnt \in {0, Len(Data0)}
                                          /\ (cnt = 0) <=> uf

\* An underflow stomps: right after it, every tuple is NaN throughout
\* (checked on the log: an application that underflowed reports 0)
UnderflowInv == \A i \in 1..Len(log) : (log[i].uf /\ ~log[i].unspec) => log[i].cnt = 0

\* Big-step reference, by the literal expansion.  A program expands to a flat sequence of steps
\* [ins, inv, omit]: an element that is not a wrapper is itself; a wrapper expands to the expansion of
\* its body - inverted (steps in reverse order, each step's inv toggled, its omissions exchanged) if the
\* wrapper carries inv - and its own omission then applies to every step of that.
\* The flat program works forward through the steps not omitted forward, first to last; inverse through
\* those not omitted inverse, last to first.  A step that so works in the inverse direction is the inverse
\* instruction (push <-> pop with reversed argument lists, roll <-> unroll, swap and flip unchanged,
\* probes inverted) run forward; all on a stack that is empty at the start.
OtherOmit(o) == IF o = "fwd" THEN "inv" ELSE "fwd"
InvFlat(f) == [i \in 1..Len(f) |-> LET s == f[Len(f) + 1 - i]
                                   IN [s EXCEPT !.inv = ~@, !.omit = {OtherOmit(o) : o \in @}]]
RECURSIVE FlatOf(_)
RECURSIVE FlatSeq(_, _)
FlatOf(x) == IF ~IsWrap(x) THEN << [ins |-> x, inv |-> FALSE, omit |-> {}] >>
             ELSE LET b == FlatSeq(x.body, 1)
                      e == IF x.inv THEN InvFlat(b) ELSE b
                  IN [i \in 1..Len(e) |-> [e[i] EXCEPT !.omit = @ \cup (IF x.omit = "" THEN {} ELSE {x.omit})]]
FlatSeq(p, k) == IF k > Len(p) THEN << >> ELSE FlatOf(p[k]) \o FlatSeq(p, k + 1)
Expansion(p) == FlatSeq(p, 1)

\* the instructions a flat program runs (forward, on an empty stack) when applied in direction dir;
\* pd: the direction a probe step works in
Worked(f, dir) ==
    LET g    == IF dir = "F" THEN f ELSE Rev(f)
        tag  == IF dir = "F" THEN "fwd" ELSE "inv"
        keep == SelectSeq(g, LAMBDA s : tag \notin s.omit)
    IN [i \in 1..Len(keep) |->
          LET s   == keep[i]
              eff == IF s.inv THEN Opp(dir) ELSE dir
          IN [ins |-> IF IsProbe(s.ins) \/ eff = "F" THEN s.ins ELSE InverseIns(s.ins), pd |-> eff]]

RECURSIVE BigRun(_, _, _, _, _)
BigRun(p, i, s, d, c) ==
    IF i > Len(p) THEN [data |-> d, cnt |-> IF c = -1 THEN Len(d) ELSE c, depth |-> Len(s)]
    ELSE LET x == p[i]
             r == IF IsProbe(x.ins) THEN Res(s, ProbeApply(x.ins, x.pd, d), Len(d), FALSE)
                  ELSE StackFwd(x.ins, s, d)
         IN BigRun(p, i + 1, r.st, r.data, IF c = -1 THEN r.cnt ELSE Min(c, r.cnt))

Reference(p, dir, d) == BigRun(Worked(Expansion(p), dir), 1, <<>>, d, -1)

\* The step machine agrees with the big-step reference after every application
InputOf(i) == IF i = 1 THEN Data0 ELSE log[i - 1].data
RefInv == \A i \in 1..Len(log) : ~log[i].unspec =>
             LET r == Reference(prog, log[i].dir, InputOf(i))
             IN r.data = log[i].data /\ r.cnt = log[i].cnt /\ r.depth = log[i].depth

\* The stack is empty whenever an application starts
FreshStackInv == (phase = "run" /\ pc = 1) => st = <<>>

\* ---- behaviour export ----------------------------------------------------
Vals(d) == d
Emit == phase = "done" =>
    PrintT(<<"REPLAY", ToJson([
        def   |-> ProgText(prog),
        res   |-> Resources(prog),
        \* `inv` written on a stack step: refused at instantiation, or the inverse instruction
        may_refuse |-> InvOnStackStep(prog),
        data  |-> Data0,
        apps  |-> [i \in 1..Len(log) |->
                     [dir |-> log[i].dir, count |-> log[i].cnt,
                      \* after an underflow only "every tuple carries NaN" is specified
                      exact |-> ~log[i].uf, legacy_underflow |-> log[i].lu, unspecified |-> log[i].unspec,
                      data |-> log[i].data]]
    ])>>)
=============================================================================
