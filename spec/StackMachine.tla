---------------------------- MODULE StackMachine ----------------------------
(***************************************************************************)
(* C12.  A pipeline of stack instructions and value-changing probe steps,  *)
(* executed step by step the way the pipeline operator does: one action    *)
(* per step, a per-application stack, the count being the minimum over the *)
(* executed steps.  A behaviour: build a program (Extend), then run a      *)
(* list of applications (directions) on one operator handle, the operands  *)
(* being carried from one application to the next, the stack not.          *)
(***************************************************************************)
EXTENDS Stack, Json

CONSTANTS Alphabet,      \* set of instructions / probe steps to build programs from
          MaxLen,        \* longest program
          AppPatterns,   \* set of sequences of directions, e.g. {<<"F","I">>}
          Data0          \* initial operand set

AlphaC == TLCEval(Alphabet)
AppsC  == TLCEval(AppPatterns)

VARIABLES prog, apps, ai, pc, st, data, cnt, uf, lu, phase, log

vars == <<prog, apps, ai, pc, st, data, cnt, uf, lu, phase, log>>
\* lu: a *legacy* pop underflowed in this application (it marks only the element it
\* could not serve, see known finding KF-legacy-pop-underflow-masked)

\* Probe steps: [a |-> "add", e |-> 1..4, c |-> Int] and [a |-> "dbl", e |-> 1..4]
IsProbe(ins) == ins.a \in {"add", "dbl", "noop"}
ProbeText(ins) ==
    CASE ins.a = "add"  -> "t_add e=" \o ToString(ins.e) \o " c=" \o ToString(ins.c)
      [] ins.a = "dbl"  -> "t_dbl e=" \o ToString(ins.e)
      [] ins.a = "noop" -> "noop"
StepText(ins) == IF IsProbe(ins) THEN ProbeText(ins) ELSE InsText(ins)
ProgText(p) == JoinStr([i \in 1..Len(p) |-> StepText(p[i])], " | ")

ProbeApply(ins, dir, d) ==
    CASE ins.a = "noop" -> d
      [] ins.a = "add"  -> SetCol(d, ins.e, [k \in 1..Len(d) |->
                              IF dir = "F" THEN Add(d[k][ins.e], ins.c * Unit) ELSE Sub(d[k][ins.e], ins.c * Unit)])
      [] ins.a = "dbl"  -> SetCol(d, ins.e, [k \in 1..Len(d) |->
                              IF dir = "F" THEN Dbl(d[k][ins.e]) ELSE Half(d[k][ins.e])])

Dir == apps[ai]
\* In the inverse direction the program runs backwards
Cur == IF Dir = "F" THEN prog[pc] ELSE prog[Len(prog) + 1 - pc]

Init == /\ prog = <<>> /\ apps = <<>> /\ ai = 0 /\ pc = 0 /\ st = <<>>
        /\ data = Data0 /\ cnt = -1 /\ uf = FALSE /\ lu = FALSE /\ phase = "build" /\ log = <<>>

Extend == /\ phase = "build" /\ Len(prog) < MaxLen
          /\ \E ins \in AlphaC : prog' = Append(prog, ins)
          /\ UNCHANGED <<apps, ai, pc, st, data, cnt, uf, lu, phase, log>>

Start == /\ phase = "build" /\ Len(prog) >= 2
         /\ \E a \in AppsC : apps' = a
         /\ ai' = 1 /\ pc' = 1 /\ st' = <<>> /\ cnt' = -1 /\ phase' = "run"
         /\ UNCHANGED <<prog, data, uf, lu, log>>

EffKind == IF IsProbe(Cur) THEN "probe" ELSE IF Dir = "F" THEN Cur.a ELSE InverseIns(Cur).a
Account(r) == /\ st' = r.st /\ data' = r.data
              /\ lu' = (lu \/ (r.uf /\ EffKind = "lpop"))
              /\ cnt' = IF cnt = -1 THEN r.cnt ELSE Min(cnt, r.cnt)
              /\ uf' = (uf \/ r.uf)
              /\ pc' = pc + 1
              /\ UNCHANGED <<prog, apps, ai, phase, log>>

Running == phase = "run" /\ pc <= Len(prog)
Unspecified == ~IsProbe(Cur) /\ (Cur.a = "drop" \/ (Cur.a = "swap" /\ ~SwapDefined(st)))

StepProbe == /\ Running /\ IsProbe(Cur)
             /\ Account(Res(st, ProbeApply(Cur, Dir, data), Len(data), FALSE))

StepStack(kind) ==
    /\ Running /\ ~IsProbe(Cur) /\ Cur.a = kind
    /\ ~Unspecified
    /\ Account(IF Dir = "F" THEN StackFwd(Cur, st, data) ELSE StackInv(Cur, st, data))

\* An instruction whose behaviour the documentation leaves open: swap with fewer than two
\* elements on the stack, and the undocumented `drop`.  The application is not predicted any
\* further; what remains required of it is only what holds for EVERY application (C10): it
\* reports no more successes than tuples, and every tuple it does not count carries NaN.
StepUnspec == /\ Running /\ Unspecified
              /\ log' = Append(log, [dir |-> Dir, cnt |-> -2, data |-> data, uf |-> TRUE, lu |-> FALSE, depth |-> Len(st), unspec |-> TRUE])
              /\ phase' = "done"
              /\ UNCHANGED <<prog, apps, ai, pc, st, data, cnt, uf, lu>>

StepPush   == StepStack("push")
StepPop    == StepStack("pop")
StepFlip   == StepStack("flip")
StepRoll   == StepStack("roll")
StepUnroll == StepStack("unroll")
StepSwap   == StepStack("swap")
StepLPush  == StepStack("lpush")
StepLPop   == StepStack("lpop")

\* End of one application: report, then either start the next one (with an
\* empty stack: nothing leaks from one application into the next) or stop.
EndApply ==
    /\ phase = "run" /\ pc > Len(prog)
    /\ log' = Append(log, [dir |-> Dir, cnt |-> cnt, data |-> data, uf |-> uf, lu |-> lu, depth |-> Len(st), unspec |-> FALSE])
    /\ IF ai < Len(apps) /\ ~uf     \* after an underflow the operands are only known to carry NaN: stop
       THEN /\ ai' = ai + 1 /\ pc' = 1 /\ st' = <<>> /\ cnt' = -1
            /\ UNCHANGED <<prog, apps, data, phase, uf, lu>>
       ELSE /\ phase' = "done"
            /\ UNCHANGED <<prog, apps, ai, pc, st, data, cnt, uf, lu>>

Next == Extend \/ Start \/ StepUnspec \/ StepProbe \/ StepPush \/ StepPop \/ StepFlip \/ StepRoll
        \/ StepUnroll \/ StepSwap \/ StepLPush \/ StepLPop \/ EndApply

Spec == Init /\ [][Next]_vars

----------------------------------------------------------------------------
\* Properties

\* Net stack effect of an instruction
Delta(ins) == CASE IsProbe(ins) -> 0
                [] ins.a = "push" -> Len(ins.args)   [] ins.a = "pop"  -> -Len(ins.args)
                [] ins.a = "lpush" -> Cardinality(ins.flags) [] ins.a = "lpop" -> -Cardinality(ins.flags)
                [] OTHER -> 0

TypeOK == /\ phase \in {"build", "run", "done"}
          /\ cnt \in -1..Len(Data0)
          /\ Len(data) = Len(Data0)

\* Counts are honest, underflow is visible
CountInv == (phase = "run" /\ cnt # -1) => /\ cnt \in {0, Len(Data0)}
                                          /\ (cnt = 0) <=> uf

\* An underflow stomps: right after it, every tuple is NaN throughout
\* (checked on the log: an application that underflowed reports 0)
UnderflowInv == \A i \in 1..Len(log) : (log[i].uf /\ ~log[i].unspec) => log[i].cnt = 0

\* Big-step reference: the inverse of a program is the reversed program with
\* every instruction replaced by its inverse instruction (push <-> pop with
\* reversed argument lists, roll <-> unroll, swap and flip unchanged, probes
\* inverted), run forward on an empty stack.
InvProg(p) == [i \in 1..Len(p) |-> LET x == p[Len(p) + 1 - i] IN
                  IF IsProbe(x) THEN [x EXCEPT !.a = x.a] ELSE InverseIns(x)]

RECURSIVE BigRun(_, _, _, _, _, _)
BigRun(p, pdir, i, s, d, c) ==
    IF i > Len(p) THEN [data |-> d, cnt |-> c, depth |-> Len(s)]
    ELSE LET x == p[i]
             r == IF IsProbe(x) THEN Res(s, ProbeApply(x, pdir, d), Len(d), FALSE)
                  ELSE StackFwd(x, s, d)
         IN BigRun(p, pdir, i + 1, r.st, r.data, IF c = -1 THEN r.cnt ELSE Min(c, r.cnt))

Reference(p, dir, d) == IF dir = "F" THEN BigRun(p, "F", 1, <<>>, d, -1)
                        ELSE BigRun(InvProg(p), "I", 1, <<>>, d, -1)

\* The step machine agrees with the big-step reference after every application
InputOf(i) == IF i = 1 THEN Data0 ELSE log[i - 1].data
RefInv == \A i \in 1..Len(log) : ~log[i].unspec =>
             LET r == Reference(prog, log[i].dir, InputOf(i))
             IN r.data = log[i].data /\ r.cnt = log[i].cnt /\ r.depth = log[i].depth

\* The stack is empty whenever an application starts
FreshStackInv == (phase = "run" /\ pc = 1) => st = <<>>

\* ---- behaviour export ----------------------------------------------------
Vals(d) == d
Emit == phase = "done" =>
    PrintT(<<"REPLAY", ToJson([
        def   |-> ProgText(prog),
        data  |-> Data0,
        apps  |-> [i \in 1..Len(log) |->
                     [dir |-> log[i].dir, count |-> log[i].cnt,
                      \* after an underflow only "every tuple carries NaN" is specified
                      exact |-> ~log[i].uf, legacy_underflow |-> log[i].lu, unspecified |-> log[i].unspec,
                      data |-> log[i].data]]
    ])>>)
=============================================================================
