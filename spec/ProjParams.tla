---------------------------- MODULE ProjParams ----------------------------
(***************************************************************************)
(* C13.  Parameter conventions of the plane projections.                   *)
(*                                                                         *)
(* Every plane projection is                                               *)
(*                                                                         *)
(*    (lon, lat) |-> (x_0, y_0) + k_0 * a * Core_s(lon - lon_0 deg, lat)   *)
(*                                                                         *)
(* with Core an UNINTERPRETED function of the shape parameters s (the      *)
(* projection method, the shape of the ellipsoid, lat_0, lat_1, ...).      *)
(* This module resolves written definitions (defaults of the implicit      *)
(* gamut, the utm/butm derivation in integers, lcc's second parallel, the  *)
(* noop aliases) into records, partitions them into classes of equal core  *)
(* and derives, in exact rational arithmetic, the affine relation between  *)
(* any two definitions of one class:                                       *)
(*                                                                         *)
(*    A(lon, lat) = sa + rho * (B(lon - dlon deg, lat) - sb)               *)
(*                                                                         *)
(* R1 false origin adds; R2 lon_0 shifts the input; R3 k_0 and R4 the      *)
(* semi-major axis scale the unshifted result; R5 utm = tmerc(...),        *)
(* R6 butm = btmerc(...); R7 merc on a sphere = webmerc on that sphere;    *)
(* R8 lat_ts = its k_0 (k_0 symbolic here, evaluated in the harness);      *)
(* R9 one-parallel lcc = two-parallel lcc with equal parallels; the noop   *)
(* aliases are the identity.                                               *)
(***************************************************************************)
EXTENDS Integers, Sequences, FiniteSets, TLC, Json

CONSTANTS
    None,       \* model value: parameter not given
    Defs,       \* set of written definitions to explore (noop aliases included: shape.txt = their arguments)
    PairAll     \* BOOLEAN: pair every two definitions of a class (else: the canonical one and one-parameter neighbours)

DefsC == TLCEval(Defs)

A0 == 6378137          \* metres; "a,rf" ellipsoids have a = m * A0

(***************************************************************************)
(* Catalogue: which of the shared parameters each projection accepts       *)
(* (Rumination 002 tables).                                                *)
(***************************************************************************)
Projections == {"merc", "webmerc", "tmerc", "utm", "btmerc", "butm", "lcc", "laea", "omerc", "somerc"}
NoopAliases == {"noop", "longlat", "latlon", "latlong", "lonlat"}
Accepts(p) ==
    CASE p = "merc"    -> {"x_0", "y_0", "lon_0", "k_0", "lat_ts", "ellps"}
      [] p = "webmerc" -> {"ellps"}
      [] p = "tmerc"   -> {"x_0", "y_0", "lon_0", "k_0", "ellps"}
      [] p = "btmerc"  -> {"x_0", "y_0", "lon_0", "k_0", "ellps"}
      [] p = "utm"     -> {"zone", "south", "ellps"}
      [] p = "butm"    -> {"zone", "south", "ellps"}
      [] p = "lcc"     -> {"x_0", "y_0", "lon_0", "k_0", "ellps"}
      [] p = "laea"    -> {"x_0", "y_0", "lon_0", "ellps"}
      [] p = "omerc"   -> {"x_0", "y_0", "k_0", "ellps"}
      [] p = "somerc"  -> {"x_0", "y_0", "lon_0", "k_0", "ellps"}
      [] OTHER         -> {}

(***************************************************************************)
(* Written definitions                                                     *)
(*  [proj, shape, x0, y0, k, lon0, ell, zone, south, latts]                *)
(*  shape : [txt, lat0, lat1, lat2, lonc, dlons, lats]  txt: literal shape *)
(*          arguments; lat0..2 (lcc) integers or None; lonc: longitude of  *)
(*          the centre for projections without lon_0; dlons/lats: the      *)
(*          point lattice of the domain, tenths of a degree                *)
(*  k     : None or [n, d, txt]   k_0 = n/d, written txt                   *)
(*  ell   : None, [kind |-> "named", name], or [kind |-> "arf", m, rf]     *)
(*          (written "m*A0,rf")                                            *)
(***************************************************************************)
Opt(key, v) == IF v = None THEN "" ELSE " " \o key \o "=" \o ToString(v)
ShapeText(s) == (IF s.txt = "" THEN "" ELSE " " \o s.txt)
                \o Opt("lat_0", s.lat0) \o Opt("lat_1", s.lat1) \o Opt("lat_2", s.lat2)
EllText(e) == IF e = None THEN ""
              ELSE IF e.kind = "named" THEN " ellps=" \o e.name
              ELSE " ellps=" \o ToString(e.m * A0) \o "," \o e.rf
KText(k) == IF k = None THEN "" ELSE " k_0=" \o k.txt
Text(d) == d.proj \o ShapeText(d.shape)
           \o Opt("zone", d.zone) \o (IF d.south THEN " south" ELSE "")
           \o Opt("lon_0", d.lon0) \o KText(d.k) \o Opt("lat_ts", d.latts)
           \o Opt("x_0", d.x0) \o Opt("y_0", d.y0) \o EllText(d.ell)

(***************************************************************************)
(* Exact rationals (positive), kept reduced                                *)
(***************************************************************************)
RECURSIVE Gcd(_, _)
Gcd(a, b) == IF b = 0 THEN a ELSE Gcd(b, a % b)
Reduce(n, d) == LET g == Gcd(n, d) IN <<n \div g, d \div g>>
MulQ(p, q) == LET g1 == Gcd(p[1], q[2])
                  g2 == Gcd(q[1], p[2])
              IN  <<(p[1] \div g1) * (q[1] \div g2), (p[2] \div g2) * (q[2] \div g1)>>
InvQ(p) == <<p[2], p[1]>>
One == <<1, 1>>

(***************************************************************************)
(* Resolution                                                              *)
(***************************************************************************)
Dflt(v, d) == IF v = None THEN d ELSE v

\* the semi-major axis: a multiple of a base length
\* an operator without ellps uses its default ellipsoid; which one that is, is not part of the
\* statement: the default is a shape and a base length of its own
DefaultEll(p) == "default"
AxisOf(d) == IF d.ell = None THEN [base |-> DefaultEll(d.proj), m |-> 1]
             ELSE IF d.ell.kind = "named" THEN [base |-> d.ell.name, m |-> 1]
             ELSE [base |-> "A0", m |-> d.ell.m]
\* the shape of the ellipsoid
Spheres == {"sphere", "unitsphere"}
EllShape(d) == IF d.ell = None THEN DefaultEll(d.proj)
               ELSE IF d.ell.kind = "named" THEN d.ell.name ELSE d.ell.rf
IsSphere(d) == d.ell # None /\ d.ell.kind = "named" /\ d.ell.name \in Spheres

\* the core: method and everything that shapes it
CoreOf(d) ==
    LET s == d.shape
        lcc2 == IF s.lat2 = None THEN s.lat1 ELSE s.lat2          \* R9
    IN  CASE d.proj = "utm"     -> <<"tmerc", "", None, None, None, EllShape(d)>>            \* R5
          [] d.proj = "butm"    -> <<"btmerc", "", None, None, None, EllShape(d)>>           \* R6
          [] d.proj = "webmerc" -> <<"sphmerc", "", None, None, None, "-">>                  \* ignores the flattening
          [] d.proj = "merc" /\ IsSphere(d) -> <<"sphmerc", "", None, None, None, "-">>      \* R7
          [] OTHER              -> <<d.proj, s.txt, s.lat0, s.lat1, lcc2, EllShape(d)>>

K9996 == [n |-> 2499, d |-> 2500, txt |-> "0.9996"]

\* the noop aliases ignore every argument
Identity == [core |-> <<"identity", "", None, None, None, "-">>, axis |-> [base |-> "-", m |-> 1],
             x0 |-> 0, y0 |-> 0, kn |-> 1, kd |-> 1, ksym |-> None, lon0 |-> 0]

\* the resolved record
Resolve(d) ==
    IF d.proj \in NoopAliases THEN Identity
    ELSE IF d.proj \in {"utm", "butm"}
    THEN [core |-> CoreOf(d), axis |-> AxisOf(d),
          x0 |-> 500000, y0 |-> IF d.south THEN 10000000 ELSE 0,
          kn |-> K9996.n, kd |-> K9996.d, ksym |-> None,
          lon0 |-> 6 * d.zone - 183]
    ELSE [core |-> CoreOf(d), axis |-> AxisOf(d),
          x0 |-> Dflt(d.x0, 0), y0 |-> Dflt(d.y0, 0),                                        \* implicit gamut: 0
          kn |-> IF d.k = None THEN 1 ELSE d.k.n, kd |-> IF d.k = None THEN 1 ELSE d.k.d,    \* implicit gamut: 1
          ksym |-> d.latts,                                                                  \* R8: k_0 = K(lat_ts, e)
          lon0 |-> Dflt(d.lon0, 0)]

ClassOf(r) == <<r.core, r.axis.base, r.ksym>>

\* A(lon, lat) = sa + rho * (B(lon - dlon, lat) - sb)
Rel(ra, rb) == [rho  |-> Reduce(ra.kn * ra.axis.m * rb.kd, ra.kd * rb.axis.m * rb.kn),
                dlon |-> ra.lon0 - rb.lon0,
                sa   |-> <<ra.x0, ra.y0>>,
                sb   |-> <<rb.x0, rb.y0>>]
ComposeRel(r1, r2) == [rho |-> MulQ(r1.rho, r2.rho), dlon |-> r1.dlon + r2.dlon, sa |-> r1.sa, sb |-> r2.sb]
InverseRel(r) == [rho |-> InvQ(r.rho), dlon |-> 0 - r.dlon, sa |-> r.sb, sb |-> r.sa]
IdRel(r) == r.rho = One /\ r.dlon = 0 /\ r.sa = r.sb

\* the canonical member of a class: no false origin, unit scale, lon_0 = 0, a = base
Canon(r) == [r EXCEPT !.x0 = 0, !.y0 = 0, !.kn = 1, !.kd = 1, !.lon0 = 0, !.axis = [base |-> r.axis.base, m |-> 1]]

(***************************************************************************)
(* Derived operators: their explicit twins                                 *)
(***************************************************************************)
NoShape == [txt |-> "", lat0 |-> None, lat1 |-> None, lat2 |-> None, lonc |-> None, dlons |-> <<>>, lats |-> <<>>]
UtmTwin(d) == [proj |-> IF d.proj = "utm" THEN "tmerc" ELSE "btmerc", shape |-> [d.shape EXCEPT !.txt = ""],
               x0 |-> 500000, y0 |-> IF d.south THEN 10000000 ELSE None,
               k |-> K9996, lon0 |-> 6 * d.zone - 183, ell |-> d.ell,
               zone |-> None, south |-> FALSE, latts |-> None]
WebTwin(d) == [d EXCEPT !.proj = "webmerc"]
\* lat_ts = phi is k_0 = K(phi, e); the harness evaluates K and substitutes it for {K}
LatTsTwin(d) == [d EXCEPT !.latts = None, !.k = [n |-> 1, d |-> 1, txt |-> "{K}"]]

(***************************************************************************)
(* Exploration: pick A, then a partner B of the same class                 *)
(***************************************************************************)
VARIABLES A, B
vars == <<A, B>>

Res == [d \in DefsC |-> Resolve(d)]
ResC == TLCEval(Res)
Classes == {ClassOf(ResC[d]) : d \in DefsC}
Members == [c \in Classes |-> {d \in DefsC : ClassOf(ResC[d]) = c}]
MembersC == TLCEval(Members)

\* number of written parameters in which two definitions differ
Differ(a, b) == Cardinality({f \in {"proj", "shape", "x0", "y0", "k", "lon0", "ell", "zone", "south", "latts"} : a[f] # b[f]})
Partners(a) ==
    LET ra == ResC[a] IN
    {b \in MembersC[ClassOf(ra)] :
        /\ b # a
        /\ PairAll \/ ResC[b] = Canon(ra) \/ Differ(a, b) = 1 \/ ResC[b] = ra}

Init == A \in DefsC /\ B = None
Pick == B = None /\ \E b \in Partners(A) : B' = b /\ UNCHANGED A
Next == Pick
Spec == Init /\ [][Next]_vars

(***************************************************************************)
(* Invariants                                                              *)
(***************************************************************************)
RA == ResC[A]
RB == ResC[B]

\* the relation goes through the canonical member of the class, and inverts
ThroughCanonInv == B # None =>
    Rel(RA, RB) = ComposeRel(Rel(RA, Canon(RA)), InverseRel(Rel(RB, Canon(RB))))
InverseInv == B # None => InverseRel(Rel(RA, RB)) = Rel(RB, RA) /\ Canon(RA) = Canon(RB)

\* R1 - R4 one parameter at a time (the other written parameters equal)
OnlyDiffer(fs) == A.proj \notin NoopAliases /\ \A f \in {"proj", "shape", "x0", "y0", "k", "lon0", "ell", "zone", "south", "latts"} \ fs : A[f] = B[f]
R1Inv == (B # None /\ OnlyDiffer({"x0", "y0"})) =>
            LET r == Rel(RA, RB) IN r.rho = One /\ r.dlon = 0
                /\ r.sa = <<Dflt(A.x0, 0), Dflt(A.y0, 0)>> /\ r.sb = <<Dflt(B.x0, 0), Dflt(B.y0, 0)>>
R2Inv == (B # None /\ OnlyDiffer({"lon0"})) =>
            LET r == Rel(RA, RB) IN r.rho = One /\ r.sa = r.sb /\ r.dlon = Dflt(A.lon0, 0) - Dflt(B.lon0, 0)
R3Inv == (B # None /\ OnlyDiffer({"k"}) /\ A.latts = None) =>
            LET r == Rel(RA, RB) IN r.dlon = 0 /\ r.sa = r.sb
                /\ r.rho = Reduce(RA.kn * RB.kd, RA.kd * RB.kn)
R4Inv == (B # None /\ OnlyDiffer({"ell"})) =>
            LET r == Rel(RA, RB) IN r.dlon = 0 /\ r.sa = r.sb /\ r.rho = Reduce(RA.axis.m, RB.axis.m)

\* R5, R6: the derived operators resolve to the record of their explicit twin, in integers
UtmInv == (B = None /\ A.proj \in {"utm", "butm"}) =>
    /\ Resolve(A) = Resolve(UtmTwin(A))
    /\ RA.lon0 = 6 * A.zone - 183 /\ RA.lon0 % 6 = 3 /\ RA.lon0 >= -177 /\ RA.lon0 <= 177
    /\ 10000 * RA.kn = 9996 * RA.kd
    /\ RA.x0 = 500000 /\ RA.y0 \in {0, 10000000} /\ (RA.y0 = 10000000 <=> A.south)
\* R7
SphereInv == (B = None /\ A.proj = "merc" /\ IsSphere(A) /\ A.latts = None) =>
    ClassOf(Resolve(WebTwin(A))) = ClassOf(RA)
\* R9 is part of CoreOf; stated on its own
LccInv == (B = None /\ A.proj = "lcc" /\ A.shape.lat2 = None) =>
    Resolve([A EXCEPT !.shape.lat2 = A.shape.lat1]) = RA
\* parameters a projection does not accept are never written
NoopInv == (A.proj \in NoopAliases) =>
    /\ RA = Identity
    /\ B # None => B.proj \in NoopAliases /\ IdRel(Rel(RA, RB))
AcceptInv == (B = None /\ A.proj \notin NoopAliases) =>
    /\ (A.x0 # None => "x_0" \in Accepts(A.proj)) /\ (A.y0 # None => "y_0" \in Accepts(A.proj))
    /\ (A.k # None => "k_0" \in Accepts(A.proj)) /\ (A.lon0 # None => "lon_0" \in Accepts(A.proj))
    /\ (A.latts # None => "lat_ts" \in Accepts(A.proj) /\ A.k = None)
    /\ (A.zone # None <=> "zone" \in Accepts(A.proj))

(***************************************************************************)
(* Export                                                                  *)
(***************************************************************************)
\* "identical" (bit for bit) is stated for the derived operators and their explicit twins;
\* the other members of a class are "equal" (to rounding)
Identical(a, b) == ResC[a] = ResC[b] /\ {a.proj, b.proj} \in {{"utm", "tmerc"}, {"butm", "btmerc"}}
Row(b) == LET r == Rel(RA, ResC[b]) IN
    Text(b) \o "|" \o ToString(r.rho[1]) \o "|" \o ToString(r.rho[2]) \o "|" \o ToString(r.dlon)
    \o "|" \o ToString(r.sa[1]) \o "|" \o ToString(r.sa[2]) \o "|" \o ToString(r.sb[1]) \o "|" \o ToString(r.sb[2])
    \o "|" \o (IF Identical(A, b) THEN "same" ELSE "rel")

EmitDef == B = None =>
    PrintT(<<"DEF", ToJson([
        def    |-> Text(A), proj |-> A.proj,
        lonc   |-> IF A.shape.lonc = None THEN RA.lon0 ELSE A.shape.lonc,
        dlons  |-> A.shape.dlons, lats |-> A.shape.lats,
        x0     |-> IF "x_0" \in Accepts(A.proj) \/ A.proj \in {"utm", "butm"} THEN RA.x0 ELSE None,
        y0     |-> IF "y_0" \in Accepts(A.proj) \/ A.proj \in {"utm", "butm"} THEN RA.y0 ELSE None,
        k      |-> IF ("k_0" \in Accepts(A.proj) /\ A.latts = None) \/ A.proj \in {"utm", "butm"} THEN <<RA.kn, RA.kd>> ELSE <<>>,
        lon0   |-> IF A.proj \in {"utm", "butm"} THEN RA.lon0 ELSE None,
        twin   |-> IF A.proj \in {"utm", "butm"} THEN Text(UtmTwin(A)) ELSE "",
        ktwin  |-> IF A.latts # None THEN Text(LatTsTwin(A)) ELSE "",
        latts  |-> A.latts,
        rf     |-> IF A.ell = None THEN "" ELSE IF A.ell.kind = "arf" THEN A.ell.rf ELSE A.ell.name,
        rows   |-> {Row(b) : b \in Partners(A)}
    ])>>)

=============================================================================
