------------------------------- MODULE MC_C06 -------------------------------
(* C06 (partial): every identity family of spec/Ellipsoid.tla; the tier selects ellipsoids and lattices *)
EXTENDS Ellipsoid
AllFams == {"table", "shape", "cart", "geod", "lat", "mer", "curv"}
=============================================================================
