SPECIFICATION Spec
CONSTANTS
  Tier = "t"
  Fams <- AllFams
INVARIANTS DomainInv SpecialInv ClassInv Emit
POSTCONDITION CountOK
CHECK_DEADLOCK FALSE
