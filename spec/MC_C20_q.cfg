SPECIFICATION Spec
CONSTANTS
  B = 3
  Shapes <- ShapesQ
  DEV_EmptyFinalBatch = FALSE
INVARIANTS TypeOK OrderInv OneLinePerCoordInv StatusInv EmptyInputInv BatchInv InvarianceInv RunsInv FailedLinesInv RefusalInv Emit
CHECK_DEADLOCK FALSE
