SPECIFICATION Spec
CONSTANTS
  SingleLattice = "dense"
  Scenarios <- ScenQ
  KOff <- KOffQ
  KIn <- KInQ
INVARIANTS WellFormedInv NodeInv RangeInv ContinuityInv LinearInv MarginInv FirstHitInv DeepestInv SubgridContinuityInv ConvInv EmptyListInv EmptyListWitness SpellingInv SiblingInv EmitSc
CHECK_DEADLOCK FALSE
