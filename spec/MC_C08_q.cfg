SPECIFICATION Spec
CONSTANTS
  SingleLattice = "dense"
  Scenarios <- ScenQ
  KOff <- KOffQ
  KIn <- KInQ
INVARIANTS WellFormedInv NodeInv RangeInv ContinuityInv LinearInv MarginInv FirstHitInv DeepestInv SubgridContinuityInv ConvInv EmitSc
CHECK_DEADLOCK FALSE
