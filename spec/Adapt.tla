------------------------------- MODULE Adapt -------------------------------
(***************************************************************************)
(* C11.  The declared meaning of `adapt` descriptors, `axisswap` orders    *)
(* and `unitconvert` units, as finite tables, and their composition.       *)
(*                                                                         *)
(* A coordinate order descriptor is four letters over e n u f (eastish,    *)
(* northish, upish, futurish) and w s d p (their reverses), optionally     *)
(* followed by _rad, _deg, _gon or _any.  Position i of the external tuple *)
(* holds internal axis ax[i] with sign sg[i]; the internal frame is enuf   *)
(* in radians.                                                             *)
(*                                                                         *)
(* A mapping is a 4-sequence of entries [j, s, deg, gon]:                  *)
(*      out[i] = s * (pi/180)^deg * (pi/200)^gon * in[j]                   *)
(* so that unit factors compose by adding exponents.                       *)
(***************************************************************************)
EXTENDS Integers, Sequences, FiniteSets, TLC, Json

Letters == <<"e", "n", "u", "f", "w", "s", "d", "p">>
AxisOf(l) == CASE l \in {"e", "w"} -> 1 [] l \in {"n", "s"} -> 2 [] l \in {"u", "d"} -> 3 [] l \in {"f", "p"} -> 4
SignOf(l) == IF l \in {"e", "n", "u", "f"} THEN 1 ELSE -1
Suffixes == {"", "_rad", "_deg", "_gon", "_any"}

Perms == {p \in [1..4 -> 1..4] : \A i, j \in 1..4 : i # j => p[i] # p[j]}
Signs == [1..4 -> {1, -1}]
LetterFor(a, s) == Letters[IF s = 1 THEN a ELSE a + 4]

\* the 1920 valid descriptors
Descriptors == {[ax |-> p, sg |-> s, suf |-> u] : p \in Perms, s \in Signs, u \in Suffixes}
DText(D) == LetterFor(D.ax[1], D.sg[1]) \o LetterFor(D.ax[2], D.sg[2]) \o LetterFor(D.ax[3], D.sg[3])
            \o LetterFor(D.ax[4], D.sg[4]) \o D.suf
Internal == [ax |-> <<1, 2, 3, 4>>, sg |-> <<1, 1, 1, 1>>, suf |-> ""]

\* exponents of the unit in which positions 1 and 2 are expressed
Deg(D, i) == IF i <= 2 /\ D.suf = "_deg" THEN 1 ELSE 0
Gon(D, i) == IF i <= 2 /\ D.suf = "_gon" THEN 1 ELSE 0

PosOf(D, a) == CHOOSE j \in 1..4 : D.ax[j] = a

\* adapt from=A to=B
Map(A, B) == [i \in 1..4 |->
    LET j == PosOf(A, B.ax[i]) IN
    [j |-> j, s |-> A.sg[j] * B.sg[i], deg |-> Deg(A, j) - Deg(B, i), gon |-> Gon(A, j) - Gon(B, i)]]

Identity == [i \in 1..4 |-> [j |-> i, s |-> 1, deg |-> 0, gon |-> 0]]
\* first M, then N
Compose(M, N) == [i \in 1..4 |->
    LET e == N[i] f == M[e.j] IN [j |-> f.j, s |-> e.s * f.s, deg |-> e.deg + f.deg, gon |-> e.gon + f.gon]]
Inverse(M) == [j \in 1..4 |->
    LET i == CHOOSE k \in 1..4 : M[k].j = j IN [j |-> i, s |-> M[i].s, deg |-> -M[i].deg, gon |-> -M[i].gon]]

\* The documentation attaches the unit to the angular (horizontal) coordinates and
\* only shows descriptors with both horizontal axes first; the unit factor is
\* unambiguous exactly for those.
Unambiguous(D) == {D.ax[1], D.ax[2]} = {1, 2} \/ D.suf \in {"", "_rad", "_any"}

\* ---- axisswap -------------------------------------------------------------
\* order=o1,..,ok : out[i] = sign(oi) * in[|oi|] for i <= k, the rest untouched
Abs(x) == IF x < 0 THEN -x ELSE x
OrderLists(maxlen, lo, hi) == UNION {[1..k -> (lo..hi)] : k \in 1..maxlen}
ValidOrder(o) == /\ Len(o) <= 4
                 /\ \A i \in 1..Len(o) : o[i] # 0 /\ Abs(o[i]) <= Len(o)
                 /\ \A i, j \in 1..Len(o) : i # j => Abs(o[i]) # Abs(o[j])
SwapMap(o) == [i \in 1..4 |-> IF i <= Len(o) THEN [j |-> Abs(o[i]), s |-> IF o[i] < 0 THEN -1 ELSE 1, deg |-> 0, gon |-> 0]
                              ELSE [j |-> i, s |-> 1, deg |-> 0, gon |-> 0]]

\* ---- units (PROJ units.c, as published) -----------------------------------
\* name -> <<numerator, denominator>> of the factor to metres
LinearUnits == [
    km |-> <<1000, 1>>, m |-> <<1, 1>>, dm |-> <<1, 10>>, cm |-> <<1, 100>>, mm |-> <<1, 1000>>,
    kmi |-> <<1852, 1>>, in |-> <<254, 10000>>, ft |-> <<3048, 10000>>, yd |-> <<9144, 10000>>,
    mi |-> <<1609344, 1000>>, fath |-> <<18288, 10000>>, ch |-> <<201168, 10000>>, link |-> <<201168, 1000000>>,
    us_in |-> <<100, 3937>>, us_ft |-> <<1200, 3937>>, us_yd |-> <<3600, 3937>>, us_ch |-> <<79200, 3937>>,
    us_mi |-> <<6336000, 3937>>, ind_yd |-> <<91439523, 100000000>>, ind_ft |-> <<30479841, 100000000>>,
    ind_ch |-> <<2011669506, 100000000>>]
\* record field names cannot contain '-': us_in is spelled us-in in definitions
UnitText(n) == CASE n = "us_in" -> "us-in" [] n = "us_ft" -> "us-ft" [] n = "us_yd" -> "us-yd" [] n = "us_ch" -> "us-ch"
                 [] n = "us_mi" -> "us-mi" [] n = "ind_yd" -> "ind-yd" [] n = "ind_ft" -> "ind-ft" [] n = "ind_ch" -> "ind-ch"
                 [] OTHER -> n
\* angular: factor to radians = pi * num/den
AngularUnits == [rad |-> <<0, 0>>, deg |-> <<1, 180>>, grad |-> <<1, 200>>]

\* every name resolves to its own factor: names are unique by construction
\* of a function; the factors of distinct linear names differ
ASSUME \A a, b \in DOMAIN LinearUnits : a # b =>
          LinearUnits[a][1] * 1 # 0 /\ (LinearUnits[a] = LinearUnits[b] => FALSE)

(***************************************************************************)
(* Exploration: pick `from`, then `to`; the pair properties are invariants *)
(***************************************************************************)
CONSTANTS FromSet, ToSet      \* sets of descriptors explored as from / to
FromC == TLCEval(FromSet)
ToC   == TLCEval(ToSet)

VARIABLES A, B
vars == <<A, B>>
None == [ax |-> <<>>, sg |-> <<>>, suf |-> "-"]

Init == A \in FromC /\ B = None
Pick == B = None /\ \E b \in ToC : B' = b /\ UNCHANGED A
Next == Pick
Spec == Init /\ [][Next]_vars

\* the inverse is the exact reverse mapping
InverseInv == B # None => /\ Compose(Map(A, B), Map(B, A)) = Identity
                          /\ Inverse(Map(A, B)) = Map(B, A)
\* adapt to=X equals adapt inv from=X
ToIsInvFromInv == B # None => Map(Internal, B) = Inverse(Map(B, Internal))
\* from=A to=B goes through the internal frame
ThroughInternalInv == B # None => Map(A, B) = Compose(Map(A, Internal), Map(Internal, B))
\* a mapping is a signed, scaled permutation
PermInv == B # None => {Map(A, B)[i].j : i \in 1..4} = 1..4

EntryText(e) == ToString(e.j) \o (IF e.s = 1 THEN "+" ELSE "-") \o ToString(e.deg + 1) \o ToString(e.gon + 1)
MapText(M) == EntryText(M[1]) \o EntryText(M[2]) \o EntryText(M[3]) \o EntryText(M[4])
\* one record per `from` descriptor: a row per `to` descriptor
EmitAdapt == B = None =>
    PrintT(<<"ADAPT", ToJson([from |-> DText(A), fu |-> Unambiguous(A),
        rows |-> {DText(b) \o ":" \o MapText(Map(A, b)) \o ":" \o MapText(Inverse(Map(A, b)))
                  \o ":" \o (IF Unambiguous(b) THEN "u" ELSE "a") : b \in ToC}])>>)
=============================================================================
