SPECIFICATION Spec
CONSTANTS
  NaN = NaN
  Alphabet <- AlphaMid3
  MaxLen = 3
  AppPatterns <- AppsRT
  Data0 <- D2
  MinLen = 2
INVARIANTS TypeOK CountInv UnderflowInv RefInv FreshStackInv Emit
CHECK_DEADLOCK FALSE
