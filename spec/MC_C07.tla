------------------------------- MODULE MC_C07 -------------------------------
EXTENDS Helmert

Z3 == <<0, 0, 0>>
\* parameter pools (metres, m/yr, arcsec, arcsec/yr, ppm, ppm/yr)
TsQ  == {Z3, <<3, -5, 7>>}
DTsQ == {Z3, <<0, -2, 3>>, <<1, 0, 0>>}     \* every component non-zero somewhere (a mutant ignoring dx survived without)
RsQ  == {Z3, <<2, -3, 5>>}
DRsQ == {Z3, <<1, 2, -1>>}
SsQ  == {0, 7}
DSsQ == {0, 2}

TsT  == TsQ  \cup {<<4, 0, -6>>}
DTsT == DTsQ \cup {<<-1, 2, 0>>}
RsT  == RsQ  \cup {<<0, 0, 4>>}
DRsT == DRsQ
SsT  == SsQ \cup {-3}
DSsT == DSsQ

CoreSet(Ts, DTs, Rs, DRs, Ss, DSs, Teps, Tobss) ==
    {c \in [T : Ts, DT : DTs, R : Rs, DR : DRs, S : Ss, DS : DSs,
            conv : {"none", "position_vector", "coordinate_frame"}, exact : BOOLEAN,
            tep : Teps, tobs : Tobss] :
        LET rot == c.R # Z3 \/ c.DR # Z3
            dyn == c.DT # Z3 \/ c.DR # Z3 \/ c.DS # 0
        IN  \* leave out inert combinations
            /\ (~rot => ~c.exact /\ c.conv # "coordinate_frame")
            /\ (~dyn => c.tep = NaN)
            /\ (c.tobs # NaN => dyn /\ c.tep # NaN)}

CoresQ == CoreSet(TsQ, DTsQ, RsQ, DRsQ, SsQ, DSsQ, {NaN, 2000}, {NaN, 2003})
CoresT == CoreSet(TsT, DTsT, RsT, DRsT, SsT, DSsT, {NaN, 2000}, {NaN, 2003, 1997})

EpochsQ == {2000, 2001, 2002}
EpochsT == {2000, 2002, 1995, NaN}

\* cartesian positions within 10^7 m of the geocentre (the last one small, so that
\* translations are visible against it)
Positions == << <<3513638, 778956, 5248216>>, <<-4052051, 4212836, -2545106>>,
                <<1, 2, 3>>, <<6378137, 0, 0>> >>
=============================================================================
