------------------------------ MODULE Helmert ------------------------------
(***************************************************************************)
(* C07 (partial).  The discrete content of the `helmert` operator:         *)
(*                                                                         *)
(*  1. parameter assembly: the PROJ style scalar keys (x y z, dx dy dz,    *)
(*     rx ry rz, drx dry drz, s, ds) and the list/long keys (translation,  *)
(*     velocity, rotation, angular_velocity, scale, scale_trend) denote    *)
(*     the same record; `convention` is mandatory iff the operation        *)
(*     involves rotations; an operation is dynamic iff some rate is        *)
(*     non-zero and then needs t_epoch; t_obs folds                        *)
(*     P + (t_obs - t_epoch) * dP once;                                    *)
(*  2. time evolution: every tuple is transformed with                     *)
(*     P(t) = P + (t - t_epoch) * dP evaluated at ITS OWN epoch t (fourth  *)
(*     element), which is left untouched;                                  *)
(*  3. the linear structure x -> T + (1 + s) * R * x, as far as it is      *)
(*     integer arithmetic: with integer translations, rates and epochs     *)
(*     the translation part is exact; in small-angle mode the rotation     *)
(*     matrix is I + arcsec * K(r) with K an integer skew matrix whose     *)
(*     sign is fixed by the convention (EPSG 9606 / 9607), so K(r) * x is  *)
(*     an integer vector computed here; the two conventions' matrices are  *)
(*     transposes of each other;                                           *)
(*  4. equivalence classes of definitions (alias spellings; t_obs = tau    *)
(*     vs every tuple carrying epoch tau; a dynamic definition at epoch t  *)
(*     vs the static definition with the parameters P(t); position_vector  *)
(*     r vs coordinate_frame -r in small-angle mode; forward of one        *)
(*     convention vs inverse of the other in exact mode).                  *)
(*                                                                         *)
(* Units: metres, years, arc seconds, ppm - all small integers, so that    *)
(* every value is exact in binary64 too.  NaN (module Values) stands for   *)
(* "not given" in t_epoch / t_obs (as in the operator's gamut) and for an  *)
(* undefined tuple epoch.                                                  *)
(*                                                                         *)
(*  5. exact mode: the linear part is (1 + s(t)) times a proper rotation.  *)
(*     The trigonometry is not computed here; what the specification       *)
(*     fixes is the obligation and its integer part: for every accepted    *)
(*     exact core with rotations (`iso` in the exported record) the images *)
(*     of an orthogonal frame are orthogonal, of equal length              *)
(*     (1 + ppm(t) * 1e-6) times the original (the reciprocal in the       *)
(*     inverse direction) and right-handed, with ppm(t) = S + (t - t_epoch)*)
(*     * DS evaluated at the tuple's epoch (IsoPpm) - "distances between   *)
(*     transformed points are the original distances times the scale".     *)
(*                                                                         *)
(*  6. small-angle mode: the inverse applies I - arcsec K where the forward *)
(*     applied I + arcsec K; (I - K)(I + K) = I - K^2 and |K| = |r|, so    *)
(*     inverse after forward leaves at most |r(t)|^2 |x| (`second`: the    *)
(*     rotation vector in force at each epoch, in arc seconds).            *)
(*                                                                         *)
(* NOT modelled (not claimed): Molodensky.                                 *)
(***************************************************************************)
EXTENDS Values, Json

CONSTANTS
    Cores,          \* set of definition cores to explore (records, see below)
    Epochs,         \* epochs a tuple may carry (Int or NaN)
    MaxTuples,      \* size bound of a coordinate set (translation/rate part: exact replay)
    MaxFormTuples,  \* size bound of a coordinate set for definitions with rotation or scale
    Pos,            \* tuple k of a set sits at position Pos[k] (triple of Int)
    DevAccumulate   \* deviation switch (known finding): parameters accumulate over epoch changes

CoresC  == TLCEval(Cores)
EpochsC == TLCEval(Epochs)
PosC    == TLCEval(Pos)

Zero3 == <<0, 0, 0>>
Mul(a, b) == IF a = NaN \/ b = NaN THEN NaN ELSE a * b
Neg(a)    == IF a = NaN THEN NaN ELSE 0 - a
V3Add(a, b)   == <<Add(a[1], b[1]), Add(a[2], b[2]), Add(a[3], b[3])>>
V3Sub(a, b)   == <<Sub(a[1], b[1]), Sub(a[2], b[2]), Sub(a[3], b[3])>>
V3Scale(k, a) == <<Mul(k, a[1]), Mul(k, a[2]), Mul(k, a[3])>>
Neg3(a)       == <<Neg(a[1]), Neg(a[2]), Neg(a[3])>>

Conventions == {"position_vector", "coordinate_frame"}
Other(conv) == IF conv = "position_vector" THEN "coordinate_frame"
               ELSE IF conv = "coordinate_frame" THEN "position_vector" ELSE conv

(***************************************************************************)
(* A definition core: what is meant, independent of how it is spelled.     *)
(*   [T, DT, R, DR : triples; S, DS : Int; conv : "none" or a convention;  *)
(*    exact : BOOLEAN; tep, tobs : Int or NaN]                             *)
(* A spelling chooses, per parameter group, one of the documented forms.   *)
(***************************************************************************)
Forms == {"list", "scalar", "sparse"}      \* sparse: scalar keys, zero components left out
Spellings == [T : Forms, DT : Forms, R : Forms, DR : Forms, S : {"scale", "s"}, DS : {"scale_trend", "ds"}]
CanonSp == [T |-> "list", DT |-> "list", R |-> "list", DR |-> "list", S |-> "scale", DS |-> "scale_trend"]
ProjSp  == [T |-> "scalar", DT |-> "scalar", R |-> "scalar", DR |-> "scalar", S |-> "s", DS |-> "ds"]

Arg(k, t, v) == [k |-> k, t |-> t, v |-> v]

TripleArgs(form, v, lk, ks) ==
    IF v = Zero3 THEN <<>>
    ELSE LET all == <<Arg(ks[1], "int", v[1]), Arg(ks[2], "int", v[2]), Arg(ks[3], "int", v[3])>> IN
         CASE form = "list"   -> <<Arg(lk, "list", v)>>
           [] form = "scalar" -> all
           [] form = "sparse" -> SelectSeq(all, LAMBDA a : a.v # 0)
ScalarArgs(key, v) == IF v = 0 THEN <<>> ELSE <<Arg(key, "int", v)>>

\* the argument list as written
Written(c, sp) ==
       TripleArgs(sp.T, c.T, "translation", <<"x", "y", "z">>)
    \o TripleArgs(sp.R, c.R, "rotation", <<"rx", "ry", "rz">>)
    \o ScalarArgs(sp.S, c.S)
    \o TripleArgs(sp.DT, c.DT, "velocity", <<"dx", "dy", "dz">>)
    \o TripleArgs(sp.DR, c.DR, "angular_velocity", <<"drx", "dry", "drz">>)
    \o ScalarArgs(sp.DS, c.DS)
    \o (IF c.conv = "none" THEN <<>> ELSE <<Arg("convention", "text", c.conv)>>)
    \o (IF c.exact THEN <<Arg("exact", "flag", 0)>> ELSE <<>>)
    \o (IF c.tep = NaN THEN <<>> ELSE <<Arg("t_epoch", "int", c.tep)>>)
    \o (IF c.tobs = NaN THEN <<>> ELSE <<Arg("t_obs", "int", c.tobs)>>)

ArgText(a) == CASE a.t = "int"  -> a.k \o "=" \o ToString(a.v)
                [] a.t = "list" -> a.k \o "=" \o JoinInts(a.v, ",")
                [] a.t = "text" -> a.k \o "=" \o a.v
                [] a.t = "flag" -> a.k
RECURSIVE ArgsText(_)
ArgsText(args) == IF Len(args) = 0 THEN "" ELSE " " \o ArgText(Head(args)) \o ArgsText(Tail(args))
DefText(c, sp) == "helmert" \o ArgsText(Written(c, sp))

(***************************************************************************)
(* Assembly: from the written arguments to the resolved record.            *)
(***************************************************************************)
Idx(args, key) == LET S == {i \in 1..Len(args) : args[i].k = key} IN
                  IF S = {} THEN 0 ELSE CHOOSE i \in S : \A j \in S : j <= i
Has(args, key) == Idx(args, key) # 0
Val(args, key, dflt) == IF Has(args, key) THEN args[Idx(args, key)].v ELSE dflt

\* a triple is given either as a list or component-wise
Triple(args, lk, ks) ==
    LET l == Val(args, lk, Zero3) IN
    <<Val(args, ks[1], l[1]), Val(args, ks[2], l[2]), Val(args, ks[3], l[3])>>
Scalar(args, k1, k2) == IF Has(args, k1) THEN Val(args, k1, 0) ELSE Val(args, k2, 0)

Assemble(args) ==
    LET T    == Triple(args, "translation", <<"x", "y", "z">>)
        DT   == Triple(args, "velocity", <<"dx", "dy", "dz">>)
        R    == Triple(args, "rotation", <<"rx", "ry", "rz">>)
        DR   == Triple(args, "angular_velocity", <<"drx", "dry", "drz">>)
        S    == Scalar(args, "scale", "s")
        DS   == Scalar(args, "scale_trend", "ds")
        conv == Val(args, "convention", "none")
        tep  == Val(args, "t_epoch", NaN)
        tobs == Val(args, "t_obs", NaN)
        rotated == R # Zero3 \/ DR # Zero3
        dynamic == DT # Zero3 \/ DR # Zero3 \/ DS # 0
        why  == IF rotated /\ conv \notin Conventions THEN "convention"
                ELSE IF dynamic /\ tep = NaN THEN "t_epoch" ELSE ""
        fixed == dynamic /\ why = "" /\ tobs # NaN
    IN  [ok |-> why = "", why |-> why,
         T |-> IF fixed THEN V3Add(T, V3Scale(tobs - tep, DT)) ELSE T,
         R |-> IF fixed THEN V3Add(R, V3Scale(tobs - tep, DR)) ELSE R,
         S |-> IF fixed THEN S + (tobs - tep) * DS ELSE S,
         DT |-> DT, DR |-> DR, DS |-> DS,
         rotated |-> rotated, dynamic |-> dynamic, fixed |-> fixed,
         conv |-> IF rotated THEN conv ELSE "none",
         exact |-> rotated /\ Has(args, "exact"),
         tep |-> IF dynamic THEN tep ELSE NaN]

Resolved(c) == Assemble(Written(c, CanonSp))

\* parameters in force for a tuple with epoch t
At(P, t) ==
    IF ~P.dynamic \/ P.fixed THEN [T |-> P.T, R |-> P.R, S |-> P.S]
    ELSE LET dt == Sub(t, P.tep) IN
         [T |-> V3Add(P.T, V3Scale(dt, P.DT)),
          R |-> V3Add(P.R, V3Scale(dt, P.DR)),
          S |-> Add(P.S, Mul(dt, P.DS))]

(***************************************************************************)
(* The rotation, small-angle mode: M = I + arcsec * K(conv, r).            *)
(* EPSG 9606 (position vector):      EPSG 9607 (coordinate frame):         *)
(*    |  0  -rz   ry |                  |  0   rz  -ry |                   *)
(*    |  rz   0  -rx |                  | -rz   0   rx |                   *)
(*    | -ry  rx    0 |                  |  ry  -rx   0 |                   *)
(***************************************************************************)
KMat(conv, r) ==
    IF conv = "position_vector"
    THEN << <<0, Neg(r[3]), r[2]>>, <<r[3], 0, Neg(r[1])>>, <<Neg(r[2]), r[1], 0>> >>
    ELSE << <<0, r[3], Neg(r[2])>>, <<Neg(r[3]), 0, r[1]>>, <<r[2], Neg(r[1]), 0>> >>
Transpose3(M) == [i \in 1..3 |-> [j \in 1..3 |-> M[j][i]]]
MatVec(M, x) == [i \in 1..3 |-> Add(Add(Mul(M[i][1], x[1]), Mul(M[i][2], x[2])), Mul(M[i][3], x[3]))]

\* exact mode: the matrix is carried symbolically.  Rot(conv, r) is the matrix used
\* forward; transposition exchanges the conventions; the inverse of a proper
\* rotation is its transpose.
Rot(conv, r)  == [conv |-> conv, r |-> r]
TransposeRot(m) == [m EXCEPT !.conv = Other(m.conv)]
MatFwd(P, t) == Rot(P.conv, At(P, t).R)
MatInv(P, t) == TransposeRot(MatFwd(P, t))

(***************************************************************************)
(* One tuple.  Pure translation (no rotation, no scale): exact integers.   *)
(* Otherwise a linear form: the harness evaluates                          *)
(*      T + (1 + S * 1e-6) * (x + arcsec * Kx)         (forward)           *)
(* with T, S, Kx the integers computed here.  The fourth element is never  *)
(* touched.                                                                *)
(***************************************************************************)
Pure(P) == ~P.rotated /\ P.S = 0 /\ P.DS = 0
PosOf(tup) == <<tup[1], tup[2], tup[3]>>

ApplyOne(par, P, dir, tup) ==
    IF Pure(P)
    THEN LET q == IF dir = "F" THEN V3Add(PosOf(tup), par.T) ELSE V3Sub(PosOf(tup), par.T)
         IN  <<q[1], q[2], q[3], tup[4]>>
    ELSE [T |-> par.T, S |-> par.S, R |-> par.R,
          Kx |-> IF P.rotated THEN MatVec(KMat(P.conv, par.R), PosOf(tup)) ELSE Zero3,
          t |-> tup[4]]

\* the documented behaviour: a function of the tuple alone
RefOne(P, dir, tup) == ApplyOne(At(P, tup[4]), P, dir, tup)
RefAll(P, dir, set) == [k \in 1..Len(set) |-> RefOne(P, dir, set[k])]

(***************************************************************************)
(* The application machine, structured like the code: tuples are visited   *)
(* in order, the parameters in force are cached and re-evaluated when the  *)
(* epoch differs from the previous tuple's.                                *)
(***************************************************************************)
\* res is the resolved record of core: a function of core, kept in the state so that
\* it is assembled once per definition
VARIABLES core, res, data, phase, i, outF, outI, prevT, cur
vars == <<core, res, data, phase, i, outF, outI, prevT, cur>>

P0 == res
Base(P) == [T |-> P.T, R |-> P.R, S |-> P.S]
Changed(t, prev) == t = NaN \/ prev = NaN \/ t # prev

Init == /\ core \in CoresC
        /\ res = Resolved(core)
        /\ data = <<>> /\ phase = "build" /\ i = 0
        /\ outF = <<>> /\ outI = <<>> /\ prevT = NaN
        /\ cur = [T |-> Zero3, R |-> Zero3, S |-> 0]

\* coordinate sets are only built for accepted, non-exact definitions (the exact
\* mode differs from the small-angle mode only in what is carried symbolically);
\* a static definition sees one epoch per set size (epochs are inert there)
AddTuple == /\ phase = "build" /\ Len(data) < (IF Pure(res) THEN MaxTuples ELSE MaxFormTuples)
            /\ P0.ok /\ ~core.exact
            /\ \E t \in EpochsC :
                  /\ P0.dynamic \/ t = CHOOSE e \in EpochsC : e # NaN
                  /\ data' = Append(data, <<PosC[Len(data) + 1][1], PosC[Len(data) + 1][2], PosC[Len(data) + 1][3], t>>)
            /\ UNCHANGED <<core, res, phase, i, outF, outI, prevT, cur>>

Start == /\ phase = "build" /\ Len(data) > 0
         /\ phase' = "fwd" /\ i' = 1 /\ prevT' = NaN /\ cur' = Base(P0)
         /\ UNCHANGED <<core, res, data, outF, outI>>

\* the input of the inverse pass: the forward result where that is exact
InvInput == IF Pure(P0) THEN outF ELSE data

DevUpdate(c, P, t) == LET dt == Sub(t, P.tep) IN
    [T |-> V3Add(c.T, V3Scale(dt, P.DT)), R |-> V3Add(P.R, V3Scale(dt, P.DR)), S |-> Add(P.S, Mul(dt, P.DS))]

StepWith(dir, input) ==
    LET tup == input[i]
        t   == tup[4]
        upd == P0.dynamic /\ ~P0.fixed /\ Changed(t, prevT)
        nxt == IF upd THEN (IF DevAccumulate THEN DevUpdate(cur, P0, t) ELSE At(P0, t)) ELSE cur
    IN  /\ cur' = nxt
        /\ prevT' = IF upd THEN t ELSE prevT
        /\ IF dir = "F" THEN outF' = Append(outF, ApplyOne(nxt, P0, dir, tup)) /\ UNCHANGED outI
                        ELSE outI' = Append(outI, ApplyOne(nxt, P0, dir, tup)) /\ UNCHANGED outF
        /\ i' = i + 1
        /\ UNCHANGED <<core, res, data, phase>>

StepFwd == phase = "fwd" /\ i <= Len(data) /\ StepWith("F", data)
EndFwd  == /\ phase = "fwd" /\ i > Len(data)
           /\ phase' = "inv" /\ i' = 1 /\ prevT' = NaN /\ cur' = Base(P0)
           /\ UNCHANGED <<core, res, data, outF, outI>>
StepInv == phase = "inv" /\ i <= Len(data) /\ StepWith("I", InvInput)
EndInv  == /\ phase = "inv" /\ i > Len(data)
           /\ phase' = "done"
           /\ UNCHANGED <<core, res, data, i, outF, outI, prevT, cur>>

Next == AddTuple \/ Start \/ StepFwd \/ EndFwd \/ StepInv \/ EndInv
Spec == Init /\ [][Next]_vars

(***************************************************************************)
(* Invariants                                                              *)
(***************************************************************************)
AtStart == phase = "build" /\ Len(data) = 0

\* documented acceptance: convention iff rotated; t_epoch iff dynamic
ValidityInv == AtStart =>
    LET rot == core.R # Zero3 \/ core.DR # Zero3
        dyn == core.DT # Zero3 \/ core.DR # Zero3 \/ core.DS # 0
    IN  P0.ok <=> ((rot => core.conv \in Conventions) /\ (dyn => core.tep # NaN))

\* every spelling of the core resolves to the same record.  The groups are
\* assembled independently of each other, so the spellings that differ from the
\* canonical one in one group (plus the uniform ones) are checked for every core,
\* and the full product of spellings for the cores in which all six groups are present.
SparseSp == [T |-> "sparse", DT |-> "sparse", R |-> "sparse", DR |-> "sparse", S |-> "s", DS |-> "scale_trend"]
OneGroupSpellings ==
    {[CanonSp EXCEPT ![g] = f] : g \in {"T", "DT", "R", "DR"}, f \in Forms}
    \cup {[CanonSp EXCEPT !.S = "s"], [CanonSp EXCEPT !.DS = "ds"], ProjSp, SparseSp}
AllGroups(c) == c.T # Zero3 /\ c.DT # Zero3 /\ c.R # Zero3 /\ c.DR # Zero3 /\ c.S # 0 /\ c.DS # 0
AliasInv == AtStart =>
    LET p == P0 IN
    /\ \A sp \in OneGroupSpellings : Assemble(Written(core, sp)) = p
    /\ AllGroups(core) => \A sp \in Spellings : Assemble(Written(core, sp)) = p

\* every tuple is transformed with the parameters of its own epoch, whatever
\* the other tuples of the set and their order; the fourth element is untouched
OwnEpochInv ==
    /\ \A k \in 1..Len(outF) : outF[k] = RefOne(P0, "F", data[k])
    /\ \A k \in 1..Len(outI) : outI[k] = RefOne(P0, "I", InvInput[k])
FourthInv ==
    /\ \A k \in 1..Len(outF) : (IF Pure(P0) THEN outF[k][4] ELSE outF[k].t) = data[k][4]
    /\ \A k \in 1..Len(outI) : (IF Pure(P0) THEN outI[k][4] ELSE outI[k].t) = data[k][4]

\* inverse after forward is the identity, exactly, on the translation/rate part
\* (a tuple without a defined epoch has no defined parameters)
RoundTripInv == (phase = "done" /\ Pure(P0)) =>
    \A k \in 1..Len(data) : (P0.dynamic /\ ~P0.fixed /\ data[k][4] = NaN) \/ outI[k] = data[k]

\* fixing t_obs = tau is giving every tuple the epoch tau (its own fourth element kept)
NoTobs(c) == [c EXCEPT !.tobs = NaN]
TObsInv == (phase = "done" /\ P0.fixed) =>
    LET Q == Resolved(NoTobs(core)) IN
    \A k \in 1..Len(data) : \A d \in {"F", "I"} :
        LET a == RefOne(P0, d, data[k])
            b == RefOne(Q, d, [data[k] EXCEPT ![4] = core.tobs])
        IN  IF Pure(P0) THEN PosOf(a) = PosOf(b) /\ a[4] = data[k][4]
            ELSE [a EXCEPT !.t = 0] = [b EXCEPT !.t = 0]

\* the static definition carrying the parameters of epoch e
Frozen(c, P, e) ==
    LET par == At(P, e) IN
    [c EXCEPT !.T = par.T, !.R = par.R, !.S = par.S, !.DT = Zero3, !.DR = Zero3, !.DS = 0,
              !.tep = NaN, !.tobs = NaN]
RealEpochs == {e \in EpochsC : e # NaN}
FrozenInv == (AtStart /\ P0.ok) =>
    \A e \in RealEpochs :
        LET F == Resolved(Frozen(core, P0, e)) IN
        /\ F.ok /\ ~F.dynamic
        /\ Base(F) = At(P0, e)
        /\ \A k \in 1..Len(PosC) : \A d \in {"F", "I"} :
              LET tup == <<PosC[k][1], PosC[k][2], PosC[k][3], e>> IN
              \* same form, provided both sides are of the same kind (pure or not)
              Pure(F) = Pure(P0) => RefOne(F, d, tup) = RefOne(P0, d, tup)

\* the conventions: transposed matrices; position_vector r = coordinate_frame -r (small angles)
Flip(c) == [c EXCEPT !.conv = Other(c.conv), !.R = Neg3(c.R), !.DR = Neg3(c.DR)]
ConvInv == (AtStart /\ P0.ok /\ P0.rotated) =>
    LET Q == Resolved(Flip(core)) IN
    /\ Q.ok
    /\ \A e \in RealEpochs :
          LET r == At(P0, e).R IN
          /\ KMat("position_vector", r) = Transpose3(KMat("coordinate_frame", r))
          /\ KMat(P0.conv, r) = KMat(Q.conv, At(Q, e).R)
          /\ \A k \in 1..Len(PosC) :
                LET tup == <<PosC[k][1], PosC[k][2], PosC[k][3], e>> IN
                RefOne(P0, "F", tup).Kx = RefOne(Q, "F", tup).Kx
          \* exact mode: forward of one convention is the inverse of the other
          /\ MatFwd(P0, e) = MatInv(Resolved([core EXCEPT !.conv = Other(core.conv)]), e)
          /\ TransposeRot(TransposeRot(MatFwd(P0, e))) = MatFwd(P0, e)

TypeOK == /\ phase \in {"build", "fwd", "inv", "done"}
          /\ Len(data) <= MaxTuples
          /\ Len(outF) <= Len(data) /\ Len(outI) <= Len(data)

(***************************************************************************)
(* Export                                                                  *)
(***************************************************************************)
\* what the code is known to do (deviation DevAccumulate), as a pure fold
RECURSIVE DevFold(_, _, _, _, _, _, _)
DevFold(P, dir, input, k, c, prev, acc) ==
    IF k > Len(input) THEN acc
    ELSE LET t   == input[k][4]
             upd == P.dynamic /\ ~P.fixed /\ Changed(t, prev)
             nxt == IF upd THEN DevUpdate(c, P, t) ELSE c
         IN  DevFold(P, dir, input, k + 1, nxt, IF upd THEN t ELSE prev, Append(acc, ApplyOne(nxt, P, dir, input[k])))
DevRun(P, dir, input) == DevFold(P, dir, input, 1, Base(P), NaN, <<>>)

SpellingTexts(c) == {DefText(c, sp) : sp \in (IF AllGroups(c) THEN Spellings ELSE OneGroupSpellings)}
\* is the exact-mode transposition pair observable (no translation, unit scale)?
Bare(c) == c.T = Zero3 /\ c.DT = Zero3 /\ c.S = 0 /\ c.DS = 0

\* the scale (ppm) a tuple of epoch e is transformed with: folded already when t_obs is given
IsoPpm(e) == IF P0.dynamic /\ ~P0.fixed THEN P0.S + (e - core.tep) * P0.DS ELSE P0.S
IsoInv == (AtStart /\ P0.ok /\ P0.fixed) => \A e \in RealEpochs : IsoPpm(e) = core.S + (core.tobs - core.tep) * core.DS

EmitDef == AtStart =>
    PrintT(<<"DEF", ToJson([
        def     |-> DefText(core, CanonSp),
        proj    |-> DefText(core, ProjSp),
        ok      |-> P0.ok, why |-> P0.why,
        pure    |-> Pure(P0), rotated |-> P0.rotated, dynamic |-> P0.dynamic, fixed |-> P0.fixed,
        exact   |-> core.exact, conv |-> core.conv,
        res     |-> [T |-> P0.T, DT |-> P0.DT, R |-> P0.R, DR |-> P0.DR, S |-> P0.S, DS |-> P0.DS],
        raw     |-> [T |-> core.T, R |-> core.R, S |-> core.S],
        tobs    |-> core.tobs,
        texts   |-> SpellingTexts(core),
        untobs  |-> IF P0.ok /\ P0.fixed THEN DefText(NoTobs(core), CanonSp) ELSE "",
        frozen  |-> IF P0.ok /\ P0.dynamic
                    THEN {<<e, DefText(Frozen(core, P0, e), CanonSp)>> : e \in RealEpochs} ELSE {},
        flip    |-> IF P0.ok /\ P0.rotated /\ ~core.exact THEN DefText(Flip(core), CanonSp) ELSE "",
        transp  |-> IF P0.ok /\ P0.rotated /\ core.exact /\ Bare(core)
                    THEN DefText([core EXCEPT !.conv = Other(core.conv)], CanonSp) ELSE "",
        epochs  |-> RealEpochs,
        \* exact mode: a similarity; its scale in ppm at each epoch of the pool
        \* small-angle mode: (I - K)(I + K) = I - K^2, so the inverse undoes the forward up to |r(t)|^2 |x|
        second  |-> IF P0.ok /\ P0.rotated /\ ~core.exact THEN {<<e, At(P0, e).R>> : e \in RealEpochs} ELSE {},
        iso     |-> P0.ok /\ P0.rotated /\ core.exact,
        isoppm  |-> IF P0.ok /\ P0.rotated /\ core.exact THEN {<<e, IsoPpm(e)>> : e \in RealEpochs} ELSE {}
    ])>>)

EmitRun == phase = "done" =>
    PrintT(<<"RUN", ToJson([
        def  |-> DefText(core, CanonSp),
        proj |-> DefText(core, ProjSp),
        pure |-> Pure(P0), rotated |-> P0.rotated, dynamic |-> P0.dynamic, fixed |-> P0.fixed,
        data |-> data, fwd |-> outF, inv |-> outI,
        devfwd |-> IF Pure(P0) THEN DevRun(P0, "F", data) ELSE <<>>
    ])>>)
=============================================================================
