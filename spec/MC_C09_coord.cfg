SPECIFICATION Spec
CONSTANTS
  Mode = "coord"
  MaxEdits = 1
  Wraps <- OnlyAlone
  OpFilter <- NoFilter
  ClassStride = 1
  CoordArity = 2
  FnVary = 1
  Commit = FALSE
INVARIANTS Emit
CHECK_DEADLOCK FALSE
