SPECIFICATION Spec
CONSTANTS
  Tier = "q"
  Fams <- AllFams
INVARIANTS DomainInv SpecialInv ClassInv Emit
POSTCONDITION CountOK
CHECK_DEADLOCK FALSE
