------------------------------ MODULE Pipeline ------------------------------
(***************************************************************************)
(* Definitions, instantiation and application (C03, C04, C01-algebra).     *)
(*                                                                         *)
(* A definition is a sequence of steps; a step names an elementary         *)
(* operator or a macro, carries arguments and the modifiers inv, omit_fwd, *)
(* omit_inv.  Instantiation (Context::op) resolves macros against the      *)
(* resource map and binds arguments, producing an immutable operator tree; *)
(* application (Context::apply) walks the tree.                            *)
(*                                                                         *)
(* The module gives (1) the *reference* semantics as pure operators        *)
(* (Inst, Plan, BigApply: "a macro means its expansion", "a pipeline is    *)
(* its steps in order, inverted by reversal") and (2) a small-step         *)
(* application machine structured like the code (a frame per pipeline      *)
(* level, one action per step taken or skipped, min-count accumulation),   *)
(* and states as invariants that the two agree.                            *)
(***************************************************************************)
EXTENDS Values, Json

CONSTANTS
    Progs,      \* set of top-level definitions (sequences of steps) to explore
    Resources,  \* function: macro name -> definition (sequence of steps)
    Globals,    \* function: key -> Int, the context's own globals as far as probes see them
    Data0,      \* operand set
    Styles      \* set of layout styles for modifiers, see StepText

(***************************************************************************)
(* Steps                                                                   *)
(*   [name, args, inv, of, oi]                                             *)
(*   args : sequence of [k |-> key, v |-> value]                           *)
(*   value: [f |-> "lit", v |-> Int]              key=3                    *)
(*          [f |-> "ref", n |-> name]             key=$name                *)
(*          [f |-> "refd", n |-> name, d |-> Int] key=$name(d)             *)
(*          [f |-> "dflt", d |-> Int]             key=(d)                  *)
(***************************************************************************)

\* TLC re-evaluates an overridden CONSTANT at every reference; these
\* zero-arity wrappers are evaluated once and cached.
ResC   == TLCEval(Resources)
ProgsC == TLCEval(Progs)
DataC  == TLCEval(Data0)
GlobC  == TLCEval(Globals)

IsMacro(name) == name \in DOMAIN ResC

\* The elementary operators of the exact basis and their gamuts (key, default)
Gamut(name) ==
    CASE name = "t_add"     -> << <<"e", 1>>, <<"c", 1>> >>
      [] name = "t_dbl"     -> << <<"e", 1>> >>
      [] name = "t_oneway"  -> << <<"e", 1>> >>
      [] name = "t_oneway2" -> << <<"e", 1>> >>     \* one-way as well; its own gamut does not list the inv flag
      [] name = "t_failodd" -> << >>
      [] name = "t_drift"   -> << <<"rate", 1>>, <<"t0", 0>> >>
      [] name = "noop"      -> << >>
\* `inv` is a modifier of the step, valid for every operator (Rumination 009): whether the operator's
\* own gamut happens to list it or not, inv on an operator without an inverse is refused
OneWay == {"t_oneway", "t_oneway2"}
Invertible(name) == name \notin OneWay

Ok(v)  == [ok |-> TRUE, v |-> v]
Fail(w) == [ok |-> FALSE, why |-> w]

\* ---- argument lookup (documented rules) ----------------------------------
\* G: the caller-visible arguments, always literal (resolved where bound)
Resolve(val, key, G) ==
    CASE val.f = "lit"  -> Ok(val.v)
      [] val.f = "ref"  -> IF val.n \in DOMAIN G THEN Ok(G[val.n]) ELSE Fail("unbound")
      [] val.f = "refd" -> IF val.n \in DOMAIN G THEN Ok(G[val.n]) ELSE Ok(val.d)
      [] val.f = "dflt" -> IF key \in DOMAIN G THEN Ok(G[key]) ELSE Ok(val.d)

\* last of repeated keys wins
LocalIdx(args, key) ==
    LET S == {i \in 1..Len(args) : args[i].k = key} IN
    IF S = {} THEN 0 ELSE CHOOSE i \in S : \A j \in S : j <= i

\* value of gamut key `key` (default dflt) for a step with arguments args
Lookup(args, key, dflt, G) ==
    LET i == LocalIdx(args, key) IN
    IF i # 0 THEN Resolve(args[i].v, key, G)        \* step-local wins
    ELSE IF key \in DOMAIN G THEN Ok(G[key])        \* caller arguments are visible
    ELSE Ok(dflt)

Overlay(G, H) == [k \in DOMAIN G \cup DOMAIN H |-> IF k \in DOMAIN H THEN H[k] ELSE G[k]]

\* all arguments of a macro invocation, resolved in the caller's frame
RECURSIVE BindArgs(_, _, _)
BindArgs(args, G, acc) ==
    IF Len(args) = 0 THEN Ok(acc)
    ELSE LET a == Head(args)
             r == Resolve(a.v, a.k, G)
         IN IF ~r.ok THEN r
            ELSE BindArgs(Tail(args), G, Overlay(acc, (a.k :> r.v)))

\* ---- instantiation: the reference semantics ------------------------------
\* Operator tree:
\*   leaf: [kind |-> "leaf", name, p (key -> Int), inv, of, oi]
\*   pipe: [kind |-> "pipe", steps (sequence of trees), inv, of, oi]
\* fuel bounds the nesting; the exploration sets use acyclic resource maps
\* and enough fuel, cyclic maps are the subject of module MacroGuard.

RECURSIVE InstStep(_, _, _), InstSeq(_, _, _, _)

InstSeq(steps, G, fuel, acc) ==
    IF Len(steps) = 0 THEN Ok(acc)
    ELSE LET r == InstStep(Head(steps), G, fuel)
         IN IF ~r.ok THEN r ELSE InstSeq(Tail(steps), G, fuel, Append(acc, r.v))

RECURSIVE LeafParams(_, _, _, _)
LeafParams(gamut, args, G, acc) ==
    IF Len(gamut) = 0 THEN Ok(acc)
    ELSE LET g == Head(gamut)
             r == Lookup(args, g[1], g[2], G)
         IN IF ~r.ok THEN r ELSE LeafParams(Tail(gamut), args, G, Overlay(acc, (g[1] :> r.v)))

InstStep(s, G, fuel) ==
    IF fuel = 0 THEN Fail("recursion")
    ELSE IF IsMacro(s.name)
    THEN LET b == BindArgs(s.args, G, <<>>)
         IN IF ~b.ok THEN b
            ELSE LET body == ResC[s.name]
                     r == InstSeq(body, Overlay(G, b.v), fuel - 1, <<>>)
                 IN IF ~r.ok THEN r
                    ELSE Ok([kind |-> "pipe", steps |-> r.v, inv |-> s.inv, of |-> s.of, oi |-> s.oi])
    ELSE LET r == LeafParams(Gamut(s.name), s.args, G, <<>>)
         IN IF ~r.ok THEN r
            ELSE IF s.inv /\ ~Invertible(s.name) THEN Fail("noninvertible")
            ELSE Ok([kind |-> "leaf", name |-> s.name, p |-> r.v, inv |-> s.inv, of |-> s.of, oi |-> s.oi])

\* A whole definition: a single step, or a pipeline of steps
Instantiate(def) ==
    IF Len(def) = 1 /\ ~(def[1].of \/ def[1].oi) THEN InstStep(def[1], GlobC, 8)
    ELSE LET r == InstSeq(def, GlobC, 8, <<>>)
         IN IF ~r.ok THEN r
            ELSE Ok([kind |-> "pipe", steps |-> r.v, inv |-> FALSE, of |-> FALSE, oi |-> FALSE])

\* ---- elementary semantics -------------------------------------------------
Flip(d) == IF d = "F" THEN "I" ELSE "F"
Eff(dir, inverted) == IF inverted THEN Flip(dir) ELSE dir

Odd(v) == v # NaN /\ v % Unit = 0 /\ (v \div Unit) % 2 = 1

\* [data, cnt] of one elementary operator in effective direction d
Leaf(op, d, data) ==
    LET n == Len(data) IN
    CASE op.name = "noop" -> [data |-> data, cnt |-> n]
      [] op.name = "t_add" ->
           [data |-> SetCol(data, op.p["e"], [k \in 1..n |->
                        IF d = "F" THEN Add(data[k][op.p["e"]], op.p["c"] * Unit)
                                   ELSE Sub(data[k][op.p["e"]], op.p["c"] * Unit)]), cnt |-> n]
      [] op.name = "t_dbl" ->
           [data |-> SetCol(data, op.p["e"], [k \in 1..n |->
                        IF d = "F" THEN Dbl(data[k][op.p["e"]]) ELSE Half(data[k][op.p["e"]])]), cnt |-> n]
      [] op.name \in OneWay ->
           IF d = "F" THEN [data |-> SetCol(data, op.p["e"], [k \in 1..n |-> Add(data[k][op.p["e"]], Unit)]), cnt |-> n]
           ELSE [data |-> data, cnt |-> 0]        \* unsupported inverse: zero, data untouched
      \* time dependent: element 1 moves by rate * (t - t0), t being the tuple's own epoch
      [] op.name = "t_drift" ->
           [data |-> SetCol(data, 1, [k \in 1..n |->
                        LET dt == Sub(data[k][4], op.p["t0"] * Unit)
                            sh == IF dt = NaN THEN NaN ELSE op.p["rate"] * dt
                        IN IF d = "F" THEN Add(data[k][1], sh) ELSE Sub(data[k][1], sh)]), cnt |-> n]
      [] op.name = "t_failodd" ->
           [data |-> [k \in 1..n |-> IF Odd(data[k][1]) \/ data[k][1] = NaN THEN AllNaN ELSE data[k]],
            cnt |-> Cardinality({k \in 1..n : ~(Odd(data[k][1]) \/ data[k][1] = NaN)})]

\* ---- application: big-step reference --------------------------------------
Skipped(step, d) == (d = "F" /\ step.of) \/ (d = "I" /\ step.oi)

RECURSIVE BigApply(_, _, _), BigSeq(_, _, _, _, _)
BigSeq(steps, d, i, data, cnt) ==
    \* i runs 1..Len; in direction I the steps are taken last to first
    IF i > Len(steps) THEN [data |-> data, cnt |-> IF cnt = -1 THEN Len(data) ELSE cnt]
    ELSE LET s == IF d = "F" THEN steps[i] ELSE steps[Len(steps) + 1 - i]
         IN IF Skipped(s, d) THEN BigSeq(steps, d, i + 1, data, cnt)
            ELSE LET r == BigApply(s, d, data)
                 IN BigSeq(steps, d, i + 1, r.data, IF cnt = -1 THEN r.cnt ELSE Min(cnt, r.cnt))

BigApply(op, dir, data) ==
    LET d == Eff(dir, op.inv) IN
    IF op.kind = "leaf" THEN Leaf(op, d, data) ELSE BigSeq(op.steps, d, 1, data, -1)

\* ---- the plan: flattened list of <<elementary operator, direction>> -------
RECURSIVE Plan(_, _), PlanSeq(_, _, _)
PlanSeq(steps, d, i) ==
    IF i > Len(steps) THEN <<>>
    ELSE LET s == IF d = "F" THEN steps[i] ELSE steps[Len(steps) + 1 - i]
         IN (IF Skipped(s, d) THEN <<>> ELSE Plan(s, d)) \o PlanSeq(steps, d, i + 1)
Plan(op, dir) ==
    LET d == Eff(dir, op.inv) IN
    IF op.kind = "leaf" THEN << <<[name |-> op.name, p |-> op.p], d>> >>
    ELSE PlanSeq(op.steps, d, 1)

\* executing a plan: stand-alone elementary operators one after another
RECURSIVE RunPlan(_, _, _)
RunPlan(plan, i, data) ==
    IF i > Len(plan) THEN data
    ELSE RunPlan(plan, i + 1, Leaf([name |-> plan[i][1].name, p |-> plan[i][1].p], plan[i][2], data).data)

\* does the tree contain a directional omission anywhere?
RECURSIVE HasOmit(_)
HasOmit(op) == IF op.kind = "leaf" THEN FALSE
               ELSE \E i \in 1..Len(op.steps) : op.steps[i].of \/ op.steps[i].oi \/ HasOmit(op.steps[i])
RECURSIVE HasOneway(_)
HasOneway(op) == IF op.kind = "leaf" THEN op.name \in OneWay
                 ELSE \E i \in 1..Len(op.steps) : HasOneway(op.steps[i])
RECURSIVE HasFail(_)
HasFail(op) == IF op.kind = "leaf" THEN op.name \in {"t_failodd"}
               ELSE \E i \in 1..Len(op.steps) : HasFail(op.steps[i])

\* ---- "a macro means its expansion": the literal, flat definition -----------
\* A node nested under ancestors whose inv flags have parity p sees its own
\* directional omissions exchanged when p is odd; a leaf is omitted whenever
\* it or any ancestor is; a level with odd parity (its own inv included)
\* contributes its children in reverse order.
RECURSIVE Flatten(_, _, _, _)
Flatten(op, p, f, o) ==
    \* p: parity of the inv flags above; f/o: omitted forward/inverse by some ancestor
    LET myf == f \/ (IF p THEN op.oi ELSE op.of)
        myo == o \/ (IF p THEN op.of ELSE op.oi)
        q   == (p # op.inv)
    IN IF op.kind = "leaf"
       THEN << [kind |-> "leaf", name |-> op.name, p |-> op.p, inv |-> q, of |-> myf, oi |-> myo] >>
       ELSE LET n == Len(op.steps)
                RECURSIVE Cat(_)
                Cat(i) == IF i > n THEN <<>>
                          ELSE Flatten(IF q THEN op.steps[n + 1 - i] ELSE op.steps[i], q, myf, myo) \o Cat(i + 1)
            IN Cat(1)

\* The expansion of a whole definition: a flat pipeline of elementary steps
Expansion(t) == [kind |-> "pipe", steps |-> Flatten(t, FALSE, FALSE, FALSE), inv |-> FALSE, of |-> FALSE, oi |-> FALSE]

LeafStepOf(l) == [name |-> l.name,
                  args |-> [j \in 1..Len(Gamut(l.name)) |->
                              [k |-> Gamut(l.name)[j][1], v |-> [f |-> "lit", v |-> l.p[Gamut(l.name)[j][1]]]]],
                  inv |-> l.inv, of |-> l.of, oi |-> l.oi]

FlipPlan(plan) == [i \in 1..Len(plan) |-> <<plan[Len(plan) + 1 - i][1], Flip(plan[Len(plan) + 1 - i][2])>>]

(***************************************************************************)
(* Text                                                                    *)
(***************************************************************************)
ValText(v) == CASE v.f = "lit"  -> ToString(v.v)
                [] v.f = "ref"  -> "$" \o v.n
                [] v.f = "refd" -> "$" \o v.n \o "(" \o ToString(v.d) \o ")"
                [] v.f = "dflt" -> "(" \o ToString(v.d) \o ")"
ArgsText(args) == JoinStr([i \in 1..Len(args) |-> args[i].k \o "=" \o ValText(args[i].v)], " ")

Sp(a, b) == IF a = "" THEN b ELSE IF b = "" THEN a ELSE a \o " " \o b

\* Layout styles for the modifiers of one step:
\*  "suffix":  name args inv omit_fwd          "prefix":  inv omit_fwd name args
\*  "eqtrue":  name inv=true args omit_fwd=true
\*  "mid":     name inv args omit_fwd (modifiers between name and arguments)
\*  "twice":   inv omit_fwd name args inv=true (a flag given twice is that flag, not a double inversion)
\* The `<` / `>` sugar belongs to the separator and is rendered by DefText.
StepText(s, style) ==
    LET nm == s.name
        ar == ArgsText(s.args)
        iv == IF s.inv THEN "inv" ELSE ""
        om == Sp(IF s.of THEN "omit_fwd" ELSE "", IF s.oi THEN "omit_inv" ELSE "")
        ive == IF s.inv THEN "inv=true" ELSE ""
        ome == Sp(IF s.of THEN "omit_fwd=true" ELSE "", IF s.oi THEN "omit_inv=true" ELSE "")
    IN CASE style = "suffix" -> Sp(Sp(nm, ar), Sp(iv, om))
         [] style = "prefix" -> Sp(Sp(iv, om), Sp(nm, ar))
         [] style = "eqtrue" -> Sp(Sp(nm, ive), Sp(ar, ome))
         [] style = "mid"    -> Sp(Sp(nm, Sp(iv, om)), ar)
         [] style = "twice"  -> Sp(Sp(Sp(iv, om), Sp(nm, ar)), ive)
         [] style = "sugar"  -> Sp(Sp(nm, ar), iv)   \* omission rendered in the separator

\* a step that can use the sugar: exactly one omission
Sugarable(s) == s.of # s.oi

RECURSIVE DefTextFrom(_, _, _)
DefTextFrom(def, i, style) ==
    IF i > Len(def) THEN ""
    ELSE LET s == def[i]
             sug == style = "sugar" /\ Sugarable(s)
             sep == IF sug THEN (IF s.of THEN " < " ELSE " > ")
                    ELSE IF i = 1 THEN "" ELSE " | "
             txt == StepText(s, IF style = "sugar" /\ ~Sugarable(s) THEN "suffix" ELSE style)
         IN sep \o txt \o DefTextFrom(def, i + 1, style)
\* A definition of one step that carries a directional omission is a pipeline
\* of one step (a lone operator has nothing to be omitted from): it is written
\* with a separator, `a omit_fwd |` or `< a` (empty steps are insignificant).
OneStepPipeline(def) == Len(def) = 1 /\ (def[1].of \/ def[1].oi)
DefText(def, style) ==
    LET t == DefTextFrom(def, 1, style)
    IN IF OneStepPipeline(def) /\ ~(style = "sugar" /\ Sugarable(def[1])) THEN t \o " |" ELSE t

\* "Everything is a pipeline, even if there is only a single step in that pipeline" (Rumination 000): a
\* macro body of one directional step may as well be written without any separator (`m:o := a omit_fwd`).
\* Invoked as a step of a pipeline it means the same as the spelling with a separator: the macro step is
\* (skipped forward, a's inverse in the inverse direction), and `inv m:o` is that with the two directions
\* exchanged.  LoneSpelled (overridden by the instances that generate this spelling) names the macros whose
\* body is written that way.  Only where there is no pipeline at all - the invocation, or a chain of
\* single-step bodies leading to it, is the whole top-level definition - nothing says what the omission of
\* a lone operator means (the code applies it in both directions): such definitions are Undecided and the
\* instances do not generate them.
LoneSpelled == {}
LoneC == TLCEval(LoneSpelled)
ASSUME \A n \in LoneC : n \in DOMAIN ResC /\ OneStepPipeline(ResC[n])
RECURSIVE ReachesLone(_, _)
ReachesLone(s, fuel) ==
    /\ fuel > 0 /\ IsMacro(s.name)
    /\ \/ s.name \in LoneC
       \/ LET b == ResC[s.name] IN Len(b) = 1 /\ ~(b[1].of \/ b[1].oi) /\ ReachesLone(b[1], fuel - 1)
Undecided(def) == Len(def) = 1 /\ ~(def[1].of \/ def[1].oi) /\ ReachesLone(def[1], 8)

ResourceTexts == TLCEval([n \in DOMAIN ResC |-> IF n \in LoneC THEN DefTextFrom(ResC[n], 1, "suffix")
                                                  ELSE DefText(ResC[n], "suffix")])

(***************************************************************************)
(* The small-step machine                                                  *)
(***************************************************************************)
VARIABLES prog, style, tree, dir, frames, data, result, phase
vars == <<prog, style, tree, dir, frames, data, result, phase>>

\* A frame: one pipeline level being executed
\*   [steps, d (effective direction), i (next position 1..Len), cnt (-1: none yet)]
Top == frames[Len(frames)]
CurStep == IF Top.d = "F" THEN Top.steps[Top.i] ELSE Top.steps[Len(Top.steps) + 1 - Top.i]
SetTop(f) == [frames EXCEPT ![Len(frames)] = f]
Acc(c, m) == IF c = -1 THEN m ELSE Min(c, m)

Init == /\ prog \in ProgsC /\ style \in Styles
        /\ tree = Instantiate(prog)
        /\ dir = "F" /\ frames = <<>> /\ data = DataC /\ result = <<>> /\ phase = "inst"

\* Context::op returned an error: the behaviour ends
InstFail == /\ phase = "inst" /\ ~tree.ok /\ phase' = "done"
            /\ UNCHANGED <<prog, style, tree, dir, frames, data, result>>

\* Context::apply(handle, d, data): Op::apply dispatches on the operator
Dispatch(d) ==
    /\ phase = "inst" /\ tree.ok
    /\ dir' = d
    /\ LET op == tree.v
           e == Eff(d, op.inv)
       IN IF op.kind = "leaf"
          THEN LET r == Leaf(op, e, DataC)
               IN /\ data' = r.data /\ result' = Append(result, [dir |-> d, cnt |-> r.cnt, data |-> r.data])
                  /\ frames' = <<>> /\ phase' = "applied"
          ELSE /\ frames' = << [steps |-> op.steps, d |-> e, i |-> 1, cnt |-> -1] >>
               /\ data' = DataC /\ UNCHANGED result /\ phase' = "run"
    /\ UNCHANGED <<prog, style, tree>>

\* a step marked omit_* for this direction is passed over
StepSkip == /\ phase = "run" /\ Top.i <= Len(Top.steps) /\ Skipped(CurStep, Top.d)
            /\ frames' = SetTop([Top EXCEPT !.i = @ + 1])
            /\ UNCHANGED <<prog, style, tree, dir, data, result, phase>>

\* an elementary step is applied
StepLeaf == /\ phase = "run" /\ Top.i <= Len(Top.steps) /\ ~Skipped(CurStep, Top.d)
            /\ CurStep.kind = "leaf"
            /\ LET r == Leaf(CurStep, Eff(Top.d, CurStep.inv), data)
               IN /\ data' = r.data
                  /\ frames' = SetTop([Top EXCEPT !.i = @ + 1, !.cnt = Acc(@, r.cnt)])
            /\ UNCHANGED <<prog, style, tree, dir, result, phase>>

\* a macro step whose body is a pipeline: a new frame
StepEnter == /\ phase = "run" /\ Top.i <= Len(Top.steps) /\ ~Skipped(CurStep, Top.d)
             /\ CurStep.kind = "pipe"
             /\ frames' = Append(frames, [steps |-> CurStep.steps, d |-> Eff(Top.d, CurStep.inv), i |-> 1, cnt |-> -1])
             /\ UNCHANGED <<prog, style, tree, dir, data, result, phase>>

\* a pipeline level is finished: its count (set size if nothing ran) goes to the caller
Return == /\ phase = "run" /\ Top.i > Len(Top.steps)
          /\ LET c == IF Top.cnt = -1 THEN Len(data) ELSE Top.cnt IN
             IF Len(frames) = 1
             THEN /\ result' = Append(result, [dir |-> dir, cnt |-> c, data |-> data])
                  /\ frames' = <<>> /\ phase' = "applied"
             ELSE LET below == frames[Len(frames) - 1]
                  IN /\ frames' = SubSeq(frames, 1, Len(frames) - 2) \o
                                   << [below EXCEPT !.i = @ + 1, !.cnt = Acc(@, c)] >>
                     /\ UNCHANGED <<result, phase>>
          /\ UNCHANGED <<prog, style, tree, dir, data>>

\* after the forward application of the fresh operands, the inverse one; then stop
NextApply == /\ phase = "applied"
             /\ IF Len(result) = 1 THEN phase' = "inst" ELSE phase' = "done"
             /\ UNCHANGED <<prog, style, tree, dir, frames, data, result>>

DispatchNext == phase = "inst" /\ tree.ok /\ Dispatch(IF Len(result) = 0 THEN "F" ELSE "I")

Next == InstFail \/ DispatchNext
        \/ StepSkip \/ StepLeaf \/ StepEnter \/ Return \/ NextApply

Spec == Init /\ [][Next]_vars

(***************************************************************************)
(* Properties                                                              *)
(***************************************************************************)
\* The machine agrees with the big-step reference, and with executing the
\* plan as stand-alone steps one after another
RefInv == \A i \in 1..Len(result) :
            LET r == BigApply(tree.v, result[i].dir, DataC)
            IN /\ r.data = result[i].data /\ r.cnt = result[i].cnt
               /\ RunPlan(Plan(tree.v, result[i].dir), 1, DataC) = result[i].data

\* Inversion is reversal: without directional omissions the inverse plan is
\* the forward plan backwards with every direction exchanged
ReversalInv == (tree.ok /\ ~HasOmit(tree.v)) =>
                  Plan(tree.v, "I") = FlipPlan(Plan(tree.v, "F"))

\* counts are honest
CountInv == \A i \in 1..Len(result) : result[i].cnt \in 0..Len(DataC)

\* C01 (algebra): inverse after forward restores the operands exactly when
\* nothing is omitted, nothing is one-way and nothing fails
RoundTripInv == (tree.ok /\ ~HasOmit(tree.v) /\ ~HasOneway(tree.v) /\ ~HasFail(tree.v)) =>
                  /\ RunPlan(Plan(tree.v, "I"), 1, RunPlan(Plan(tree.v, "F"), 1, DataC)) = DataC
                  /\ RunPlan(Plan(tree.v, "F"), 1, RunPlan(Plan(tree.v, "I"), 1, DataC)) = DataC

\* C04: the operator instantiated from a definition behaves as its literal expansion
ExpansionInv == tree.ok =>
    \A d \in {"F", "I"} : LET a == BigApply(tree.v, d, DataC)
                              b == BigApply(Expansion(tree.v), d, DataC)
                          IN a.data = b.data /\ a.cnt = b.cnt

ExpansionText(t) == LET fl == Flatten(t, FALSE, FALSE, FALSE)
                        df == [i \in 1..Len(fl) |-> LeafStepOf(fl[i])]
                    IN DefText(df, "suffix")

PlanText(plan) == [i \in 1..Len(plan) |->
    [def |-> Sp(plan[i][1].name, JoinStr([j \in 1..Len(Gamut(plan[i][1].name)) |->
                 Gamut(plan[i][1].name)[j][1] \o "=" \o ToString(plan[i][1].p[Gamut(plan[i][1].name)[j][1]])], " ")),
     dir |-> plan[i][2]]]

Emit == phase = "done" =>
    PrintT(<<"REPLAY", ToJson([
        def |-> DefText(prog, style),
        ast |-> prog,
        style |-> style,
        resources |-> ResourceTexts,
        data |-> DataC,
        ok |-> tree.ok,
        why |-> IF tree.ok THEN "" ELSE tree.why,
        \* an inverted one-way step cannot be written down literally
        expansion |-> IF tree.ok /\ (\A l \in Range(Flatten(tree.v, FALSE, FALSE, FALSE)) : l.inv => Invertible(l.name))
                      THEN ExpansionText(tree.v) ELSE "",
        apps |-> [i \in 1..Len(result) |-> [dir |-> result[i].dir, count |-> result[i].cnt, data |-> result[i].data,
                                            plan |-> PlanText(Plan(tree.v, result[i].dir))]]
    ])>>)
=============================================================================
