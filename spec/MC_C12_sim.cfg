SPECIFICATION Spec
CONSTANTS
  NaN = NaN
  Alphabet <- AlphaSim
  MaxLen = 12
  AppPatterns <- AppsRT
  Data0 <- D2
INVARIANTS TypeOK CountInv UnderflowInv RefInv FreshStackInv Emit
CHECK_DEADLOCK FALSE
