SPECIFICATION Spec
CONSTANTS
  NaN = NaN
  Progs <- ProgsT
  Resources <- Res
  Globals <- GlobC1
  Data0 <- D2
  Styles <- Styles1
INVARIANTS RefInv ReversalInv CountInv ExpansionInv Emit
CHECK_DEADLOCK FALSE
