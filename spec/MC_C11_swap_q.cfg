SPECIFICATION SpecS
CONSTANTS
  FromSet <- NoSuffixS
  ToSet <- NoSuffixS
  MaxLen = 4
  Hi = 4
INVARIANTS SwapInv SharedInv EmitS
CHECK_DEADLOCK FALSE
