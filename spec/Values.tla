------------------------------ MODULE Values ------------------------------
(***************************************************************************)
(* Coordinate values as the specification sees them.                       *)
(*                                                                         *)
(* TLC has integers only.  A modelled coordinate element is either an      *)
(* integer counting units of 1/1024 (so that ten successive halvings stay  *)
(* integral; the harness divides by 1024.0, which is exact in binary64) or *)
(* the distinguished value NaN.  Arithmetic is NaN-absorbing, like IEEE.   *)
(***************************************************************************)
EXTENDS Integers, Sequences, FiniteSets, TLC

CONSTANT NaN      \* a model value

Unit == 1024

IsNaN(v) == v = NaN

Add(a, b) == IF a = NaN \/ b = NaN THEN NaN ELSE a + b
Sub(a, b) == IF a = NaN \/ b = NaN THEN NaN ELSE a - b
Dbl(a)    == IF a = NaN THEN NaN ELSE 2 * a
\* Halving is exact only on even representations: the model checker
\* asserts this, so that an expectation can never be silently wrong.
Half(a)   == IF a = NaN THEN NaN
             ELSE IF a % 2 = 0 THEN a \div 2
             ELSE Assert(FALSE, <<"Half of an odd representation", a>>)

AllNaN == <<NaN, NaN, NaN, NaN>>
HasNaN(t) == \E i \in 1..4 : t[i] = NaN

\* Column i of an operand set (a sequence of 4-tuples)
Col(data, i) == [k \in 1..Len(data) |-> data[k][i]]
\* Write column c into element i of every tuple
SetCol(data, i, c) == [k \in 1..Len(data) |-> [data[k] EXCEPT ![i] = c[k]]]
Stomp(data) == [k \in 1..Len(data) |-> AllNaN]

Min(a, b) == IF a < b THEN a ELSE b
Range(s) == {s[i] : i \in 1..Len(s)}
Rev(s) == [i \in 1..Len(s) |-> s[Len(s) + 1 - i]]

RECURSIVE JoinInts(_, _)
JoinInts(s, sep) == IF Len(s) = 0 THEN ""
                    ELSE IF Len(s) = 1 THEN ToString(s[1])
                    ELSE ToString(s[1]) \o sep \o JoinInts(Tail(s), sep)

RECURSIVE JoinStr(_, _)
JoinStr(s, sep) == IF Len(s) = 0 THEN ""
                   ELSE IF Len(s) = 1 THEN s[1]
                   ELSE s[1] \o sep \o JoinStr(Tail(s), sep)
=============================================================================
