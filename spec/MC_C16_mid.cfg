SPECIFICATION SxSpec
CONSTANTS
  NaN = NaN
  Cases <- CoreCases
  SxResources <- Res
  MaxChoices = 3
  MacroPairs <- Pairs
  IndexedKeys <- Indexed
INVARIANTS TypeOK RoundTrip LexSafe EmitSx
CHECK_DEADLOCK FALSE
