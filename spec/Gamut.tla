------------------------------- MODULE Gamut -------------------------------
(***************************************************************************)
(* C09.  The catalogue of built-in operators and their gamuts, and the     *)
(* generators that derive from it every input the robustness check feeds   *)
(* into the library.                                                       *)
(*                                                                         *)
(*  Catalogue   for every built-in operator name: its gamut (key, kind,    *)
(*              required or default value) transcribed from the GAMUT      *)
(*              tables in src/inner_op/, plus a well-formed base           *)
(*              definition.  The names are compared with the hook          *)
(*              geodesy::verif::builtin_names() by the driver: a built-in  *)
(*              unknown to the catalogue is reported as uncovered.         *)
(*                                                                         *)
(*  Mode "defs" for every (operator, key): definitions with that key set   *)
(*              to each value of the adversarial pool of its kind, 1 edit  *)
(*              (exhaustive) or MaxEdits edits (-simulate), wrapped alone, *)
(*              as a pipeline step, inside a macro (literally and as an    *)
(*              argument), and in PROJ syntax.                             *)
(*  Mode "mut"  Mutate: drop / duplicate / replace one character of a      *)
(*              well-formed definition, characters from the syntax         *)
(*              alphabet and multi-byte ones.                              *)
(*  Mode "coord" coordinate tuples over the special-value pool.            *)
(*  Mode "fn"   calls of the public angular / ellipsoid / tokenizer        *)
(*              functions on special values.                               *)
(*                                                                         *)
(* Strings are ASCII: a character outside ASCII is written %uXXXX; and     *)
(* decoded by the harness (TLC's console output is not UTF-8 safe).        *)
(* Everything is emitted through the Emit.. invariants as JSON records.     *)
(***************************************************************************)
EXTENDS Integers, Sequences, FiniteSets, TLC, Json, IOUtils

CONSTANTS
    Mode,       \* "defs" | "mut" | "coord" | "fn"
    MaxEdits,   \* defs: number of keys edited in one definition; mut: number of mutations
    Wraps,      \* defs: set of wrappings to generate
    OpFilter,   \* defs/mut: set of operator names to explore, {} = all
    ClassStride,\* defs: 1 = every pool class for every wrap; n > 1: wrap w gets class i iff i % n = w's slot (alone: all)
    CoordArity, \* coord: how many elements vary at once (2 = pairs, 4 = all four)
    FnVary,     \* fn: how many arguments are special at once
    Commit      \* mut/coord: TRUE = emit only complete edit sequences (for -simulate, where TLC evaluates the
                \* invariants on every successor it generates); FALSE = emit every state (exhaustive runs)

\* names of the built-in ellipsoids, from geodesy::verif::ellipsoid_names(), passed in as data
EllpsNames == TLCEval(JsonDeserialize(IOEnv.ELLPS))

WrapsC   == TLCEval(Wraps)
FilterC  == TLCEval(OpFilter)

(***************************************************************************)
(* Catalogue                                                               *)
(***************************************************************************)
Bare == "%bare%"     \* an argument given as a flag: `key` instead of `key=value`
K(k, kind, d) == [k |-> k, kind |-> kind, d |-> d]      \* d: default text, "-" none (flags), "!" required
A(k, v) == [k |-> k, v |-> v]
F(k) == [k |-> k, v |-> Bare]

Inv == K("inv", "flag", "-")
Ellps == K("ellps", "text", "GRS80")
Tm == <<Inv, Ellps, K("lat_0", "real", "0"), K("lon_0", "real", "0"), K("x_0", "real", "0"),
        K("y_0", "real", "0"), K("k_0", "real", "1")>>
Utm == <<Inv, K("south", "flag", "-"), Ellps, K("zone", "natural", "!")>>
H3(a, b, c) == <<K(a, "real", "0"), K(b, "real", "0"), K(c, "real", "0")>>

\* further rows for operators whose code branches on the parameters: every aspect / form gets its own base, so
\* that every pool class of every key (degenerate ellipsoids, NaN, huge values ...) meets every branch
LaeaG == <<Inv, Ellps, K("lat_0", "real", "0"), K("lon_0", "real", "0"), K("x_0", "real", "0"), K("y_0", "real", "0")>>
LccG  == <<Inv, Ellps, K("lat_1", "real", "0"), K("lat_2", "real", "NaN"), K("lat_0", "real", "NaN"),
           K("lon_0", "real", "0"), K("k_0", "real", "1"), K("x_0", "real", "0"), K("y_0", "real", "0")>>
OmercG == <<Inv, K("variant", "flag", "-"), Ellps, K("latc", "real", "0"), K("lonc", "real", "0"),
            K("alpha", "real", "!"), K("gamma_c", "real", "NaN"), K("x_0", "real", "0"), K("y_0", "real", "0"),
            K("k_0", "real", "1")>>
Aspects == <<
  [name |-> "laea", base |-> <<A("lat_0", "90"), A("lon_0", "10")>>, gamut |-> LaeaG],
  [name |-> "laea", base |-> <<A("lat_0", "-90"), A("lon_0", "10")>>, gamut |-> LaeaG],
  [name |-> "laea", base |-> <<A("lat_0", "0"), A("lon_0", "10")>>, gamut |-> LaeaG],
  [name |-> "lcc", base |-> <<A("lat_1", "57"), A("lon_0", "10")>>, gamut |-> LccG],
  [name |-> "lcc", base |-> <<A("lat_1", "-33"), A("lat_2", "-45"), A("lat_0", "-40"), A("lon_0", "10")>>, gamut |-> LccG],
  [name |-> "lcc", base |-> <<A("lat_1", "75"), A("lat_2", "85"), A("lat_0", "90"), A("lon_0", "10")>>, gamut |-> LccG],
  [name |-> "omerc", base |-> <<A("lonc", "46.43722917"), A("latc", "-18.9"), A("alpha", "18.9"), A("k_0", "0.9995"),
                               A("x_0", "400000"), A("y_0", "800000"), A("ellps", "intl")>>, gamut |-> OmercG],
  [name |-> "omerc", base |-> <<F("variant"), A("lonc", "20"), A("latc", "40"), A("alpha", "90"), A("gamma_c", "90")>>, gamut |-> OmercG],
  [name |-> "omerc", base |-> <<A("lonc", "20"), A("latc", "-40"), A("alpha", "-30"), A("gamma_c", "-30")>>, gamut |-> OmercG],
  [name |-> "tmerc", base |-> <<A("lat_0", "49"), A("lon_0", "-2"), A("k_0", "0.9996012717"), A("x_0", "400000"), A("y_0", "-100000"),
                               A("ellps", "airy")>>, gamut |-> Tm],
  [name |-> "merc", base |-> <<A("k_0", "0.9996"), A("lon_0", "9")>>,
   gamut |-> <<Inv, Ellps, K("lat_0", "real", "0"), K("lon_0", "real", "0"), K("x_0", "real", "0"),
               K("y_0", "real", "0"), K("k_0", "real", "1"), K("lat_ts", "real", "0")>>],
  [name |-> "utm", base |-> <<A("zone", "32"), F("south")>>, gamut |-> Utm],
  [name |-> "molodensky", base |-> <<F("abridged"), A("ellps", "intl"), A("da", "-251"), A("df", "-0.000014192702"), A("dx", "-87"), A("dy", "-96"), A("dz", "-120")>>,
   gamut |-> <<Inv, K("abridged", "flag", "-"), K("dx", "real", "0"), K("dy", "real", "0"), K("dz", "real", "0"),
               K("da", "real", "0"), K("df", "real", "0"), Ellps, K("ellps_0", "text", "GRS80"),
               K("ellps_1", "text", "GRS80")>>],
  [name |-> "helmert", base |-> <<F("exact"), A("convention", "coordinate_frame"), A("rotation", "1,2,3"), A("translation", "10,20,30"), A("scale", "1.5")>>,
   gamut |-> <<Inv, K("translation", "series", "0,0,0")>> \o H3("x", "y", "z")
             \o <<K("velocity", "series", "0,0,0")>> \o H3("dx", "dy", "dz")
             \o <<K("rotation", "series", "0,0,0")>> \o H3("rx", "ry", "rz")
             \o <<K("angular_velocity", "series", "0,0,0")>> \o H3("drx", "dry", "drz")
             \o <<K("convention", "text", ""), K("exact", "flag", "-"), K("scale", "real", "0"), K("s", "real", "0"),
                  K("scale_trend", "real", "0"), K("ds", "real", "0"), K("t_epoch", "real", "NaN"),
                  K("t_obs", "real", "NaN")>>]
>>

Catalogue == <<
  [name |-> "adapt", base |-> <<A("from", "neuf_deg"), A("to", "enuf")>>,
   gamut |-> <<Inv, K("from", "text", "enuf"), K("to", "text", "enuf")>>],
  [name |-> "addone", base |-> <<>>, gamut |-> <<Inv>>],
  [name |-> "axisswap", base |-> <<A("order", "2,1,3,4")>>,
   gamut |-> <<Inv, K("order", "series", "1,2,3,4")>>],
  [name |-> "btmerc", base |-> <<A("lon_0", "9"), A("k_0", "0.9996"), A("x_0", "500000")>>, gamut |-> Tm],
  [name |-> "butm", base |-> <<A("zone", "32")>>, gamut |-> Utm],
  [name |-> "cart", base |-> <<A("ellps", "intl")>>, gamut |-> <<Inv, Ellps>>],
  [name |-> "curvature", base |-> <<F("prime"), A("ellps", "GRS80")>>,
   gamut |-> <<K("prime", "flag", "-"), K("meridian", "flag", "-"), K("gaussian", "flag", "-"),
               K("mean", "flag", "-"), K("azimuthal", "flag", "-"), Ellps>>],
  [name |-> "deflection", base |-> <<A("grids", "h1.geoid")>>,
   gamut |-> <<K("grids", "texts", "!"), Ellps>>],
  [name |-> "deformation", base |-> <<A("grids", "d1.deformation"), A("t_epoch", "2000")>>,
   gamut |-> <<Inv, K("raw", "flag", "-"), K("grids", "texts", "!"), K("padding", "real", "0.5"),
               K("dt", "real", "NaN"), K("t_epoch", "real", "NaN"), Ellps>>],
  [name |-> "dm", base |-> <<>>, gamut |-> <<Inv>>],
  [name |-> "dms", base |-> <<>>, gamut |-> <<Inv>>],
  [name |-> "geodesic", base |-> <<F("reversible")>>,
   gamut |-> <<Inv, K("reversible", "flag", "-"), Ellps>>],
  [name |-> "gravity", base |-> <<F("grs80")>>,
   gamut |-> <<K("cassinis", "flag", "-"), K("jeffreys", "flag", "-"), K("grs67", "flag", "-"),
               K("grs80", "flag", "-"), K("welmec", "flag", "-"), K("zero-height", "flag", "-"), Ellps>>],
  [name |-> "gridshift", base |-> <<A("grids", "g1.datum")>>,
   gamut |-> <<Inv, K("grids", "texts", "!"), K("padding", "real", "0.5")>>],
  [name |-> "helmert", base |-> <<A("convention", "position_vector"), A("x", "-87"), A("y", "-96"), A("z", "-120"),
                                 A("rz", "0.5"), A("s", "1.5"), A("dx", "0.1"), A("t_epoch", "2010")>>,
   gamut |-> <<Inv, K("translation", "series", "0,0,0")>> \o H3("x", "y", "z")
             \o <<K("velocity", "series", "0,0,0")>> \o H3("dx", "dy", "dz")
             \o <<K("rotation", "series", "0,0,0")>> \o H3("rx", "ry", "rz")
             \o <<K("angular_velocity", "series", "0,0,0")>> \o H3("drx", "dry", "drz")
             \o <<K("convention", "text", ""), K("exact", "flag", "-"), K("scale", "real", "0"), K("s", "real", "0"),
                  K("scale_trend", "real", "0"), K("ds", "real", "0"), K("t_epoch", "real", "NaN"),
                  K("t_obs", "real", "NaN")>>],
  [name |-> "laea", base |-> <<A("lat_0", "52"), A("lon_0", "10"), A("x_0", "4321000"), A("y_0", "3210000")>>,
   gamut |-> <<Inv, Ellps, K("lat_0", "real", "0"), K("lon_0", "real", "0"), K("x_0", "real", "0"), K("y_0", "real", "0")>>],
  [name |-> "latitude", base |-> <<F("geocentric"), A("ellps", "GRS80")>>,
   gamut |-> <<Inv, K("geocentric", "flag", "-"), K("reduced", "flag", "-"), K("parametric", "flag", "-"),
               K("conformal", "flag", "-"), K("authalic", "flag", "-"), K("rectifying", "flag", "-"), Ellps>>],
  [name |-> "lcc", base |-> <<A("lat_1", "33"), A("lat_2", "45"), A("lon_0", "10")>>,
   gamut |-> <<Inv, Ellps, K("lat_1", "real", "0"), K("lat_2", "real", "NaN"), K("lat_0", "real", "NaN"),
               K("lon_0", "real", "0"), K("k_0", "real", "1"), K("x_0", "real", "0"), K("y_0", "real", "0")>>],
  [name |-> "merc", base |-> <<A("lat_ts", "56")>>,
   gamut |-> <<Inv, Ellps, K("lat_0", "real", "0"), K("lon_0", "real", "0"), K("x_0", "real", "0"),
               K("y_0", "real", "0"), K("k_0", "real", "1"), K("lat_ts", "real", "0")>>],
  [name |-> "webmerc", base |-> <<>>, gamut |-> <<Inv, K("ellps", "text", "WGS84")>>],
  [name |-> "molodensky", base |-> <<A("ellps_0", "intl"), A("ellps_1", "GRS80"), A("dx", "-87"), A("dy", "-96"), A("dz", "-120")>>,
   gamut |-> <<Inv, K("abridged", "flag", "-"), K("dx", "real", "0"), K("dy", "real", "0"), K("dz", "real", "0"),
               K("da", "real", "0"), K("df", "real", "0"), Ellps, K("ellps_0", "text", "GRS80"),
               K("ellps_1", "text", "GRS80")>>],
  [name |-> "omerc", base |-> <<A("lonc", "115"), A("latc", "4"), A("alpha", "53:18:56.9537"), A("gamma_c", "53:07:48.3685"),
                               A("k_0", "0.99984"), A("x_0", "590476.87"), A("y_0", "442857.65"), A("ellps", "evrstSS")>>,
   gamut |-> <<Inv, K("variant", "flag", "-"), Ellps, K("latc", "real", "0"), K("lonc", "real", "0"),
               K("alpha", "real", "!"), K("gamma_c", "real", "NaN"), K("x_0", "real", "0"), K("y_0", "real", "0"),
               K("k_0", "real", "1")>>],
  [name |-> "permtide", base |-> <<A("from", "mean"), A("to", "zero"), A("ellps", "GRS80")>>,
   gamut |-> <<Inv, K("k", "real", "0.3"), Ellps, K("from", "text", "!"), K("to", "text", "!")>>],
  [name |-> "somerc", base |-> <<A("lat_0", "46.9524055555556"), A("lon_0", "7.43958333333333"), A("k_0", "1"),
                                A("x_0", "2600000"), A("y_0", "1200000"), A("ellps", "bessel")>>,
   gamut |-> <<Inv, Ellps, K("lon_0", "real", "0"), K("lat_0", "real", "0"), K("x_0", "real", "0"),
               K("y_0", "real", "0"), K("k_0", "real", "1")>>],
  [name |-> "tmerc", base |-> <<A("lon_0", "9"), A("k_0", "0.9996"), A("x_0", "500000")>>, gamut |-> Tm],
  [name |-> "unitconvert", base |-> <<A("xy_in", "deg"), A("xy_out", "rad"), A("z_in", "ft")>>,
   gamut |-> <<Inv, K("xy_in", "text", "m"), K("xy_out", "text", "m"), K("z_in", "text", "m"), K("z_out", "text", "m")>>],
  [name |-> "utm", base |-> <<A("zone", "32")>>, gamut |-> Utm],
  [name |-> "pipeline", base |-> <<>>, gamut |-> <<Inv>>],
  [name |-> "pop", base |-> <<F("v_1")>>,
   gamut |-> <<K("v_1", "flag", "-"), K("v_2", "flag", "-"), K("v_3", "flag", "-"), K("v_4", "flag", "-")>>],
  [name |-> "push", base |-> <<F("v_1")>>,
   gamut |-> <<K("v_1", "flag", "-"), K("v_2", "flag", "-"), K("v_3", "flag", "-"), K("v_4", "flag", "-")>>],
  [name |-> "stack", base |-> <<>>,
   gamut |-> <<K("push", "series", ""), K("pop", "series", ""), K("roll", "series", ""), K("unroll", "series", ""),
               K("flip", "series", ""), K("swap", "flag", "-"), K("drop", "flag", "-")>>],
  [name |-> "noop", base |-> <<>>, gamut |-> <<>>],
  [name |-> "longlat", base |-> <<>>, gamut |-> <<>>],
  [name |-> "latlon", base |-> <<>>, gamut |-> <<>>],
  [name |-> "latlong", base |-> <<>>, gamut |-> <<>>],
  [name |-> "lonlat", base |-> <<>>, gamut |-> <<>>]
>> \o Aspects

\* the implicit gamut: modifiers every operator understands, and a key no operator knows
HasKey(g, k) == \E i \in 1..Len(g) : g[i].k = k
Implicit(g) == (IF HasKey(g, "inv") THEN <<>> ELSE <<K("inv", "flag", "-")>>)
               \o <<K("omit_fwd", "flag", "-"), K("omit_inv", "flag", "-"), K("zzz", "unknown", "-")>>
Keys(o) == o.gamut \o Implicit(o.gamut)

OpIdx == {i \in 1..Len(Catalogue) : FilterC = {} \/ Catalogue[i].name \in FilterC}

(***************************************************************************)
(* The adversarial pool: class name and value text, by kind of key         *)
(***************************************************************************)
P(c, v) == [c |-> c, v |-> v]
MB == "%u00e9;"      \* a two-byte character
Core == <<
  P("bare", Bare), P("empty", ""), P("plus", "+"), P("minus", "-"), P("overflow", "1e999"), P("nan", "NaN"),
  P("inf", "inf"), P("neginf", "-inf"), P("sexa", "1:60:60"), P("sexa4", "1:2:3:4"), P("hemi", "12:30S"),
  P("trailing", "12abc"), P("mblast", "12" \o MB), P("mbonly", MB), P("mb4", "12%u1f600;"),
  P("commas", "1,2"), P("emptyelem", "1,,2"), P("leadcomma", ",1"), P("trailcomma", "1,"), P("onlycomma", ","),
  P("dollar", "$x"), P("dollaropen", "$x("), P("dollardef", "$x(7)"), P("baredollar", "$"), P("dollarself", "$zzz"),
  P("paren", "("), P("parendef", "(7)"), P("parens", "()"), P("null", "@null"),
  P("huge", "1e308"), P("neghuge", "-1e308"), P("tiny", "1e-320"), P("hugeint", "123456789012345678901234567890"),
  P("neg", "-1"), P("zero", "0"), P("negzero", "-0"), P("frac", "1.5"), P("true", "true"), P("false", "false"),
  P("longseries", "1,2,3,4,5,6,7,8,9,10,11,12,13,14,15,16,17"), P("eq", "a=b"), P("colon", "a:b")
>>
SeriesPool == <<
  P("idx5", "5"), P("idxdup", "1,1"), P("idxrev", "4,3,2,1"), P("idxneg", "-2,1"), P("idxzero", "0,1"),
  P("idxfrac", "1.5,2"), P("idxhuge", "1e308,1"), P("idxnegsum", "3,-2"), P("idxeq", "3,3"), P("idxover", "3,4"),
  P("idxone", "1"), P("idx3", "2,1,1"), P("idxinf", "inf,1"), P("idx18", "9223372036854775807,1"),
  P("idxminus0", "2,-0")
>>
\* well-formed multi-element values for the keys whose series have structure (stack roll / unroll = m,n;
\* push / pop / flip = index lists; axisswap order; helmert triples): every pair over SV, every triple with
\* at most two distinct members, the quadruples of one value and 1,2,3,4 with one member substituted.
\* Among them: all zero, negative zero, equal magnitudes (|n| = m), huge/huge, the maximal length.
SV == <<"0", "-0", "1", "-1", "2", "-2", "3", "-3", "4", "5", "9e18", "-9e17", "1e308", "0.5">>
NSV == Len(SV)
Sx(v) == P("s:" \o v, v)
StructPairs == [i \in 1..(NSV * NSV) |-> Sx(SV[((i - 1) \div NSV) + 1] \o "," \o SV[((i - 1) % NSV) + 1])]
StructTriples ==
    LET all == [i \in 1..(NSV * NSV * NSV) |-> <<((i - 1) \div (NSV * NSV)) + 1, (((i - 1) \div NSV) % NSV) + 1, ((i - 1) % NSV) + 1>>]
        few == SelectSeq(all, LAMBDA x : x[1] = x[2] \/ x[2] = x[3] \/ x[1] = x[3])
    IN [i \in 1..Len(few) |-> Sx(SV[few[i][1]] \o "," \o SV[few[i][2]] \o "," \o SV[few[i][3]])]
Q4 == <<"1", "2", "3", "4">>
StructQuads ==
    LET subs == SelectSeq([i \in 1..(4 * NSV) |-> <<((i - 1) \div NSV) + 1, SV[((i - 1) % NSV) + 1]>>],
                          LAMBDA x : x[2] # Q4[x[1]])
        e(x, k) == IF k = x[1] THEN x[2] ELSE Q4[k]
    IN <<Sx("1,2,3,4")>>
       \o [i \in 1..NSV |-> Sx(SV[i] \o "," \o SV[i] \o "," \o SV[i] \o "," \o SV[i])]
       \o [i \in 1..Len(subs) |-> Sx(e(subs[i], 1) \o "," \o e(subs[i], 2) \o "," \o e(subs[i], 3) \o "," \o e(subs[i], 4))]
StructSeries == TLCEval(StructPairs \o StructTriples \o StructQuads)
NaturalPool == <<
  P("nat61", "61"), P("nat60", "60"), P("natplus", "+5"), P("nat32bit", "4294967296"),
  P("nat64bit", "18446744073709551616"), P("natspace", "3_2"), P("nathex", "0x20")
>>
TextPool == <<
  P("short", "e"), P("long", "enufenufenufenufenufenufenufenufenuf"), P("underscore", "neuf_"), P("upper", "ENUF"),
  P("mbfirst", MB \o "nuf"), P("mbfour", MB \o MB), P("mbeight", "ne" \o MB \o "_deg"), P("mbmid", "en" \o MB \o "f_deg"),
  \* four / eight CHARACTERS with byte 4 inside a multi-byte character (a length test on characters followed by
  \* a slice on bytes)
  P("mbat4", "neu" \o MB), P("mbat4u", "neu" \o MB \o "_deg"), P("mb3at4", "ne%u20ac;f"), P("mb3at4u", "ne%u20ac;f_gon"),
  P("pass", "pass"), P("unit", "us-ft"), P("notperm", "eeee"), P("descr8", "wsdp_gon")
>>
GridsPool == <<
  P("gnull", "@null"), P("gthennull", "g1.datum,@null"), P("goptional", "@missing.datum,g1.datum"),
  P("gmissing", "missing.datum"), P("gemptyelem", "g1.datum,,h1.geoid"), P("gat", "@"), P("gatat", "@@null"),
  P("g1band", "h1.geoid"), P("g2band", "g1.datum"), P("g3band", "d1.deformation"), P("gnullfirst", "@null,g1.datum"),
  P("gdir", "../g1.datum"), P("gnoext", "g1"), P("gdot", "."), P("gmany", "g1.datum,h1.geoid,d1.deformation,g1.datum")
>>
EllpsFixed == <<
  P("ellps_unknown", "nonexistent"), P("ellps_arf", "6378137,298.257"), P("ellps_rf0", "6378137,0"),
  P("ellps_nega", "-6378137,298.257"), P("ellps_zero", "0,0"), P("ellps_nan", "NaN,NaN"), P("ellps_inf", "inf,inf"),
  P("ellps_three", "1,2,3"), P("ellps_arfparen", "(6378137,298.257)"), P("ellps_rf1", "6378137,1"),
  P("ellps_rfhalf", "6378137,0.5"), P("ellps_case", "grs80"), P("ellps_blank", "GRS80%u00a0;")
>>
EllpsKnown == [i \in 1..Len(EllpsNames) |-> P("ellps:" \o EllpsNames[i], EllpsNames[i])]
IsEllpsKey(k) == k \in {"ellps", "ellps_0", "ellps_1"}

PoolFor(key) ==
    Core
    \o (IF IsEllpsKey(key.k) THEN EllpsFixed \o EllpsKnown ELSE <<>>)
    \o (CASE key.kind = "series"  -> SeriesPool \o StructSeries
          [] key.kind = "natural" -> NaturalPool \o SeriesPool
          [] key.kind = "integer" -> NaturalPool \o SeriesPool
          [] key.kind = "text"    -> TextPool
          [] key.kind = "texts"   -> GridsPool \o TextPool
          [] OTHER                -> <<>>)

(***************************************************************************)
(* Text of a definition (cf. DefText in Pipeline.tla)                      *)
(***************************************************************************)
ArgText(a) == IF a.v = Bare THEN a.k ELSE a.k \o "=" \o a.v
RECURSIVE ArgsText(_, _)
ArgsText(args, sep) == IF Len(args) = 0 THEN "" ELSE sep \o ArgText(Head(args)) \o ArgsText(Tail(args), sep)
DefText(name, args) == name \o ArgsText(args, " ")
ProjText(name, args) == "+proj=" \o name \o ArgsText(args, " +")

\* the base arguments that are not edited
Rest(base, edited) == SelectSeq(base, LAMBDA a : \A i \in 1..Len(edited) : edited[i].k # a.k)
BaseText(o) == DefText(o.name, o.base)

(***************************************************************************)
(* One exploration variable: a record whose field ph says where we are     *)
(***************************************************************************)
VARIABLE s
vars == <<s>>

\* ---- Mode "defs" ---------------------------------------------------------
\* eds: sequence of <<key index, class index>> over distinct keys (increasing in exhaustive runs)
WrapSlot(w) == CASE w = "alone" -> 0 [] w = "step" -> 1 [] w = "macro_body" -> 2 [] w = "macro_arg" -> 3
                 [] w = "proj" -> 4 [] w = "projpipe" -> 5 [] OTHER -> 6
EditedArgs(o, eds) == [i \in 1..Len(eds) |->
    LET key == Keys(o)[eds[i][1]] IN A(key.k, PoolFor(key)[eds[i][2]].v)]
EditedKeys(o, eds) == [i \in 1..Len(eds) |-> Keys(o)[eds[i][1]].k]
EditedClasses(o, eds) == [i \in 1..Len(eds) |-> PoolFor(Keys(o)[eds[i][1]])[eds[i][2]].c]

MacroName == "m:c09"
ParName(i) == "p" \o ToString(i)
\* the macro body refers to the edited keys as parameters, alternating the three binding forms
BindForm(key, i) == CASE i % 3 = 1 -> A(key, "$" \o ParName(i))
                      [] i % 3 = 2 -> A(key, "$" \o ParName(i) \o "(0)")
                      [] OTHER     -> A(key, "(0)")
\* ... and the invocation passes the adversarial values (under the key's own name for the `(d)` form)
PassForm(arg, i) == IF i % 3 = 0 THEN arg ELSE A(ParName(i), arg.v)

DefRecord(st) ==
    LET o     == Catalogue[st.oi]
        ed    == EditedArgs(o, st.eds)
        args  == ed \o Rest(o.base, ed)
        plain == DefText(o.name, args)
        w     == st.w
        text  == CASE w = "alone"      -> plain
                   \* eight columns on the stack when the step runs, in either direction
                   [] w = "step"       -> "stack push=1,2,3,4 | stack push=1,2,3,4 | " \o plain
                                          \o " | stack pop=1,2,3,4 | stack pop=1,2,3,4"
                   [] w = "macro_body" -> MacroName
                   [] w = "macro_arg"  -> DefText(MacroName, [i \in 1..Len(ed) |-> PassForm(ed[i], i)])
                   [] w = "proj"       -> ProjText(o.name, args)
                   [] w = "projpipe"   -> "+proj=pipeline +ellps=GRS80 +step +inv +proj=noop +step " \o ProjText(o.name, args)
        body  == CASE w = "macro_body" -> plain
                   [] w = "macro_arg"  -> DefText(o.name, [i \in 1..Len(ed) |-> BindForm(ed[i].k, i)] \o Rest(o.base, ed))
                   [] OTHER            -> ""
    IN [op |-> o.name, keys |-> EditedKeys(o, st.eds), cls |-> EditedClasses(o, st.eds),
        vals |-> [i \in 1..Len(ed) |-> ed[i].v], wrap |-> w, text |-> text,
        res |-> IF body = "" THEN <<>> ELSE << <<MacroName, body>> >>]

InitDefs == s \in {[ph |-> "pick", oi |-> i, eds |-> <<>>] : i \in OpIdx}

SetKey == /\ s.ph = "pick" /\ Len(s.eds) < MaxEdits
          /\ \E ki \in 1..Len(Keys(Catalogue[s.oi])) :
                /\ (\A j \in 1..Len(s.eds) : s.eds[j][1] # ki) = TRUE
                /\ (IF Commit \/ Len(s.eds) = 0 THEN TRUE ELSE ki > s.eds[Len(s.eds)][1])
                /\ \E ci \in 1..Len(PoolFor(Keys(Catalogue[s.oi])[ki])) :
                      s' = [s EXCEPT !.eds = Append(@, <<ki, ci>>)]

\* with ClassStride > 1 the non-trivial wrappings take every ClassStride-th class each (rotating)
\* (the stack sub-commands only do anything as a pipeline step: series keys always get that wrapping too)
WrapAllowed(st, w) == IF ClassStride = 1 \/ w = "alone" \/ Len(st.eds) > 1 THEN TRUE
                      ELSE IF w = "step" /\ Keys(Catalogue[st.oi])[st.eds[1][1]].kind = "series" THEN TRUE
                      ELSE (st.eds[1][2] + st.eds[1][1]) % ClassStride = WrapSlot(w) % ClassStride
Wrap == /\ s.ph = "pick" /\ Len(s.eds) = MaxEdits
        /\ \E w \in WrapsC : WrapAllowed(s, w) /\ s' = [ph |-> "done", oi |-> s.oi, eds |-> s.eds, w |-> w]

EmitDef == s.ph = "done" => PrintT(<<"DEF", ToJson(DefRecord(s))>>)

\* ---- Mode "mut" ----------------------------------------------------------
\* the syntax alphabet and multi-byte characters
Alphabet == <<" ", "|", "=", ":", ",", "$", "(", ")", "<", ">", "#", "\n", "\r", "+", "-", ".",
              MB, "%u2080;", "%u1f600;">>
\* well-formed definitions that exercise the sugar: one-way separators, macros, line
\* continuation, comments, PROJ syntax
Special == <<
  "geo:in | utm zone=32 > addone < neu:out",
  "cart ellps=intl | helmert x=-87 y=-96 z=-120 | cart inv ellps=GRS80",
  "# comment\ncart ellps=intl |\n: helmert x=1 # inline\n| cart inv",
  "inv utm zone=32 omit_fwd",
  "stack push=1,2 | addone | stack roll=2,1 | stack pop=1,2",
  "cart ellps=$e(GRS80) | m:c09 ellps=(intl)",
  "+proj=pipeline +ellps=GRS80 +step +inv +proj=utm +zone=32 +step +proj=cart +a=6378137 +rf=298.25 +k=1",
  "proj=utm zone=32 k=0.9996 inv"
>>
\* ill-formed and degenerate definitions: bare modifiers, empty steps, stray sigils, PROJ corner cases,
\* macros whose bodies are degenerate or recursive.  [t: text, r: resources]
D(t, r) == [t |-> t, r |-> r]
Macro == << <<MacroName, "cart ellps=$ellps(GRS80)">> >>
RECURSIVE Rep(_, _)
Rep(x, n) == IF n = 0 THEN "" ELSE x \o Rep(x, n - 1)
Chain(n) == [i \in 1..n |-> <<"m:d" \o ToString(i), IF i = n THEN "noop" ELSE "m:d" \o ToString(i + 1)>>]
Degenerate == <<
  D("", <<>>), D(" ", <<>>), D("|", <<>>), D("||", <<>>), D("| |", <<>>), D(">", <<>>), D("<", <<>>), D("noop >", <<>>),
  D("< noop", <<>>), D("noop > | < noop", <<>>), D("inv", <<>>), D("omit_fwd", <<>>), D("inv omit_inv", <<>>),
  D("noop | inv", <<>>), D("inv | noop", <<>>), D("noop | omit_fwd inv | noop", <<>>), D("inv=true", <<>>),
  D(":", <<>>), D("::", <<>>), D("a:b", <<>>), D("a:b:c", <<>>), D(":a", <<>>), D("a:", <<>>), D("$", <<>>), D("=", <<>>),
  D("=x", <<>>), D("x=", <<>>), D("noop =", <<>>), D("noop =x", <<>>), D("noop x==y", <<>>), D("noop x=$", <<>>),
  D("#", <<>>), D("# only a comment", <<>>), D("\n", <<>>), D("\r\n", <<>>), D("noop |", <<>>), D("| noop", <<>>),
  D("noop\n:", <<>>), D(":\n:", <<>>), D("noop | # comment\n| noop", <<>>), D("pipeline", <<>>), D("pipeline inv", <<>>),
  D("pipeline | pipeline", <<>>), D("stack", <<>>), D("stack push=1 pop=1", <<>>), D("push", <<>>), D("pop v_1", <<>>),
  D("stack pop=1", <<>>), D("noop | stack roll=3,1 | noop", <<>>), D("noop | stack swap | stack flip=1,2", <<>>),
  D("+proj=pipeline", <<>>), D("+proj=pipeline +step", <<>>), D("+proj=pipeline +step +inv", <<>>),
  D("+proj=pipeline +step +inv +step +proj=noop", <<>>), D("+proj=pipeline +step +omit_fwd +step +proj=noop", <<>>),
  D("+proj=pipeline +step +proj=noop +step +proj=pipeline +step +proj=noop", <<>>), D("+init=epsg:4326 +proj=noop", <<>>),
  D("proj=", <<>>), D("+proj=", <<>>), D("+proj", <<>>), D("proj", <<>>), D("+proj=cart +a=1 +rf=2", <<>>),
  D("+proj=cart +a= +rf=", <<>>), D("+proj=cart +a +rf", <<>>), D("+rf=1 +a=2 +proj=cart", <<>>), D("+a=1 +rf=2 +proj", <<>>),
  D("+proj=utm +zone=32 +k=", <<>>), D("+proj=utm +zone=32 +k", <<>>), D("+proj=noop +inv +inv", <<>>),
  D("+proj=pipeline +inv +step +proj=noop +omit_fwd", <<>>), D("+step +proj=noop", <<>>), D("+proj=pipeline +step +step +step", <<>>),
  D("step proj=noop step", <<>>), D("+proj=pipeline +inv", <<>>), D("+proj=pipeline +inv +step +inv", <<>>),
  D("m:self", << <<"m:self", "m:self">> >>), D("m:a", << <<"m:a", "m:b">>, <<"m:b", "m:a">> >>),
  D("m:a | m:a", << <<"m:a", "m:a | m:a">> >>), D("m:inv", << <<"m:inv", "inv">> >>), D("m:empty", << <<"m:empty", "">> >>),
  D("m:pipe", << <<"m:pipe", "|">> >>), D("noop | m:pipe inv | noop", << <<"m:pipe", "noop > noop">> >>),
  D("m:a e=$e", << <<"m:a", "cart ellps=$e">> >>), D("m:a e=$f f=$e", << <<"m:a", "cart ellps=$e">> >>),
  D("m:a ellps=(", << <<"m:a", "cart ellps=(GRS80)">> >>), D("m:a inv inv=false", << <<"m:a", "addone">> >>),
  D("inv m:a omit_fwd omit_inv", << <<"m:a", "addone | addone">> >>), D("m:d1", Chain(30)), D("m:d1", Chain(60))
>>
\* long inputs: emitted as they are, not mutated
Long == <<
  D("noop" \o Rep(" | noop", 300), <<>>), D("helmert x=" \o Rep("9", 400), <<>>), D("cart ellps=" \o Rep("$x", 60), <<>>),
  D(Rep("(", 60), <<>>), D(Rep("a:", 60), <<>>), D(Rep("noop > ", 100) \o "noop", <<>>),
  D("axisswap order=" \o Rep("1,", 500) \o "1", <<>>), D("noop | stack push=" \o Rep("1,", 1000) \o "1 | noop", <<>>),
  D("gridshift grids=" \o Rep("@x.datum,", 200) \o "@null", <<>>), D("noop " \o Rep("k=v ", 500), <<>>),
  D("+proj=pipeline" \o Rep(" +step +proj=noop", 200), <<>>), D("m:d1", Chain(120)),
  D("cart ellps=" \o Rep(MB, 300), <<>>), D(Rep("\n", 300) \o "noop", <<>>), D("noop " \o Rep("# c\n", 300), <<>>)
>>
Bases == [i \in 1..Len(Special) |-> D(Special[i], Macro)] \o Degenerate \o Long
NSpecial == Len(Bases)
MutBase(i) == IF i <= NSpecial THEN Bases[i].t ELSE BaseText(Catalogue[i - NSpecial])
MutRes(i) == IF i <= NSpecial THEN Bases[i].r ELSE Macro
MutIdx == (IF FilterC = {} \/ "special" \in FilterC THEN 1..NSpecial ELSE {}) \cup {NSpecial + i : i \in OpIdx}
\* Mutate applies to the well-formed definitions; the degenerate and long ones are emitted as they are
Mutable(i) == i <= Len(Special) \/ i > NSpecial

\* (ClassStride > 1 thins out replace / insert: at position p only every ClassStride-th character, rotating with p)
Thin(p, c) == ClassStride = 1 \/ (p + c) % ClassStride = 0
Mutations(t) == {[k |-> "drop", pos |-> p, ch |-> ""] : p \in 1..Len(t)}
           \cup {[k |-> "dup", pos |-> p, ch |-> ""] : p \in 1..Len(t)}
           \cup {[k |-> "rep", pos |-> x[1], ch |-> Alphabet[x[2]]] : x \in {y \in (1..Len(t)) \X (1..Len(Alphabet)) : Thin(y[1], y[2])}}
           \cup {[k |-> "ins", pos |-> x[1], ch |-> Alphabet[x[2]]] : x \in {y \in (1..Len(t)) \X (1..Len(Alphabet)) : Thin(y[1], y[2] + 1)}}
ApplyMut(t, m) == CASE m.k = "drop" -> SubSeq(t, 1, m.pos - 1) \o SubSeq(t, m.pos + 1, Len(t))
                 [] m.k = "dup"  -> SubSeq(t, 1, m.pos) \o SubSeq(t, m.pos, Len(t))
                 [] m.k = "rep"  -> SubSeq(t, 1, m.pos - 1) \o m.ch \o SubSeq(t, m.pos + 1, Len(t))
                 [] m.k = "ins"  -> SubSeq(t, 1, m.pos) \o m.ch \o SubSeq(t, m.pos + 1, Len(t))

InitMut == s \in {[ph |-> "mut", bi |-> i, n |-> 0, text |-> MutBase(i), last |-> [k |-> "none", pos |-> 0, ch |-> ""]] : i \in MutIdx}
\* one random mutation (for -simulate: a single successor instead of thousands)
RandMut(t) == LET k == RandomElement({"drop", "dup", "rep", "ins"})
              IN [k |-> k, pos |-> RandomElement(1..Len(t)),
                  ch |-> IF k \in {"rep", "ins"} THEN Alphabet[RandomElement(1..Len(Alphabet))] ELSE ""]
Mutate == /\ s.ph = "mut" /\ s.n < MaxEdits /\ Len(s.text) > 0 /\ Mutable(s.bi)
          /\ \E m \in (IF Commit THEN {RandMut(s.text)} ELSE Mutations(s.text)) :
                s' = [s EXCEPT !.n = @ + 1, !.text = ApplyMut(s.text, m), !.last = m]
CommitMut == Commit /\ s.ph = "mut" /\ s.n > 0 /\ s' = [s EXCEPT !.ph = "mutdone"]
EmitMut == (IF Commit THEN s.ph = "mutdone" ELSE s.ph = "mut") =>
    PrintT(<<"MUT", ToJson([base |-> MutBase(s.bi), bi |-> s.bi, n |-> s.n, kind |-> s.last.k, pos |-> s.last.pos,
                            ch |-> s.last.ch, text |-> s.text,
                            res |-> MutRes(s.bi)])>>)

\* ---- Mode "coord" --------------------------------------------------------
\* special values, as strings decoded by the harness (hpi = pi/2, sub = smallest subnormal)
Values == <<"NaN", "inf", "-inf", "0", "-0", "sub", "-sub", "1e308", "-1e308", "1e-300",
            "hpi", "-hpi", "pi", "-pi", "2pi", "90", "-90", "180", "-180", "1", "-1",
            "6378137", "-6356752.314", "1e10", "500000", "1e7", "2020",
            \* (added after the value corner hunt: the largest finite number, one ulp beyond the pole and the date line,
            \* a latitude beyond the pole, the geocentre as a height, a far epoch)
            "max", "-max", "hpi+", "-hpi-", "pi+", "91d", "-6400000", "1e15">>
Benign == <<"0.2", "0.9", "100", "2020">>
NV == Len(Values)
InitCoord == s = [ph |-> "coord", t |-> Benign, n |-> 0, last |-> 0]
\* set one more element (positions increasing) to a special value
SetElem == /\ s.ph = "coord" /\ s.n < CoordArity
           /\ \E p \in (s.last + 1)..4, v \in 1..NV :
                 s' = [ph |-> "coord", t |-> [s.t EXCEPT ![p] = Values[v]], n |-> s.n + 1, last |-> p]
CommitCoord == Commit /\ s.ph = "coord" /\ (s.n = CoordArity \/ s.last = 4) /\ s' = [s EXCEPT !.ph = "coorddone"]
EmitCoord == (IF Commit THEN s.ph = "coorddone" ELSE s.ph = "coord" /\ s.n > 0) => PrintT(<<"COORD", ToJson([t |-> s.t, n |-> s.n])>>)

\* ---- Mode "fn" -----------------------------------------------------------
\* argument types: f (f64 from Values), i (i32), u (u16), c (coordinate tuple), s (text from the Core pool)
Fn(name, grp, ar) == [fn |-> name, grp |-> grp, ar |-> ar]
Functions == <<
  Fn("angular.dms_to_dd", "angular", <<"i", "u", "f">>), Fn("angular.dm_to_dd", "angular", <<"i", "f">>),
  Fn("angular.iso_dm_to_dd", "angular", <<"f">>), Fn("angular.dd_to_iso_dm", "angular", <<"f">>),
  Fn("angular.iso_dms_to_dd", "angular", <<"f">>), Fn("angular.dd_to_iso_dms", "angular", <<"f">>),
  Fn("angular.normalize_symmetric", "angular", <<"f">>), Fn("angular.normalize_positive", "angular", <<"f">>),
  Fn("angular.parse_sexagesimal", "angular", <<"s">>),
  Fn("ellipsoid.named", "ellipsoid", <<"s">>), Fn("triaxial.named", "ellipsoid", <<"s">>),
  Fn("ellipsoid.named", "ellipsoid", <<"e">>), Fn("triaxial.named", "ellipsoid", <<"e">>),
  Fn("ellipsoid.base", "ellipsoid", <<>>),          \* every parameterless method of EllipsoidBase / Meridians / Latitudes
  Fn("ellipsoid.prime_vertical_radius_of_curvature", "ellipsoid", <<"f">>),
  Fn("ellipsoid.meridian_radius_of_curvature", "ellipsoid", <<"f">>),
  Fn("ellipsoid.latitude_geographic_to_geocentric", "ellipsoid", <<"f">>),
  Fn("ellipsoid.latitude_geocentric_to_geographic", "ellipsoid", <<"f">>),
  Fn("ellipsoid.latitude_geographic_to_reduced", "ellipsoid", <<"f">>),
  Fn("ellipsoid.latitude_reduced_to_geographic", "ellipsoid", <<"f">>),
  Fn("ellipsoid.latitude_geographic_to_isometric", "ellipsoid", <<"f">>),
  Fn("ellipsoid.latitude_isometric_to_geographic", "ellipsoid", <<"f">>),
  Fn("ellipsoid.latitude_geographic_to_rectifying", "ellipsoid", <<"f">>),
  Fn("ellipsoid.latitude_rectifying_to_geographic", "ellipsoid", <<"f">>),
  Fn("ellipsoid.latitude_geographic_to_conformal", "ellipsoid", <<"f">>),
  Fn("ellipsoid.latitude_conformal_to_geographic", "ellipsoid", <<"f">>),
  Fn("ellipsoid.latitude_geographic_to_authalic", "ellipsoid", <<"f">>),
  Fn("ellipsoid.latitude_authalic_to_geographic", "ellipsoid", <<"f">>),
  Fn("ellipsoid.meridian_latitude_to_distance", "ellipsoid", <<"f">>),
  Fn("ellipsoid.meridian_distance_to_latitude", "ellipsoid", <<"f">>),
  Fn("ellipsoid.somigliana_gravity", "ellipsoid", <<"f", "f", "f">>),
  Fn("ellipsoid.cassinis_gravity_1930", "ellipsoid", <<"f">>), Fn("ellipsoid.jeffreys_gravity_1948", "ellipsoid", <<"f">>),
  Fn("ellipsoid.grs67_gravity", "ellipsoid", <<"f">>), Fn("ellipsoid.grs80_gravity", "ellipsoid", <<"f">>),
  Fn("ellipsoid.cassinis_height_correction", "ellipsoid", <<"f", "f">>),
  Fn("ellipsoid.grs67_height_correction", "ellipsoid", <<"f", "f">>), Fn("ellipsoid.welmec", "ellipsoid", <<"f", "f">>),
  Fn("ellipsoid.cartesian", "ellipsoid", <<"f", "f", "f">>), Fn("ellipsoid.geographic", "ellipsoid", <<"f", "f", "f">>),
  Fn("ellipsoid.geodesic_fwd", "ellipsoid", <<"f", "f", "f", "f">>),
  Fn("ellipsoid.geodesic_inv", "ellipsoid", <<"f", "f", "f", "f">>),
  Fn("ellipsoid.distance", "ellipsoid", <<"f", "f", "f", "f">>)
>>
Ints == <<"0", "1", "-1", "59", "60", "90", "-90", "65535", "2147483647", "-2147483648">>
UInts == <<"0", "1", "59", "60", "65535">>
CoreTexts == [i \in 1..Len(Core) |-> Core[i].v] \o [i \in 1..Len(EllpsFixed) |-> EllpsFixed[i].v]
             \o <<"45:30:36N", "-45:30:36", "1:30:36w", "q1:30:36w", "::", ":", "1:", ":1", "N", "S", "-", "1e5N", " 12 ", "1:2:3" \o MB>>
ArgPool(ty) == CASE ty = "f" -> Values [] ty = "i" -> Ints [] ty = "u" -> UInts [] ty = "s" -> CoreTexts [] ty = "e" -> EllpsNames
ArgBenign(ty) == CASE ty = "f" -> "0.9" [] ty = "i" -> "55" [] ty = "u" -> "30" [] ty = "s" -> "12" [] ty = "e" -> "GRS80"

\* receivers of the ellipsoid methods: a named one, or Ellipsoid::new(a, f)
AVals == <<"6378137", "1", "0", "-1", "NaN", "inf", "1e308", "sub">>
FVals == <<"0.0033528106647474805", "0", "1", "2", "-1", "NaN", "inf", "0.5", "1e-320", "-0", "0.9999999999999999">>
\* (ClassStride > 1: one of a, f special at a time; ClassStride = 1: their full product)
Receivers == [k: {"named"}, n: {"GRS80", "unitsphere", "intl"}, a: {""}, f: {""}]
        \cup {r \in [k: {"new"}, n: {""}, a: {AVals[i] : i \in 1..Len(AVals)}, f: {FVals[i] : i \in 1..Len(FVals)}] :
                 ClassStride = 1 \/ r.a = AVals[1] \/ r.f = FVals[1]}
NeedsReceiver(f) == f.grp = "ellipsoid" /\ f.fn \notin {"ellipsoid.named", "triaxial.named"}
NoReceiver == [k |-> "none", n |-> "", a |-> "", f |-> ""]

BenignArgs(f) == [i \in 1..Len(f.ar) |-> ArgBenign(f.ar[i])]
InitFn == s \in {[ph |-> "fn", fi |-> i, recv |-> NoReceiver, args |-> BenignArgs(Functions[i]), st |-> "recv", n |-> 0, last |-> 0] :
                    i \in 1..Len(Functions)}
PickRecv == /\ s.ph = "fn" /\ s.st = "recv"
            /\ IF NeedsReceiver(Functions[s.fi])
               THEN \E r \in Receivers : s' = [s EXCEPT !.recv = r, !.st = "args"]
               ELSE s' = [s EXCEPT !.st = "args"]
\* the arguments start benign; FnVary of them (positions increasing) are set to special values
SetArg == /\ s.ph = "fn" /\ s.st = "args" /\ s.n < FnVary
          /\ \E p \in (s.last + 1)..Len(Functions[s.fi].ar) :
                \E v \in 1..Len(ArgPool(Functions[s.fi].ar[p])) :
                   s' = [s EXCEPT !.args[p] = ArgPool(Functions[s.fi].ar[p])[v], !.n = @ + 1, !.last = p]
EmitFn == (s.ph = "fn" /\ s.st = "args") =>
    PrintT(<<"FN", ToJson([fn |-> Functions[s.fi].fn, grp |-> Functions[s.fi].grp, recv |-> s.recv, args |-> s.args])>>)

\* ---- the catalogue itself, for the driver's coverage check ---------------
CatalogueRecord == [ops |-> [i \in 1..Len(Catalogue) |->
    [name |-> Catalogue[i].name, base |-> BaseText(Catalogue[i]),
     keys |-> [j \in 1..Len(Keys(Catalogue[i])) |->
        LET key == Keys(Catalogue[i])[j] IN
        [k |-> key.k, kind |-> key.kind, d |-> key.d,
         cls |-> [c \in 1..Len(PoolFor(key)) |-> PoolFor(key)[c].c]]]]],
    values |-> Values, alphabet |-> Alphabet, special |-> [i \in 1..Len(Special) |-> Special[i]]]
EmitCatalogue == PrintT(<<"CATALOGUE", ToJson(CatalogueRecord)>>)
ASSUME EmitCatalogue

\* ---- specification --------------------------------------------------------
Init == CASE Mode = "defs"  -> InitDefs
          [] Mode = "mut"   -> InitMut
          [] Mode = "coord" -> InitCoord
          [] Mode = "fn"    -> InitFn
Next == SetKey \/ Wrap \/ Mutate \/ CommitMut \/ SetElem \/ CommitCoord \/ PickRecv \/ SetArg
Spec == Init /\ [][Next]_vars
Emit == EmitDef /\ EmitMut /\ EmitCoord /\ EmitFn

\* model-level sanity: the catalogue is well formed (distinct names, distinct keys per operator,
\* base arguments name gamut keys, every pool class name is unique within its pool)
Distinct(seq) == \A i, j \in 1..Len(seq) : i # j => seq[i] # seq[j]
ASSUME Distinct([i \in 1..Len(Catalogue) |-> <<Catalogue[i].name, Catalogue[i].base>>])
ASSUME \A i \in 1..Len(Catalogue) :
          /\ Distinct([j \in 1..Len(Keys(Catalogue[i])) |-> Keys(Catalogue[i])[j].k])
          /\ \A b \in 1..Len(Catalogue[i].base) : HasKey(Catalogue[i].gamut, Catalogue[i].base[b].k)
          /\ \A j \in 1..Len(Keys(Catalogue[i])) :
                LET pl == PoolFor(Keys(Catalogue[i])[j]) IN Distinct([c \in 1..Len(pl) |-> pl[c].c])
=============================================================================
