SPECIFICATION Spec
CONSTANTS
  Mode = "defs"
  MaxEdits = 1
  Wraps <- AllWraps
  OpFilter <- NoFilter
  ClassStride = 1
  CoordArity = 2
  FnVary = 1
  Commit = FALSE
INVARIANTS Emit
CHECK_DEADLOCK FALSE
