------------------------------ MODULE Trace_C02 ------------------------------
(***************************************************************************)
(* Trace validation for C02.  A trace is a sequence of histories, one per  *)
(* operator handle (separated by `reset`).  Each `apply` event lists the   *)
(* distinct observations (input tuple id, ids of the output elements the   *)
(* container stores, multiplicity) of one application in one direction     *)
(* through some container, and the reported count.                         *)
(*                                                                         *)
(* The trace is accepted iff ONE function                                  *)
(*      fn : (direction, value class, input tuple) -> output elements      *)
(* explains every observation of the history of that handle: whatever the  *)
(* neighbours in the set, the order, the chunking, the container, and      *)
(* whatever was applied before.  fn is learnt as the trace goes (unknown   *)
(* output positions are 0: a 2D container reveals two of them), and for    *)
(* elementary operators the count of a set must be the sum of the counts   *)
(* of its tuples as learnt from applications to single tuples.             *)
(* There is no action for `panic`: a trace containing one is rejected.     *)
(***************************************************************************)
EXTENDS Integers, Sequences, FiniteSets, TLC, Json, IOUtils

Rec == ndJsonDeserialize(IOEnv.TRACE)

VARIABLES l, fn, cn
vars == <<l, fn, cn>>
\* fn: function  <<dir, cls, in>> -> 4-sequence of element ids (0 = not yet observed)
\* cn: function  <<dir, cls, in>> -> 0 or 1, learnt from singleton applications

E == Rec[l]
Is(e) == l <= Len(Rec) /\ Rec[l].ev = e /\ l' = l + 1

TInit == l = 1 /\ fn = <<>> /\ cn = <<>>

Reset == Is("reset") /\ fn' = <<>> /\ cn' = <<>>

Key(g) == <<E.dir, E.cls, g.in>>
Compatible(a, b) == \A p \in 1..4 : a[p] = 0 \/ b[p] = 0 \/ a[p] = b[p]
Merge(a, b) == [p \in 1..4 |-> IF a[p] = 0 THEN b[p] ELSE a[p]]

Groups == E.g
NG == Len(Groups)

\* inside one application: two tuples with the same input give the same output
SelfConsistent == \A i, j \in 1..NG : Groups[i].in = Groups[j].in => Compatible(Groups[i].out, Groups[j].out)
\* against everything seen before on this handle
HistoryConsistent == \A i \in 1..NG : Key(Groups[i]) \in DOMAIN fn => Compatible(fn[Key(Groups[i])], Groups[i].out)

NewKeys == {Key(Groups[i]) : i \in 1..NG}
Learn(k) == LET mine == {i \in 1..NG : Key(Groups[i]) = k}
                RECURSIVE Fold(_, _)
                Fold(S, acc) == IF S = {} THEN acc
                                ELSE LET i == CHOOSE x \in S : TRUE IN Fold(S \ {i}, Merge(acc, Groups[i].out))
            IN Fold(mine, IF k \in DOMAIN fn THEN fn[k] ELSE <<0, 0, 0, 0>>)

\* counts: never more than the set; for elementary operators additive over the tuples
RECURSIVE KnownSum(_), UnknownNum(_)
KnownSum(i) == IF i > NG THEN 0
               ELSE (IF Key(Groups[i]) \in DOMAIN cn THEN cn[Key(Groups[i])] * Groups[i].m ELSE 0) + KnownSum(i + 1)
UnknownNum(i) == IF i > NG THEN 0
                 ELSE (IF Key(Groups[i]) \in DOMAIN cn THEN 0 ELSE Groups[i].m) + UnknownNum(i + 1)
CountOK == /\ E.count >= 0 /\ E.count <= E.n
           /\ E.elem => (E.count - KnownSum(1) >= 0 /\ E.count - KnownSum(1) <= UnknownNum(1))
Singleton == E.n = 1 /\ NG = 1

Apply == /\ Is("apply")
         \* (compared with TRUE so that TLC evaluates it as an expression instead of
         \*  splitting the action on the disjunctions inside)
         /\ (SelfConsistent /\ HistoryConsistent /\ CountOK) = TRUE
         /\ fn' = [k \in DOMAIN fn \cup NewKeys |-> IF k \in NewKeys THEN Learn(k) ELSE fn[k]]
         /\ IF Singleton /\ E.elem /\ Key(Groups[1]) \notin DOMAIN cn
            THEN cn' = (Key(Groups[1]) :> E.count) @@ cn
            ELSE UNCHANGED cn

TNext == Reset \/ Apply
TraceSpec == TInit /\ [][TNext]_vars

Accepted == IF TLCGet("stats").diameter - 1 = Len(Rec) THEN TRUE
            ELSE Print(<<"REJECTED", ToJson([matched |-> TLCGet("stats").diameter - 1, total |-> Len(Rec),
                         next |-> IF TLCGet("stats").diameter <= Len(Rec) THEN Rec[TLCGet("stats").diameter] ELSE [ev |-> "none"]])>>, FALSE)
=============================================================================
