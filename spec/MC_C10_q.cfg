SPECIFICATION Spec
INVARIANTS SaneInv CountInv DevInv Emit
CHECK_DEADLOCK FALSE
