------------------------------- MODULE MC_C16 -------------------------------
EXTENDS Syntax
SX == INSTANCE SequencesExt

L(k, v) == [k |-> k, v |-> [f |-> "lit", v |-> v]]
T(k, s) == [k |-> k, v |-> [f |-> "txt", s |-> s]]
Li(k, s) == [k |-> k, v |-> [f |-> "list", s |-> s]]
Fl(k) == [k |-> k, v |-> [f |-> "flag"]]
Rf(k, n) == [k |-> k, v |-> [f |-> "ref", n |-> n]]
Rd(k, n, d) == [k |-> k, v |-> [f |-> "refd", n |-> n, d |-> d]]
Df(k, d) == [k |-> k, v |-> [f |-> "dflt", d |-> d]]
S(n, a) == [name |-> n, args |-> a, inv |-> FALSE, of |-> FALSE, oi |-> FALSE]
Mod(s, i, f, o) == [s EXCEPT !.inv = i, !.of = f, !.oi = o]
Inv(s) == Mod(s, TRUE, FALSE, FALSE)
Of(s) == Mod(s, FALSE, TRUE, FALSE)
Oi(s) == Mod(s, FALSE, FALSE, TRUE)

\* the probe basis of MC_C03 ...
A  == S("t_add", <<L("e", 1), L("c", 1)>>)
A5 == S("t_add", <<L("e", 1), L("c", 5)>>)
B  == S("t_dbl", <<L("e", 1)>>)
C  == S("t_add", <<L("e", 2), L("c", 3)>>)
N  == S("noop", <<>>)
M(n) == S(n, <<>>)
\* ... and t_gamut, one key of every parameter kind (required: rnat, rreal)
G1 == S("t_gamut", <<L("rnat", 1), L("rreal", 2)>>)
G2 == S("t_gamut", <<L("rnat", 1), T("rreal", "1:30:36"), L("x_0", 5)>>)
G3 == S("t_gamut", <<L("rnat", 2), L("rreal", 1), Li("ser", <<"1", "2.5", "-3">>)>>)
G4 == S("t_gamut", <<L("rnat", 1), L("rreal", 1), Li("texts", <<"a", "b", "c">>), T("text", "foo"), Fl("flag")>>)
G5 == S("t_gamut", <<L("rnat", 1), L("rreal", 1), T("k_0", "0.5"), L("x_0", -3), L("nat", 9)>>)
\* an unknown key, a repeated key
G6 == S("t_gamut", <<L("rnat", 1), L("rreal", 1), L("int", 4), T("bogus", "x"), L("int", -6)>>)

Res == [n \in {"m:s", "m:p", "m:i"} |->
          CASE n = "m:s" -> <<A5>>
            [] n = "m:p" -> <<A, B>>
            [] n = "m:i" -> <<Inv(B), Oi(C), A>>]
Pairs == {<<"m", "s">>, <<"m", "p">>, <<"m", "i">>, <<"m", "t">>}
Indexed == {<<"x_0", "x", "0">>, <<"k_0", "k", "0">>}

Top(d) == [subject |-> d, as |-> "def", invoke |-> <<>>, ok |-> TRUE]
Body(d, inv) == [subject |-> d, as |-> "m:t", invoke |-> inv, ok |-> TRUE]

\* macro bodies with every value form; the invocation supplies (or not) the arguments
Bd1 == <<S("t_add", <<L("e", 1), Rf("c", "c")>>)>>
Bd2 == <<S("t_add", <<L("e", 1), Rd("c", "q", 4)>>), Inv(S("t_dbl", <<Df("e", 1)>>))>>
Bd3 == <<Of(A), S("t_add", <<Rd("e", "e", 2), Df("c", 7)>>), Oi(Inv(B))>>

CoreCases == <<
    Top(<<A>>), Top(<<Inv(A)>>), Top(<<G2>>), Top(<<G3>>), Top(<<G4>>), Top(<<Inv(G5)>>), Top(<<G6>>),
    Top(<<M("m:p")>>), Top(<<Inv(S("m:p", <<L("c", 5)>>))>>), Top(<<Of(A)>>), Top(<<Mod(B, TRUE, FALSE, TRUE)>>),
    Top(<<A, B>>), Top(<<Inv(A), B>>), Top(<<A, Inv(B)>>), Top(<<Of(A), B>>), Top(<<A, Oi(B)>>),
    Top(<<Mod(A, TRUE, TRUE, FALSE), Mod(B, TRUE, FALSE, TRUE)>>), Top(<<B, Inv(M("m:i"))>>),
    Top(<<G2, A>>), Top(<<A, Inv(G3)>>), Top(<<N, Mod(C, FALSE, TRUE, TRUE)>>), Top(<<Oi(G5), Of(G4)>>),
    Top(<<A, B, C>>), Top(<<Inv(A), Of(B), Oi(C)>>), Top(<<Of(A), Mod(B, TRUE, FALSE, TRUE), Inv(C)>>),
    Top(<<M("m:s"), Mod(B, TRUE, TRUE, FALSE), G2>>), Top(<<Mod(A, TRUE, TRUE, TRUE), N, Oi(S("m:p", <<L("c", 2)>>))>>),
    Body(Bd1, <<S("m:t", <<L("c", 3)>>)>>), Body(Bd2, <<S("m:t", <<L("q", 2)>>)>>), Body(Bd2, <<M("m:t")>>),
    Body(Bd3, <<Inv(M("m:t"))>>), Body(Bd3, <<N, S("m:t", <<L("e", 1), L("c", 2)>>)>>)
>>

\* thorough, wide: every definition of up to three steps over three base steps
\* (0, 1, 2-3 arguments) with every modifier combination on every step
Mods3 == {<<i, f, o>> : i \in BOOLEAN, f \in BOOLEAN, o \in BOOLEAN}
WSteps == {Mod(b, m[1], m[2], m[3]) : b \in {N, B, G2}, m \in Mods3}
WSteps2 == {Mod(b, m[1], m[2], m[3]) : b \in {B, G2}, m \in Mods3}
WideSet == {<<s>> : s \in WSteps} \cup [1..2 -> WSteps] \cup [1..3 -> WSteps2]
WideCases == LET s == SX!SetToSeq(WideSet) IN [i \in 1..Len(s) |-> Top(s[i])]

\* thorough, deep: few cases, many simultaneous choices
DeepCases == << Top(<<Inv(A), Of(G2), Oi(S("m:p", <<L("c", 2)>>))>>), Top(<<Mod(G3, TRUE, FALSE, TRUE), B>>),
                Body(Bd3, <<Inv(M("m:t"))>>), Top(<<Inv(G5)>>) >>
=============================================================================
