------------------------------- MODULE Routes -------------------------------
(***************************************************************************)
(* C14, the numeric route pairs: "Where the library offers two routes to   *)
(* the same result they agree to the accuracy of the weaker one".          *)
(*                                                                         *)
(* This module is the DISCRETE content of those clauses of the statement:  *)
(* the catalogue of route pairs.  Per pair                                 *)
(*    - the two routes: an operator definition text (applied through       *)
(*      Context::apply on a Minimal context) or a method of the public     *)
(*      ellipsoid API (EllipsoidBase / GeoCart / Geodesics / Latitudes /   *)
(*      Meridians / Gravity, or the math::ancillary functions), or the     *)
(*      closed form / quadrature the statement names;                      *)
(*    - the parameters both routes share (shapes);                         *)
(*    - the common domain and an integer lattice inside it;                *)
(*    - the accuracy class, taken from the statement;                      *)
(*    - the ellipsoid set.                                                 *)
(* TLC enumerates every obligation  pair x shape x ellipsoid x lattice     *)
(* point x direction  (one state each), checks the catalogue against the   *)
(* statement (StatementInv, ClassInv), the lattice against the domain      *)
(* (DomainInv) and the count against the product of the axes (CountInv),   *)
(* and exports the obligations (Emit); harness/src/bin/gvh_routes.rs       *)
(* evaluates both routes of every obligation on the real library.          *)
(*                                                                         *)
(* Units of the lattices: angles in TENTHS OF A DEGREE, lengths in metres. *)
(*                                                                         *)
(* Accuracy classes (from the statement of C14):                           *)
(*   identical  bit for bit               cart forward                     *)
(*   submm      1e-3 m on the ground      tmerc/btmerc, cart inverse       *)
(*   rounding   1e-12 relative to the     wrapper operators vs methods     *)
(*              magnitude involved        ("to rounding")                  *)
(*   aux        1e-11 rad                 series latitudes vs closed forms *)
(*   arc        1e-6 m                    meridian arcs vs quadrature      *)
(***************************************************************************)
EXTENDS Integers, Sequences, FiniteSets, TLC, Json

CONSTANT Tier            \* "q" (quick) or "t" (thorough)
Q == Tier = "q"

\* every name of the built-in ellipsoid table (drift against the code's table is reported by the harness)
AllEllps == {"MERIT", "SGS85", "GRS80", "IAU76", "airy", "APL4.9", "NWL9D", "mod_airy", "andrae", "danish", "aust_SA", "GRS67",
    "GSK2011", "bessel", "bess_nam", "clrk66", "clrk80", "clrk80ign", "CPM", "delmbr", "engelis", "evrst30", "evrst48", "evrst56",
    "evrst69", "evrstSS", "fschr60", "fschr60m", "fschr68", "helmert", "hough", "intl", "krass", "kaula", "lerch", "mprts",
    "new_intl", "plessis", "PZ90", "SEasia", "walbeck", "WGS60", "WGS66", "WGS72", "WGS84", "sphere", "unitsphere"}
\* quick: the default and WGS84, three historical ones, the most flattened of the table, the two spheres
QuickEllps == {"GRS80", "WGS84", "intl", "bessel", "clrk80", "mprts", "sphere", "unitsphere"}
Ellps == IF Q THEN QuickEllps ELSE AllEllps

Abs(x) == IF x < 0 THEN 0 - x ELSE x
S(i) == ToString(i)
Range(lo, hi, step) == {lo + step * i : i \in 0..((hi - lo) \div step)}

(***************************************************************************)
(* The statement                                                           *)
(***************************************************************************)
\* the pairs the statement names (route, route); the exactly shared mappings and Minimal/Plain are decided elsewhere (C14.py)
Named == {<<"tmerc", "btmerc">>, <<"cart", "GeoCart">>, <<"latitude", "Latitudes">>, <<"curvature", "EllipsoidBase">>,
          <<"geodesic", "Geodesics">>, <<"gravity", "Gravity">>, <<"series latitude", "closed form">>, <<"meridian arc", "quadrature">>}
Clauses == {"tm", "cart", "latitude", "curvature", "geodesic", "gravity", "auxlat", "meridian"}
NamedOf(c) == CASE c = "tm" -> <<"tmerc", "btmerc">> [] c = "cart" -> <<"cart", "GeoCart">> [] c = "latitude" -> <<"latitude", "Latitudes">>
                [] c = "curvature" -> <<"curvature", "EllipsoidBase">> [] c = "geodesic" -> <<"geodesic", "Geodesics">>
                [] c = "gravity" -> <<"gravity", "Gravity">> [] c = "auxlat" -> <<"series latitude", "closed form">>
                [] c = "meridian" -> <<"meridian arc", "quadrature">>

Classes == {"identical", "submm", "rounding", "aux", "arc"}
\* tolerance m * 10^e in `unit`
Tol(c) == CASE c = "identical" -> [m |-> 0, e |-> 0, unit |-> "bits"]
            [] c = "submm"     -> [m |-> 1, e |-> -3, unit |-> "m"]
            [] c = "rounding"  -> [m |-> 1, e |-> -12, unit |-> "rel"]
            [] c = "aux"       -> [m |-> 1, e |-> -11, unit |-> "rad"]
            [] c = "arc"       -> [m |-> 1, e |-> -6, unit |-> "m"]
\* what the statement says, per clause; `out` = what the compared output is: "len" or "ang"; dir = "F" / "I"
StatementClass(c, dir, out) ==
    CASE c = "tm" -> "submm"
      [] c = "cart" -> IF dir = "F" THEN "identical" ELSE "submm"
      [] c \in {"latitude", "curvature", "geodesic", "gravity"} -> "rounding"
      [] c \in {"auxlat", "meridian"} -> IF out = "ang" THEN "aux" ELSE "arc"

(***************************************************************************)
(* The catalogue                                                           *)
(***************************************************************************)
LatFlags == {"geocentric", "reduced", "parametric", "conformal", "authalic", "rectifying"}
CurvFlags == {"prime", "meridian", "gaussian", "mean", "azimuthal"}
GravFormulas == {"grs80", "grs67", "welmec", "jeffreys", "cassinis"}
AuxPairs == {"aux:conformal~closed", "aux:conformal~isometric", "aux:conformal~ts", "aux:authalic~closed", "aux:authalic~qs",
             "aux:rectifying~arc", "aux:geocentric~closed", "aux:reduced~closed"}
ArcPairs == {"arc:bowring~quadrature", "arc:series~quadrature", "arc:tmerc~quadrature", "arc:quadrant~quadrature",
             "arc:radius~quadrature", "arc:radius_bowring~quadrature"}
\* the pairs whose only lattice point is the pole (a whole meridian quadrant)
QuadrantPairs == {"arc:quadrant~quadrature", "arc:radius~quadrature", "arc:radius_bowring~quadrature"}
Pairs == {"tmerc~btmerc", "utm~butm", "cart~GeoCart", "geodesic:fwd", "geodesic:inv"}
         \cup {"latitude:" \o f : f \in LatFlags} \cup {"curvature:" \o f : f \in CurvFlags} \cup {"gravity:" \o f : f \in GravFormulas}
         \cup AuxPairs \cup ArcPairs

IsLat(id) == id \in {"latitude:" \o f : f \in LatFlags}
IsCurv(id) == id \in {"curvature:" \o f : f \in CurvFlags}
IsGrav(id) == id \in {"gravity:" \o f : f \in GravFormulas}
\* the flag / formula of a pair id
FlagOf(id) == CHOOSE f \in LatFlags \cup CurvFlags \cup GravFormulas : id \in {"latitude:" \o f, "curvature:" \o f, "gravity:" \o f}

Clause(id) == CASE id \in {"tmerc~btmerc", "utm~butm"} -> "tm"
                [] id = "cart~GeoCart" -> "cart"
                [] IsLat(id) -> "latitude" [] IsCurv(id) -> "curvature" [] IsGrav(id) -> "gravity"
                [] id \in {"geodesic:fwd", "geodesic:inv"} -> "geodesic"
                [] id \in AuxPairs -> "auxlat" [] id \in ArcPairs -> "meridian"

\* ---- shapes: the parameters both routes share (text), and the centre of the lattice (integer degrees)
Sh(text, lon0) == [text |-> text, lon0 |-> lon0]
KXY == " k_0=0.9996 x_0=500000 y_0=-100000"
KXY2 == " k_0=1.0004 x_0=-2500000.5 y_0=7"
Tm(lo, la, r) == Sh("lon_0=" \o S(lo) \o (IF la = 0 THEN "" ELSE " lat_0=" \o S(la)) \o r, lo)
Utm(z, south) == Sh("zone=" \o S(z) \o (IF south THEN " south" ELSE ""), 6 * z - 183)
Shapes(id) ==
    CASE id = "tmerc~btmerc" -> IF Q THEN {Tm(9, 0, ""), Tm(9, 49, KXY), Tm(-177, -33, ""), Tm(0, 0, KXY2)}
                                ELSE {Tm(lo, la, r) : lo \in {9, -177, 0, 179}, la \in {0, 49, -33}, r \in {"", KXY, KXY2}}
      [] id = "utm~butm" -> {Utm(z, s) : z \in (IF Q THEN {32} ELSE {1, 32, 60}), s \in BOOLEAN}
      [] id \in {"geodesic:fwd", "geodesic:inv"} -> {Sh("", 0), Sh("reversible", 0)}
      [] IsLat(id) \/ IsCurv(id) -> {Sh(FlagOf(id), 0)}
      \* the height corrections: grs80/grs67 use the GRS67 formula "used for all systems since GRS67", welmec has its own;
      \* the rock density cassinis/jeffreys use with a height is not documented: only their zero-height form is compared
      [] IsGrav(id) -> IF FlagOf(id) \in {"jeffreys", "cassinis"} THEN {Sh(FlagOf(id) \o " zero-height", 0)}
                       ELSE {Sh(FlagOf(id), 0), Sh(FlagOf(id) \o " zero-height", 0)}
      [] OTHER -> {Sh("", 0)}

\* ---- routes:  [k, F, I]  k = "op": F = I = definition text;  k = "api": names of what is called forward / inverse ("" = none)
OpDef(name, s, e) == name \o (IF s.text = "" THEN "" ELSE " " \o s.text) \o " ellps=" \o e
Op(def) == [k |-> "op", F |-> def, I |-> def]
Api(f, i) == [k |-> "api", F |-> f, I |-> i]
\* the Latitudes methods use "reduced" for the parametric latitude
LatName(f) == IF f = "parametric" THEN "reduced" ELSE f
ZeroH(s) == s.text \in {f \o " zero-height" : f \in GravFormulas}
GravApi(f, s) ==
    CASE f = "welmec" -> IF ZeroH(s) THEN "Gravity::welmec(lat, 0)" ELSE "Gravity::welmec(lat, h)"
      [] f = "grs80" -> IF ZeroH(s) THEN "Gravity::grs80_gravity" ELSE "Gravity::grs80_gravity - Gravity::grs67_height_correction"
      [] f = "grs67" -> IF ZeroH(s) THEN "Gravity::grs67_gravity" ELSE "Gravity::grs67_gravity - Gravity::grs67_height_correction"
      [] f = "jeffreys" -> "Gravity::jeffreys_gravity_1948"
      [] f = "cassinis" -> "Gravity::cassinis_gravity_1930"
CurvApi(f) ==
    CASE f = "prime" -> "EllipsoidBase::prime_vertical_radius_of_curvature"
      [] f = "meridian" -> "EllipsoidBase::meridian_radius_of_curvature"
      \* Rumination 002, operator curvature: the formulas of the table, over the two methods N and M
      [] f = "gaussian" -> "doc: sqrt(M * N)"
      [] f = "mean" -> "doc: 2 / (1/M + 1/N)"
      [] f = "azimuthal" -> "doc: 1 / (cos^2(alpha)/M + sin^2(alpha)/N)"

RouteA(id, s, e) ==
    CASE id = "tmerc~btmerc" -> Op(OpDef("tmerc", s, e))
      [] id = "utm~butm" -> Op(OpDef("utm", s, e))
      [] id = "cart~GeoCart" -> Op(OpDef("cart", s, e))
      [] IsLat(id) -> Op(OpDef("latitude", s, e))
      [] IsCurv(id) -> Op(OpDef("curvature", s, e))
      [] IsGrav(id) -> Op(OpDef("gravity", s, e))
      [] id \in {"geodesic:fwd", "geodesic:inv"} -> Op(OpDef("geodesic", s, e))
      \* the series (Karney 2022, sixth order in the third flattening)
      [] id \in {"aux:conformal~closed", "aux:conformal~isometric", "aux:conformal~ts"} ->
            Api("Latitudes::latitude_geographic_to_conformal", "Latitudes::latitude_conformal_to_geographic")
      [] id \in {"aux:authalic~closed", "aux:authalic~qs"} ->
            Api("Latitudes::latitude_geographic_to_authalic", "Latitudes::latitude_authalic_to_geographic")
      [] id = "aux:rectifying~arc" -> Api("Latitudes::latitude_geographic_to_rectifying", "Latitudes::latitude_rectifying_to_geographic")
      [] id = "aux:geocentric~closed" -> Api("Latitudes::latitude_geographic_to_geocentric", "Latitudes::latitude_geocentric_to_geographic")
      [] id = "aux:reduced~closed" -> Api("Latitudes::latitude_geographic_to_reduced", "Latitudes::latitude_reduced_to_geographic")
      [] id = "arc:bowring~quadrature" -> Api("Meridians::meridian_latitude_to_distance", "Meridians::meridian_distance_to_latitude")
      \* meridian arc = rectifying radius x rectifying latitude
      [] id = "arc:series~quadrature" -> Api("Meridians::rectifying_radius * Latitudes::latitude_geographic_to_rectifying",
                                             "Latitudes::latitude_rectifying_to_geographic(M / Meridians::rectifying_radius)")
      \* the northing of the central meridian of a transverse Mercator projection with k_0 = 1 is the meridian arc
      [] id = "arc:tmerc~quadrature" -> Op("tmerc ellps=" \o e)
      [] id = "arc:quadrant~quadrature" -> Api("Meridians::meridian_quadrant", "")
      \* the rectifying radius: the mean length of a radian of the meridian, to the eighth and to the fourth order
      [] id = "arc:radius~quadrature" -> Api("Meridians::rectifying_radius", "")
      [] id = "arc:radius_bowring~quadrature" -> Api("Meridians::rectifying_radius_bowring", "")

RouteB(id, s, e) ==
    CASE id = "tmerc~btmerc" -> Op(OpDef("btmerc", s, e))
      [] id = "utm~butm" -> Op(OpDef("butm", s, e))
      [] id = "cart~GeoCart" -> Api("GeoCart::cartesian", "GeoCart::geographic")
      [] IsLat(id) -> Api("Latitudes::latitude_geographic_to_" \o LatName(FlagOf(id)), "Latitudes::latitude_" \o LatName(FlagOf(id)) \o "_to_geographic")
      [] IsCurv(id) -> Api(CurvApi(FlagOf(id)), "")
      [] IsGrav(id) -> Api(GravApi(FlagOf(id), s), "")
      [] id = "geodesic:fwd" -> Api("Geodesics::geodesic_fwd", "")
      [] id = "geodesic:inv" -> Api("", IF s.text = "reversible" THEN "Geodesics::geodesic_inv (reversible layout)" ELSE "Geodesics::geodesic_inv")
      \* chi = 2 atan( tan(pi/4 + phi/2) ((1 - e sin phi)/(1 + e sin phi))^(e/2) ) - pi/2
      [] id = "aux:conformal~closed" -> Api("closed: conformal", "")
      \* the library's own closed forms: gd(isometric latitude) and its Newton inverse; ts() and pj_phi2()
      [] id = "aux:conformal~isometric" -> Api("gudermannian::fwd(Latitudes::latitude_geographic_to_isometric)",
                                               "Latitudes::latitude_isometric_to_geographic(gudermannian::inv)")
      [] id = "aux:conformal~ts" -> Api("pi/2 - 2 atan(ancillary::ts)", "ancillary::pj_phi2(tan(pi/4 - chi/2))")
      \* xi = asin( q(phi) / q(pi/2) )
      [] id = "aux:authalic~closed" -> Api("closed: authalic", "")
      [] id = "aux:authalic~qs" -> Api("asin(ancillary::qs(sin phi) / ancillary::qs(1))", "")
      \* mu = pi/2 * M(phi) / M(pi/2), M by Gauss-Legendre quadrature of the meridian radius of curvature
      [] id = "aux:rectifying~arc" -> Api("quadrature: rectifying", "")
      [] id = "aux:geocentric~closed" -> Api("closed: atan((1 - f)^2 tan(phi))", "")
      [] id = "aux:reduced~closed" -> Api("closed: atan((1 - f) tan(phi))", "")
      [] id \in {"arc:radius~quadrature", "arc:radius_bowring~quadrature"} -> Api("quadrature: meridian arc / latitude", "")
      [] id \in ArcPairs -> Api("quadrature: meridian arc", "")

\* ---- named deviations of the code from the reference (DESIGN 2.3): the prediction with the deviation enabled is route B
\* replaced by DevB; an observation that contradicts the reference and equals this prediction is classified as that
\* finding (if known_findings.json lists it), anything else is a violation.
\*   DEV_rectifying_latitude_scaled_by_Qn: latitude_geographic_to_rectifying returns the meridian arc in units of the
\*   semimajor axis (the rectifying latitude times the normalized meridian arc unit), its inverse expects that
Dev(id) == IF id \in {"aux:rectifying~arc", "arc:series~quadrature"} THEN "DEV_rectifying_latitude_scaled_by_Qn" ELSE ""
DevB(id) == CASE id = "aux:rectifying~arc" -> Api("quadrature: meridian arc / a", "")
              [] id = "arc:series~quadrature" -> Api("quadrature: meridian arc * rectifying radius / a", "")
              [] OTHER -> Api("", "")

\* ---- what is evaluated, per direction
Dirs(id) == CASE IsCurv(id) \/ IsGrav(id) \/ id \in {"geodesic:fwd", "aux:authalic~qs"} \cup QuadrantPairs -> {"F"}
              [] id = "geodesic:inv" -> {"I"}
              [] OTHER -> {"F", "I"}
\* where the input of an inverse comes from: "" = the lattice point itself, "a.F" / "b.F" = a route applied forward to it
Via(id, dir) == CASE dir = "F" -> ""
                  [] Clause(id) = "tm" -> "a.F"
                  [] id = "cart~GeoCart" -> "b.F"
                  [] id \in AuxPairs \cup ArcPairs -> "b.F"
                  [] OTHER -> ""
\* what route A is compared with: route B in the same direction ("b") or the lattice point the input was made from ("origin")
Expect(id, dir) == IF dir = "I" /\ id \in (AuxPairs \cup ArcPairs) \ {"aux:conformal~isometric", "aux:conformal~ts"} THEN "origin" ELSE "b"
\* how the tuples are read: kind of the lattice points
Dk(id) == CASE Clause(id) \in {"tm", "cart", "latitude", "auxlat", "meridian"} -> "lonlat10"      \* lon, lat (1/10 degree), h (m), 0
            [] IsCurv(id) -> "latazi10"                                                    \* lat, azimuth (1/10 degree)
            [] IsGrav(id) -> "lath"                                                        \* lat (1/10 degree), height (m)
            [] id = "geodesic:fwd" -> "geodfwd"                                            \* lat, lon, azimuth (1/10 degree), distance (m)
            [] id = "geodesic:inv" -> "geodinv"                                            \* lat, lon, lat, lon (1/10 degree)
\* how two results are compared: jointly ("plane": metres in the plane; "ground2" / "ground3": geographical tuples,
\* metres on the ground without / with the height), or element by element:
\*   "skip" | "bits" | "len" (metres, magnitude a) | "rad" (radians, mod 2 pi, magnitude pi) | "deg" (degrees, mod 360, magnitude 180)
\*   | "num" (magnitude 1)
El(a, b, c, d) == <<a, b, c, d>>
Cmp(id, s, dir) ==
    CASE Clause(id) = "tm" -> [joint |-> IF dir = "F" THEN "plane" ELSE "ground2", el |-> El("skip", "skip", "skip", "skip")]
      [] id = "cart~GeoCart" -> IF dir = "F" THEN [joint |-> "", el |-> El("bits", "bits", "bits", "bits")]
                                ELSE [joint |-> "ground3", el |-> El("skip", "skip", "skip", "skip")]
      [] IsLat(id) \/ id \in AuxPairs -> [joint |-> "", el |-> El("skip", "rad", "skip", "skip")]
      [] IsCurv(id) -> [joint |-> "", el |-> El("len", "skip", "skip", "skip")]
      [] IsGrav(id) -> [joint |-> "", el |-> El("num", "skip", "skip", "skip")]
      \* forward: latitude and longitude of the destination, degrees
      [] id = "geodesic:fwd" -> [joint |-> "", el |-> El("deg", "deg", "skip", "skip")]
      \* inverse: azimuth at the origin, azimuth at the destination, distance, return azimuth;
      \* reversible: the destination, the return azimuth, the distance
      [] id = "geodesic:inv" -> [joint |-> "", el |-> IF s.text = "reversible" THEN El("deg", "deg", "deg", "len") ELSE El("deg", "deg", "len", "deg")]
      [] id \in ArcPairs -> [joint |-> "", el |-> IF dir = "F" THEN El("skip", "len", "skip", "skip") ELSE El("skip", "rad", "skip", "skip")]
\* what the compared output is: a length or an angle (the statement gives metres for the one, radians for the other)
Modes(id, s, dir) == {Cmp(id, s, dir).el[i] : i \in 1..4} \ {"skip"}
Out(id, s, dir) == IF "len" \in Modes(id, s, dir) \/ Cmp(id, s, dir).joint # "" THEN "len" ELSE "ang"
\* the accuracy class of the catalogue, per pair and direction (ClassInv compares it with the statement)
Class(id, dir) ==
    CASE id \in {"tmerc~btmerc", "utm~butm"} -> "submm"
      [] id = "cart~GeoCart" -> IF dir = "F" THEN "identical" ELSE "submm"
      [] IsLat(id) \/ IsCurv(id) \/ IsGrav(id) \/ id \in {"geodesic:fwd", "geodesic:inv"} -> "rounding"
      [] id \in AuxPairs -> "aux"
      [] id \in ArcPairs -> IF dir = "F" THEN "arc" ELSE "aux"

\* ---- ellipsoids: heights and distances of the lattices are metres, meaningless on the sphere of radius 1 m
EllpsFor(id) == IF id \in {"cart~GeoCart", "geodesic:fwd", "geodesic:inv"} THEN Ellps \ {"unitsphere"} ELSE Ellps

(***************************************************************************)
(* Lattices: blocks of four axes; a point is Mk(axis tuple)                *)
(***************************************************************************)
Lats89 == IF Q THEN Range(-800, 800, 100) \cup {-890, -455, -10, 5, 555, 890}
          ELSE Range(-850, 850, 50) \cup {-890, -455, -10, 5, 555, 890}
Lats90 == Lats89 \cup {-900, 900}
EveryDegree89 == IF Q THEN Range(-850, 850, 50) \cup {-890, -455, -10, 5, 555, 890} ELSE Range(-890, 890, 10)
EveryDegree90 == EveryDegree89 \cup {-900, 900}
DLon3 == IF Q THEN {-30, -20, -10, 0, 5, 15, 30} ELSE Range(-30, 30, 5)
LonsGlobe == IF Q THEN {-1800, -300, 0, 455, 1205} ELSE {-1800, -1500, -900, -300, -5, 0, 455, 1205, 1790}
Heights == IF Q THEN {-10000, 0, 8848, 100000} ELSE {-10000, -100, 0, 1000, 8848, 50000, 100000}
Azimuths == IF Q THEN {0, 450, 900, 2250} ELSE {0, 300, 450, 900, 1350, 1800, 2250, 3590}
GravHeights == IF Q THEN {0, 8848} ELSE {-400, 0, 100, 8848}
GeodLats == IF Q THEN {-330, 0, 550, 890} ELSE {-800, -330, 0, 10, 550, 890}
GeodDists == IF Q THEN {1000, 1000000, 10000000} ELSE {1, 1000, 100000, 1000000, 5000000, 10000000}
GeodLats1 == IF Q THEN {-330, 0, 550} ELSE {-500, -330, 0, 10, 550}
GeodDLat == IF Q THEN {-400, 10, 300} ELSE {-400, -50, 10, 300}
GeodDLon == IF Q THEN {-600, 20, 900} ELSE {-600, -10, 20, 450, 900}

Blk(a, b, c, d) == <<a, b, c, d>>
Blocks(id, s) ==
    CASE Clause(id) = "tm" -> <<Blk(DLon3, Lats89, {0}, {0})>>
      [] id = "cart~GeoCart" -> <<Blk(LonsGlobe, Lats90, Heights, {0})>>
      [] IsLat(id) -> <<Blk({120}, EveryDegree90, {0}, {0})>>
      [] IsCurv(id) -> <<Blk(Lats90, IF FlagOf(id) = "azimuthal" THEN Azimuths ELSE {0}, {0}, {0})>>
      [] IsGrav(id) -> <<Blk(Lats90, IF ZeroH(s) THEN {0, 1000} ELSE GravHeights, {0}, {0})>>
      [] id = "geodesic:fwd" -> <<Blk(GeodLats, {120, -1000}, Azimuths, GeodDists)>>
      \* origin, and the differences to the destination: never both zero (the azimuths of a null geodesic are undefined)
      [] id = "geodesic:inv" -> <<Blk(GeodLats1, {120, -1000}, GeodDLat, GeodDLon \cup {0}), Blk(GeodLats1, {120, -1000}, {0}, GeodDLon)>>
      [] id \in AuxPairs -> <<Blk({0}, EveryDegree89, {0}, {0})>>
      [] id \in QuadrantPairs -> <<Blk({0}, {900}, {0}, {0})>>
      [] id = "arc:tmerc~quadrature" -> <<Blk({0}, EveryDegree89, {0}, {0})>>
      [] id \in ArcPairs -> <<Blk({0}, EveryDegree90, {0}, {0})>>
\* longitudes (tenths of a degree) are WRITTEN in [-180, 180]: next to a central meridian of 179 the lattice crosses the date line
W10(l) == IF l > 1800 THEN l - 3600 ELSE IF l < -1800 THEN l + 3600 ELSE l
DLon10(l, l0) == LET d == IF l - l0 < 0 THEN l0 - l ELSE l - l0 IN IF d > 1800 THEN 3600 - d ELSE d
Mk(id, s, t) ==
    CASE Clause(id) = "tm" -> <<W10(10 * s.lon0 + t[1]), t[2], t[3], t[4]>>
      [] id = "geodesic:inv" -> <<t[1], t[2], t[1] + t[3], t[2] + t[4]>>
      [] OTHER -> t
Prod(b) == {<<w, x, y, z>> : w \in b[1], x \in b[2], y \in b[3], z \in b[4]}
Pts(id, s) == {Mk(id, s, t) : t \in UNION {Prod(Blocks(id, s)[i]) : i \in DOMAIN Blocks(id, s)}}
Size(b) == Cardinality(b[1]) * Cardinality(b[2]) * Cardinality(b[3]) * Cardinality(b[4])
RECURSIVE SumSizes(_, _)
SumSizes(bs, i) == IF i > Len(bs) THEN 0 ELSE Size(bs[i]) + SumSizes(bs, i + 1)

\* the common domain of the two routes, as far as the statement gives it
InDomain(id, s, p) ==
    CASE Clause(id) = "tm" -> DLon10(p[1], 10 * s.lon0) <= 30 /\ Abs(p[2]) <= 890                  \* within three degrees of the central meridian
      [] id = "cart~GeoCart" -> Abs(p[2]) <= 900 /\ p[3] >= -10000 /\ p[3] <= 100000           \* up to 100 km height, poles included
      [] IsLat(id) -> Abs(p[2]) <= 900
      [] IsCurv(id) -> Abs(p[1]) <= 900 /\ p[2] >= 0 /\ p[2] < 3600
      [] IsGrav(id) -> Abs(p[1]) <= 900 /\ p[2] >= -500 /\ p[2] <= 9000
      [] id = "geodesic:fwd" -> Abs(p[1]) <= 900 /\ p[4] > 0 /\ p[4] <= 10000000                 \* well away from the antipode
      [] id = "geodesic:inv" -> Abs(p[1]) <= 900 /\ Abs(p[3]) <= 900 /\ Abs(p[4] - p[2]) <= 900 /\ <<p[1], p[2]>> # <<p[3], p[4]>>
      [] id \in AuxPairs \cup {"arc:tmerc~quadrature"} -> Abs(p[2]) <= 890                        \* away from the poles
      [] id \in ArcPairs -> Abs(p[2]) <= 900

(***************************************************************************)
(* Enumeration                                                             *)
(***************************************************************************)
CONSTANT Explore          \* the pairs explored by this instance
ExploreC == TLCEval(Explore)
VARIABLES pair, shp, el, pt, dir
vars == <<pair, shp, el, pt, dir>>
NoPt == <<>>

Init == /\ pair \in ExploreC /\ shp \in Shapes(pair) /\ el \in EllpsFor(pair) /\ pt = NoPt /\ dir = "-"
\* one obligation: a lattice point and a direction
Pick == /\ pt = NoPt
        /\ \E p \in Pts(pair, shp), d \in Dirs(pair) : pt' = p /\ dir' = d
        /\ UNCHANGED <<pair, shp, el>>
Next == Pick
Spec == Init /\ [][Next]_vars

\* every pair the statement names is in the catalogue and explored
ASSUME ExploreC \subseteq Pairs
ASSUME \A id \in Pairs : Clause(id) \in Clauses
ASSUME \A n \in Named : \E id \in ExploreC : NamedOf(Clause(id)) = n
StatementInv == NamedOf(Clause(pair)) \in Named
\* every lattice point lies inside the common domain
DomainInv == pt # NoPt => InDomain(pair, shp, pt)
\* the accuracy classes are those of the statement
ClassInv == pt # NoPt =>
    /\ Class(pair, dir) \in Classes
    /\ Class(pair, dir) = StatementClass(Clause(pair), dir, Out(pair, shp, dir))
    \* the way of comparing fits the unit of the class
    /\ LET c == Cmp(pair, shp, dir)  u == Tol(Class(pair, dir)).unit  ms == Modes(pair, shp, dir)
       IN  /\ c.joint \in {"", "plane", "ground2", "ground3"}
           /\ (c.joint # "" => u = "m" /\ ms = {})
           /\ (c.joint = "" => /\ ms # {}
                                /\ (u = "bits" => ms = {"bits"})
                                /\ (u = "m" => ms = {"len"})
                                /\ (u = "rad" => ms = {"rad"})
                                /\ (u = "rel" => ms \subseteq {"len", "rad", "deg", "num"}))
    /\ (Clause(pair) = "tm" => Tol(Class(pair, dir)) = [m |-> 1, e |-> -3, unit |-> "m"])
    /\ (Clause(pair) = "cart" => IF dir = "F" THEN Tol(Class(pair, dir)).unit = "bits" ELSE Tol(Class(pair, dir)) = [m |-> 1, e |-> -3, unit |-> "m"])
    /\ (Clause(pair) \in {"latitude", "curvature", "geodesic", "gravity"} => Tol(Class(pair, dir)).unit = "rel")
    /\ (Clause(pair) \in {"auxlat", "meridian"} => Tol(Class(pair, dir)) \in {[m |-> 1, e |-> -11, unit |-> "rad"], [m |-> 1, e |-> -6, unit |-> "m"]})
    \* a route exists in the direction it is asked for
    /\ RouteA(pair, shp, el)[dir] # ""
    /\ (Expect(pair, dir) = "b" => RouteB(pair, shp, el)[dir] # "")
    /\ (Via(pair, dir) = "b.F" => RouteB(pair, shp, el).F # "")
    \* ... also in the prediction with the pair's deviation switch enabled
    /\ (Dev(pair) # "" => /\ (Expect(pair, dir) = "b" => DevB(pair)[dir] # "")
                          /\ (Via(pair, dir) = "b.F" => DevB(pair).F # ""))
\* the number of obligations of a configuration is the product of its axes (no two lattice coordinates collapse)
CountInv == pt = NoPt => /\ Cardinality(Pts(pair, shp)) = SumSizes(Blocks(pair, shp), 1)
                         /\ Pts(pair, shp) # {} /\ Dirs(pair) # {}

DirRec(d) == [dir |-> d, cls |-> Class(pair, d), tol |-> Tol(Class(pair, d)), via |-> Via(pair, d), expect |-> Expect(pair, d),
              cmp |-> Cmp(pair, shp, d)]
Emit == pt = NoPt =>
    PrintT(<<"ROUTE", ToJson([pair |-> pair, clause |-> Clause(pair), shape |-> shp.text, ellps |-> el,
                              a |-> RouteA(pair, shp, el), b |-> RouteB(pair, shp, el), dk |-> Dk(pair),
                              dev |-> [name |-> Dev(pair), b |-> DevB(pair)],
                              dirs |-> {DirRec(d) : d \in Dirs(pair)}, pts |-> Pts(pair, shp),
                              n |-> Cardinality(Pts(pair, shp)) * Cardinality(Dirs(pair))])>>)
=============================================================================
