SPECIFICATION SxSpec
CONSTANTS
  NaN = NaN
  Cases <- WideCases
  SxResources <- Res
  MaxChoices = 1
  MacroPairs <- Pairs
  IndexedKeys <- Indexed
INVARIANTS TypeOK RoundTrip LexSafe EmitSx
CHECK_DEADLOCK FALSE
