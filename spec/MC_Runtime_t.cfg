SPECIFICATION Spec
CONSTANTS
  Kinds = {"op", "opinv", "oneway", "stack"}
  Omits = {"none", "of", "oi"}
  Ns = {0, 2}
  QLens = {0, 1, 2}
INVARIANTS RTypeOK OrderInv CountInv HonestInv NestInv EndInv DirInv PlanInv
CHECK_DEADLOCK TRUE
