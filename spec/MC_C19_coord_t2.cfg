SPECIFICATION Spec
CONSTANTS
  NaN = NaN
  PInf = PInf
  NInf = NInf
  NZero = NZero
  Fine = Fine
  Huge = Huge
  Tiny = Tiny
  Modes <- ModesAll
  SetKinds <- KindsAll
  TupKinds <- TKindsAll
  N = 2
  MaxOps = 2
  SetValues <- SetVals5
  TupValues <- TupVals3
  ArithCases <- Arith
INVARIANTS TypeOK SetRefInv SetRoundTripInv SetMissingInv SetFrameInv StompInv TupRefInv TupRangeInv TupRoundTripInv ArithInv Emit
CHECK_DEADLOCK FALSE
