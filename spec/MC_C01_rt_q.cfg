SPECIFICATION Spec
CONSTANTS
  Tier = "q"
  Fams <- AllFams
INVARIANTS DomainInv ClassInv Emit
CHECK_DEADLOCK FALSE
