SPECIFICATION Spec
CONSTANTS
  Graphs <- Chains
  L = 13
INVARIANTS DepthInv Emit
PROPERTY Termination
CHECK_DEADLOCK FALSE
