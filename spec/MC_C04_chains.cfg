SPECIFICATION Spec
CONSTANTS
  Graphs <- ChainsAndFans
  L = 13
INVARIANTS DepthInv Emit
PROPERTY Termination
CHECK_DEADLOCK FALSE
