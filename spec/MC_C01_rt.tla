------------------------------ MODULE MC_C01_rt ------------------------------
(* C01, validated assumption: every family of spec/RoundTrip.tla *)
EXTENDS RoundTrip
AllFams == Families
=============================================================================
