SPECIFICATION Spec
CONSTANTS
  NaN = NaN
  Cores <- CoresT
  Epochs <- EpochsT
  MaxTuples = 4
  MaxFormTuples = 3
  Pos <- Positions
  DevAccumulate = FALSE
INVARIANTS IsoInv TypeOK ValidityInv AliasInv OwnEpochInv FourthInv RoundTripInv TObsInv FrozenInv ConvInv EmitDef EmitRun
CHECK_DEADLOCK FALSE
