SPECIFICATION Spec
INVARIANTS PrecedenceInv Emit
CHECK_DEADLOCK FALSE
