SPECIFICATION Spec
INVARIANTS PrecedenceInv UnknownInv Emit
CHECK_DEADLOCK FALSE
