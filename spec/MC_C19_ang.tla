----------------------------- MODULE MC_C19_ang -----------------------------
(* Bounded instances of Angular: which lattice segments are walked. *)
EXTENDS Angular, IOUtils

Seg(sg, d, r, kk, n) == [sg |-> sg, d |-> d, r |-> r, k |-> kk, n |-> n, x |-> 0]
Signs == {1, -1}

\* every whole arc-second of |angle| < D degrees (and D itself): one segment per minute
ArcSecs(dlo, dhi, mlo, mhi) == {Seg(sg, d, m * MIN, SEC, 59) : sg \in Signs, d \in dlo..dhi, m \in mlo..mhi}
\* every whole arc-minute of the degrees dlo..dhi: one segment per degree
ArcMins(dlo, dhi) == {Seg(sg, d, 0, MIN, 59) : sg \in Signs, d \in dlo..dhi}
\* every whole degree 0..720, one long walk per sign
WholeDegrees == {Seg(sg, 0, 0, DEG, 720) : sg \in Signs}
Ends == {Seg(sg, 720, 0, 1, 0) : sg \in Signs}

\* carry neighbourhoods, 1 mas apart: d 59'59.990" .. (d+1) 0'0.010",
\* d m'59.990" .. d (m+1)'0.010", and in thousandths of a minute d 59.990' .. (d+1) 0.010'
DegCarry(Ds)     == {Seg(sg, d, DEG - 10, 1, IF d = 719 THEN 10 ELSE 20) : sg \in Signs, d \in Ds}
MinCarry(Ds, Ms) == {Seg(sg, d, m * MIN + MIN - 10, 1, 20) : sg \in Signs, d \in Ds, m \in Ms}
DecMinCarry(Ds)  == {Seg(sg, d, DEG - 600, 60, IF d = 719 THEN 10 ELSE 20) : sg \in Signs, d \in Ds}
DecMinCarryM(Ds, Ms) == {Seg(sg, d, m * MIN + MIN - 600, 60, 20) : sg \in Signs, d \in Ds, m \in Ms}
\* around zero, from +0 and from -0
NearZero == {Seg(sg, 0, 0, 1, 30) : sg \in Signs} \cup {Seg(sg, 0, 0, 60, 30) : sg \in Signs}

\* "at random": pseudo-random walks (Angular!Jump) started from VERIF_SEED
SeedN == IF "VERIF_SEED" \in DOMAIN IOEnv THEN atoi(IOEnv.VERIF_SEED) ELSE 1
RandomSegs(chains, n) == {[sg |-> 1, d |-> 0, r |-> 0, k |-> 0, n |-> n, x |-> ((SeedN + 7919 * j) % 65536) + 1] : j \in 1..chains}

Special == {0, 1, 2, 9, 10, 59, 60, 89, 90, 99, 100, 179, 180, 181, 269, 270, 359, 360, 361, 539, 540, 719}

SegQuick == ArcSecs(0, 0, 0, 19) \cup ArcSecs(1, 1, 0, 1) \cup ArcMins(0, 29) \cup WholeDegrees \cup Ends
            \cup DegCarry({d \in 0..719 : d % 10 = 9} \cup Special)
            \cup DecMinCarry({d \in 0..719 : d % 20 = 9} \cup Special)
            \cup MinCarry({0, 1, 179}, {0, 29, 58}) \cup DecMinCarryM({0, 12}, {0, 58})
            \cup NearZero \cup RandomSegs(8, 100)

SegThorough == ArcSecs(0, 9, 0, 59) \cup ArcSecs(179, 180, 0, 59) \cup ArcMins(0, 719) \cup WholeDegrees \cup Ends
               \cup DegCarry(0..719) \cup DecMinCarry(0..719)
               \cup MinCarry({0, 1, 2, 59, 89, 90, 179, 180, 359, 360, 539, 719}, 0..58)
               \cup DecMinCarryM({0, 1, 12, 89, 180, 359}, 0..58)
               \cup NearZero \cup RandomSegs(16, 4000)
=============================================================================
