SPECIFICATION Spec
CONSTANTS
  SingleLattice = "full"
  Scenarios <- ScenT
  KOff <- KOffT
  KIn <- KInT
INVARIANTS WellFormedInv NodeInv RangeInv ContinuityInv LinearInv MarginInv FirstHitInv DeepestInv SubgridContinuityInv ConvInv EmptyListInv EmptyListWitness SpellingInv SiblingInv EmitSc
CHECK_DEADLOCK FALSE
