SPECIFICATION Spec
CONSTANTS
  NaN = NaN
  Progs <- ProgsCorner
  Resources <- Res
  Globals <- NoGlobals
  Data0 <- D2
  LoneSpelled <- LoneSet
  Styles <- StylesCorner
INVARIANTS RefInv ReversalInv CountInv RoundTripInv ExpansionInv Emit
CHECK_DEADLOCK FALSE
