------------------------------- MODULE MC_C11 -------------------------------
EXTENDS Adapt
NoSuffix == {D \in Descriptors : D.suf = ""}
SufQ == {D \in Descriptors : D.suf \in {"", "_deg", "_gon"}}
All == Descriptors
\* a spread of `from` descriptors for the quick tier: every permutation and sign, two suffixes
FromQ == {D \in Descriptors : D.suf \in {"", "_deg"}}
=============================================================================
