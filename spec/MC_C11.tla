------------------------------- MODULE MC_C11 -------------------------------
EXTENDS Adapt
NoSuffix == {D \in Descriptors : D.suf = ""}
SufQ == {D \in Descriptors : D.suf \in {"", "_deg", "_gon"}}
All == Descriptors
\* a spread of `from` descriptors for the quick tier: every permutation and sign, two suffixes
HorizFirst(D) == {D.ax[1], D.ax[2]} = {1, 2}
\* quick: every axis order and sign combination without suffix, plus the
\* unit-carrying forms the documentation shows (horizontal axes first)
FromQ == {D \in Descriptors : D.suf = "" \/ (D.suf = "_deg" /\ HorizFirst(D))}
ToQ   == {D \in Descriptors : D.suf = "" \/ (D.suf \in {"_deg", "_gon"} /\ HorizFirst(D))}
=============================================================================
