SPECIFICATION Spec
CONSTANTS
  Files <- FilesT
INVARIANTS FrameRuleInv FrameRuleWitness RoundTripInv LayoutInv LengthInv TotalityInv TruncInv SpelledInv SpelledWitness QueryTotalInv PlainInv EmitFile
CHECK_DEADLOCK FALSE
