SPECIFICATION Spec
CONSTANTS
  Files <- FilesT
INVARIANTS RoundTripInv LayoutInv LengthInv TotalityInv TruncInv EmitFile
CHECK_DEADLOCK FALSE
