SPECIFICATION Spec
CONSTANTS
  Files <- FilesT
INVARIANTS FrameRuleInv FrameRuleWitness RoundTripInv LayoutInv LengthInv TotalityInv TruncInv EmitFile
CHECK_DEADLOCK FALSE
