------------------------------ MODULE GridFile ------------------------------
(***************************************************************************)
(* C15.  The layout relation between abstract grids (Grid.tla) and files:  *)
(*                                                                         *)
(*  Gravsoft text: six header numbers  lat_s lat_n lon_w lon_e dlat dlon,  *)
(*  then the node values row-major from the north-west corner, bands       *)
(*  interleaved (northing before easting before up); any whitespace and    *)
(*  line layout; `#` starts a comment that runs to the end of the line.    *)
(*                                                                         *)
(*  NTv2 binary: 16-byte records (8-byte key, value); 11 overview records, *)
(*  then per sub-grid 11 header records and GS_COUNT node records, the     *)
(*  sub-grids in any order, either byte order; nodes from the south-east   *)
(*  corner westwards then northwards; longitudes and longitude shifts      *)
(*  count positive WEST; arc-seconds; an END record closes the file.       *)
(*                                                                         *)
(* Encode / Decode are defined on structured files (items, records) whose  *)
(* rendering to characters / bytes is mechanical (texts are built here,    *)
(* the harness's encoder must produce the very same texts and values).     *)
(* Fault actions damage a file; the only admissible outcomes of decoding a *)
(* damaged file are an error or a grid that can be queried safely.         *)
(***************************************************************************)
EXTENDS Grid

\* ---- numbers as a reader sees them ------------------------------------------
Fin(v) == [k |-> "fin", v |-> v]
Bad    == [k |-> "bad", v |-> 0]       \* not a number (unparsable token, NaN)
Inf    == [k |-> "inf", v |-> 0]
IsFin(a) == a.k = "fin"

\* ---- texts --------------------------------------------------------------------
\* the frame the integer model is laid into (as in the harness):
\* angular: U = 1/64 degree, origin lon 10, lat 50; projected: U = 1 m, origin (600000, 500000)
\* further projected frames put one pair of boundaries inside [-720, 720]: a grid is projected as soon as
\* ANY of its four boundaries is outside that range (ProjectedByRule below)
LON0 == 10   LAT0 == 50   X0 == 600000   Y0 == 500000
XOrg(frame) == CASE frame = "projected_w0" -> 0 [] frame = "projected_neg" -> -300 [] OTHER -> X0
YOrg(frame) == CASE frame = "projected_s0" -> 0 [] frame = "projected_neg" -> -Y0 [] OTHER -> Y0
Abs(a) == IF a < 0 THEN -a ELSE a
Pad6(n) == LET s == ToString(n) IN
           CASE n < 10 -> "00000" \o s [] n < 100 -> "0000" \o s [] n < 1000 -> "000" \o s
             [] n < 10000 -> "00" \o s [] n < 100000 -> "0" \o s [] OTHER -> s
Fixed6(micro) == (IF micro < 0 THEN "-" ELSE "") \o ToString(Abs(micro) \div 1000000) \o "." \o Pad6(Abs(micro) % 1000000)
XText(frame, x) == IF frame = "angular" THEN Fixed6((LON0 * 64 + x) * 15625) ELSE ToString(XOrg(frame) + x)
YText(frame, y) == IF frame = "angular" THEN Fixed6((LAT0 * 64 + y) * 15625) ELSE ToString(YOrg(frame) + y)
DText(frame, d) == IF frame = "angular" THEN Fixed6(d * 15625) ELSE ToString(d)
\* node value in file units: node / scale (scale 4096: multiples of 1/64; scale 1: integers)
ValueText(node, scale) == IF scale = 1 THEN ToString(node) ELSE Fixed6((node \div 64) * 15625)

RECURSIVE Concat(_)
Concat(ss) == IF Len(ss) = 0 THEN "" ELSE ss[1] \o Concat(Tail(ss))
RECURSIVE Flatten(_)
Flatten(ss) == IF Len(ss) = 0 THEN <<>> ELSE ss[1] \o Flatten(Tail(ss))
RECURSIVE SumSeq(_)
SumSeq(s) == IF Len(s) = 0 THEN 0 ELSE s[1] + SumSeq(Tail(s))

\* the reader's rule for telling projected grids from angular ones: any of the four boundaries (in file
\* units: degrees or metres) outside [-720, 720]
BoundsOf(g, frame) ==
    IF frame = "angular" THEN {LAT0 * 64 + South(g), LAT0 * 64 + g.n, LON0 * 64 + g.w, LON0 * 64 + East(g)}
    ELSE {64 * (YOrg(frame) + South(g)), 64 * (YOrg(frame) + g.n), 64 * (XOrg(frame) + g.w), 64 * (XOrg(frame) + East(g))}
ProjectedByRule(g, frame) == \E b \in BoundsOf(g, frame) : Abs(b) > 720 * 64
\* ... while a slip from `any` to `all` would be visible in this model
AllBoundsLarge(g, frame) == \A b \in BoundsOf(g, frame) : Abs(b) > 720 * 64

\* ---- Gravsoft -----------------------------------------------------------------
\* a line is a sequence of items: numbers, separators, comments
NumI(s, v)  == [t |-> "num", s |-> s, v |-> Fin(v)]
SepI(s)     == [t |-> "sep", s |-> s, v |-> Bad]
CmtI(s)     == [t |-> "cmt", s |-> s, v |-> Bad]

\* the header under a spelling (Grid.tla: Spellings): the two bounds of an axis exchange their slots
HeaderItemsSp(g, frame, sp) ==
    LET s == NumI(YText(frame, South(g)), South(g))  n == NumI(YText(frame, g.n), g.n)
        w == NumI(XText(frame, g.w), g.w)            e == NumI(XText(frame, East(g)), East(g))
    IN << IF HasNS(sp) THEN n ELSE s, IF HasNS(sp) THEN s ELSE n, IF HasEW(sp) THEN e ELSE w, IF HasEW(sp) THEN w ELSE e,
          NumI(DText(frame, g.dy), g.dy), NumI(DText(frame, g.dx), g.dx) >>
HeaderItems(g, frame) == HeaderItemsSp(g, frame, "asc")
RowItems(g, r, scale) ==
    Flatten([c \in 1..g.cols |-> [b \in 1..g.bands |-> NumI(ValueText(g.nodes[r][c][b], scale), g.nodes[r][c][b])]])

RECURSIVE Join(_, _)
Join(items, sep) == IF Len(items) <= 1 THEN items ELSE <<items[1], SepI(sep)>> \o Join(Tail(items), sep)

\* The layouts ("~" stands for a TAB character; lines are joined with the
\* layout's end-of-line, which also ends the file iff FinalEol)
Layouts == 0..3
Eol(layout)      == IF layout = 2 THEN "crlf" ELSE "lf"
FinalEol(layout) == layout \in {0, 1}
GravsoftLinesSp(g, frame, scale, layout, sp) ==
    LET H == HeaderItemsSp(g, frame, sp)
        R == [r \in 1..g.rows |-> RowItems(g, r, scale)]
        All == H \o Flatten(R)
    IN CASE layout = 0 -> << Join(H, " "), <<>> >> \o [r \in 1..g.rows |-> <<SepI("    ")>> \o Join(R[r], "  ")]
         [] layout = 1 -> << <<CmtI("# gravsoft 1 2 3")>>, Join(H, "~") \o <<SepI(" "), CmtI("# 9 8 7")>>, <<>> >>
                          \o [r \in 1..g.rows |-> Join(R[r], "~") \o <<SepI(" "), CmtI("#r")>>]
                          \o << <<CmtI("# end 42")>> >>
         [] layout = 2 -> [i \in 1..Len(All) |-> <<All[i]>>]
         [] layout = 3 -> << <<>>, <<>>, Join(All, " ") >>
GravsoftLines(g, frame, scale, layout) == GravsoftLinesSp(g, frame, scale, layout, "asc")

LineText(line) == Concat([i \in 1..Len(line) |-> line[i].s])
TextOf(lines) == [i \in 1..Len(lines) |-> LineText(lines[i])]
EolLen(layout) == IF Eol(layout) = "crlf" THEN 2 ELSE 1
TextLen(lines, layout) ==
    SumSeq([i \in 1..Len(lines) |-> Len(LineText(lines[i]))])
    + EolLen(layout) * (Len(lines) - (IF FinalEol(layout) THEN 0 ELSE 1))

\* what a reader sees: the numbers outside comments, in order
VisibleNums(line) ==
    LET firstCmt == IF \E i \in 1..Len(line) : line[i].t = "cmt"
                    THEN MinOf({i \in 1..Len(line) : line[i].t = "cmt"}) ELSE Len(line) + 1
    IN SelectSeq(SubSeq(line, 1, firstCmt - 1), LAMBDA it : it.t = "num")
NumsOf(lines) == Flatten([i \in 1..Len(lines) |-> [k \in 1..Len(VisibleNums(lines[i])) |-> VisibleNums(lines[i])[k].v]])

Err == [ok |-> FALSE, subs |-> <<>>]
\* the documented decode rule
DecodeGravsoft(lines) ==
    LET N == NumsOf(lines) IN
    IF Len(N) < 6 \/ \E i \in 1..Len(N) : ~IsFin(N[i]) THEN Err
    ELSE LET s == N[1].v n == N[2].v w == N[3].v e == N[4].v dy == Abs(N[5].v) dx == Abs(N[6].v) count == Len(N) - 6 IN
         IF dy = 0 \/ dx = 0 \/ n <= s \/ e <= w \/ (n - s) % dy # 0 \/ (e - w) % dx # 0 THEN Err
         ELSE LET rows == (n - s) \div dy + 1  cols == (e - w) \div dx + 1 IN
              IF count = 0 \/ count % (rows * cols) # 0 \/ count \div (rows * cols) > 3 THEN Err
              ELSE LET bands == count \div (rows * cols) IN
                   [ok |-> TRUE, subs |-> << [name |-> "", parent |-> "NONE", n |-> n, w |-> w, dy |-> dy, dx |-> dx,
                        rows |-> rows, cols |-> cols, bands |-> bands,
                        nodes |-> [r \in 1..rows |-> [c \in 1..cols |-> [b \in 1..bands |->
                                     N[6 + ((r - 1) * cols + (c - 1)) * bands + b].v]]]] >>]

Geometry(g) == [name |-> g.name, parent |-> g.parent, n |-> g.n, w |-> g.w, dy |-> g.dy, dx |-> g.dx,
                rows |-> g.rows, cols |-> g.cols, bands |-> g.bands, nodes |-> g.nodes]

\* ---- NTv2 ----------------------------------------------------------------------
\* records: [key, t, i (integer value), s (string value), a, b (numbers)]
IntR(key, i)    == [key |-> key, t |-> "int",  i |-> i, s |-> "",  a |-> Bad, b |-> Bad]
StrR(key, s)    == [key |-> key, t |-> "str",  i |-> 0, s |-> s,   a |-> Bad, b |-> Bad]
\* a real: model units (U for positions and increments); the file holds arc-seconds, longitudes west-positive
RealR(key, v)   == [key |-> key, t |-> "real", i |-> 0, s |-> "",  a |-> v,   b |-> Bad]
NodeR(lat, lon) == [key |-> "",  t |-> "node", i |-> 0, s |-> "",  a |-> Fin(lat), b |-> Fin(lon)]
EndR            == [key |-> "END", t |-> "end", i |-> 0, s |-> "", a |-> Bad, b |-> Bad]

Overview(n) == << IntR("NUM_OREC", 11), IntR("NUM_SREC", 11), IntR("NUM_FILE", n), StrR("GS_TYPE", "SECONDS"),
                  StrR("VERSION", "GVH"), StrR("SYSTEM_F", "MODEL_F"), StrR("SYSTEM_T", "MODEL_T"),
                  RealR("MAJOR_F", Fin(0)), RealR("MINOR_F", Fin(0)), RealR("MAJOR_T", Fin(0)), RealR("MINOR_T", Fin(0)) >>
\* longitudes are written west-positive: the record holds -x
SubHeaderSp(g, sp) ==
                << StrR("SUB_NAME", g.name), StrR("PARENT", g.parent), StrR("CREATED", "20260927"), StrR("UPDATED", "20260927"),
                   RealR("S_LAT", Fin(IF HasNS(sp) THEN g.n ELSE South(g))), RealR("N_LAT", Fin(IF HasNS(sp) THEN South(g) ELSE g.n)),
                   RealR("E_LONG", Fin(IF HasEW(sp) THEN -g.w ELSE -East(g))), RealR("W_LONG", Fin(IF HasEW(sp) THEN -East(g) ELSE -g.w)),
                   RealR("LAT_INC", Fin(g.dy)), RealR("LONG_INC", Fin(g.dx)), IntR("GS_COUNT", g.rows * g.cols) >>
SubHeader(g) == SubHeaderSp(g, "asc")
\* nodes from the south-east corner, westwards, then northwards
SubNodes(g) == [k \in 1..(g.rows * g.cols) |->
                   LET r == g.rows - ((k - 1) \div g.cols)   c == g.cols - ((k - 1) % g.cols)
                   IN NodeR(g.nodes[r][c][1], g.nodes[r][c][2])]
\* spells[i]: the spelling of the header of sub-grid i (the node records stay in file order)
EncodeNtv2Sp(f, order, spells) ==
    Overview(Len(f)) \o Flatten([k \in 1..Len(order) |-> SubHeaderSp(f[order[k]], spells[order[k]]) \o SubNodes(f[order[k]])]) \o <<EndR>>
EncodeNtv2(f, order) == EncodeNtv2Sp(f, order, [i \in 1..Len(f) |-> "asc"])
ByteLen(recs) == 16 * Len(recs)
\* byte offsets (0-based) of the header records: the overview and every sub-grid header
HeaderOffsets(f, order) ==
    LET RECURSIVE Start(_)
        Start(k) == IF k = 1 THEN 11 ELSE Start(k - 1) + 11 + f[order[k - 1]].rows * f[order[k - 1]].cols
    IN (0..175) \cup UNION {{16 * Start(k) + j : j \in 0..175} : k \in 1..Len(order)}

IsRec(recs, i, key, t) == i <= Len(recs) /\ recs[i].key = key /\ recs[i].t = t

\* the documented decode rule; returns the set of sub-grids (file order is irrelevant)
RECURSIVE DecodeSubs(_, _, _, _)
DecodeSubs(recs, pos, k, acc) ==
    IF k = 0 THEN [ok |-> TRUE, subs |-> acc]
    ELSE IF pos + 10 > Len(recs) THEN Err
    ELSE LET h == [j \in 1..11 |-> recs[pos + j - 1]] IN
         IF \/ h[1].t # "str" \/ h[2].t # "str" \/ h[11].t # "int"
            \/ \E j \in 5..10 : h[j].t # "real" \/ ~IsFin(h[j].a)
            \/ h[1].s = "?" \/ h[2].s = "?"                 \* names that are not text
         THEN Err
         ELSE LET s == h[5].a.v  n == h[6].a.v  e == -h[7].a.v  w == -h[8].a.v  dy == h[9].a.v  dx == h[10].a.v  cnt == h[11].i IN
              IF dy <= 0 \/ dx <= 0 \/ n <= s \/ e <= w \/ (n - s) % dy # 0 \/ (e - w) % dx # 0 THEN Err
              ELSE LET rows == (n - s) \div dy + 1  cols == (e - w) \div dx + 1 IN
                   IF cnt # rows * cols \/ pos + 10 + cnt > Len(recs) THEN Err
                   ELSE IF \E j \in 1..cnt : recs[pos + 10 + j].t # "node" \/ ~IsFin(recs[pos + 10 + j].a) \/ ~IsFin(recs[pos + 10 + j].b) THEN Err
                   ELSE LET node(r, c) == recs[pos + 10 + (rows - r) * cols + (cols - c) + 1]
                            g == [name |-> h[1].s, parent |-> h[2].s, n |-> n, w |-> w, dy |-> dy, dx |-> dx,
                                  rows |-> rows, cols |-> cols, bands |-> 2,
                                  nodes |-> [r \in 1..rows |-> [c \in 1..cols |-> <<node(r, c).a.v, node(r, c).b.v>>]]]
                        IN DecodeSubs(recs, pos + 11 + cnt, k - 1, Append(acc, g))

\* the tree can be walked: a root exists, every parent exists, names are unique, no cycle
RECURSIVE Reaches(_, _, _)
Reaches(subs, i, fuel) ==       \* following parents from i ends at NONE
    IF subs[i].parent = "NONE" THEN TRUE
    ELSE IF fuel = 0 THEN FALSE
    ELSE LET P == {j \in 1..Len(subs) : subs[j].name = subs[i].parent} IN
         P # {} /\ Reaches(subs, MinOf(P), fuel - 1)
TreeOK(subs) == /\ \E i \in 1..Len(subs) : subs[i].parent = "NONE"
                /\ \A i, j \in 1..Len(subs) : i # j => subs[i].name # subs[j].name
                /\ \A i \in 1..Len(subs) : subs[i].name # "NONE" /\ Reaches(subs, i, Len(subs))

DecodeNtv2(recs) ==
    IF \/ ~IsRec(recs, 1, "NUM_OREC", "int") \/ ~IsRec(recs, 2, "NUM_SREC", "int") \/ ~IsRec(recs, 3, "NUM_FILE", "int")
       \/ ~IsRec(recs, 4, "GS_TYPE", "str") \/ Len(recs) < 11
    THEN Err
    ELSE IF recs[1].i # 11 \/ recs[2].i # 11 \/ recs[4].s # "SECONDS" \/ recs[3].i < 1 \/ recs[3].i > Len(recs) THEN Err
    ELSE LET d == DecodeSubs(recs, 12, recs[3].i, <<>>) IN
         IF ~d.ok THEN Err ELSE IF ~TreeOK(d.subs) THEN Err ELSE d

\* ---- "can be queried safely" -----------------------------------------------------
Queryable(d) == d.ok => /\ Len(d.subs) >= 1
                        /\ \A i \in 1..Len(d.subs) : LET g == d.subs[i] IN
                              /\ g.rows >= 2 /\ g.cols >= 2 /\ g.dy > 0 /\ g.dx > 0 /\ g.bands \in 1..3
                              /\ Len(g.nodes) = g.rows /\ \A r \in 1..g.rows : Len(g.nodes[r]) = g.cols
                        /\ TreeOK(d.subs)

\* The admissible outcomes of decoding + querying a damaged file, and the named deviations
\* (outcomes the code is known to produce instead; see bin/suites/C15.py for the message
\* patterns that identify them).  Every deviation is a panic or a hang: none is admissible.
Admissible == {"err", "ok_safe"}
Deviations == {"DEV_ntv2_short_buffer_indexing", "DEV_ntv2_no_none_root", "DEV_ntv2_count_overflow",
               "DEV_ntv2_parent_cycle_hang", "DEV_one_row_or_column_grid", "DEV_nonfinite_bounds",
               "DEV_gravsoft_zero_rows_division", "DEV_gravsoft_count_overflow"}

\* ---- faults -------------------------------------------------------------------------
\* [t, a, b, c]:  "trunc" a = number of bytes kept
\*                "flip"  a = byte offset, b = bit
\*                "corrupt" a = field, b = class, c = sub-grid position in the file (0: overview / the Gravsoft header)
Trunc(n)            == [t |-> "trunc",   a |-> n,   b |-> 0,   c |-> 0, fs |-> "", cl |-> ""]
Flip(off, bit)      == [t |-> "flip",    a |-> off, b |-> bit, c |-> 0, fs |-> "", cl |-> ""]
Corrupt(field, class, k) == [t |-> "corrupt", a |-> 0, b |-> 0, c |-> k, fs |-> field, cl |-> class]
NoFault             == [t |-> "none",    a |-> 0,   b |-> 0,   c |-> 0, fs |-> "", cl |-> ""]
\* the file as it is: the queries (points x margins) on the undamaged grid
Intact              == [t |-> "intact",  a |-> 0,   b |-> 0,   c |-> 0, fs |-> "", cl |-> ""]

\* value classes a damaged field may take
IntClasses  == {"zero", "minus", "less", "more", "huge"}
RealClasses == {"zero", "nan", "inf", "neg", "tiny", "huge", "eq"}
StrClasses  == {"nonutf8", "none", "self", "unknown", "other"}

IntValue(v, class)  == CASE class = "zero" -> 0 [] class = "minus" -> -1 [] class = "less" -> v - 1
                         [] class = "more" -> v + 1 [] class = "huge" -> 2147483647
\* eq: the partner's value (a degenerate extent); tiny / huge: far outside the model's lattice
RealValue(v, partner, class) ==
    CASE class = "zero" -> Fin(0) [] class = "nan" -> Bad [] class = "inf" -> Inf [] class = "neg" -> Fin(-v.v)
      [] class = "tiny" -> Fin(1) [] class = "huge" -> Fin(1000000007) [] class = "eq" -> partner
StrValue(s, own, class) ==
    CASE class = "nonutf8" -> "?" [] class = "none" -> "NONE" [] class = "self" -> own
      [] class = "unknown" -> "ZZZ" [] class = "other" -> "METERS"

\* -- NTv2: record index of field `fs` of the k-th sub-grid in file order (k = 0: overview)
OvIndex(fs)  == CASE fs = "NUM_OREC" -> 1 [] fs = "NUM_SREC" -> 2 [] fs = "NUM_FILE" -> 3 [] fs = "GS_TYPE" -> 4
SubIndex(fs) == CASE fs = "SUB_NAME" -> 1 [] fs = "PARENT" -> 2 [] fs = "S_LAT" -> 5 [] fs = "N_LAT" -> 6 [] fs = "E_LONG" -> 7
                  [] fs = "W_LONG" -> 8 [] fs = "LAT_INC" -> 9 [] fs = "LONG_INC" -> 10 [] fs = "GS_COUNT" -> 11
PartnerOf(fs) == CASE fs = "S_LAT" -> "N_LAT" [] fs = "N_LAT" -> "S_LAT" [] fs = "E_LONG" -> "W_LONG" [] fs = "W_LONG" -> "E_LONG"
                   [] OTHER -> fs
SubStart(recs, k) ==      \* record index of the k-th sub-grid header, following the declared counts of the intact file
    LET RECURSIVE S(_)
        S(j) == IF j = 1 THEN 12 ELSE S(j - 1) + 11 + recs[S(j - 1) + 10].i
    IN S(k)
Ntv2Fields == {<<"NUM_OREC", IntClasses>>, <<"NUM_SREC", IntClasses>>, <<"NUM_FILE", IntClasses>>, <<"GS_TYPE", {"other", "nonutf8"}>>}
Ntv2SubFields == {<<"GS_COUNT", IntClasses>>, <<"LAT_INC", RealClasses \ {"eq"}>>, <<"LONG_INC", RealClasses \ {"eq"}>>,
                  <<"S_LAT", RealClasses>>, <<"N_LAT", RealClasses>>, <<"E_LONG", RealClasses>>, <<"W_LONG", RealClasses>>,
                  <<"SUB_NAME", {"nonutf8", "none", "unknown"}>>, <<"PARENT", {"nonutf8", "none", "self", "unknown"}>>}
\* combined damage that keeps the header self-consistent
Ntv2Combined == {"one_row", "one_col", "none_named_none"}

CorruptNtv2(recs, fs, class, k) ==
    IF k = 0 THEN
        LET i == OvIndex(fs) IN
        [recs EXCEPT ![i] = IF recs[i].t = "int" THEN [@ EXCEPT !.i = IntValue(@, class)] ELSE [@ EXCEPT !.s = StrValue(@, "", class)]]
    ELSE LET p == SubStart(recs, k) IN
        CASE fs = "one_row" ->           \* N_LAT := S_LAT + nothing: a single row, GS_COUNT adjusted to stay consistent
                 [recs EXCEPT ![p + 5] = [@ EXCEPT !.a = recs[p + 4].a],
                              ![p + 10] = [@ EXCEPT !.i = (-(recs[p + 6].a.v) + recs[p + 7].a.v) \div recs[p + 9].a.v + 1]]
          [] fs = "one_col" ->
                 [recs EXCEPT ![p + 7] = [@ EXCEPT !.a = recs[p + 6].a],
                              ![p + 10] = [@ EXCEPT !.i = (recs[p + 5].a.v - recs[p + 4].a.v) \div recs[p + 8].a.v + 1]]
          [] fs = "none_named_none" ->   \* a sub-grid called NONE whose parent is NONE
                 [recs EXCEPT ![p] = [@ EXCEPT !.s = "NONE"], ![p + 1] = [@ EXCEPT !.s = "NONE"]]
          [] OTHER ->
                 LET i == p + SubIndex(fs) - 1 IN
                 [recs EXCEPT ![i] =
                    CASE recs[i].t = "int"  -> [@ EXCEPT !.i = IntValue(@, class)]
                      [] recs[i].t = "real" -> [@ EXCEPT !.a = RealValue(@, recs[p + SubIndex(PartnerOf(fs)) - 1].a, class)]
                      [] recs[i].t = "str"  -> [@ EXCEPT !.s = StrValue(@, recs[p].s, class)]]

\* what the abstract file may look like after the fault.  A flipped bit turns
\* the field it hits into *some* other value: every class is possible (or none,
\* where the byte carries no information).
FieldClasses(r) == CASE r.t = "int" -> IntClasses [] r.t = "real" -> RealClasses \ {"eq"} [] r.t = "str" -> StrClasses \ {"self"}
                     [] OTHER -> {}
DamageRecord(recs, i, class) ==
    [recs EXCEPT ![i] =
        CASE recs[i].t = "int"  -> [@ EXCEPT !.i = IntValue(@, class)]
          [] recs[i].t = "real" -> [@ EXCEPT !.a = RealValue(@, @, class)]
          [] recs[i].t = "str"  -> [@ EXCEPT !.s = StrValue(@, "", class)]
          [] recs[i].t = "node" -> [@ EXCEPT !.a = IF class = "nan" THEN Bad ELSE Fin(7)]
          [] OTHER -> @]
EffectsNtv2(recs, ft) ==
    CASE ft.t = "trunc" -> {SubSeq(recs, 1, ft.a \div 16)}          \* whole records only; a partial record cannot be read
      [] ft.t = "flip"  -> LET i == ft.a \div 16 + 1 IN
                           {recs} \cup {DamageRecord(recs, i, c) : c \in FieldClasses(recs[i])}
                           \cup (IF ft.a % 16 < 8 THEN {[recs EXCEPT ![i] = [@ EXCEPT !.key = "?"]]} ELSE {})
      [] ft.t = "corrupt" -> {CorruptNtv2(recs, ft.fs, ft.cl, ft.c)}
      [] ft.t = "intact"  -> {recs}

FaultsNtv2(f, order) ==
    LET recs == EncodeNtv2(f, order) IN
    {Intact} \cup {Trunc(n) : n \in 0..(ByteLen(recs) - 1)}
    \cup {Flip(off, bit) : off \in HeaderOffsets(f, order), bit \in 0..7}
    \cup UNION {{Corrupt(fc[1], c, 0) : c \in fc[2]} : fc \in Ntv2Fields}
    \cup UNION {{Corrupt(fc[1], c, k) : c \in fc[2]} : fc \in Ntv2SubFields, k \in 1..Len(order)}
    \cup {Corrupt(x, "", k) : x \in Ntv2Combined, k \in 1..Len(order)}

\* -- Gravsoft: damage to token i of the visible numbers (1..6: the header)
\* frac: half an increment more - the extent is no whole number of cells any longer
GravClasses == {"zero", "neg", "bad", "inf", "plus", "eq", "frac"}
GravFileClasses == {"drop_last", "extra", "header_only", "five_numbers"}
\* position (line, item) of the i-th visible number
NumPositions(lines) ==
    Flatten([l \in 1..Len(lines) |->
        LET line == lines[l]
            firstCmt == IF \E i \in 1..Len(line) : line[i].t = "cmt"
                        THEN MinOf({i \in 1..Len(line) : line[i].t = "cmt"}) ELSE Len(line) + 1
            idx == SelectSeq([i \in 1..Len(line) |-> i], LAMBDA i : i < firstCmt /\ line[i].t = "num")
        IN [k \in 1..Len(idx) |-> <<l, idx[k]>>]])
SetNum(lines, i, v) == LET q == NumPositions(lines)[i] IN [lines EXCEPT ![q[1]][q[2]].v = v]
CorruptGravsoft(lines, i, class) ==
    LET N == NumsOf(lines)
        partner == CASE i = 1 -> 2 [] i = 2 -> 1 [] i = 3 -> 4 [] i = 4 -> 3 [] OTHER -> i IN
    CASE class = "zero" -> SetNum(lines, i, Fin(0))
      [] class = "neg"  -> SetNum(lines, i, Fin(-N[i].v))
      [] class = "bad"  -> SetNum(lines, i, Bad)
      [] class = "inf"  -> SetNum(lines, i, Inf)
      [] class = "plus" -> SetNum(lines, i, Fin(N[i].v + N[5].v))
      [] class = "frac" -> SetNum(lines, i, Fin(N[i].v + N[5].v \div 2))
      [] class = "eq"   -> SetNum(lines, i, N[partner])
DropNums(lines, keep) ==      \* keep only the first `keep` visible numbers
    LET P == NumPositions(lines) IN
    [l \in 1..Len(lines) |-> SelectSeq([i \in 1..Len(lines[l]) |-> [it |-> lines[l][i], pos |-> <<l, i>>]],
                                LAMBDA x : x.it.t # "num" \/ \E k \in 1..keep : k <= Len(P) /\ P[k] = x.pos)]
StripPos(lines) == [l \in 1..Len(lines) |-> [i \in 1..Len(lines[l]) |-> lines[l][i].it]]
CorruptGravsoftFile(lines, class) ==
    LET n == Len(NumsOf(lines)) IN
    CASE class = "drop_last"    -> StripPos(DropNums(lines, n - 1))
      [] class = "header_only"  -> StripPos(DropNums(lines, 6))
      [] class = "five_numbers" -> StripPos(DropNums(lines, 5))
      [] class = "extra"        -> Append(lines, <<NumI("1", 1)>>)

\* A cut or a flipped bit inside a text turns the token it hits into some
\* other token (another number, or no number at all), or removes the rest.
EffectsGravsoft(lines, ft) ==
    LET n == Len(NumsOf(lines)) IN
    CASE ft.t = "intact" -> {lines}
      [] ft.t = "corrupt" /\ ft.c = 0 -> {CorruptGravsoft(lines, ft.a, ft.cl)}
      [] ft.t = "corrupt"             -> {CorruptGravsoftFile(lines, ft.cl)}
      [] ft.t = "trunc" ->   \* some prefix of the numbers survives, the last one possibly damaged
            UNION {{StripPos(DropNums(lines, k))} \cup
                   (IF k >= 1 THEN {SetNum(StripPos(DropNums(lines, k)), k, v) : v \in {Fin(0), Fin(3), Bad}} ELSE {})
                   : k \in 0..n}
      [] ft.t = "flip" ->    \* one of the header numbers (or nothing) changes
            {lines} \cup UNION {{SetNum(lines, i, v) : v \in {Fin(0), Fin(-NumsOf(lines)[i].v), Fin(NumsOf(lines)[i].v + 8), Bad, Inf}} : i \in 1..6}

\* byte span of the header: everything up to the end of the sixth number
HeaderSpan(lines, layout) ==
    LET q == NumPositions(lines)[6]
        before == SumSeq([l \in 1..(q[1] - 1) |-> Len(LineText(lines[l])) + EolLen(layout)])
        inline == SumSeq([i \in 1..q[2] |-> Len(lines[q[1]][i].s)])
    IN before + inline
FaultsGravsoft(lines, layout) ==
    {Intact} \cup {Trunc(n) : n \in 0..(TextLen(lines, layout) - 1)}
    \cup {Flip(off, bit) : off \in 0..(HeaderSpan(lines, layout) - 1), bit \in 0..7}
    \cup {[Corrupt("token", c, 0) EXCEPT !.a = i] : i \in 1..6, c \in GravClasses}
    \cup {Corrupt("file", c, 1) : c \in GravFileClasses}

\* ---- headers with exchanged bounds ---------------------------------------------------
\* The strict rules above refuse them (n <= s, e <= w).  A reader may instead take them as a spelling of
\* the same extent (Grid.tla: Spellings, Readings).  The admissible outcomes of decoding such a file are
\* therefore: an error, or the grid the file means under ONE reading - and under every reading the grid
\* reproduces the node values written in the file at its nodes.  Nothing else (in particular not a grid
\* that contains the extent but interpolates values found in no reading).
SpellOf(s, n, w, e) == CASE s > n /\ w > e -> "nsew" [] s > n -> "ns" [] w > e -> "ew" [] OTHER -> "asc"
AdmissibleGravsoft(lines) ==
    LET N == NumsOf(lines) IN
    IF Len(N) < 6 \/ \E i \in 1..Len(N) : ~IsFin(N[i]) THEN {DecodeGravsoft(lines)}
    ELSE LET sp == SpellOf(N[1].v, N[2].v, N[3].v, N[4].v)
             l1 == IF HasNS(sp) THEN SetNum(SetNum(lines, 1, N[2]), 2, N[1]) ELSE lines
             l2 == IF HasEW(sp) THEN SetNum(SetNum(l1, 3, N[4]), 4, N[3]) ELSE l1
             d  == DecodeGravsoft(l2)
         IN IF sp = "asc" THEN {d}
            ELSE {Err} \cup (IF d.ok THEN {[d EXCEPT !.subs[1] = Under(@, rd)] : rd \in Readings(sp)} ELSE {})

\* NTv2: S_LAT > N_LAT, or E_LONG and W_LONG exchanged (west-positive: normally E_LONG < W_LONG)
SpellsNtv2(recs) ==
    [k \in 1..recs[3].i |-> LET q == SubStart(recs, k) IN
        SpellOf(recs[q + 4].a.v, recs[q + 5].a.v, -recs[q + 7].a.v, -recs[q + 6].a.v)]
NormaliseNtv2(recs) ==
    LET sp == SpellsNtv2(recs)
        RECURSIVE N(_, _)
        N(r, k) == IF k > recs[3].i THEN r
                   ELSE LET q  == SubStart(recs, k)
                            r1 == IF HasNS(sp[k]) THEN [r EXCEPT ![q + 4] = [@ EXCEPT !.a = r[q + 5].a], ![q + 5] = [@ EXCEPT !.a = r[q + 4].a]] ELSE r
                            r2 == IF HasEW(sp[k]) THEN [r1 EXCEPT ![q + 6] = [@ EXCEPT !.a = r1[q + 7].a], ![q + 7] = [@ EXCEPT !.a = r1[q + 6].a]] ELSE r1
                        IN N(r2, k + 1)
    IN N(recs, 1)
\* (for well-typed files with at most one spelled sub-grid header; d.subs is in file order)
AdmissibleNtv2(recs) ==
    LET sp == SpellsNtv2(recs)  K == {k \in 1..recs[3].i : sp[k] # "asc"} IN
    IF K = {} THEN {DecodeNtv2(recs)}
    ELSE LET d == DecodeNtv2(NormaliseNtv2(recs))  k == CHOOSE k \in K : TRUE IN
         {Err} \cup (IF d.ok /\ Cardinality(K) = 1 THEN {[d EXCEPT !.subs[k] = Under(@, rd)] : rd \in Readings(sp[k])} ELSE {})

\* ---- the constructor both readers end in ----------------------------------------------
\* BaseGrid::plain(header, nodes, offset): `nodes` holds `len` values, the grid starts at `offset`
\* (none given: 0).  A call [pad, cut, off]: the vector is `pad` foreign values followed by the
\* grid's values without the last `cut`; off = -1: no offset given, off = -2: the largest index.
\* The node (r, c, b) is read at offset + bands * (cols * r + c) + b - 1: a grid may be returned and
\* queried only if that lies inside the vector for every node - otherwise the outcome is an error, or a
\* grid whose queries nevertheless do not read out of bounds.
PlainCalls(elements) ==
    {[pad |-> x[1], cut |-> x[2], off |-> x[3]] :
        x \in {<<0, 0, -1>>, <<0, 0, 0>>, <<0, 0, 1>>, <<0, 0, 3>>, <<0, 0, elements>>, <<0, 0, -2>>,
               <<0, elements, -1>>, <<0, elements, 0>>, <<0, elements, 1>>, <<0, 1, -1>>, <<0, 1, 0>>,
               <<2, 0, 2>>, <<2, 0, 0>>, <<2, 0, 1>>, <<2, 0, 3>>, <<2, 1, 2>>, <<5, 0, 5>>, <<5, 0, -2>>}}
PlainLen(c, elements) == c.pad + elements - c.cut
PlainOff(c) == IF c.off = -1 THEN 0 ELSE c.off
NodeIndex(g, c, r, cc, b) == PlainOff(c) + g.bands * (g.cols * r + cc) + b - 1          \* 0-based, r, cc from 0
PlainConsistent(g, c) == c.off # -2 /\ PlainOff(c) + g.rows * g.cols * g.bands <= PlainLen(c, g.rows * g.cols * g.bands)
\* the values found at the node positions are the grid's own: the grid starts where the offset says
PlainReads(g, c) == PlainConsistent(g, c) /\ PlainOff(c) = c.pad /\ c.cut = 0
=============================================================================
