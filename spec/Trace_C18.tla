------------------------------ MODULE Trace_C18 ------------------------------
(***************************************************************************)
(* Trace validation for C18: a trace recorded from real threads (two       *)
(* threads applying operators of one shared Plain context, a third one     *)
(* instantiating grid operators in its own context and clearing the shared *)
(* grid cache) is accepted iff                                             *)
(*  - the cache events, which are emitted while the cache mutex is held,   *)
(*    are those of a sequential cache (a hit only for a name that is in    *)
(*    the cache and for the very object stored there; a load only for a    *)
(*    name that is not, yielding an object never seen before),             *)
(*  - every handle is issued once,                                         *)
(*  - every application of a handle in a direction returns the same result *)
(*    as its first application, whatever happened in between and           *)
(*    concurrently (operators never change), and never fails.              *)
(* The actions are those of Context.tla (OpGrid's cache step, ClearGrids,  *)
(* OpOk) plus Call/Ret of an application, which holds no lock.             *)
(***************************************************************************)
EXTENDS Integers, Sequences, FiniteSets, TLC, Json, IOUtils

Rec == ndJsonDeserialize(IOEnv.TRACE)

VARIABLES l, cache, objs, issued, seen, pending
vars == <<l, cache, objs, issued, seen, pending>>

Threads == 0..3
E == Rec[l]
Is(e) == l <= Len(Rec) /\ Rec[l].ev = e /\ l' = l + 1

Fresh == /\ cache = <<>> /\ objs = {} /\ issued = {} /\ seen = {} /\ pending = [t \in Threads |-> 0]
TInit == l = 1 /\ Fresh

Reset == /\ Is("reset")
         /\ cache' = <<>> /\ objs' = {} /\ issued' = {} /\ seen' = {} /\ pending' = [t \in Threads |-> 0]

\* Context::op returned a handle: never issued before
OpRet == /\ Is("op") /\ E.h \notin issued
         /\ issued' = issued \cup {E.h}
         /\ UNCHANGED <<cache, objs, seen, pending>>

\* the cache step of instantiating a grid operator (under the mutex)
GridGet == /\ Is("grid_get")
           /\ \/ /\ E.outcome = "hit" /\ E.name \in DOMAIN cache /\ cache[E.name] = E.obj
                 /\ UNCHANGED <<cache, objs>>
              \/ /\ E.outcome = "load" /\ E.name \notin DOMAIN cache /\ E.obj \notin objs
                 /\ cache' = (E.name :> E.obj) @@ cache /\ objs' = objs \cup {E.obj}
              \* no such grid anywhere on the search path: possible only for a name that is not cached
              \/ /\ E.outcome = "notfound" /\ E.name \notin DOMAIN cache
                 /\ UNCHANGED <<cache, objs>>
           /\ UNCHANGED <<issued, seen, pending>>

GridClear == /\ Is("grid_clear") /\ cache' = <<>>
             /\ UNCHANGED <<objs, issued, seen, pending>>

Call == /\ Is("call") /\ E.h \in issued /\ pending[E.thr] = 0
        /\ pending' = [pending EXCEPT ![E.thr] = E.h]
        /\ UNCHANGED <<cache, objs, issued, seen>>

\* the result is a function of (handle, direction) alone
Ret == /\ Is("ret") /\ pending[E.thr] = E.h /\ ~E.bad
       /\ \A x \in seen : (x[1] = E.h /\ x[2] = E.dir) => x[3] = E.out
       /\ seen' = seen \cup {<<E.h, E.dir, E.out>>}
       /\ pending' = [pending EXCEPT ![E.thr] = 0]
       /\ UNCHANGED <<cache, objs, issued>>

TNext == Reset \/ OpRet \/ GridGet \/ GridClear \/ Call \/ Ret
TraceSpec == TInit /\ [][TNext]_vars

\* every event consumed
Accepted == IF TLCGet("stats").diameter - 1 = Len(Rec) THEN TRUE
            ELSE Print(<<"REJECTED", ToJson([matched |-> TLCGet("stats").diameter - 1, total |-> Len(Rec),
                         next |-> IF TLCGet("stats").diameter <= Len(Rec) THEN Rec[TLCGet("stats").diameter] ELSE [ev |-> "none"]])>>, FALSE)
=============================================================================
