------------------------------- MODULE MC_C01 -------------------------------
(* C01, algebra: definitions built from invertible steps only (no omissions,  *)
(* nothing one-way, nothing failing): inverse after forward and forward after *)
(* inverse restore the operands exactly (Pipeline!RoundTripInv).              *)
EXTENDS Pipeline
L(k, v) == [k |-> k, v |-> [f |-> "lit", v |-> v]]
S(n, a) == [name |-> n, args |-> a, inv |-> FALSE, of |-> FALSE, oi |-> FALSE]
Mod(s, i, f, o) == [s EXCEPT !.inv = i, !.of = f, !.oi = o]
A  == S("t_add", <<L("e", 1), L("c", 1)>>)
A5 == S("t_add", <<L("e", 1), L("c", 5)>>)
B  == S("t_dbl", <<L("e", 1)>>)
C  == S("t_add", <<L("e", 2), L("c", 3)>>)
M(n) == S(n, <<>>)
Res == [n \in {"m:s", "m:p", "m:q", "m:n"} |->
          CASE n = "m:s" -> <<A5>>
            [] n = "m:p" -> <<A, B>>
            [] n = "m:q" -> <<Mod(B, TRUE, FALSE, FALSE), A>>
            [] n = "m:n" -> <<Mod(M("m:p"), TRUE, FALSE, FALSE), C, M("m:q")>>]
Base == {A, B, C, A5} \cup {M(n) : n \in DOMAIN Res}
Steps1 == {Mod(b, i, FALSE, FALSE) : b \in Base, i \in BOOLEAN}
Progs3 == UNION {[1..n -> Steps1] : n \in 1..3}
Progs2 == UNION {[1..n -> Steps1] : n \in 1..2}
D2 == << <<2 * Unit, 12 * Unit, 13 * Unit, 14 * Unit>>, <<21 * Unit, 22 * Unit, 23 * Unit, 24 * Unit>> >>
NoGlobals == <<>>
Styles3 == {"suffix", "prefix", "eqtrue"}
Styles1 == {"suffix"}
=============================================================================
