------------------------------ MODULE MC_C12_wf ------------------------------
(***************************************************************************)
(* C12: ill-formed stack sub-commands are rejected at instantiation.       *)
(* A raw step is a set of sub-commands, each with a list of values given   *)
(* in tenths (15 = "1.5").  Well-formed per Rumination 002: exactly one    *)
(* sub-command; push/pop/flip take a non-empty list of coordinate indices  *)
(* 1..4; roll/unroll take exactly two integers m, n with |n| < m; swap     *)
(* takes nothing.  (|n| = m is not generated: the documentation and the    *)
(* error text disagree about it.)                                          *)
(***************************************************************************)
EXTENDS Integers, Sequences, FiniteSets, TLC, Json

Abs(x) == IF x < 0 THEN -x ELSE x
IdxVals  == {0, 10, 40, 50, -10, 15}
RollVals == {-30, -20, 0, 10, 20, 30, 25}
Lists(V, lo, hi) == UNION {[1..n -> V] : n \in lo..hi}

IdxCmds  == {[k |-> x, v |-> l] : x \in {"push", "pop", "flip"}, l \in Lists(IdxVals, 0, 2)}
RollCmds == {[k |-> x, v |-> l] : x \in {"roll", "unroll"}, l \in Lists(RollVals, 1, 3)}
Swap == [k |-> "swap", v |-> <<>>]
One == IdxCmds \cup RollCmds \cup {Swap}
\* two sub-commands in one step, and none at all
Two == {<<a, b>> : a \in {[k |-> "push", v |-> <<10>>], [k |-> "roll", v |-> <<20, 10>>], Swap},
                   b \in {[k |-> "pop", v |-> <<10>>], [k |-> "unroll", v |-> <<20, 10>>], [k |-> "flip", v |-> <<20>>], Swap}} 
Raw == {<<c>> : c \in One} \cup {s \in Two : s[1].k # s[2].k} \cup {<<>>}

IsInt(t) == t % 10 = 0
OkCmd(c) == CASE c.k \in {"push", "pop", "flip"} -> Len(c.v) >= 1 /\ \A i \in 1..Len(c.v) : c.v[i] \in {10, 20, 30, 40}
              [] c.k \in {"roll", "unroll"} -> Len(c.v) = 2 /\ IsInt(c.v[1]) /\ IsInt(c.v[2]) /\ c.v[1] > 0 /\ Abs(c.v[2]) < c.v[1]
              [] c.k = "swap" -> TRUE
WellFormed(s) == Len(s) = 1 /\ OkCmd(s[1])
\* left open: |n| = m
Open(s) == Len(s) = 1 /\ s[1].k \in {"roll", "unroll"} /\ Len(s[1].v) = 2 /\ Abs(s[1].v[2]) = Abs(s[1].v[1])

Tenths(t) == (IF t < 0 THEN "-" ELSE "") \o ToString(Abs(t) \div 10) \o (IF t % 10 = 0 THEN "" ELSE "." \o ToString(Abs(t) % 10))
RECURSIVE Join(_)
Join(v) == IF Len(v) = 0 THEN "" ELSE IF Len(v) = 1 THEN Tenths(v[1]) ELSE Tenths(v[1]) \o "," \o Join(Tail(v))
CmdText(c) == IF c.k = "swap" THEN "swap" ELSE c.k \o "=" \o Join(c.v)
StepText(s) == "stack" \o (IF Len(s) >= 1 THEN " " \o CmdText(s[1]) ELSE "") \o (IF Len(s) = 2 THEN " " \o CmdText(s[2]) ELSE "")

VARIABLE c
Init == c \in Raw
Next == UNCHANGED c
Spec == Init /\ [][Next]_c
\* a rejected step never executes: nothing to check on the model beyond the classification being total
TotalInv == WellFormed(c) \in BOOLEAN
Emit == ~Open(c) => PrintT(<<"WF", ToJson([def |-> "noop | " \o StepText(c) \o " | noop", ok |-> WellFormed(c)])>>)
=============================================================================
