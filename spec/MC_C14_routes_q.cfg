SPECIFICATION Spec
CONSTANTS
  Tier = "q"
  Explore <- AllPairs
INVARIANTS StatementInv DomainInv ClassInv CountInv Emit
CHECK_DEADLOCK FALSE
