SPECIFICATION Spec
INVARIANTS SizeInv DomainInv CoverInv ClassInv CountInv Emit
CHECK_DEADLOCK FALSE
