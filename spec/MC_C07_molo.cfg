SPECIFICATION Spec
INVARIANTS SpellInv SizeInv DomainInv CoverInv ClassInv CountInv Emit
CHECK_DEADLOCK FALSE
