SPECIFICATION Spec
CONSTANTS
  Ctxs <- C2
  MaxLen = 5
  WithGrids = FALSE
  OpNames <- NmOpNames
  Versions <- NmVersions
  PlainResNames <- NmPlainResNames
  Bodies <- NmBodies
  Defs <- NmDefs
VIEW view
INVARIANTS UniqueHandles ObjInv
ACTION_CONSTRAINT EmitEdge
PROPERTY Immutable
CHECK_DEADLOCK FALSE
