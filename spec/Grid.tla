-------------------------------- MODULE Grid --------------------------------
(***************************************************************************)
(* C08 (shared with C15).  Grids, containment with margin, exact bilinear  *)
(* interpolation, selection among several grids, the NTv2 sub-grid tree,   *)
(* and the operator-level conventions of gridshift / deformation /         *)
(* deflection.                                                             *)
(*                                                                         *)
(* Geometry is integral.  Positions are integers counting a unit U chosen  *)
(* so that the finest cell in a scenario is 8 U wide (U = an eighth of a   *)
(* cell).  A (sub-)grid is                                                 *)
(*    [id, name, parent, n, w, dy, dx, rows, cols, bands, mode, nodes]     *)
(* n, w: northern / western edge; dy, dx: cell height / width (positive    *)
(* multiples of 8); rows, cols >= 2.  Row 0 is the northernmost row,       *)
(* column 0 the westernmost column: the row-major, north-to-south,         *)
(* west-to-east organisation every reader normalises to.                   *)
(*                                                                         *)
(* A *file* is a sequence of sub-grids: one with parent "NONE" for a       *)
(* Gravsoft grid; a forest for NTv2.                                       *)
(*                                                                         *)
(* Values are exact rationals num/den.  Node values are 64 * v(r, c, b)    *)
(* with v non-linear and non-symmetric in row, column and band, so that    *)
(* exchanged weights, exchanged row/column order or exchanged bands change *)
(* every interpolated result.  Bands are numbered as in the file.          *)
(***************************************************************************)
EXTENDS Integers, Sequences, FiniteSets, TLC

Clamp(v, lo, hi) == IF v < lo THEN lo ELSE IF v > hi THEN hi ELSE v
MinOf(S) == CHOOSE a \in S : \A b \in S : a <= b
MaxOf(S) == CHOOSE a \in S : \A b \in S : a >= b

South(g) == g.n - (g.rows - 1) * g.dy
East(g)  == g.w + (g.cols - 1) * g.dx
Den(g)   == g.dx * g.dy

\* ---- node values ----------------------------------------------------------
\* r, c count from 0 (north-west corner), b from 1
VRaw(id, r, c, b) == 3*r*r + c*c + 2*r*c + 5*r - 11*c + 17*b*b + b*r - 3*b*c + 29*id - 20

\* A grid record carries its node values: g.nodes[r + 1][c + 1][b].
Node(f, i, r, c, b) == f[i].nodes[r + 1][c + 1][b]

BilinF(f, i, r, c, x, y, b) ==
    LET g  == f[i]
        fx == x - (g.w + c * g.dx)
        fy == (g.n - r * g.dy) - y
    IN    (g.dx - fx) * (g.dy - fy) * Node(f, i, r,     c,     b)
        + fx          * (g.dy - fy) * Node(f, i, r,     c + 1, b)
        + (g.dx - fx) * fy          * Node(f, i, r + 1, c,     b)
        + fx          * fy          * Node(f, i, r + 1, c + 1, b)

CellCol(g, x) == Clamp((x - g.w) \div g.dx, 0, g.cols - 2)
CellRow(g, y) == Clamp((g.n - y) \div g.dy, 0, g.rows - 2)   \* row of the cell's northern nodes

IndexOf(f, name) == CHOOSE j \in 1..Len(f) : f[j].name = name

\* How the model grids get their values.  Mode "v": 64 v.  Modes "root" /
\* "cons" build *consistent* trees: the root carries Den(root) * v, the child
\* carries the root's interpolated value at each of its nodes (a
\* densification), so that root and child agree along the whole border of
\* the child.
NodeDef(f, i, r, c, b) ==
    LET g == f[i] IN
    CASE g.mode = "v"    -> 64 * VRaw(g.id, r, c, b)
      [] g.mode = "root" -> Den(g) * VRaw(g.id, r, c, b)
      [] g.mode = "cons" ->
            LET j  == IndexOf(f, g.parent)
                h  == f[j]
                x  == g.w + c * g.dx
                y  == g.n - r * g.dy
                rr == CellRow(h, y)
                cc == CellCol(h, x)
                fx == x - (h.w + cc * h.dx)
                fy == (h.n - rr * h.dy) - y
            IN    (h.dx - fx) * (h.dy - fy) * VRaw(h.id, rr,     cc,     b)
                + fx          * (h.dy - fy) * VRaw(h.id, rr,     cc + 1, b)
                + (h.dx - fx) * fy          * VRaw(h.id, rr + 1, cc,     b)
                + fx          * fy          * VRaw(h.id, rr + 1, cc + 1, b)
WithNodes(f) == [i \in 1..Len(f) |-> [f[i] EXCEPT !.nodes =
                    [r \in 1..f[i].rows |-> [c \in 1..f[i].cols |-> [b \in 1..f[i].bands |->
                        NodeDef(f, i, r - 1, c - 1, b)]]]]]

\* ---- containment and interpolation ---------------------------------------
\* margin m8 in eighths of a cell (0: none, 4: the half-cell margin).  On the
\* border counts as inside.
Contains(g, p, m8) ==
    /\ 8 * p.x >= 8 * g.w - m8 * g.dx      /\ 8 * p.x <= 8 * East(g) + m8 * g.dx
    /\ 8 * p.y >= 8 * South(g) - m8 * g.dy /\ 8 * p.y <= 8 * g.n + m8 * g.dy

Miss == [ok |-> FALSE, num |-> <<>>, den |-> 1]

\* the cell is clamped to the grid: outside, the nearest cell's bilinear
\* surface is continued (linear continuation along axis-parallel lines)
AtSub(f, i, p, m8) ==
    LET g == f[i] IN
    IF Contains(g, p, m8)
    THEN [ok |-> TRUE, den |-> Den(g),
          num |-> [b \in 1..g.bands |-> BilinF(f, i, CellRow(g, p.y), CellCol(g, p.x), p.x, p.y, b)]]
    ELSE Miss

\* ---- NTv2 tree walk --------------------------------------------------------
Roots(f)       == {i \in 1..Len(f) : f[i].parent = "NONE"}
Children(f, i) == {j \in 1..Len(f) : f[j].parent = f[i].name}

RECURSIVE Deepest(_, _, _)
Deepest(f, i, p) ==
    LET C == {j \in Children(f, i) : Contains(f[j], p, 0)} IN
    IF C = {} THEN i ELSE Deepest(f, MinOf(C), p)
    \* siblings of a consistent tree do not overlap; where they touch, the
    \* point is flagged by Ambiguous below and MinOf is never relied upon

\* The (sub-)grid that serves p: the deepest sub-grid containing it, or,
\* for a point outside every root, a root within the margin.  0: none.
FindGrid(f, p, m8) ==
    LET R0 == {i \in Roots(f) : Contains(f[i], p, 0)}
        RM == {i \in Roots(f) : Contains(f[i], p, m8)}
    IN IF R0 # {} THEN Deepest(f, MinOf(R0), p)
       ELSE IF RM # {} THEN MinOf(RM) ELSE 0

FContains(f, p, m8) == FindGrid(f, p, m8) # 0
FAt(f, p, m8) == LET i == FindGrid(f, p, m8) IN IF i = 0 THEN Miss ELSE AtSub(f, i, p, m8)

\* values of two rationals agree
\* (cross-multiplied by the denominators divided by their common factor: TLC's integers are 32 bit)
SameVal(a, b) == /\ a.ok /\ b.ok /\ Len(a.num) = Len(b.num)
                 /\ LET m == IF a.den <= b.den THEN a.den ELSE b.den
                         d == IF a.den % m = 0 /\ b.den % m = 0 THEN m ELSE 1
                     IN \A k \in 1..Len(a.num) : a.num[k] * (b.den \div d) = b.num[k] * (a.den \div d)

\* Where the documentation does not settle which sub-grid owns a point:
\* (a) the northern / eastern border of a sub-grid ("upper border belongs to
\*     the neighbour" in the NTv2 specification, on-the-border-is-inside in
\*     this library's documentation) - unless parent and child agree there;
\* (b) points contained in two roots, or in the margin of two roots;
\* (c) points contained in two siblings.
Ambiguous(f, p, m8) ==
    \/ Cardinality({i \in Roots(f) : Contains(f[i], p, 0)}) > 1
    \/ /\ {i \in Roots(f) : Contains(f[i], p, 0)} = {}
       /\ Cardinality({i \in Roots(f) : Contains(f[i], p, m8)}) > 1
    \/ \E i \in 1..Len(f) : Cardinality({j \in Children(f, i) : Contains(f[j], p, 0)}) > 1
    \/ \E j \in 1..Len(f) :
          /\ f[j].parent # "NONE" /\ Contains(f[j], p, 0)
          /\ (p.x = East(f[j]) \/ p.y = f[j].n)
          /\ ~SameVal(AtSub(f, j, p, 0), AtSub(f, IndexOf(f, f[j].parent), p, 0))
    \* (d) the northern / eastern border of a root, when another root is within reach
    \/ \E j \in Roots(f) :
          /\ Contains(f[j], p, 0) /\ (p.x = East(f[j]) \/ p.y = f[j].n)
          /\ \E k \in Roots(f) \ {j} : Contains(f[k], p, m8)

\* With overlapping siblings (which the NTv2 specification forbids, and on which the statement - "the
\* deepest sub-grid containing the point" - does not choose) every END of a chain of sub-grids
\* containing the point is admissible: a sub-grid that contains the point, whose ancestors all contain
\* it, and none of whose children contains it.  Never an inner link of such a chain (a parent is not
\* "deepest" while a child of it contains the point).
RECURSIVE ChainOK(_, _, _)
ChainOK(f, i, p) == /\ Contains(f[i], p, 0)
                    /\ (f[i].parent = "NONE" \/ ChainOK(f, IndexOf(f, f[i].parent), p))
ChainEnds(f, p) == {i \in 1..Len(f) : ChainOK(f, i, p) /\ \A j \in Children(f, i) : ~Contains(f[j], p, 0)}
\* a point in two siblings, strictly inside every sub-grid border (no border rule interferes)
OnUpperBorder(f, p) == \E j \in 1..Len(f) : Contains(f[j], p, 0) /\ (p.x = East(f[j]) \/ p.y = f[j].n)
InSiblingOverlap(f, p) ==
    /\ \E i \in 1..Len(f) : Cardinality({j \in Children(f, i) : Contains(f[j], p, 0)}) > 1
    /\ Cardinality({i \in Roots(f) : Contains(f[i], p, 0)}) = 1
    /\ ~OnUpperBorder(f, p)

\* Two siblings that share an edge (a properly tiled parent): a point on that edge lies in both (closed
\* extents); it is the upper border of one of them and the lower border of its neighbour.  Whichever
\* reading of the border rule is taken (NTv2: the upper border belongs to the neighbour; this library's
\* documentation: on the border is inside), one of the TWO SIBLINGS serves the point - never their
\* parent, which is not the deepest sub-grid containing it.  Only points where nothing else interferes:
\* one root, exactly two siblings, exactly one of them has the point on its upper border and no other
\* sub-grid containing the point has, and neither sibling has a child containing it.
UpperOf(f, p) == {j \in 1..Len(f) : Contains(f[j], p, 0) /\ (p.x = East(f[j]) \/ p.y = f[j].n)}
OnSharedEdge(f, p) ==
    /\ Cardinality({i \in Roots(f) : Contains(f[i], p, 0)}) = 1
    /\ \E i \in 1..Len(f) :
          LET C == {j \in Children(f, i) : Contains(f[j], p, 0)} IN
          /\ ChainOK(f, i, p) /\ Cardinality(C) = 2
          /\ UpperOf(f, p) \subseteq C /\ Cardinality(UpperOf(f, p)) = 1
          /\ \A j \in C : \A k \in Children(f, j) : ~Contains(f[k], p, 0)
          /\ ChainEnds(f, p) = C

\* ---- spellings of a header ---------------------------------------------------
\* A header names the extent by four bounds.  Written in ascending order ("asc") there is one reading.
\* With the bounds of an axis exchanged ("ns": the slot of the southern bound holds the larger latitude;
\* "ew"; "nsew") the header is either MALFORMED (the reader refuses it) or it spells the same extent, and
\* then the rows / columns of the file are either still counted from the north / west ("swap": the
\* bounds are an unordered pair) or from the bound written in the slot of the northern / western bound
\* towards the other one ("scan").  A grid record holds the nodes in the order of the FILE (first row
\* of the file = row 0); Under(g, rd) is the grid the file means under reading rd.  Whatever the
\* reading: the decoded grid reproduces its node values at its nodes (NodeInv / SpellingInv).
Spellings == {"asc", "ns", "ew", "nsew"}
HasNS(sp) == sp \in {"ns", "nsew"}
HasEW(sp) == sp \in {"ew", "nsew"}
Readings(sp) == {rd \in {"swap", "scan"} \X {"swap", "scan"} :
                    (rd[1] = "scan" => HasNS(sp)) /\ (rd[2] = "scan" => HasEW(sp))}
FlipNS(g) == [g EXCEPT !.nodes = [r \in 1..g.rows |-> g.nodes[g.rows + 1 - r]]]
FlipEW(g) == [g EXCEPT !.nodes = [r \in 1..g.rows |-> [c \in 1..g.cols |-> g.nodes[r][g.cols + 1 - c]]]]
Under(g, rd) == LET a == IF rd[1] = "scan" THEN FlipNS(g) ELSE g IN IF rd[2] = "scan" THEN FlipEW(a) ELSE a
ReadingSeq(sp) == SelectSeq(<< <<"swap", "swap">>, <<"scan", "swap">>, <<"swap", "scan">>, <<"scan", "scan">> >>,
                            LAMBDA rd : rd \in Readings(sp))

\* ---- the margin argument of a query ---------------------------------------------
\* contains(p, margin) / at(p, margin) take the margin as a number of cells.  A query is total in it:
\* a margin that is not a number admits no point (no order relation holds with NaN), a negative margin
\* shrinks the extent (possibly to nothing), an infinite one admits every point.
\* [k, m8]: k in "fin" (m8 eighths of a cell), "nan", "inf"
MarginClasses == << [name |-> "0",    k |-> "fin", m8 |-> 0],  [name |-> "0.5",  k |-> "fin", m8 |-> 4],
                    [name |-> "-0.5", k |-> "fin", m8 |-> -4], [name |-> "-2",   k |-> "fin", m8 |-> -16],
                    [name |-> "NaN",  k |-> "nan", m8 |-> 0],  [name |-> "inf",  k |-> "inf", m8 |-> 0] >>
ContainsM(g, p, m) == CASE m.k = "nan" -> FALSE [] m.k = "inf" -> TRUE [] OTHER -> Contains(g, p, m.m8)

\* ---- several grids: first hit, then first within the margin, then null ----
\* An entry of a `grids=` list: [k, fi, opt, present]: k = "grid" names file
\* fi of the scenario's catalogue (opt: written with @, present: the context
\* can deliver it), k = "null" is @null.
FirstNull(list) == IF \E i \in 1..Len(list) : list[i].k = "null"
                   THEN MinOf({i \in 1..Len(list) : list[i].k = "null"}) ELSE Len(list) + 1
IsAvail(e) == e.k = "grid" /\ e.present
\* reading R1: @null ends the list (documented only as the last entry);
\* reading R2: @null is a flag, every named grid counts
EffR1(list)  == SelectSeq(SubSeq(list, 1, FirstNull(list) - 1), IsAvail)
EffR2(list)  == SelectSeq(list, IsAvail)
HasNull(list) == FirstNull(list) <= Len(list)
IsBlocking(e) == e.k = "grid" /\ ~e.present /\ ~e.opt
\* a missing grid blocks instantiation unless it is optional
RefusedR1(list) == \E i \in 1..(FirstNull(list) - 1) : IsBlocking(list[i])
RefusedR2(list) == \E i \in 1..Len(list) : IsBlocking(list[i])

\* The documentation of `grids` (gridshift, deformation, deflection alike): grids "are considered
\* optional if they are prefixed with @ and hence do [not] block instantiation of the operator if they
\* are unavailable" - and nothing else: an optional grid that is missing is skipped.  The list that is
\* left may be EMPTY (every grid optional and missing).  Then no grid contains any point: every point
\* is "outside of the grid coverage", i.e. "stomped on with the NaN shoes and counted as errors",
\* unless @null is given, in which case it is "passed through unchanged".  SelIdx / GridsAt below say
\* exactly that for eff = <<>>; EmptyListClause states it on its own.
AllOptionalMissing(list) == /\ \E i \in 1..Len(list) : list[i].k = "grid"
                            /\ \A i \in 1..Len(list) : list[i].k = "grid" => (list[i].opt /\ ~list[i].present)

\* index (into the effective list) of the grid that serves p; 0: none
SelIdx(files, eff, p) ==
    LET H0 == {i \in 1..Len(eff) : FContains(files[eff[i].fi], p, 0)}
        H4 == {i \in 1..Len(eff) : FContains(files[eff[i].fi], p, 4)}
    IN IF H0 # {} THEN MinOf(H0) ELSE IF H4 # {} THEN MinOf(H4) ELSE 0

\* outcome: [out, i, val]; out in "grid0" (contained), "grid4" (margin), "null", "none"
GridsAt(files, eff, null, p) ==
    LET i == SelIdx(files, eff, p) IN
    IF i # 0 THEN [out |-> IF FContains(files[eff[i].fi], p, 0) THEN "grid0" ELSE "grid4",
                   i |-> i, val |-> FAt(files[eff[i].fi], p, 4)]
    ELSE [out |-> IF null THEN "null" ELSE "none", i |-> 0, val |-> Miss]

EmptyListClause(files, list, p) ==
    AllOptionalMissing(list) =>
        /\ EffR1(list) = <<>> /\ EffR2(list) = <<>> /\ ~RefusedR1(list) /\ ~RefusedR2(list)
        /\ GridsAt(files, <<>>, HasNull(list), p).out = (IF HasNull(list) THEN "null" ELSE "none")

\* ---- operators and the dimensionality of their grids ----------------------------
\* gridshift is documented for 1-D (heights) and 2-D grids ("3-D and time dependent transformations are
\* implemented by the deformation operator"), deformation for 3-band velocity grids, deflection for a
\* geoid model.  Given a grid of another dimensionality the documentation settles nothing: refusal or
\* any numbers are admissible - but the call returns (totality).
DocumentedOps(kind) == CASE kind = "geoid" -> {"gridshift", "deflection"} [] kind = "projected" -> {"gridshift"}
                         [] kind = "datum" -> {"gridshift"} [] kind = "deformation" -> {"deformation"}
CrossOps(kind) == {"gridshift", "deformation", "deflection"} \ DocumentedOps(kind)

\* ---- conventions -----------------------------------------------------------
\* What a selected value does to a coordinate tuple.  Bands are numbered as
\* stored in the file.  `el` gives, for the element (or, for deformation,
\* the local east / north / up component) in position 1..3, the band that
\* feeds it (0: none) and the sign with which the value enters in the
\* FORWARD direction; the inverse direction takes the opposite sign (for
\* datum shifts: solves forward(t) = p, which is the same to first order).
\*   geoid heights are subtracted forward; datum shifts are added forward;
\*   deformations are removed forward (X' = X - dt * R * v).
\*   Gravsoft stores northing before easting (before up);
\*   NTv2 stores latitude shift, then longitude shift counted positive WEST.
Conv(kind, fmt) ==
    CASE kind = "geoid"       -> [unit |-> "m",      per |-> "",   el |-> << <<0, 0>>, <<0, 0>>, <<1, -1>> >>]
      [] kind = "projected"   -> [unit |-> "m",      per |-> "",   el |-> << <<0, 0>>, <<0, 0>>, <<1, -1>> >>]
      [] kind = "datum" /\ fmt = "gravsoft"
                              -> [unit |-> "arcsec", per |-> "",   el |-> << <<2, 1>>, <<1, 1>>, <<0, 0>> >>]
      [] kind = "datum" /\ fmt = "ntv2"
                              -> [unit |-> "arcsec", per |-> "",   el |-> << <<2, -1>>, <<1, 1>>, <<0, 0>> >>]
      [] kind = "deformation" -> [unit |-> "mm",     per |-> "yr", el |-> << <<2, -1>>, <<1, -1>>, <<3, -1>> >>]
\* What the decoded grid delivers (Grid::at): element e = sign * band, in internal units
Dec(kind, fmt) ==
    CASE kind \in {"geoid", "projected"}     -> << <<1, 1>> >>
      [] kind = "datum" /\ fmt = "gravsoft" -> << <<2, 1>>, <<1, 1>> >>
      [] kind = "datum" /\ fmt = "ntv2"     -> << <<2, -1>>, <<1, 1>> >>
      [] kind = "deformation"               -> << <<2, 1>>, <<1, 1>>, <<3, 1>> >>
\* the operator applies the decoded value with this sign in the forward direction
OpSign(kind) == IF kind = "datum" THEN 1 ELSE -1
\* unit -> factor to the internal unit, as <<numerator, denominator, uses pi/180>>
UnitFactor(u) == CASE u = "m" -> <<1, 1, FALSE>> [] u = "arcsec" -> <<1, 3600, TRUE>> [] u = "mm" -> <<1, 1000, FALSE>>
BandsOf(kind) == CASE kind \in {"geoid", "projected"} -> 1 [] kind = "datum" -> 2 [] kind = "deformation" -> 3

\* deformation: the duration the velocity is integrated over is `dt` when given, else the
\* observation epoch of the coordinate minus the frame epoch `t_epoch` (T1 - T0 in eq. 1-3
\* of the operator's documentation: X' = X - (T1 - T0) V in the forward direction)
Duration(dtGiven, dt, tEpoch, tObs) == IF dtGiven THEN dt ELSE tObs - tEpoch

\* ---- named deviations (what the code is known to do instead; used only to classify an
\* observation as a known finding when it equals exactly the deviated prediction) ---------
\* DEV_deformation_epoch_sign: without dt the duration is taken as t_epoch - t_obs
DurationDEV_deformation_epoch_sign(dtGiven, dt, tEpoch, tObs) == IF dtGiven THEN dt ELSE tEpoch - tObs
\* DEV_gridshift_inv_outside_unchanged: reference outcome of a tuple outside every grid (no
\* null grid) is [counted |-> FALSE, nan |-> TRUE] in both directions; the deviation returns
\* the tuple unchanged (and uncounted) in the inverse direction
OutsideOutcome(dir) == [counted |-> FALSE, nan |-> TRUE, unchanged |-> FALSE]
OutsideOutcomeDEV_gridshift_inv_outside_unchanged(dir) ==
    IF dir = "I" THEN [counted |-> FALSE, nan |-> FALSE, unchanged |-> TRUE] ELSE OutsideOutcome(dir)

\* numerators (over val.den) added to elements 1..3 of a tuple
Delta(kind, fmt, val, dir) ==
    [e \in 1..3 |-> LET c == Conv(kind, fmt).el[e] IN
        IF c[1] = 0 THEN 0 ELSE (IF dir = "F" THEN 1 ELSE -1) * c[2] * val.num[c[1]]]
=============================================================================
