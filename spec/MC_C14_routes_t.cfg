SPECIFICATION Spec
CONSTANTS
  Tier = "t"
  Explore <- AllPairs
INVARIANTS StatementInv DomainInv ClassInv CountInv Emit
CHECK_DEADLOCK FALSE
