SPECIFICATION TraceSpec
INVARIANTS RTypeOK OrderInv CountInv HonestInv NestInv
CONSTRAINT Progress
POSTCONDITION Accepted
CHECK_DEADLOCK FALSE
