------------------------------- MODULE MC_C12 -------------------------------
EXTENDS StackMachine

\* all index lists of length 1..k over 1..4
Lists(k) == UNION {[1..n -> 1..4] : n \in 1..k}
RollArgs(M) == {<<m, n>> \in (1..M) \X (-M..M) : (IF n < 0 THEN -n ELSE n) < m}

StackIns(k, M, legacy) ==
         {[a |-> x, args |-> l] : x \in {"push", "pop", "flip"}, l \in Lists(k)}
    \cup {[a |-> x, m |-> p[1], n |-> p[2]] : x \in {"roll", "unroll"}, p \in RollArgs(M)}
    \cup {[a |-> "swap"]}
    \cup {[a |-> x, flags |-> f] : x \in {"lpush", "lpop"}, f \in legacy}

Probes == {[a |-> "add", e |-> 1, c |-> 1], [a |-> "dbl", e |-> 2], [a |-> "add", e |-> 4, c |-> 3]}

\* quick: the full instruction set of the statement (index lists up to
\* length 4 is too many for pairs: lists up to 2 here, up to 4 in MC_C12_wide)
AlphaFull    == StackIns(2, 4, SUBSET (1..4) \ {{}}) \cup Probes
AlphaReduced == StackIns(1, 3, {{1}, {2}, {1, 3}, {2, 4}}) \cup {[a |-> "add", e |-> 1, c |-> 1], [a |-> "dbl", e |-> 2]}
\* wide: all index lists up to length 4, roll depth up to 8, programs of two steps
AlphaWide    == StackIns(4, 8, SUBSET (1..4) \ {{}}) \cup Probes

D2 == << <<11 * Unit, 12 * Unit, 13 * Unit, 14 * Unit>>, <<21 * Unit, 22 * Unit, 23 * Unit, 24 * Unit>> >>
AppsAll == {<<"F", "I">>, <<"I", "F">>, <<"F", "F">>, <<"I", "I">>}
AppsRT  == {<<"F", "I">>, <<"I", "F">>}
\* a small alphabet with the deprecated steps, for programs of three steps
AlphaLegacy3 == {[a |-> "lpop", flags |-> {1}], [a |-> "lpop", flags |-> {1, 3}], [a |-> "lpush", flags |-> {2}],
                 [a |-> "push", args |-> <<2>>], [a |-> "pop", args |-> <<1>>], [a |-> "flip", args |-> <<1>>],
                 [a |-> "roll", m |-> 2, n |-> 1], [a |-> "add", e |-> 1, c |-> 1], [a |-> "swap"], [a |-> "drop"]}
\* three-step programs over index lists with repeats (a wrong stack content only shows when a
\* later step reads it)
MidLists == {<<1>>, <<3>>, <<1, 2>>, <<2, 1>>, <<3, 3>>, <<1, 1, 2>>}
AlphaMid3 == {[a |-> x, args |-> l] : x \in {"push", "pop", "flip"}, l \in MidLists}
             \cup {[a |-> x, m |-> p[1], n |-> p[2]] : x \in {"roll", "unroll"}, p \in {<<2, 1>>, <<3, 1>>, <<3, -1>>}}
             \cup {[a |-> "swap"], [a |-> "add", e |-> 1, c |-> 1]}
AppsFI  == {<<"F", "I">>}
\* ---- modifiers and macros on stack steps ------------------------------------------------------
W(body, inv, omit, via, sty) == [a |-> "wrap", body |-> body, inv |-> inv, omit |-> omit, via |-> via, sty |-> sty]
OnStep(x, inv, omit, sty) == W(<<x>>, inv, omit, "step", sty)      \* modifiers written on the step itself
Alias(x, inv, omit, sty)  == W(<<x>>, inv, omit, "macro", sty)     \* a macro over one step, modifiers on the invocation
Mac(body, inv, omit, sty) == W(body, inv, omit, "macro", sty)      \* a macro over a pipeline

IPush(l)  == [a |-> "push", args |-> l]
IPop(l)   == [a |-> "pop", args |-> l]
IFlip(l) == [a |-> "flip", args |-> l]
IRoll(m, n)   == [a |-> "roll", m |-> m, n |-> n]
IUnroll(m, n) == [a |-> "unroll", m |-> m, n |-> n]
ISwap    == [a |-> "swap"]
ILPush(f) == [a |-> "lpush", flags |-> f]
ILPop(f)  == [a |-> "lpop", flags |-> f]
Add1     == [a |-> "add", e |-> 1, c |-> 1]

\* every way of writing one step: plain; inv / omit_fwd / omit_inv on the step; the same through an alias macro
Variants(B, stys) ==
    B \cup {OnStep(x, TRUE, "", s) : x \in B, s \in stys}
      \cup {OnStep(x, FALSE, o, "suf") : x \in B, o \in {"fwd", "inv"}}
      \cup {Alias(x, FALSE, "", "suf") : x \in B}
      \cup {Alias(x, TRUE, "", s) : x \in B, s \in stys}
      \cup {Alias(x, FALSE, o, "suf") : x \in B, o \in {"fwd", "inv"}}
\* programs of one and two steps
BaseMod2q == {IPush(<<1>>), IPush(<<1, 2>>), IPop(<<2>>), IPop(<<2, 1>>), IFlip(<<1>>), IRoll(2, 1), ILPush({1}), ILPop({2}), Add1}
AlphaMod2q == Variants(BaseMod2q, {"suf"})
BaseMod2 == BaseMod2q \cup {IUnroll(2, 1), ISwap, ILPush({2, 3}), ILPop({1, 3}), IPop(<<1>>)}
AlphaMod2 == Variants(BaseMod2, {"suf", "pre", "eq"})
                \cup {OnStep(x, TRUE, o, s) : x \in {IPush(<<1>>), IPop(<<2>>), ILPush({1})}, o \in {"fwd", "inv"}, s \in {"suf", "pre", "eq"}}
\* programs of up to three steps (push, value change, pop: the shape in which an ignored modifier shows)
AlphaMod3 == {IPush(<<1>>), IPop(<<1>>), IPop(<<2>>), Add1, ILPush({1}), ILPop({1}), IRoll(2, 1), IPush(<<1, 2>>)}
        \cup {OnStep(x, TRUE, "", "suf") : x \in {IPush(<<1>>), IPop(<<1>>), ILPush({1}), Add1}}
        \cup {OnStep(IPop(<<2>>), TRUE, "", "pre"), OnStep(ILPop({1}), TRUE, "", "pre"), OnStep(IRoll(2, 1), TRUE, "", "eq"),
              OnStep(IPush(<<1, 2>>), TRUE, "", "eq")}
        \cup {Alias(IPush(<<1>>), FALSE, "", "suf"), Alias(IPop(<<1>>), FALSE, "", "suf")}
        \cup {Alias(IPush(<<1>>), TRUE, "", "pre"), Alias(IPop(<<1>>), TRUE, "", "suf"), Alias(ILPush({1}), TRUE, "", "eq"),
              Alias(IRoll(2, 1), TRUE, "", "suf"), Alias(IPush(<<1, 2>>), TRUE, "", "suf")}
        \cup {OnStep(IPush(<<1>>), FALSE, "fwd", "suf"), OnStep(IPop(<<1>>), FALSE, "inv", "pre"),
              Alias(IPop(<<2>>), FALSE, "fwd", "suf"), Alias(IPush(<<1>>), FALSE, "inv", "eq")}
\* macros over pipelines: the stack of the application is the stack of the expansion
Bodies == {<<IPush(<<1>>), Add1>>, <<Add1, IPop(<<1>>)>>, <<IPush(<<1>>), IPop(<<2>>)>>, <<ILPush({1}), Add1>>, <<Add1, ILPop({1})>>}
AlphaMac3 == {IPush(<<1>>), IPop(<<1>>), IPop(<<2>>), Add1, ILPush({1}), ILPop({1})}
        \cup {Mac(b, i, "", "suf") : b \in Bodies, i \in BOOLEAN}
        \cup {Mac(<<IPush(<<1>>), Add1>>, FALSE, "fwd", "suf"), Mac(<<Add1, IPop(<<1>>)>>, TRUE, "inv", "pre"),
              \* a macro in a macro, and a modified step in a macro
              Mac(<<Alias(IPush(<<1>>), FALSE, "", "suf"), Add1>>, FALSE, "", "suf"),
              Mac(<<Add1, Alias(IPush(<<1>>), TRUE, "", "suf")>>, FALSE, "", "suf"),
              Mac(<<OnStep(IPop(<<1>>), FALSE, "fwd", "suf"), Add1, IPush(<<2>>)>>, TRUE, "", "eq")}
\* simulation of long programs: an alphabet biased towards pushes so that
\* long programs do not all underflow at once
AlphaSim == StackIns(2, 6, {{1}, {2, 3}, {1, 2, 3, 4}}) \cup Probes
            \cup {[a |-> "push", args |-> l] : l \in Lists(3)}
            \cup Variants({IPush(<<1>>), IPush(<<2, 3>>), IPop(<<1>>), IPop(<<4, 2>>), ILPush({1, 2}), IRoll(3, 1)}, {"suf", "pre"})
            \cup {Mac(b, i, "", "suf") : b \in Bodies, i \in BOOLEAN}
=============================================================================
