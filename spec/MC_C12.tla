------------------------------- MODULE MC_C12 -------------------------------
EXTENDS StackMachine

\* all index lists of length 1..k over 1..4
Lists(k) == UNION {[1..n -> 1..4] : n \in 1..k}
RollArgs(M) == {<<m, n>> \in (1..M) \X (-M..M) : (IF n < 0 THEN -n ELSE n) < m}

StackIns(k, M, legacy) ==
         {[a |-> x, args |-> l] : x \in {"push", "pop", "flip"}, l \in Lists(k)}
    \cup {[a |-> x, m |-> p[1], n |-> p[2]] : x \in {"roll", "unroll"}, p \in RollArgs(M)}
    \cup {[a |-> "swap"]}
    \cup {[a |-> x, flags |-> f] : x \in {"lpush", "lpop"}, f \in legacy}

Probes == {[a |-> "add", e |-> 1, c |-> 1], [a |-> "dbl", e |-> 2], [a |-> "add", e |-> 4, c |-> 3]}

\* quick: the full instruction set of the statement (index lists up to
\* length 4 is too many for pairs: lists up to 2 here, up to 4 in MC_C12_wide)
AlphaFull    == StackIns(2, 4, SUBSET (1..4) \ {{}}) \cup Probes
AlphaReduced == StackIns(1, 3, {{1}, {2}, {1, 3}, {2, 4}}) \cup {[a |-> "add", e |-> 1, c |-> 1], [a |-> "dbl", e |-> 2]}
\* wide: all index lists up to length 4, roll depth up to 8, programs of two steps
AlphaWide    == StackIns(4, 8, SUBSET (1..4) \ {{}}) \cup Probes

D2 == << <<11 * Unit, 12 * Unit, 13 * Unit, 14 * Unit>>, <<21 * Unit, 22 * Unit, 23 * Unit, 24 * Unit>> >>
AppsAll == {<<"F", "I">>, <<"I", "F">>, <<"F", "F">>, <<"I", "I">>}
AppsRT  == {<<"F", "I">>, <<"I", "F">>}
\* a small alphabet with the deprecated steps, for programs of three steps
AlphaLegacy3 == {[a |-> "lpop", flags |-> {1}], [a |-> "lpop", flags |-> {1, 3}], [a |-> "lpush", flags |-> {2}],
                 [a |-> "push", args |-> <<2>>], [a |-> "pop", args |-> <<1>>], [a |-> "flip", args |-> <<1>>],
                 [a |-> "roll", m |-> 2, n |-> 1], [a |-> "add", e |-> 1, c |-> 1], [a |-> "swap"], [a |-> "drop"]}
\* three-step programs over index lists with repeats (a wrong stack content only shows when a
\* later step reads it)
MidLists == {<<1>>, <<3>>, <<1, 2>>, <<2, 1>>, <<3, 3>>, <<1, 1, 2>>}
AlphaMid3 == {[a |-> x, args |-> l] : x \in {"push", "pop", "flip"}, l \in MidLists}
             \cup {[a |-> x, m |-> p[1], n |-> p[2]] : x \in {"roll", "unroll"}, p \in {<<2, 1>>, <<3, 1>>, <<3, -1>>}}
             \cup {[a |-> "swap"], [a |-> "add", e |-> 1, c |-> 1]}
AppsFI  == {<<"F", "I">>}
\* simulation of long programs: an alphabet biased towards pushes so that
\* long programs do not all underflow at once
AlphaSim == StackIns(2, 6, {{1}, {2, 3}, {1, 2, 3, 4}}) \cup Probes
            \cup {[a |-> "push", args |-> l] : l \in Lists(3)}
=============================================================================
