----------------------------- MODULE MC_C10_pipe -----------------------------
(***************************************************************************)
(* C10, pipelines: sequences of steps over a subset of the catalogue rows, *)
(* each step possibly inverted, at most MaxOmit of them omitted in one     *)
(* direction.  For every direction in which the specification can predict  *)
(* the pipeline (Predictable) the abstract run is emitted.                 *)
(***************************************************************************)
EXTENDS Catalogue

CONSTANTS N,          \* number of steps of the pipelines emitted
          PipeIds,    \* ids of the rows taking part
          MaxOmit     \* how many steps may carry omit_fwd / omit_inv
PipeIdsC == TLCEval(PipeIds)
PRows == TLCEval({RowIdx(id) : id \in PipeIdsC})
\* stack steps and one-way operators do not take `inv`
Invable(i) == Rows[i].inv /\ Rows[i].single /\ ~Rows[i].ident
StepSet == TLCEval({[r |-> i, inv |-> v, om |-> o] : i \in PRows, v \in BOOLEAN, o \in {"", "of", "oi"}})
Steps == TLCEval({s \in StepSet : (s.inv => Invable(s.r)) /\ (MaxOmit = 0 => s.om = "")})

\* quick and thorough: one row per kind of behaviour
PipeIdsQ == {"noop", "addone", "tmerc", "utm_s", "merc", "lcc_1sp", "laea_oblique", "cart", "helmert_translation", "helmert_rates",
             "gridshift_datum", "gridshift_datum_null", "gridshift_geoid", "deformation_dt", "deflection", "curvature_prime",
             "adapt_from", "adapt_to", "unitconvert_xy", "latitude_geocentric", "geodesic_reversible",
             "stack_push12", "stack_pop12", "stack_push3", "stack_pop3", "stack_flip1", "stack_roll", "legacy_push", "legacy_pop"}
PipeIdsOm == {"noop", "tmerc", "merc", "cart", "helmert_translation", "gridshift_datum", "curvature_prime", "adapt_to",
              "stack_push3", "stack_pop3"}
PipeIdsAll == {Rows[i].id : i \in 1..NRows}

VARIABLES pipe
Omits(P) == Cardinality({i \in 1..Len(P) : P[i].om # ""})

Init == pipe = <<>>
Extend == /\ Len(pipe) < N
          /\ \E s \in Steps : /\ (s.om # "" => Omits(pipe) < MaxOmit)
                             /\ pipe' = Append(pipe, s)
Next == Extend
Spec == Init /\ [][Next]_pipe

Dirs == {d \in {"F", "I"} : Predictable(pipe, d)}
SaneInv == Len(pipe) = N => \A d \in Dirs : PipeSane(pipe, d)

Rec(d) ==
    LET MS == Members(pipe, d)
        ex == Exec(pipe, d)
        zero == HasZero(pipe, d)
        n == Cardinality(MS)
        devs == IF zero THEN {} ELSE PipeDevs(pipe, d, MS)
        DVs == (SUBSET devs) \ {{}}
        StepsOf(dv) == [i \in 1..Len(pipe) |->
                     IF Skipped(pipe[i], d) THEN [skipped |-> TRUE, lo |-> 0, hi |-> 0]
                     ELSE LET k == CHOOSE j \in 1..Len(ex) : ex[j] = i IN
                          IF zero /\ StepSupported(pipe, d, i) THEN [skipped |-> FALSE, lo |-> 0, hi |-> n]   \* data not predicted
                          ELSE [skipped |-> FALSE, lo |-> StepLoD(pipe, d, MS, k, dv), hi |-> StepHiD(pipe, d, MS, k, dv)]]
    IN [def |-> PipeText(pipe), ctx |-> PipeCtx(pipe), dir |-> d, n |-> n, zero |-> zero,
        underflow |-> \E k \in 1..Len(ex) : Underflows(pipe, d, k),
        lo |-> PipeLo(pipe, d, MS), hi |-> PipeHi(pipe, d, MS),
        \* one entry per step of the text, in text order
        steps |-> StepsOf({}),
        \* the same with every non-empty subset of the applicable deviation switches on
        variants |-> {[on |-> DV, lo |-> PipeLoD(pipe, d, MS, DV), hi |-> PipeHiD(pipe, d, MS, DV), steps |-> StepsOf(DV)] : DV \in DVs},
        members |-> {[cls |-> m.cls, pt |-> m.pt, mask |-> m.M,
                      el |-> IF zero THEN AllAny ELSE Final(pipe, d, m).el,
                      sn |-> IF zero THEN FALSE ELSE Final(pipe, d, m).sn,
                      dv |-> {[on |-> DV, el |-> FinalD(pipe, d, m, DV).el, sn |-> FinalD(pipe, d, m, DV).sn] : DV \in DVs}] : m \in MS}]

Emit == Len(pipe) = N => \A d \in Dirs : PrintT(<<"PIPE", ToJson(Rec(d))>>)
=============================================================================
