SPECIFICATION Spec
CONSTANTS
  Mode = "mut"
  MaxEdits = 3
  Wraps <- OnlyAlone
  OpFilter <- NoFilter
  ClassStride = 1
  CoordArity = 2
  FnVary = 1
  Commit = TRUE
INVARIANTS Emit
CHECK_DEADLOCK FALSE
