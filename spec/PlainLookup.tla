---------------------------- MODULE PlainLookup ----------------------------
(***************************************************************************)
(* C18, Plain: where a macro comes from.  Documented order: a run-time     *)
(* registration first; then, for each search path in order, a separate     *)
(* resource file `prefix_suffix.resource`, then the fenced item            *)
(* ```geodesy:suffix ... ``` of the register `prefix.md`.                  *)
(*                                                                         *)
(* A configuration: optional run-time registration, and per path an        *)
(* optional resource file and an optional register (a sequence of items    *)
(* in some layout).  Every source carries a different body, so the source  *)
(* that was used is observable.                                            *)
(***************************************************************************)
EXTENDS Integers, Sequences, FiniteSets, TLC, Json

Paths == {1, 2}                       \* 1: ./geodesy   2: the user's data directory
Suffixes == <<"a", "ab", "b">>        \* names that are prefixes of one another
Target == "a"

\* a register: which suffixes it lists, in which order, its layout, and how its items are written
Orders == {<<1, 2, 3>>, <<2, 1, 3>>, <<2, 3, 1>>, <<2, 3>>, <<1>>, <<2>>}
Layouts == {[nl |-> n, term |-> t, lead |-> l] : n \in {"lf", "crlf"}, t \in BOOLEAN, l \in BOOLEAN}
   \* nl: line ends; term: the last item has its closing fence; lead: prose before the first item
(***************************************************************************)
(* How the items of a register are written.  Rumination 009, "The Plain    *)
(* register format": "the individual pipelines are highlighted in named    *)
(* sections using the Markdown code block syntax \"```\"", "The           *)
(* `geodesy:pointless` identifier tells the Markdown formatter that this   *)
(* is code using the Geodesy Pipeline format, and that the name of this    *)
(* pipeline is `pointless`", the register "is written using Markdown       *)
(* conventions, and hence may serve as a combined representation of human  *)
(* readable documentation and machine readable register items", and, in    *)
(* an item, "Blank lines and # inline comments are OK / # Block comments   *)
(* too".  A Markdown code block starts at a line consisting of the fence   *)
(* and the identifier (blanks around the identifier do not belong to it),  *)
(* ends at a line consisting of a fence at least as long, and everything   *)
(* between the two lines is its content.  Hence:                           *)
(*   plain       the form shown in Rumination 009                          *)
(*   trailblank  blanks after the identifier: invisible, not part of it    *)
(*   trailtab    a tab after the identifier: ditto                         *)
(*   indent      fences and body indented by three blanks                  *)
(*   cmtblock    a block comment mentioning ``` inside the item: comments  *)
(*               are free text, the item ends at the closing fence LINE    *)
(*   cmtinline   ditto in an inline comment; the step after it belongs to  *)
(*               the item                                                  *)
(*   console     other code blocks (```console ... ```) between the items, *)
(*               as in the repository's own register stupid.md             *)
(*   quoted      the documentation part of the register shows how to write *)
(*               the item, the way Rumination 009 does it (a ````text      *)
(*               block quoting the item): the quotation is the content of  *)
(*               a `text` block, not an item                               *)
(* Not documented, hence not generated (see the suite's assumptions):      *)
(* identifiers in another case (`Geodesy:`), `~~~` fences, blanks between  *)
(* fence and identifier, duplicate items, a byte order mark.               *)
(***************************************************************************)
Variants == {"trailblank", "trailtab", "indent", "cmtblock", "cmtinline", "quoted", "console"}
Registers == {[ord |-> o, lay |-> l, var |-> "plain"] : o \in Orders, l \in Layouts}
VarRegisters == {[ord |-> o, lay |-> l, var |-> v] : o \in Orders, l \in Layouts, v \in Variants}
None == [ord |-> <<>>, lay |-> [nl |-> "lf", term |-> TRUE, lead |-> FALSE], var |-> "plain"]
\* what the other search path holds when a register is written in one of the variants
Others == {None, [ord |-> <<2, 1, 3>>, lay |-> [nl |-> "lf", term |-> TRUE, lead |-> FALSE], var |-> "plain"]}

VARIABLES rt, resfile, register, result
vars == <<rt, resfile, register, result>>

\* what each source adds to the first coordinate (its body is `t_add c=<k>`)
RtVal == 1
FileVal(p) == 10 + p
ItemVal(p, i) == 100 * p + i          \* i: index into Suffixes

HasItem(p) == \E k \in 1..Len(register[p].ord) : Suffixes[register[p].ord[k]] = Target
ItemIndex == 1                        \* Target = Suffixes[1]
\* the item of variant "cmtinline" has a second step, `t_add c=1000`, after the comment
Found(p) == ItemVal(p, ItemIndex) + (IF register[p].var = "cmtinline" THEN 1000 ELSE 0)

Lookup ==
    IF rt THEN RtVal
    ELSE IF resfile[1] THEN FileVal(1)
    ELSE IF HasItem(1) THEN Found(1)
    ELSE IF resfile[2] THEN FileVal(2)
    ELSE IF HasItem(2) THEN Found(2)
    ELSE 0                             \* not found

Init == /\ rt \in BOOLEAN
        /\ resfile \in [Paths -> BOOLEAN]
        /\ \/ register \in [Paths -> Registers \cup {None}]
           \/ \E p \in Paths, r \in VarRegisters, o \in Others :
                 register = [q \in Paths |-> IF q = p THEN r ELSE o]
        /\ result = -1
Resolve == result = -1 /\ result' = Lookup /\ UNCHANGED <<rt, resfile, register>>
Spec == Init /\ [][Resolve]_vars

\* run-time registrations take precedence; the first path shadows the second;
\* within a path the separate file shadows the register
PrecedenceInv == result # -1 =>
    /\ rt => result = RtVal
    /\ (~rt /\ resfile[1]) => result = FileVal(1)
    /\ (~rt /\ ~resfile[1] /\ ~HasItem(1) /\ resfile[2]) => result = FileVal(2)
    /\ (result = 0) <=> (~rt /\ \A p \in Paths : ~resfile[p] /\ ~HasItem(p))

\* ---- text of a register ----------------------------------------------------
NL(lay) == IF lay.nl = "lf" THEN "\n" ELSE "\r\n"
Fence == "```"
RECURSIVE Items(_, _, _)
Items(p, reg, k) ==
    IF k > Len(reg.ord) THEN ""
    ELSE LET i == reg.ord[k]
             last == k = Len(reg.ord)
             nl == NL(reg.lay)
             v == reg.var
             ind == IF v = "indent" THEN "   " ELSE ""
             trail == CASE v = "trailblank" -> "  " [] v = "trailtab" -> "\t" [] OTHER -> ""
             step == "t_add c=" \o ToString(ItemVal(p, i))
             quote == IF v = "quoted"
                      THEN "Write it like this:" \o nl \o nl \o "````text" \o nl
                           \o Fence \o "geodesy:" \o Suffixes[i] \o nl
                           \o "t_add c=" \o ToString(7000 + i) \o nl \o Fence \o nl \o "````" \o nl \o nl
                      ELSE IF v = "console"
                      THEN "Try it:" \o nl \o nl \o Fence \o "console" \o nl
                           \o "$ echo 55 12 | kp f:" \o Suffixes[i] \o nl \o Fence \o nl \o nl
                      ELSE ""
             body == CASE v = "cmtblock"  -> "# mind the ``` fences" \o nl \o step \o nl
                      [] v = "cmtinline" -> step \o " # ``` ends an item" \o nl \o "| t_add c=1000" \o nl
                      [] OTHER -> ind \o step \o nl
         IN "Item " \o Suffixes[i] \o nl \o nl \o quote
            \o ind \o Fence \o "geodesy:" \o Suffixes[i] \o trail \o nl
            \o body
            \o (IF last /\ ~reg.lay.term THEN "" ELSE ind \o Fence \o nl \o nl)
            \o Items(p, reg, k + 1)
RegisterText(p) == (IF register[p].lay.lead THEN "# Register" \o NL(register[p].lay) \o NL(register[p].lay) \o "Some prose." \o NL(register[p].lay) ELSE "")
                   \o Items(p, register[p], 1)

\* Names nobody defines, whatever the configuration: the name looked up (f:a) with a further colon-separated part (its
\* first two parts name an existing source, the whole name does not), and a name that differs in its suffix.  "Unknown
\* names ... give errors": none of them may resolve, and in particular none may resolve to the body of f:a.
UnknownNames == <<"f:a:x", "f:a:inv", "f:zz">>
UnknownInv == \A i \in 1..Len(UnknownNames) : UnknownNames[i] # "f:a"

Emit == result # -1 =>
    PrintT(<<"LOOKUP", ToJson([
        rt |-> rt, rtbody |-> "t_add c=" \o ToString(RtVal),
        files |-> [p \in Paths |-> IF resfile[p] THEN "t_add c=" \o ToString(FileVal(p)) ELSE ""],
        registers |-> [p \in Paths |-> IF register[p] = None THEN "" ELSE RegisterText(p)],
        variants |-> [p \in Paths |-> IF register[p] = None THEN "none" ELSE register[p].var],
        unknown |-> UnknownNames,
        expected |-> result])>>)
=============================================================================
