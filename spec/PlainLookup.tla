---------------------------- MODULE PlainLookup ----------------------------
(***************************************************************************)
(* C18, Plain: where a macro comes from.  Documented order: a run-time     *)
(* registration first; then, for each search path in order, a separate     *)
(* resource file `prefix_suffix.resource`, then the fenced item            *)
(* ```geodesy:suffix ... ``` of the register `prefix.md`.                  *)
(*                                                                         *)
(* A configuration: optional run-time registration, and per path an        *)
(* optional resource file and an optional register (a sequence of items    *)
(* in some layout).  Every source carries a different body, so the source  *)
(* that was used is observable.                                            *)
(***************************************************************************)
EXTENDS Integers, Sequences, FiniteSets, TLC, Json

Paths == {1, 2}                       \* 1: ./geodesy   2: the user's data directory
Suffixes == <<"a", "ab", "b">>        \* names that are prefixes of one another
Target == "a"

\* a register: which suffixes it lists, in which order, and its layout
Orders == {<<1, 2, 3>>, <<2, 1, 3>>, <<2, 3, 1>>, <<2, 3>>, <<1>>, <<2>>}
Layouts == {[nl |-> n, term |-> t, lead |-> l] : n \in {"lf", "crlf"}, t \in BOOLEAN, l \in BOOLEAN}
   \* nl: line ends; term: the last item has its closing fence; lead: prose before the first item
Registers == {[ord |-> o, lay |-> l] : o \in Orders, l \in Layouts}
None == [ord |-> <<>>, lay |-> [nl |-> "lf", term |-> TRUE, lead |-> FALSE]]

VARIABLES rt, resfile, register, result
vars == <<rt, resfile, register, result>>

\* what each source adds to the first coordinate (its body is `t_add c=<k>`)
RtVal == 1
FileVal(p) == 10 + p
ItemVal(p, i) == 100 * p + i          \* i: index into Suffixes

HasItem(p) == \E k \in 1..Len(register[p].ord) : Suffixes[register[p].ord[k]] = Target
ItemIndex == 1                        \* Target = Suffixes[1]

Lookup ==
    IF rt THEN RtVal
    ELSE IF resfile[1] THEN FileVal(1)
    ELSE IF HasItem(1) THEN ItemVal(1, ItemIndex)
    ELSE IF resfile[2] THEN FileVal(2)
    ELSE IF HasItem(2) THEN ItemVal(2, ItemIndex)
    ELSE 0                             \* not found

Init == /\ rt \in BOOLEAN
        /\ resfile \in [Paths -> BOOLEAN]
        /\ register \in [Paths -> Registers \cup {None}]
        /\ result = -1
Resolve == result = -1 /\ result' = Lookup /\ UNCHANGED <<rt, resfile, register>>
Spec == Init /\ [][Resolve]_vars

\* run-time registrations take precedence; the first path shadows the second;
\* within a path the separate file shadows the register
PrecedenceInv == result # -1 =>
    /\ rt => result = RtVal
    /\ (~rt /\ resfile[1]) => result = FileVal(1)
    /\ (~rt /\ ~resfile[1] /\ ~HasItem(1) /\ resfile[2]) => result = FileVal(2)
    /\ (result = 0) <=> (~rt /\ \A p \in Paths : ~resfile[p] /\ ~HasItem(p))

\* ---- text of a register ----------------------------------------------------
NL(lay) == IF lay.nl = "lf" THEN "\n" ELSE "\r\n"
Fence == "```"
RECURSIVE Items(_, _, _)
Items(p, reg, k) ==
    IF k > Len(reg.ord) THEN ""
    ELSE LET i == reg.ord[k]
             last == k = Len(reg.ord)
             nl == NL(reg.lay)
         IN "Item " \o Suffixes[i] \o nl \o nl
            \o Fence \o "geodesy:" \o Suffixes[i] \o nl
            \o "t_add c=" \o ToString(ItemVal(p, i)) \o nl
            \o (IF last /\ ~reg.lay.term THEN "" ELSE Fence \o nl \o nl)
            \o Items(p, reg, k + 1)
RegisterText(p) == (IF register[p].lay.lead THEN "# Register" \o NL(register[p].lay) \o NL(register[p].lay) \o "Some prose." \o NL(register[p].lay) ELSE "")
                   \o Items(p, register[p], 1)

Emit == result # -1 =>
    PrintT(<<"LOOKUP", ToJson([
        rt |-> rt, rtbody |-> "t_add c=" \o ToString(RtVal),
        files |-> [p \in Paths |-> IF resfile[p] THEN "t_add c=" \o ToString(FileVal(p)) ELSE ""],
        registers |-> [p \in Paths |-> IF register[p] = None THEN "" ELSE RegisterText(p)],
        expected |-> result])>>)
=============================================================================
