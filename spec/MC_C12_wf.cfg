SPECIFICATION Spec
INVARIANTS TotalInv Emit
CHECK_DEADLOCK FALSE
