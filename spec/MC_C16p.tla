------------------------------ MODULE MC_C16p ------------------------------
EXTENDS Params
SX == INSTANCE SequencesExt

\* the gamut of the harness probe t_gamut (harness/src/probes.rs: GAMUT_GAMUT)
G(k, kind, req, d) == [key |-> k, kind |-> kind, req |-> req, dflt |-> d]
TGamut == <<
    G("inv", "flag", FALSE, FALSE), G("flag", "flag", FALSE, FALSE),
    G("nat", "natural", FALSE, 7), G("rnat", "natural", TRUE, 0),
    G("int", "integer", FALSE, -3),
    G("real", "real", FALSE, Q(5, 4)), G("rreal", "real", TRUE, 0),
    G("ser", "series", FALSE, <<Q(1, 1), Q(2, 1), Q(3, 1)>>), G("eser", "series", FALSE, <<>>),
    G("text", "text", FALSE, "dflt"), G("texts", "texts", FALSE, <<"a", "b">>),
    G("x_0", "real", FALSE, Q(0, 1)), G("k_0", "real", FALSE, Q(1, 1)) >>

Arg(k, sp) == [k |-> k, sp |-> sp]
Base == <<Arg("rnat", Int0("", 1)), Arg("rreal", Int0("", 1))>>

\* ---- spellings -------------------------------------------------------------
Hemis == {"N", "S", "E", "W", "n", "s", "e", "w"}
Garbage == {Raw(""), Raw("abc"), Raw("1:2:3:4"), Raw("1::3"), Raw("1:x"), Raw(":30"), Raw("N"), Raw("1.2.3"),
            Raw("--1"), Raw("1e+"), Raw("1-"),
            Raw("12{u00e9}"), Raw("{u00e9}"), Raw("1:30:36{u00b0}"), Raw("{u0663}"), Raw("{uff11}{uff12}")}
\* no natural or integer the library could hold (a perfectly good real)
Overflow == Raw("99999999999999999999999999999")

DecsQ == {Int0(sg, v) : sg \in {"", "-", "+"}, v \in {0, 2, 17, 1000000}}
    \cup {Frac(sg, t[1], t[2], t[3]) : sg \in {"", "-", "+"}, t \in {<<2, 1, 5>>, <<0, 3, 1>>, <<12, 3, 375>>, <<0, 1, 1>>, <<1, 1, 0>>}}
    \cup {Dec(sg, 0, t[1], t[2], t[3], t[4], e, t[5], "") : sg \in {"", "-"}, e \in {"e", "E"},
              t \in {<<1, "none", 0, 0, 3>>, <<15, "none", 0, 0, -1>>, <<1, "mid", 1, 5, 2>>, <<25, "none", 0, 0, -2>>}}
    \cup {Dec("", 0, 0, "lead", 1, 5, "", 0, ""), Dec("", 0, 5, "trail", 0, 0, "", 0, ""),
          Dec("", 2, 7, "none", 0, 0, "", 0, ""), Dec("-", 1, 0, "mid", 1, 5, "", 0, "")}
    \cup {Dec("", 0, 12, "mid", 1, 5, "", 0, h) : h \in Hemis} \cup {Dec("", 0, 12, "none", 0, 0, "", 0, h) : h \in {"W", "n"}}
Decs == {d \in DecsQ : Generated(d)}

SexGrid(Ds, Ms, Ss, MSs, Lz) ==
    {sp \in {Sex(sh[1], lz, d, m, s, ms[1], ms[2], nf, pad, sh[2]) :
               sh \in ({<<"", h>> : h \in Hemis \cup {""}} \cup {<<"-", "">>, <<"+", "">>}),
               lz \in Lz, d \in Ds, m \in Ms, s \in Ss, ms \in MSs, nf \in {2, 3}, pad \in BOOLEAN} :
        /\ Generated(sp)
        /\ (sp.nf = 2 => sp.s = 0 /\ sp.msd = 0)          \* no seconds in d:m
        /\ (~sp.pad => sp.lz = 0)}
SexQuick == SexGrid({0, 1, 12, 179}, {0, 30, 59}, {0, 36, 59}, {<<0, 0>>, <<999, 3>>}, {0})
SexThorough == SexGrid({0, 1, 9, 12, 55, 90, 179}, {0, 1, 7, 30, 59}, {0, 1, 36, 59}, {<<0, 0>>, <<5, 1>>, <<1, 3>>, <<999, 3>>}, {0, 1})

Reals(sexes) == Decs \cup sexes \cup Garbage

Nats == {Int0(sg, v) : sg \in {"", "-", "+"}, v \in {0, 1, 7, 4294967}} \cup {d \in Decs : d.hemi = ""}
        \cup {Sex("", 0, 1, 30, 0, 0, 0, 2, TRUE, ""), Overflow} \cup Garbage
NatsG == {d \in Nats : Generated(d)}

SeriesSp == {List(<<Int0("", 1), Frac("", 2, 1, 5), Int0("-", 3)>>), List(<<Sex("", 0, 1, 30, 0, 0, 0, 2, TRUE, ""), Int0("", 2)>>),
             List(<<Sex("", 0, 12, 30, 36, 0, 0, 3, TRUE, "W"), Frac("-", 0, 3, 1)>>), Int0("", 4), Raw(""),
             List(<<Int0("", 1), Raw("abc")>>), List(<<Int0("", 1), Raw("")>>), List(<<Raw(""), Int0("", 1)>>),
             List(<<Int0("", 1), Raw("2{u00e9}")>>), List(<<Raw("{u00e9}"), Int0("", 1)>>), Raw("abc")}
TextSp == {Word("foo"), Word("GRS80"), Word("1:30:36"), Word("6378137,298.25"), Word("{u00e9}t{u00e9}"), Word("a_b-c.d"), Raw("")}
TextsSp == {List(<<Word("a"), Word("b"), Word("c")>>), Word("solo"), List(<<Word("x{u00e9}"), Word("@null")>>)}

KeyDefs(k, S) == {(IF k \in {"rnat", "rreal"} THEN SelectSeq(Base, LAMBDA a : a.k # k) ELSE Base) \o <<Arg(k, sp)>> : sp \in S}

Special == {
    <<Arg("rreal", Int0("", 1))>>, <<Arg("rnat", Int0("", 1))>>, <<>>,                                 \* required keys missing
    Base \o <<Arg("int", Int0("", 4)), Arg("int", Int0("-", 6))>>,                                     \* last of repeated keys
    Base \o <<Arg("nat", Int0("", 1)), Arg("nat", Int0("", 2)), Arg("nat", Int0("", 3))>>,
    Base \o <<Arg("real", Raw("abc")), Arg("real", Frac("", 2, 1, 5))>>,
    Base \o <<Arg("real", Frac("", 2, 1, 5)), Arg("real", Raw("abc"))>>,
    <<Arg("rnat", Int0("", 5))>> \o Base,
    Base \o <<Arg("bogus", Int0("", 1))>>, Base \o <<Arg("bogus", Raw("abc")), Arg("int", Int0("", 5))>>,  \* unknown keys
    Base \o <<Arg("foo", Bare)>>, Base \o <<Arg("y_7", Int0("", 1))>>,
    Base \o <<Arg("flag", Bare)>>, Base \o <<Arg("flag", Word("true"))>>, Base \o <<Arg("inv", Bare), Arg("flag", Bare)>>,
    Base \o <<Arg("omit_fwd", Bare)>>, Base \o <<Arg("omit_inv", Bare), Arg("omit_fwd", Bare)>>,
    Base \o <<Arg("x_0", Frac("-", 2, 1, 5)), Arg("k_0", Frac("", 0, 4, 9996))>>,
    Base \o <<Arg("int", Int0("", 5)), Arg("real", Sex("", 0, 12, 30, 36, 0, 0, 3, TRUE, "S")), Arg("text", Word("t")), Arg("ser", Raw(""))>>
}

DefSet(sexes) == KeyDefs("real", Reals(sexes)) \cup KeyDefs("rreal", Decs \cup Garbage) \cup KeyDefs("x_0", Decs)
                 \cup KeyDefs("nat", NatsG) \cup KeyDefs("rnat", NatsG) \cup KeyDefs("int", NatsG)
                 \cup KeyDefs("ser", SeriesSp) \cup KeyDefs("eser", SeriesSp)
                 \cup KeyDefs("text", TextSp) \cup KeyDefs("texts", TextsSp) \cup Special
DefsQuick == SX!SetToSeq(DefSet(SexQuick))
DefsThorough == SX!SetToSeq(DefSet(SexThorough))
=============================================================================
